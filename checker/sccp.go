package main

import (
	"go/constant"
	"go/token"
	"go/types"
	"math/big"

	"golang.org/x/tools/go/ssa"
)

// E5: conditional constant propagation with seeded memory cells and seeded
// SSA values. A cell is given by a predicate on address values (e.g.
// "(param).Backoff.Jitter"). The lattice is {unreached, const k, top}.
// Only feasible edges are followed, so "which returns are reachable under
// this configuration value" is decided without running anything.

type lat struct {
	kind int // 0 unreached, 1 const, 2 top
	val  constant.Value
}

var latTop = lat{kind: 2}

func latConst(v constant.Value) lat { return lat{kind: 1, val: v} }

func (a lat) join(b lat) lat {
	switch {
	case a.kind == 0:
		return b
	case b.kind == 0:
		return a
	case a.kind == 2 || b.kind == 2:
		return latTop
	}
	if sccpComparable(a.val, b.val) && constant.Compare(a.val, token.EQL, b.val) {
		return a
	}
	return latTop
}

func (a lat) eq(b lat) bool {
	if a.kind != b.kind {
		return false
	}
	if a.kind != 1 {
		return true
	}
	return sccpComparable(a.val, b.val) && constant.Compare(a.val, token.EQL, b.val)
}

func (a lat) isConst(v constant.Value) bool {
	return a.kind == 1 && sccpComparable(a.val, v) && constant.Compare(a.val, token.EQL, v)
}

type sccpCellSpec struct {
	Name   string
	IsCell func(addr ssa.Value) bool
	Seed   constant.Value // nil: starts as top
}

type sccpResult struct {
	// Exit: cell states at each reachable Return (indexed like the cell specs).
	Exit map[*ssa.Return][]lat
	// Reached blocks.
	Reached map[*ssa.BasicBlock]bool
	// Clobber[i]: an instruction that overwrote cell i with something other than its seed.
	Clobber []ssa.Instruction
	// Vals: constant-folded SSA values (only meaningful for values defined
	// in blocks processed once, i.e. outside loops, or stable ones).
	Vals map[ssa.Value]lat
}

type sccpState []lat

func (s sccpState) clone() sccpState { return append(sccpState(nil), s...) }
func (s sccpState) join(o sccpState) sccpState {
	if s == nil {
		return o.clone()
	}
	r := make(sccpState, len(s))
	for i := range s {
		r[i] = s[i].join(o[i])
	}
	return r
}
func (s sccpState) eq(o sccpState) bool {
	if len(s) != len(o) {
		return false
	}
	for i := range s {
		if !s[i].eq(o[i]) {
			return false
		}
	}
	return true
}

func sccp(fn *ssa.Function, seedVals map[ssa.Value]constant.Value, cells []sccpCellSpec, mayClobber func(call ssa.CallInstruction) bool) *sccpResult {
	return sccpRun(fn, seedVals, cells, nil, mayClobber, 0)
}

// sccpRun is sccp with an explicit initial cell state (used when the
// propagation descends into a module function called with the cells live).
func sccpRun(fn *ssa.Function, seedVals map[ssa.Value]constant.Value, cells []sccpCellSpec, initState sccpState, mayClobber func(call ssa.CallInstruction) bool, depth int) *sccpResult {
	res := &sccpResult{Exit: map[*ssa.Return][]lat{}, Reached: map[*ssa.BasicBlock]bool{}, Clobber: make([]ssa.Instruction, len(cells)), Vals: map[ssa.Value]lat{}}
	in := map[*ssa.BasicBlock]sccpState{}
	entry := fn.Blocks[0]
	st0 := make(sccpState, len(cells))
	for i, c := range cells {
		if c.Seed != nil {
			st0[i] = latConst(c.Seed)
		} else {
			st0[i] = latTop
		}
	}
	if initState != nil {
		st0 = initState.clone()
	}
	in[entry] = st0
	res.Reached[entry] = true
	work := []*ssa.BasicBlock{entry}
	inWork := map[*ssa.BasicBlock]bool{entry: true}
	edgeExec := map[cfgEdge]bool{}
	vals := res.Vals
	for v, k := range seedVals {
		vals[v] = latConst(k)
	}
	valOf := func(v ssa.Value) lat {
		if c, ok := v.(*ssa.Const); ok {
			if c.Value == nil {
				return latTop
			}
			return latConst(c.Value)
		}
		if l, ok := vals[v]; ok {
			return l
		}
		return latTop
	}
	iter := 0
	for len(work) > 0 && iter < 10000 {
		iter++
		b := work[0]
		work = work[1:]
		inWork[b] = false
		state := in[b].clone()
		var branch *ssa.If
		for _, instr := range b.Instrs {
			switch x := instr.(type) {
			case *ssa.Phi:
				acc := lat{}
				for i, e := range x.Edges {
					p := b.Preds[i]
					// only executable incoming edges contribute
					exec := false
					for si, s := range p.Succs {
						if s == b && edgeExec[cfgEdge{p, si}] {
							exec = true
						}
					}
					if exec {
						acc = acc.join(valOf(e))
					}
				}
				if _, seeded := seedVals[x]; !seeded {
					vals[x] = acc
				}
			case *ssa.Store:
				for i, c := range cells {
					if c.IsCell(x.Addr) {
						nv := valOf(x.Val)
						if c.Seed != nil && !nv.isConst(c.Seed) && res.Clobber[i] == nil {
							res.Clobber[i] = x
						}
						state[i] = nv
					}
				}
			case *ssa.UnOp:
				switch x.Op {
				case token.MUL:
					for i, c := range cells {
						if c.IsCell(x.X) {
							vals[x] = state[i]
						}
					}
				case token.NOT:
					if v := valOf(x.X); v.kind == 1 && v.val.Kind() == constant.Bool {
						vals[x] = latConst(constant.MakeBool(!constant.BoolVal(v.val)))
					}
				case token.SUB:
					if v := valOf(x.X); v.kind == 1 && (v.val.Kind() == constant.Int || v.val.Kind() == constant.Float) {
						vals[x] = latConst(constant.UnaryOp(token.SUB, v.val, 0))
					}
				}
			case *ssa.BinOp:
				a, bb := valOf(x.X), valOf(x.Y)
				if a.kind == 1 && bb.kind == 1 {
					switch x.Op {
					case token.EQL, token.NEQ, token.LSS, token.LEQ, token.GTR, token.GEQ:
						if sccpComparable(a.val, bb.val) {
							vals[x] = latConst(constant.MakeBool(constant.Compare(a.val, x.Op, bb.val)))
						}
					case token.ADD, token.SUB, token.MUL:
						if a.val.Kind() == constant.Int && bb.val.Kind() == constant.Int {
							vals[x] = latConst(wrapInt(constant.BinaryOp(a.val, x.Op, bb.val), x.Type()))
						}
					}
				}
			case *ssa.Convert:
				if _, seeded := seedVals[x]; !seeded {
					v := valOf(x.X)
					if v.kind == 1 && v.val.Kind() == constant.Int {
						v = latConst(wrapInt(v.val, x.Type()))
					}
					vals[x] = v
				}
			case *ssa.ChangeType:
				if _, seeded := seedVals[x]; !seeded {
					vals[x] = valOf(x.X)
				}
			case *ssa.Call:
				// descend into module helpers (e.g. an extracted predicate): their result and
				// their effect on the cells are computed with the current cell state
				if callee := x.Call.StaticCallee(); callee != nil && callee.Blocks != nil && depth < 3 && callee != fn && inSSEPackage(callee) && len(callee.Params) == len(x.Call.Args) {
					seeds := map[ssa.Value]constant.Value{}
					for i, a := range x.Call.Args {
						if l := valOf(a); l.kind == 1 {
							seeds[callee.Params[i]] = l.val
						}
					}
					sub := sccpRun(callee, seeds, cells, state, mayClobber, depth+1)
					var ret lat
					var exit sccpState
					for r, st := range sub.Exit {
						if len(r.Results) == 1 {
							v := r.Results[0]
							var l lat
							if cst, ok := v.(*ssa.Const); ok && cst.Value != nil {
								l = latConst(cst.Value)
							} else if lv, ok := sub.Vals[v]; ok {
								l = lv
							} else {
								l = latTop
							}
							ret = ret.join(l)
						}
						exit = exit.join(sccpState(st))
					}
					if exit != nil {
						for i := range state {
							state[i] = exit[i]
						}
					}
					if ret.kind != 0 {
						vals[x] = ret
					}
					for i, cl := range sub.Clobber {
						if cl != nil && res.Clobber[i] == nil {
							res.Clobber[i] = cl
						}
					}
					continue
				}
				if mayClobber != nil && mayClobber(x) {
					for i := range cells {
						state[i] = latTop
						if res.Clobber[i] == nil {
							res.Clobber[i] = x
						}
					}
				}
			case ssa.CallInstruction:
				if mayClobber != nil && mayClobber(x) {
					for i := range cells {
						state[i] = latTop
						if res.Clobber[i] == nil {
							res.Clobber[i] = x
						}
					}
				}
			case *ssa.If:
				branch = x
			case *ssa.Return:
				old := res.Exit[x]
				if old == nil {
					res.Exit[x] = state.clone()
				} else {
					res.Exit[x] = sccpState(old).join(state)
				}
			}
		}
		for i, s := range b.Succs {
			feasible := true
			if branch != nil {
				if v := valOf(branch.Cond); v.kind == 1 && v.val.Kind() == constant.Bool {
					feasible = constant.BoolVal(v.val) == (i == 0)
				}
			}
			if !feasible {
				continue
			}
			e := cfgEdge{b, i}
			first := !edgeExec[e]
			edgeExec[e] = true
			old := in[s]
			nw := old.join(state)
			if first || !res.Reached[s] || !nw.eq(old) {
				in[s] = nw
				res.Reached[s] = true
				if !inWork[s] {
					inWork[s] = true
					work = append(work, s)
				}
			}
		}
	}
	return res
}

func sccpComparable(a, b constant.Value) bool {
	num := func(k constant.Kind) bool { return k == constant.Int || k == constant.Float }
	if num(a.Kind()) && num(b.Kind()) {
		return true
	}
	return a.Kind() == b.Kind() && (a.Kind() == constant.Bool || a.Kind() == constant.String)
}

// wrapInt reduces an integer constant to the range of the (fixed-size integer) type t, the way Go's
// arithmetic wraps around; other types leave the value as it is.
func wrapInt(v constant.Value, t types.Type) constant.Value {
	b, ok := t.Underlying().(*types.Basic)
	if !ok || b.Info()&types.IsInteger == 0 || v.Kind() != constant.Int {
		return v
	}
	bits := uint(64)
	switch b.Kind() {
	case types.Int8, types.Uint8:
		bits = 8
	case types.Int16, types.Uint16:
		bits = 16
	case types.Int32, types.Uint32:
		bits = 32
	}
	n, ok := new(big.Int).SetString(v.ExactString(), 10)
	if !ok {
		return v
	}
	mod := new(big.Int).Lsh(big.NewInt(1), bits)
	n.Mod(n, mod)
	if b.Info()&types.IsUnsigned == 0 {
		half := new(big.Int).Lsh(big.NewInt(1), bits-1)
		if n.Cmp(half) >= 0 {
			n.Sub(n, mod)
		}
	}
	return constant.MakeFromLiteral(n.String(), token.INT, 0)
}
