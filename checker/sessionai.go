package main

import (
	"go/token"

	"golang.org/x/tools/go/ssa"
)

// Abstract interpretation of Session.Send / Session.Flush with doUpgrade
// inlined (DESIGN A.5). The abstract state is the boolean field didUpgrade;
// values are abstract booleans / nil-ness; every error-returning call forks
// into its nil and non-nil outcome. The functions are acyclic, so all paths
// are enumerated. Nothing is executed: this is a path-sensitive analysis over
// a two-point domain.

type absKind int

const (
	absUnknown absKind = iota
	absBool
	absNil    // a nil error / interface
	absNonNil // a non-nil error / interface
)

type absVal struct {
	k absKind
	b bool
}

type sessEvent struct {
	kind string // header-set, res-flush, body-write, set-upgraded
	ok   bool   // for calls: result was nil
	at   ssa.Instruction
}

type sessPath struct {
	events []sessEvent
	state  bool
	retNil bool
	retVal ssa.Value
	ret    *ssa.Return
	// failed: first call outcome that was non-nil on this path
	failed bool
	// unknown: the interpretation hit something it cannot model
	unknown string
	// rets: the abstract value of every result (helpers with more results than the error)
	rets []absVal
}

type sessAI struct {
	P        *Program
	doUp     *ssa.Function
	maxPaths int
}

type sessFrame struct {
	fn    *ssa.Function
	recv  ssa.Value
	env   map[ssa.Value]absVal
	state bool
	evs   []sessEvent
	fail  bool
	// tuples: per-result abstract values of an inlined helper call
	tuples map[ssa.Value][]absVal
}

func (f *sessFrame) clone() *sessFrame {
	g := &sessFrame{fn: f.fn, recv: f.recv, state: f.state, fail: f.fail}
	if len(f.tuples) > 0 {
		g.tuples = make(map[ssa.Value][]absVal, len(f.tuples))
		for k, v := range f.tuples {
			g.tuples[k] = v
		}
	}
	g.env = make(map[ssa.Value]absVal, len(f.env))
	for k, v := range f.env {
		g.env[k] = v
	}
	g.evs = append([]sessEvent(nil), f.evs...)
	return g
}

func (a *sessAI) isRecvField(v ssa.Value, recv ssa.Value, field string) bool {
	b, ok := isFieldSel(v, "Session", field)
	return ok && b == recv
}

// run enumerates all paths of fn (method of *Session) from the given state.
func (a *sessAI) run(fn *ssa.Function, initial bool) []sessPath {
	fr := &sessFrame{fn: fn, recv: fn.Params[0], env: map[ssa.Value]absVal{}, state: initial}
	var out []sessPath
	a.walk(fr, fn.Blocks[0], nil, 0, &out, 0)
	return out
}

func (a *sessAI) eval(fr *sessFrame, v ssa.Value) absVal {
	if c, ok := v.(*ssa.Const); ok {
		if b, isB := constBool(c); isB {
			return absVal{absBool, b}
		}
		if c.Value == nil && isNillable(c.Type()) {
			return absVal{k: absNil}
		}
		return absVal{}
	}
	if x, ok := fr.env[v]; ok {
		return x
	}
	return absVal{}
}

func (a *sessAI) walk(fr *sessFrame, b *ssa.BasicBlock, pred *ssa.BasicBlock, start int, out *[]sessPath, depth int) {
	if len(*out) > 4096 || depth > 200 {
		*out = append(*out, sessPath{unknown: "path explosion"})
		return
	}
	for i := start; i < len(b.Instrs); i++ {
		switch x := b.Instrs[i].(type) {
		case *ssa.Phi:
			for k, p := range b.Preds {
				if p == pred {
					fr.env[x] = a.eval(fr, x.Edges[k])
				}
			}
		case *ssa.UnOp:
			switch x.Op {
			case token.MUL:
				if a.isRecvField(x.X, fr.recv, "didUpgrade") {
					fr.env[x] = absVal{absBool, fr.state}
				}
			case token.NOT:
				if v := a.eval(fr, x.X); v.k == absBool {
					fr.env[x] = absVal{absBool, !v.b}
				}
			}
		case *ssa.BinOp:
			if x.Op == token.EQL || x.Op == token.NEQ {
				l, r := a.eval(fr, x.X), a.eval(fr, x.Y)
				var res absVal
				switch {
				case l.k == absBool && r.k == absBool:
					res = absVal{absBool, l.b == r.b}
				case (l.k == absNil || l.k == absNonNil) && r.k == absNil:
					res = absVal{absBool, l.k == absNil}
				case (r.k == absNil || r.k == absNonNil) && l.k == absNil:
					res = absVal{absBool, r.k == absNil}
				}
				if res.k == absBool {
					if x.Op == token.NEQ {
						res.b = !res.b
					}
					fr.env[x] = res
				}
			}
		case *ssa.ChangeInterface:
			fr.env[x] = a.eval(fr, x.X)
		case *ssa.Extract:
			if tv, ok := fr.tuples[x.Tuple]; ok && x.Index < len(tv) {
				if tv[x.Index].k != absUnknown {
					fr.env[x] = tv[x.Index]
				}
			} else if tv, ok := fr.env[x.Tuple]; ok {
				// error component of a forked call: stored under the tuple
				if sig := tupleErrIndex(x.Tuple); sig == x.Index {
					fr.env[x] = tv
				}
			}
		case *ssa.Store:
			if a.isRecvField(x.Addr, fr.recv, "didUpgrade") {
				v := a.eval(fr, x.Val)
				if v.k != absBool {
					*out = append(*out, sessPath{unknown: "didUpgrade is assigned a value the analysis cannot model at " + a.P.ipos(x)})
					return
				}
				fr.state = v.b
				if v.b {
					fr.evs = append(fr.evs, sessEvent{kind: "set-upgraded", at: x})
				} else {
					fr.evs = append(fr.evs, sessEvent{kind: "set-not-upgraded", at: x})
				}
			}
		case *ssa.MapUpdate:
			if call, ok := x.Map.(*ssa.Call); ok && call.Call.IsInvoke() && call.Call.Method.Name() == "Header" {
				if b2, ok := isFieldLoad(stripConv(call.Call.Value), "Session", "Res"); ok && b2 == fr.recv {
					fr.evs = append(fr.evs, sessEvent{kind: "header-set", at: x})
				}
			}
		case *ssa.Call:
			// inlined doUpgrade on the same receiver
			if callee := x.Call.StaticCallee(); callee != nil && callee == a.doUp && len(x.Call.Args) == 1 && x.Call.Args[0] == fr.recv {
				sub := &sessFrame{fn: a.doUp, recv: a.doUp.Params[0], env: map[ssa.Value]absVal{}, state: fr.state, fail: fr.fail}
				var subPaths []sessPath
				a.walk(sub, a.doUp.Blocks[0], nil, 0, &subPaths, depth+1)
				for _, sp := range subPaths {
					if sp.unknown != "" {
						*out = append(*out, sp)
						continue
					}
					g := fr.clone()
					g.state = sp.state
					g.evs = append(g.evs, sp.events...)
					g.fail = g.fail || sp.failed
					if sp.retNil {
						g.env[x] = absVal{k: absNil}
					} else {
						g.env[x] = absVal{k: absNonNil}
					}
					if len(sp.rets) > 1 {
						if g.tuples == nil {
							g.tuples = map[ssa.Value][]absVal{}
						}
						g.tuples[x] = sp.rets
					}
					a.walk(g, b, pred, i+1, out, depth+1)
				}
				return
			}
			kind := ""
			if x.Call.IsInvoke() && x.Call.Method.Name() == "Flush" {
				if b2, ok := isFieldLoad(stripConv(x.Call.Value), "Session", "Res"); ok && b2 == fr.recv {
					kind = "res-flush"
				}
			}
			if callee := x.Call.StaticCallee(); callee != nil && callee.Name() == "WriteTo" && len(x.Call.Args) == 2 {
				if b2, ok := isFieldLoad(stripConv(x.Call.Args[1]), "Session", "Res"); ok && b2 == fr.recv {
					kind = "body-write"
				}
			}
			if x.Call.IsInvoke() && x.Call.Method.Name() == "Write" {
				if b2, ok := isFieldLoad(stripConv(x.Call.Value), "Session", "Res"); ok && b2 == fr.recv {
					kind = "body-write"
				}
			}
			ei := tupleErrIndex(x)
			if ei == -2 {
				// no error result
				if kind != "" {
					fr.evs = append(fr.evs, sessEvent{kind: kind, ok: true, at: x})
				}
				continue
			}
			// fork on the error outcome
			for _, okk := range []bool{true, false} {
				g := fr.clone()
				if kind != "" {
					g.evs = append(g.evs, sessEvent{kind: kind, ok: okk, at: x})
					if !okk {
						g.fail = true
					}
				}
				if okk {
					g.env[x] = absVal{k: absNil}
				} else {
					g.env[x] = absVal{k: absNonNil}
				}
				a.walk(g, b, pred, i+1, out, depth+1)
			}
			return
		case *ssa.If:
			c := a.eval(fr, x.Cond)
			if c.k == absBool {
				idx := 1
				if c.b {
					idx = 0
				}
				a.walk(fr, b.Succs[idx], b, 0, out, depth+1)
				return
			}
			for idx := 0; idx < 2; idx++ {
				a.walk(fr.clone(), b.Succs[idx], b, 0, out, depth+1)
			}
			return
		case *ssa.Jump:
			a.walk(fr, b.Succs[0], b, 0, out, depth+1)
			return
		case *ssa.Return:
			p := sessPath{events: fr.evs, state: fr.state, ret: x, failed: fr.fail}
			ei := -1
			for k := 0; k < fr.fn.Signature.Results().Len() && k < len(x.Results); k++ {
				p.rets = append(p.rets, a.eval(fr, x.Results[k]))
				if fr.fn.Signature.Results().At(k).Type().String() == "error" {
					ei = k
				}
			}
			if ei >= 0 {
				v := p.rets[ei]
				p.retVal = x.Results[ei]
				switch v.k {
				case absNil:
					p.retNil = true
				case absNonNil:
					p.retNil = false
				default:
					p.unknown = "returned error has unknown nil-ness at " + a.P.ipos(x)
				}
			}
			*out = append(*out, p)
			return
		case *ssa.Panic:
			return
		}
	}
}

// tupleErrIndex: index of the error component of a call's result (-1 for a
// single error result, -2 if the call returns no error).
func tupleErrIndex(v ssa.Value) int {
	call, ok := v.(*ssa.Call)
	if !ok {
		return -2
	}
	res := call.Call.Signature().Results()
	switch res.Len() {
	case 1:
		if res.At(0).Type().String() == "error" {
			return -1
		}
	default:
		for i := 0; i < res.Len(); i++ {
			if res.At(i).Type().String() == "error" {
				return i
			}
		}
	}
	return -2
}

// checkSessionPath validates one path against the session automaton. It
// returns "" if the path conforms.
func checkSessionPath(initial bool, p sessPath, isFlush, isSend bool) string {
	if p.unknown != "" {
		return p.unknown
	}
	state := initial
	flushedOK := false
	lastFlushOK := false
	wrote := false
	expectFlush := false
	headerSet := false
	for _, e := range p.events {
		if expectFlush && e.kind != "res-flush" {
			return "the Content-Type header store is not immediately followed by the flush that sends it"
		}
		switch e.kind {
		case "header-set":
			headerSet = true
			if state {
				return "the Content-Type header is set although the session is already upgraded (bytes were already sent)"
			}
			expectFlush = true
		case "res-flush":
			expectFlush = false
			lastFlushOK = e.ok
			if e.ok {
				flushedOK = true
			}
		case "set-upgraded":
			if !lastFlushOK {
				return "didUpgrade is set without a successful flush right before it"
			}
			if !headerSet {
				return "the session becomes upgraded on a path that did not set the Content-Type header (e.g. the store is conditional): the stream is sent with whatever type was there"
			}
			state = true
		case "set-not-upgraded":
			return "didUpgrade is reset to false"
		case "body-write":
			if !state {
				return "event bytes are written before the session was upgraded (header set and flushed)"
			}
			if e.ok {
				wrote = true
			}
		}
	}
	if p.failed && p.retNil {
		return "a write/flush failed on this path but nil is returned"
	}
	if !p.failed && !p.retNil {
		return "a non-nil error is returned although every write/flush on this path succeeded"
	}
	if p.retNil {
		if isFlush && !flushedOK {
			return "Flush returns nil on a path without any successful Res.Flush: what was sent so far is not pushed"
		}
		if isSend && !wrote {
			return "Send returns nil on a path that did not write the message"
		}
		if !p.state {
			return "the call returns nil but the session is still not upgraded"
		}
	}
	return ""
}
