package main

import (
	"encoding/json"
	"fmt"
	"os"
	"strings"
)

var allPropertyIDs = []string{"C01", "C02", "C03", "C04", "C05", "C06", "C07", "C08", "C09", "C10",
	"C11", "C12", "C13", "C14", "C15", "C16", "C17", "C18", "C19", "C20"}

// notApplicableReasons is used for properties without registered rules.
var notApplicableReasons = map[string]string{}

const baselineCmd = "cd /repo && GOFLAGS=-mod=mod GOPROXY=off GOSUMDB=off go test -json -vet=off -count=1 -timeout 25m ./..."

func emitManifest() {
	type level struct {
		Category  string `json:"category"`
		Text      string `json:"text"`
		DesignRef string `json:"design_ref"`
	}
	type check struct {
		PropertyID  string `json:"property_id"`
		QuickCmd    string `json:"quick_cmd"`
		ThoroughCmd string `json:"thorough_cmd"`
		Evidence    string `json:"evidence_file"`
		Replay      string `json:"replay_cmd_template"`
		Engine      string `json:"engine"`
		Level       level  `json:"level_claimed"`
		LevelNote   string `json:"level_note"`
		Technique   string `json:"technique"`
	}
	type na struct {
		PropertyID string `json:"property_id"`
		Reason     string `json:"reason"`
	}
	var checks []check
	var nas []na
	var served []string
	for _, id := range allPropertyIDs {
		p := properties[id]
		if p == nil || len(p.Rules) == 0 {
			r := notApplicableReasons[id]
			if r == "" {
				r = "no static rule set is implemented for this property yet; nothing is claimed"
			}
			nas = append(nas, na{id, r})
			continue
		}
		served = append(served, id)
		var titles []string
		for _, rid := range p.Rules {
			titles = append(titles, rid+" "+ruleRegistry[rid].Title)
		}
		text := "Static analysis (partial): decides, for every path / write site / call site of the current tree, the structural clauses listed here, each a necessary condition of the property; it does not decide the runtime-value clauses named under NOT DECIDED. " + p.Explanation + " NOT DECIDED: " + p.NotDecided
		if p.Level == "proof" {
			text = "Static proof of an inductive invariant over all write sites of the current tree (sufficient, not merely necessary, given the trusted base). " + p.Explanation + " NOT COVERED: " + p.NotDecided
		}
		checks = append(checks, check{
			PropertyID: id, QuickCmd: "./check " + id + " quick", ThoroughCmd: "./check " + id + " thorough",
			Evidence: "evidence/" + id + ".json", Replay: "./check explain {path}", Engine: "ssecheck",
			Level:     level{p.Level, text, "DESIGN.md §4 " + id},
			LevelNote: "Rules run: " + strings.Join(titles, "; ") + ". Trusted: Go semantics and standard-library contracts by name (bufio.Scanner, strconv, net/http header canonicalisation, context, sync), parser.NewlineIndex, go/packages+go/types+go/ssa (x/tools v0.29.0) and the checker's own engines; user code behind interfaces honours its documentation. Undecided shapes, unresolved anchors, load errors and checker panics fail the check.",
			Technique: p.technique(),
		})
	}
	m := map[string]interface{}{
		"version":   1,
		"setup_cmd": "cd /verif/checker && GOFLAGS=-mod=mod GOPROXY=off GOSUMDB=off GOTOOLCHAIN=local CGO_ENABLED=0 go build -o ../bin/ssecheck . && cd /verif && ./bin/ssecheck -list >/dev/null",
		"hooks": map[string]interface{}{
			"guard":            "verif",
			"enable":           "none needed: the checks are static analyses of the unmodified source; no hook or instrumentation commits exist",
			"baseline_off_cmd": baselineCmd,
			"source_commits":   []string{},
			"add_only":         true,
		},
		"engines": []map[string]interface{}{{
			"name": "ssecheck", "path": "checker/", "serves_properties": served,
			"kind_free_text": "repository-specific static analyser over go/packages + go/types + go/ssa (CFG dominance, must-pass-through path rules, value provenance, field ownership, call-graph reachability, SCCP, lockset); executes nothing of go-sse",
		}},
		"checks":         checks,
		"not_applicable": nas,
		"notes":          "All checks are static analysis (family fixed by the task). Every claim is partial: it decides the structural clauses named in level_claimed.text and says which clauses it does not decide. Genuine defects found by the rules on the pinned tree were repaired with fix: commits in /repo and are recorded in KNOWN_FINDINGS.txt as fixed: lines. Seeded faults (seeded/) are static variants analysed through an in-memory overlay in the thorough tier.",
	}
	if nas == nil {
		m["not_applicable"] = []na{}
	}
	b, _ := json.MarshalIndent(m, "", " ")
	fmt.Fprintln(os.Stdout, string(b))
}

func (p *PropertySpec) technique() string {
	if p.Technique != "" {
		return p.Technique
	}
	return "static analysis: custom SSA/CFG rules (dominance, must-pass-through, value provenance, field ownership, call-graph reachability)"
}
