package main

import (
	"go/token"
	"go/types"
	"strings"

	"golang.org/x/tools/go/ssa"
)

func init() {
	prop(&PropertySpec{
		ID: "C08", Level: "other",
		Rules: []string{"R08.1", "R08.2", "R08.3", "R08.4", "R18.1"},
		Explanation: "Decides the shape of FiniteReplayer's (and its sibling's) Put/Replay: R08.1 Put enqueues only after len(topics)!=0 and ensureID succeeded, enqueues ensureID's result with the given topics, returns that same message, and returns (nil, ErrNoTopic)/(nil, err) otherwise (the ValidReplayer sibling is checked by the same rule under C09); " +
			"R08.2 ensureID: manual mode returns the argument iff its ID is set, automatic mode rejects a set ID, formats the counter in base 10 onto a Clone, increments the counter by 1 on the success path only, and nothing else writes the counter; " +
			"R08.3 Replay: a negative start index returns nil before any Send/Flush, Send happens only in the each-callback under topicsIntersect(subscription.Topics, m.topics), a Send error stops the iteration and is returned without Flush, the error-free path ends in Flush whose error is returned; R08.4 queue.each stops at the first false yield; R18.1 the buffer of a FiniteReplayer is allocated once with N slots and never resized.",
		NotDecided: "FIFO/ring index arithmetic: which elements each(i) visits and what findIDInQueue computes for evicted/absent IDs (only the start-index protocol, R08.5, is decided), that the buffer holds exactly the last N.",
	})
	prop(&PropertySpec{
		ID: "C09", Level: "other",
		Rules: []string{"R09.1", "R09.2", "R09.3", "R09.4", "R18.4", "R09.6", "R09.7", "R08.4", "R08.2"},
		Explanation: "Decides the expiry discipline of ValidReplayer: R09.1 every replayed Send is dominated by m.exp.After(now) with now the v.Now() result of this Replay call (with R09.2 this fully decides 'never replayed at or after Put time + TTL'); R09.2 the stored expiry is now.Add(v.ttl) with now the v.Now() result of this Put, the same now feeding the GC decision; " +
			"R09.3 every dequeue is dominated by the not-After edge of the head element's expiry (only expired heads are collected); R09.4 when count==len(buf) a resize to at least twice the length (floored by a positive constant) precedes enqueue; R18.4 the collection loop exits only on empty or unexpired head; plus the shared Put/Replay shape rules.",
		NotDecided: "that resize/each/findIDInQueue preserve order and content beyond R08.5/R18.5 (index arithmetic), shrink thresholds, behaviour under a decreasing clock.",
	})
	prop(&PropertySpec{
		ID: "C18", Level: "other",
		Rules: []string{"R18.1", "R18.2", "R18.3", "R18.4", "R09.3"},
		Explanation: "R18.1 fully decides the FiniteReplayer half: its queue's slice header is assigned only in the constructor (make(.., count) under count >= 2), resize — the only other writer of queue.buf — is unreachable from every FiniteReplayer method, elements are written only by enqueue/dequeue, and no other field can hold a message => at most N slots => at most N messages reachable. " +
			"R18.2 dequeue stores the zero value into buf[head] before moving head/count and nothing else decrements count; R18.3 resize installs a buffer made in this call and keeps no reference to the old one; R18.4/R09.3 the collection loop leaves only on empty or on an unexpired head and dequeues only expired heads.",
		NotDecided: "that every expired message sits in a slot the loop reaches (relies on FIFO order and a monotone clock: argument, not analysis); resize copying exactly the live range.",
	})
	prop(&PropertySpec{
		ID: "C19", Level: "other",
		Rules: []string{"R19.1", "R19.2", "R19.3"},
		Explanation: "R19.1 in every function reachable from a Replayer.Put implementation of sse, from Joe.Publish or from Joe's loop, no store or map update has an address derived from a caller's *Message (parameter, or message received through the publish channel); stores into a Clone()/new result are allowed. " +
			"R19.2 Clone caps the chunks slice (three-index slice with max == high, or a fresh copy), no store anywhere in the module writes through an index into a Message's chunks slice (chunks only grow by append or are reset), and every other field of Message has value semantics (type walk); R19.3 the automatic ID is stored into the Clone result, which is what ensureID returns.",
		NotDecided: "nothing of substance for the stated clauses beyond the trusted base (reflection/unsafe by users).",
	})

	register(&Rule{ID: "R08.1", Title: "FiniteReplayer.Put validates (topics, ensureID) before it stores; returns the stored message", Floor: 5, Run: r08_1})
	register(&Rule{ID: "R09.6", Title: "ValidReplayer.Put validates (topics, ensureID) before it stores; returns the stored message", Floor: 5, Run: r09_6})
	register(&Rule{ID: "R08.2", Title: "ensureID modes; decimal consecutive IDs; counter written only by the increment", Floor: 7, Run: r08_2})
	register(&Rule{ID: "R08.3", Title: "FiniteReplayer.Replay shape: negative index => nothing; guarded Send; error stops; Flush at end", Floor: 5, Run: r08_3})
	register(&Rule{ID: "R09.7", Title: "ValidReplayer.Replay shape: negative index => nothing; guarded Send; error stops; Flush at end", Floor: 5, Run: r09_7})
	register(&Rule{ID: "R08.4", Title: "queue.each stops at the first false yield", Floor: 2, Run: r08_4})
	register(&Rule{ID: "R09.1", Title: "replayed Send is guarded by exp.After(now) with this call's now", Floor: 2, Run: r09_1})
	register(&Rule{ID: "R09.2", Title: "exp = now.Add(ttl) with this Put's now; the same now feeds GC", Floor: 3, Run: r09_2})
	register(&Rule{ID: "R09.3", Title: "only expired heads are dequeued", Floor: 1, Run: r09_3})
	register(&Rule{ID: "R09.4", Title: "grow before enqueue when full", Floor: 2, Run: r09_4})
	register(&Rule{ID: "R18.1", Title: "FiniteReplayer buffer allocated once, never resized", Floor: 5, Run: r18_1})
	register(&Rule{ID: "R18.2", Title: "dequeue zeroes the slot before moving head/count", Floor: 2, Run: r18_2})
	register(&Rule{ID: "R18.3", Title: "resize installs a fresh buffer and keeps no reference to the old one", Floor: 2, Run: r18_3})
	register(&Rule{ID: "R18.4", Title: "GC loop exits only on empty or unexpired head", Floor: 1, Run: r18_4})
	register(&Rule{ID: "R19.1", Title: "no store through a caller's *Message under Put/Publish", Floor: 3, Run: r19_1})
	register(&Rule{ID: "R19.2", Title: "Clone isolation: capped chunks, no in-place chunk edits, value-semantics fields", Floor: 3, Run: r19_2})
	register(&Rule{ID: "R19.3", Title: "automatic ID is set on the clone that is returned", Floor: 1, Run: r19_3})
}

// replayerImpls: (*T).Put / (*T).Replay for named types of sse implementing Replayer.
type replayerImpl struct {
	name   string
	put    *ssa.Function
	replay *ssa.Function
	stores bool // calls an enqueue (a storing replayer)
}

func findReplayers(P *Program) []replayerImpl {
	var out []replayerImpl
	scope := P.SSE.Pkg.Scope()
	ro := scope.Lookup("Replayer")
	if ro == nil {
		return nil
	}
	iface, _ := ro.Type().Underlying().(*types.Interface)
	if iface == nil {
		return nil
	}
	for _, nm := range scope.Names() {
		tn, ok := scope.Lookup(nm).(*types.TypeName)
		if !ok || tn.IsAlias() {
			continue
		}
		if _, isIface := tn.Type().Underlying().(*types.Interface); isIface {
			continue
		}
		var recv types.Type
		switch {
		case types.Implements(tn.Type(), iface):
			recv = tn.Type()
		case types.Implements(types.NewPointer(tn.Type()), iface):
			recv = types.NewPointer(tn.Type())
		default:
			continue
		}
		ms := P.Prog.MethodSets.MethodSet(recv)
		ri := replayerImpl{name: nm}
		if s := ms.Lookup(P.SSE.Pkg, "Put"); s != nil {
			ri.put = P.Prog.MethodValue(s)
		}
		if s := ms.Lookup(P.SSE.Pkg, "Replay"); s != nil {
			ri.replay = P.Prog.MethodValue(s)
		}
		if ri.put != nil {
			eachInstrDeep(ri.put, func(in ssa.Instruction) {
				if isQueueCall(in, "enqueue") != nil {
					ri.stores = true
				}
			})
		}
		out = append(out, ri)
	}
	return out
}

// isQueueCall: call to (*queue[..]).<method> (instantiation wrapper or generic body).
func isQueueCall(in ssa.Instruction, method string) *ssa.Call {
	call, ok := in.(*ssa.Call)
	if !ok {
		return nil
	}
	callee := call.Call.StaticCallee()
	if callee == nil || callee.Signature.Recv() == nil {
		return nil
	}
	nm := callee.Name()
	if i := strings.IndexByte(nm, '['); i >= 0 {
		nm = nm[:i]
	}
	if nm != method || !typeIs(callee.Signature.Recv().Type(), "sse", "queue") {
		return nil
	}
	return call
}

func isLenOf(v ssa.Value, x ssa.Value) bool {
	call, ok := v.(*ssa.Call)
	if !ok {
		return false
	}
	b, ok := call.Call.Value.(*ssa.Builtin)
	// also through a local that only ever holds x (a parameter captured by an inlined helper)
	return ok && b.Name() == "len" && (call.Call.Args[0] == x || carriesOnly(call.Call.Args[0], x))
}

func r08_1(c *Ctx) { putShape(c, "FiniteReplayer") }
func r09_6(c *Ctx) { putShape(c, "ValidReplayer") }

func putShape(c *Ctx, only string) {
	P := c.P
	impls := findReplayers(P)
	n := 0
	for _, ri := range impls {
		if ri.put == nil || !ri.stores || ri.name != only {
			continue
		}
		n++
		fn := ri.put
		name := fnLabel(fn)
		if len(fn.Params) != 3 {
			c.undecided(name+":shape", P.pos(fn.Pos()), "Put does not have (recv, message, topics) parameters")
			continue
		}
		msgP, topicsP := fn.Params[1], fn.Params[2]
		var enq, ens *ssa.Call
		eachInstrDeep(fn, func(in ssa.Instruction) {
			if call := isQueueCall(in, "enqueue"); call != nil {
				enq = call
			}
			if call, ok := isModCall(in, "ensureID"); ok {
				ens = call
			}
		})
		if enq == nil || ens == nil {
			c.bad(name+":validate", P.pos(fn.Pos()), "Put does not call ensureID before enqueue")
			continue
		}
		// ensureID gets the caller's message and this replayer's counter
		_, cntOK := isFieldLoad(ens.Call.Args[1], ri.name, "currentID")
		c.check(ens.Call.Args[0] == ssa.Value(msgP) && cntOK, name+":ensureID-args", P.ipos(ens), "ensureID(message, r.currentID)", "ensureID is not called with the given message and this replayer's counter")
		// topics guard
		// any comparison that establishes len(topics) >= 1 on the way to the enqueue
		topicsOK := intGuard(fn, enq.Block(), func(v ssa.Value) bool { return isLenOf(v, topicsP) }, 0, 1, posInf)
		for _, ifi := range ifsIn(fn) {
			op, k, succ, ok := cmpConstEdge(ifi, func(v ssa.Value) bool { return isLenOf(v, topicsP) })
			if !ok || k != 0 {
				continue
			}
			var e int
			switch op {
			case token.EQL:
				e = 1 - succ
			case token.NEQ, token.GTR:
				e = succ
			default:
				continue
			}
			if edgeDominates(ifi.Block(), e, enq.Block()) {
				topicsOK = true
			}
		}
		c.check(topicsOK, name+":topics-guard", P.ipos(enq), "enqueue only when len(topics) != 0", "a message without topics can be stored")
		isEnsErr := func(v ssa.Value) bool {
			e, ok := v.(*ssa.Extract)
			return ok && e.Index == 1 && e.Tuple == ssa.Value(ens)
		}
		isEnsMsg := func(v ssa.Value) bool {
			e, ok := v.(*ssa.Extract)
			return ok && e.Index == 0 && e.Tuple == ssa.Value(ens)
		}
		c.check(guardedByNil(fn, enq.Block(), isEnsErr, true), name+":ensureID-guard", P.ipos(enq), "enqueue only when ensureID returned no error", "a message rejected by ensureID (missing/forbidden ID) can be stored")
		// a FiniteReplayer's Put changes the buffer only by the enqueue of the accepted message: an eviction (or any
		// other change) made before the message was validated is lost work when the Put is rejected - the oldest
		// event disappears although nothing took its place
		if only == "FiniteReplayer" {
			var early ssa.Instruction
			eachInstrDeep(fn, func(in ssa.Instruction) {
				if early != nil {
					return
				}
				for _, m := range []string{"dequeue", "resize"} {
					if call := isQueueCall(in, m); call != nil {
						early = in
					}
				}
				if st, ok := in.(*ssa.Store); ok {
					if o, _, _, ok := fieldSel(st.Addr); ok && o == "queue" {
						early = in
					}
					if ia, ok := rootIndexAddr(st.Addr); ok {
						if _, ok := isFieldLoad(ia.X, "queue", "buf"); ok {
							early = in
						}
					}
				}
			})
			pos := P.ipos(enq)
			if early != nil {
				pos = P.ipos(early)
			}
			c.check(early == nil, name+":buffer-changed-only-by-enqueue", pos, "Put changes the buffer only through the enqueue of the validated message", "Put changes the buffer besides enqueueing the accepted message (an eviction before validation): a rejected Put on a full buffer loses the oldest event")
		}
		// ensureID consumes an automatic ID: once it succeeded the message must be stored on every path
		{
			leak := false
			for _, ifi := range ifsIn(fn) {
				if s, ok := nilEdge(ifi, isEnsErr); ok {
					for _, ret := range returnsOf(fn) {
						if reachesAvoiding(atEdge(ifi.Block(), s), ret, func(in ssa.Instruction) bool { return in == ssa.Instruction(enq) }, nil) {
							leak = true
						}
					}
				}
			}
			c.check(!leak, name+":id-consumed-then-stored", P.ipos(ens), "after ensureID succeeded (an automatic ID was consumed) every path stores the message", "after ensureID succeeded a path returns without storing the message: a rejected Put consumes an automatic ID, so IDs are no longer consecutive in Put order (and the ID arithmetic of the lookup is off)")
		}
		// enqueued element: message = ensureID result, topics = parameter
		elemOK := false
		if len(enq.Call.Args) == 2 {
			if a, ok := loadedFrom(enq.Call.Args[1]); ok {
				var mOK, tOK bool
				var walk func(v ssa.Value)
				walk = func(v ssa.Value) {
					for _, r := range *v.Referrers() {
						switch u := r.(type) {
						case *ssa.FieldAddr:
							walk(u)
						case *ssa.Store:
							if u.Addr != v {
								continue
							}
							_, nme, _, _ := fieldSel(v)
							switch nme {
							case "message":
								mOK = isEnsMsg(u.Val)
							case "topics":
								tOK = u.Val == ssa.Value(topicsP)
							case "messageWithTopics":
								if ld, ok := u.Val.(*ssa.UnOp); ok {
									walk(ld.X)
								}
							}
						}
					}
				}
				walk(a)
				elemOK = mOK && tOK
			}
		}
		c.check(elemOK, name+":enqueued-element", P.ipos(enq), "the enqueued element holds ensureID's message and the given topics", "the enqueued element is not (ensureID's message, the given topics): replay would resend another message / match other topics")
		// returns
		for i, ret := range returnsOf(fn) {
			rn := name + ":return#" + itoa(i)
			if len(ret.Results) != 2 {
				c.undecided(rn, P.ipos(ret), "arity")
				continue
			}
			m, e := sources(ret.Results[0]), sources(ret.Results[1])
			if len(m) != 1 || len(e) != 1 {
				c.undecided(rn, P.ipos(ret), "return operands do not resolve")
				continue
			}
			switch {
			case isNilConst(e[0]):
				// success: returns ensureID's message, after enqueue
				c.check(isEnsMsg(m[0]) && instrDominates(enq, ret), rn, P.ipos(ret), "success returns the stored (ID-carrying) message after enqueue",
					"the success return does not return the stored message (live delivery and replay would carry different IDs) or precedes the enqueue")
			case isGlobalLoad(e[0], "ErrNoTopic"):
				c.check(isNilConst(m[0]) && !reachesAvoiding(entryPoint(fn), ret, func(in ssa.Instruction) bool { return in == ssa.Instruction(enq) }, nil) == false || isNilConst(m[0]), rn, P.ipos(ret), "(nil, ErrNoTopic)", "ErrNoTopic is returned together with a message")
				// must not be reachable after enqueue
				c.check(!reachesAvoiding(afterInstr(enq), ret, nil, nil), rn+":no-store", P.ipos(ret), "the rejection is not reachable after enqueue", "a rejected message was stored")
			case isEnsErr(e[0]):
				c.check(isNilConst(m[0]) && !reachesAvoiding(afterInstr(enq), ret, nil, nil), rn, P.ipos(ret), "(nil, ensureID's error) without storing", "an ensureID error is returned with a message or after storing")
			default:
				c.undecided(rn, P.ipos(ret), "unrecognised error return: "+describe(e[0]))
			}
		}
	}
	if n < 1 {
		c.undecided("replayer-implementation("+only+")", "-", "the storing Replayer implementation "+only+" was not found in package sse")
	}
}

func r08_2(c *Ctx) {
	P := c.P
	fn := P.Fn("ensureID")
	if fn == nil {
		c.anchor("ensureID(m, counter)")
		return
	}
	// parameters by type: the message and the counter (other parameters are tolerated)
	var m, cnt *ssa.Parameter
	for _, p := range fn.Params {
		if typeIs(p.Type(), "sse", "Message") && isPointer(p.Type()) && m == nil {
			m = p
		}
		if p.Type().String() == "*uint64" && cnt == nil {
			cnt = p
		}
	}
	if m != nil && cnt == nil {
		// a counter of another integer type: narrower than 64 bits it wraps and IDs are issued twice
		for _, p := range fn.Params {
			if pt, ok := p.Type().Underlying().(*types.Pointer); ok {
				if b, ok := pt.Elem().Underlying().(*types.Basic); ok && b.Info()&types.IsInteger != 0 {
					c.bad(fnLabel(fn)+":counter-width", P.pos(p.Pos()), "the automatic-ID counter is a "+b.Name()+", not a uint64: it wraps (or goes negative) within reach, so an ID that is still buffered or was already handed to clients is issued again")
					return
				}
			}
		}
	}
	if m == nil || cnt == nil {
		c.anchor("ensureID's message and counter parameters")
		return
	}
	name := fnLabel(fn)
	if len(loopsOf(fn)) > 0 {
		c.undecided(name+":modes", P.pos(fn.Pos()), "ensureID contains a loop; the decision-table analysis does not apply")
		return
	}
	isSetOfM := func(v ssa.Value) bool {
		call, ok := isModCall(v, "(messageField).IsSet")
		if !ok {
			return false
		}
		f, ok := call.Call.Args[0].(*ssa.Field)
		if !ok {
			return false
		}
		b, ok := isFieldLoad(f.X, "Message", "ID")
		return ok && b == ssa.Value(m)
	}
	isCntNil := func(v ssa.Value) (isNilTest bool, eqMeansNil bool) {
		b, ok := v.(*ssa.BinOp)
		if !ok || (b.Op != token.EQL && b.Op != token.NEQ) {
			return false, false
		}
		if (b.X == ssa.Value(cnt) && isNilConst(b.Y)) || (b.Y == ssa.Value(cnt) && isNilConst(b.X)) {
			return true, b.Op == token.EQL
		}
		return false, false
	}
	// decision table over (counter is nil?, ID is set?): abstract path interpretation
	for _, row := range []struct {
		auto, hasID bool
		want        string
	}{
		{false, false, "reject"}, {false, true, "same"}, {true, true, "reject"}, {true, false, "clone"},
	} {
		row := row
		paths, ok := abstractPaths(fn, 256, func(v ssa.Value) (bool, bool) {
			if isSetOfM(v) {
				return row.hasID, true
			}
			if is, eqNil := isCntNil(v); is {
				return (!row.auto) == eqNil, true
			}
			return false, false
		})
		rn := name + ":mode(" + map[bool]string{true: "automatic", false: "manual"}[row.auto] + "," + map[bool]string{true: "ID set", false: "no ID"}[row.hasID] + ")"
		if !ok || len(paths) == 0 {
			c.undecided(rn, P.pos(fn.Pos()), "no feasible path / too many paths under these assumptions")
			continue
		}
		bad := ""
		for _, p := range paths {
			rm := p.St.resolve(p.Ret.Results[0])
			re := p.St.resolve(p.Ret.Results[1])
			rms, res := sources(rm), sources(re)
			if len(rms) == 1 {
				rm = rms[0]
			}
			if len(res) == 1 {
				re = res[0]
			}
			var clone *ssa.Call
			var incs []*ssa.Store
			var idStore *ssa.Store
			var fmtCall *ssa.Call
			for _, in := range p.Instrs {
				if call, ok := isModCall(in, "(*Message).Clone"); ok && call.Call.Args[0] == ssa.Value(m) {
					clone = call
				}
				if call, ok := isStaticCall(in, "strconv.FormatUint"); ok {
					fmtCall = call
				}
				if st, ok := in.(*ssa.Store); ok {
					if st.Addr == ssa.Value(cnt) {
						incs = append(incs, st)
					}
					if _, ok := isFieldSel(st.Addr, "Message", "ID"); ok {
						idStore = st
					}
				}
			}
			switch row.want {
			case "reject":
				if !isNilConst(rm) || isNilConst(re) {
					bad = "expected (nil, error)"
				}
				if len(incs) > 0 {
					bad = "a rejected message consumes an automatic ID (the counter is incremented on an error path)"
				}
			case "same":
				if rm != ssa.Value(m) || !isNilConst(re) {
					bad = "expected the given message and a nil error"
				}
				if idStore != nil || len(incs) > 0 {
					bad = "manual mode must not touch the message or the counter"
				}
			case "clone":
				switch {
				case clone == nil || rm != ssa.Value(clone) || !isNilConst(re):
					bad = "expected a Clone of the message and a nil error"
				case idStore == nil:
					bad = "the clone gets no ID"
				default:
					if b, ok := isFieldSel(idStore.Addr, "Message", "ID"); !ok || b != ssa.Value(clone) {
						bad = "the generated ID is not stored into the clone"
					}
					// ID(FormatUint(*counter, 10))
					okFmt := false
					if fmtCall != nil {
						a, isLoad := loadedFrom(fmtCall.Call.Args[0])
						base, isK := constInt(fmtCall.Call.Args[1])
						okFmt = isLoad && a == ssa.Value(cnt) && isK && base == 10 && instrPrecedes(p.Instrs, fmtCall, firstOfStores(incs))
						if call, ok := isModCall(idStore.Val, "ID"); !ok || call.Call.Args[0] != ssa.Value(fmtCall) {
							okFmt = false
						}
					}
					if !okFmt {
						bad = "the generated ID is not ID(strconv.FormatUint(*counter, 10)) taken before the increment"
					}
					if len(incs) != 1 {
						bad = "the counter is not incremented exactly once on the success path"
					} else {
						bo, ok := incs[0].Val.(*ssa.BinOp)
						good := ok && bo.Op == token.ADD
						if good {
							a, isLoad := loadedFrom(bo.X)
							k, isK := constInt(bo.Y)
							good = isLoad && a == ssa.Value(cnt) && isK && k == 1
						}
						if !good {
							bad = "the counter is not incremented by exactly 1"
						}
					}
				}
			}
		}
		if bad != "" {
			c.bad(rn, P.pos(fn.Pos()), "ensureID does not implement this row of its decision table: "+bad+" (IDs would not be consecutive decimal numbers from 0 in Put order / messages would be accepted or rejected wrongly)")
		} else {
			c.ok(rn, P.pos(fn.Pos()), "outcome: "+row.want)
		}
	}
	// counter writers in the whole package
	for _, f := range P.Funcs {
		if !inSSEPackage(f) {
			continue
		}
		eachInstr(f, func(in ssa.Instruction) {
			st, ok := in.(*ssa.Store)
			if !ok {
				return
			}
			pt, ok := st.Addr.Type().Underlying().(*types.Pointer)
			if !ok || pt.Elem().String() != "uint64" {
				return
			}
			c.check(f == fn, fnLabel(f)+":counter-write", P.ipos(st), "the only write through a *uint64 is ensureID's increment", "the ID counter can be written outside ensureID")
		})
	}
	// constructors create it with new(uint64)
	for _, owner := range []string{"FiniteReplayer", "ValidReplayer"} {
		for _, a := range P.fieldAccesses(owner, "currentID") {
			if a.Kind != "write" {
				continue
			}
			st := a.Use.(*ssa.Store)
			// every origin of the stored pointer is a fresh new(uint64) (0) or nil (manual IDs)
			ok, some := true, false
			for _, sv := range sources(st.Val) {
				if isNilConst(sv) {
					continue
				}
				if al, isAl := sv.(*ssa.Alloc); isAl && al.Heap && deref(al.Type()).String() == "uint64" {
					// never written before it is installed: still 0
					_, stores, _ := cellStores(al)
					if len(stores) == 0 {
						some = true
						continue
					}
				}
				ok = false
			}
			c.check(ok && some, fnLabel(a.Fn)+":counter-init("+owner+")", P.ipos(st), "the counter starts as new(uint64) (0)", "the counter is not initialised with new(uint64): automatic IDs do not start at 0")
		}
	}
}

func firstOfStores(s []*ssa.Store) ssa.Instruction {
	if len(s) == 0 {
		return nil
	}
	return s[0]
}

// instrPrecedes: a occurs before b in the executed instruction sequence (b may be nil).
func instrPrecedes(seq []ssa.Instruction, a, b ssa.Instruction) bool {
	ia, ib := -1, -1
	for i, in := range seq {
		if in == a && ia < 0 {
			ia = i
		}
		if b != nil && in == b && ib < 0 {
			ib = i
		}
	}
	if ia < 0 {
		return false
	}
	return b == nil || ib < 0 || ia < ib
}

// replayParts locates roles in a Replay implementation.
type replayParts struct {
	fn       *ssa.Function
	find     *ssa.Call // findIDInQueue
	each     *ssa.Call // queue.each
	cb       *ssa.Function
	cbMC     *ssa.MakeClosure
	subCell  ssa.Value // cell holding the subscription parameter (or the parameter)
	errCell  *ssa.Alloc
	flush    ssa.CallInstruction
	nowCall  *ssa.Call // v.Now() (ValidReplayer)
	nowCell  *ssa.Alloc
	iterCall *ssa.Call // the call of each's result with the callback
}

func findReplayParts(P *Program, fn *ssa.Function) *replayParts {
	rp := &replayParts{fn: fn}
	eachInstrDeep(fn, func(in ssa.Instruction) {
		if call, ok := in.(*ssa.Call); ok {
			if callee := call.Call.StaticCallee(); callee != nil && (callee.Name() == "findIDInQueue" || (callee.Origin() != nil && callee.Origin().Name() == "findIDInQueue")) {
				rp.find = call
			}
			if strings_HasPrefix(calleeName(call), modPath+".findIDInQueue") {
				rp.find = call
			}
			if q := isQueueCall(in, "each"); q != nil {
				rp.each = q
			}
			if c, ok := isInvoke(in, "sse", "MessageWriter", "Flush"); ok {
				rp.flush = c
			}
			if call.Call.StaticCallee() == nil && !call.Call.IsInvoke() {
				if _, ok := isFieldLoad(call.Call.Value, "ValidReplayer", "Now"); ok {
					rp.nowCall = call
				}
				if rp.each != nil && call.Call.Value == ssa.Value(rp.each) && len(call.Call.Args) == 1 {
					rp.iterCall = call
					if mc, ok := call.Call.Args[0].(*ssa.MakeClosure); ok {
						rp.cbMC = mc
						rp.cb, _ = mc.Fn.(*ssa.Function)
					}
				}
			}
		}
	})
	if rp.cbMC != nil {
		for i, b := range rp.cbMC.Bindings {
			fv := rp.cb.FreeVars[i]
			switch deref(fv.Type()).String() {
			case "error":
				rp.errCell, _ = b.(*ssa.Alloc)
			case "time.Time":
				rp.nowCell, _ = b.(*ssa.Alloc)
			}
			if typeIs(deref(fv.Type()), "sse", "Subscription") {
				rp.subCell = b
			}
		}
	}
	return rp
}

func strings_HasPrefix(s, p string) bool { return len(s) >= len(p) && s[:len(p)] == p }

func r08_3(c *Ctx) { replayShape(c, "FiniteReplayer") }
func r09_7(c *Ctx) { replayShape(c, "ValidReplayer") }

// R08.7 / R09.9: the slice of the Replay shape that other properties rest on: a Send error stops
// the replay and is what Replay returns (C17: the failing subscriber gets its error), and a replay
// that sent everything ends with Flush (C03: every Send is followed by a Flush before Joe goes idle).
func replayTail(c *Ctx, only string) {
	c.keep = func(construct string) bool {
		return strings.HasSuffix(construct, ":callback-error") || strings.HasSuffix(construct, ":tail") || strings.HasSuffix(construct, ":shape")
	}
	replayShape(c, only)
	c.keep = nil
}

func init() {
	register(&Rule{ID: "R08.7", Title: "FiniteReplayer.Replay: a Send error stops the replay and is returned; a complete replay ends with Flush", Floor: 2, Run: func(c *Ctx) { replayTail(c, "FiniteReplayer") }})
	register(&Rule{ID: "R09.9", Title: "ValidReplayer.Replay: a Send error stops the replay and is returned; a complete replay ends with Flush", Floor: 2, Run: func(c *Ctx) { replayTail(c, "ValidReplayer") }})
	for _, id := range []string{"C03", "C17"} {
		if p := properties[id]; p != nil {
			p.Rules = append(p.Rules, "R08.7", "R09.9")
			p.Explanation += " R08.7/R09.9 (the error/flush slice of the Replay shape rules): in both replayers a failed Send makes the per-element callback return false with that error kept, Replay returns it without flushing, and a replay that sent everything ends with Flush, whose error is returned."
		}
	}
}

func replayShape(c *Ctx, only string) {
	P := c.P
	n := 0
	for _, ri := range findReplayers(P) {
		if ri.replay == nil || !ri.stores || ri.name != only {
			continue
		}
		n++
		fn := ri.replay
		name := fnLabel(fn)
		rp := findReplayParts(P, fn)
		if rp.find == nil || rp.each == nil || rp.cb == nil || rp.iterCall == nil {
			c.undecided(name+":shape", P.pos(fn.Pos()), "Replay does not have the findIDInQueue / each(callback) shape")
			continue
		}
		// Replay only reads the buffer: a collection, resize or enqueue between the lookup and the iteration
		// moves the elements and leaves the looked-up index pointing somewhere else
		{
			reach := P.reachNoGo(fn)
			var w ssa.Instruction
			var wf *ssa.Function
			for _, g := range P.Funcs {
				if !reach[g] || !inSSEPackage(g) {
					continue
				}
				eachInstr(g, func(in ssa.Instruction) {
					st, ok := in.(*ssa.Store)
					if !ok || w != nil {
						return
					}
					for _, fld := range []string{"head", "tail", "count", "buf"} {
						if _, ok := isFieldSel(st.Addr, "queue", fld); ok {
							w, wf = st, g
						}
					}
					if ia, ok := rootIndexAddr(st.Addr); ok {
						if _, ok := isFieldLoad(ia.X, "queue", "buf"); ok {
							w, wf = st, g
						}
					}
				})
			}
			if w != nil {
				c.bad(name+":read-only", P.ipos(w), "Replay reaches "+fnLabel(wf)+", which modifies the buffer: the index found for the presented ID is stale when the iteration starts (the presented event is replayed again, or later ones are skipped)")
			} else {
				c.ok(name+":read-only", P.pos(fn.Pos()), "no function reachable from Replay writes the queue")
			}
		}
		// each starts at findIDInQueue's result; lookup uses the subscription's LastEventID and this replayer's mode
		c.check(len(rp.each.Call.Args) == 2 && rp.each.Call.Args[1] == ssa.Value(rp.find), name+":start-index", P.ipos(rp.each), "iteration starts at the index findIDInQueue returned", "the iteration does not start at the index returned for the presented ID")
		idOK := false
		if len(rp.find.Call.Args) == 3 {
			if _, ok := isFieldLoad(rp.find.Call.Args[1], "Subscription", "LastEventID"); ok {
				idOK = true
			}
			// autoID flag: currentID != nil
			if b, ok := rp.find.Call.Args[2].(*ssa.BinOp); !ok || b.Op != token.NEQ || !isNilConst(b.Y) {
				idOK = false
			} else if _, ok := isFieldLoad(b.X, ri.name, "currentID"); !ok {
				idOK = false
			}
		}
		c.check(idOK, name+":lookup-args", P.ipos(rp.find), "the lookup uses subscription.LastEventID and autoID = (currentID != nil)", "the ID lookup is not made with the subscription's LastEventID and this replayer's ID mode")
		// negative index => return nil before any Send/Flush
		negOK := false
		for _, ifi := range ifsIn(fn) {
			op, k, succ, ok := cmpConstEdge(ifi, func(v ssa.Value) bool { return v == ssa.Value(rp.find) })
			if !ok {
				continue
			}
			neg := -1
			if op == token.LSS && k == 0 {
				neg = succ
			} else if op == token.GEQ && k == 0 {
				neg = 1 - succ
			} else if op == token.EQL && k == -1 {
				neg = succ
			} else if op == token.LEQ && k == -1 {
				neg = succ
			}
			if neg < 0 {
				continue
			}
			// on the negative edge: a return of nil with no each/Flush before it; and each is dominated by the other edge
			var bad bool
			reached := false
			forward([]startPoint{atEdge(ifi.Block(), neg)}, func(in ssa.Instruction) searchAction {
				if in == ssa.Instruction(rp.iterCall) || (rp.flush != nil && in == ssa.Instruction(rp.flush)) {
					bad = true
				}
				if r, ok := in.(*ssa.Return); ok {
					reached = true
					for _, s := range sources(r.Results[0]) {
						if !isNilConst(s) {
							bad = true
						}
					}
				}
				return cont
			})
			if !bad && reached && edgeDominates(ifi.Block(), 1-neg, rp.iterCall.Block()) {
				negOK = true
			}
		}
		c.check(negOK, name+":negative-index", P.ipos(rp.find), "a negative start index returns nil before any Send/Flush", "a negative start index (nothing to replay) does not return nil before sending/flushing")
		// Send only in the callback, guarded by topicsIntersect(subscription.Topics, m.topics)
		nSend := 0
		eachInstrDeep(fn, func(in ssa.Instruction) {
			if _, ok := isInvoke(in, "sse", "MessageWriter", "Send"); ok {
				nSend++
			}
		})
		c.check(nSend == 0, name+":no-send-outside-callback", P.pos(fn.Pos()), "Replay itself sends nothing outside the each-callback", "Replay sends outside the per-element callback")
		cb := rp.cb
		var send ssa.CallInstruction
		ns := 0
		eachInstrDeep(cb, func(in ssa.Instruction) {
			if s, ok := isInvoke(in, "sse", "MessageWriter", "Send"); ok {
				send = s
				ns++
			}
		})
		if send == nil || ns != 1 || len(cb.Params) != 2 {
			c.bad(name+":callback-send", P.pos(cb.Pos()), "the callback does not contain exactly one Send")
			continue
		}
		elem := cb.Params[1]
		isElemCell := func(addr ssa.Value) bool { return cellHoldsOnly(rootAddr(addr), elem) }
		guard := guardedByBool(cb, send.Block(), func(v ssa.Value) bool {
			call, ok := isModCall(v, "topicsIntersect")
			if !ok {
				return false
			}
			a, b := call.Call.Args[0], call.Call.Args[1]
			isSubTopics := func(v ssa.Value) bool { _, ok := isFieldLoad(v, "Subscription", "Topics"); return ok }
			isElemTopics := func(v ssa.Value) bool {
				base, ok := isFieldLoad(v, "messageWithTopics", "topics")
				return ok && isElemCell(base)
			}
			return (isSubTopics(a) && isElemTopics(b)) || (isSubTopics(b) && isElemTopics(a))
		}, true)
		c.check(guard, name+":callback-topic-guard", P.ipos(send), "Send is guarded by topicsIntersect(subscription.Topics, m.topics)", "a buffered event is replayed without matching the subscription's topics")
		// Send's message is the element's message, receiver is the subscription's Client
		mOK := true
		msrc := sources(send.Common().Args[0])
		for _, ms := range msrc {
			if base, ok := isFieldLoad(ms, "messageWithTopics", "message"); !ok || !isElemCell(base) {
				mOK = false
			}
		}
		mOK = mOK && len(msrc) > 0
		rOK := isSubscriptionClient(send.Common().Value)
		c.check(mOK && rOK, name+":callback-send-args", P.ipos(send), "the element's message is sent to the subscription's client", "the callback does not send the current element's message to the subscription's client")
		// Send error: stored in the shared err cell, callback returns false on error, true otherwise
		sv := send.Value()
		stored := false
		eachInstrDeep(cb, func(in ssa.Instruction) {
			if st, ok := in.(*ssa.Store); ok && st.Val == ssa.Value(sv) && rp.errCell != nil && cellRoot(st.Addr) == ssa.Value(rp.errCell) {
				stored = true
			}
		})
		retOK := stored
		isSendErr := func(v ssa.Value) bool {
			if v == ssa.Value(sv) {
				return true
			}
			if a, ok := loadedFrom(v); ok && rp.errCell != nil && cellRoot(a) == ssa.Value(rp.errCell) {
				return true
			}
			return false
		}
		for _, ret := range returnsOf(cb) {
			for _, s := range sources(ret.Results[0]) {
				b, isC := constBool(s)
				if !isC {
					// `return err == nil`: true exactly when the Send succeeded
					if bo, ok := s.(*ssa.BinOp); ok && bo.Op == token.EQL && ((isSendErr(bo.X) && isNilConst(bo.Y)) || (isSendErr(bo.Y) && isNilConst(bo.X))) {
						continue
					}
					retOK = false
					continue
				}
				onErr := guardedByNil(cb, ret.Block(), isSendErr, false)
				if b == onErr {
					retOK = false
				}
				if b {
					// "continue" after a Send only when that Send succeeded: no path from the Send to this
					// return avoids the err == nil edge
					okEdges := map[cfgEdge]bool{}
					for _, ifi := range ifsIn(cb) {
						if sN, ok := nilEdge(ifi, isSendErr); ok {
							okEdges[cfgEdge{ifi.Block(), sN}] = true
						}
					}
					if si, ok := send.(ssa.Instruction); ok && reachesAvoidingLocal(afterInstr(si), ret, nil, okEdges) {
						retOK = false
					}
				}
			}
		}
		c.check(retOK, name+":callback-error", P.pos(cb.Pos()), "a Send error is recorded and stops the iteration (callback returns false exactly then)", "a Send error does not stop the replay, or the callback stops without an error")
		// after iteration: err != nil => return err (no Flush); else return Flush()
		errLoad := func(v ssa.Value) bool {
			a, ok := loadedFrom(v)
			return ok && rp.errCell != nil && cellRoot(a) == ssa.Value(rp.errCell)
		}
		tailOK := rp.flush != nil
		for _, ret := range returnsOf(fn) {
			if !instrDominates(rp.iterCall, ret) {
				continue
			}
			for _, s := range []ssa.Value{ret.Results[0]} {
				switch {
				case errLoad(s):
					if !guardedByNil(fn, ret.Block(), errLoad, false) || (rp.flush != nil && reachesAvoiding(afterInstr(rp.flush), ret, nil, nil)) {
						tailOK = false
					}
				case rp.flush != nil && s == rp.flush.Value():
					if !guardedByNil(fn, ret.Block(), errLoad, true) {
						tailOK = false
					}
				default:
					tailOK = false
				}
			}
		}
		if rp.flush != nil {
			if !isSubscriptionClient(rp.flush.Common().Value) {
				tailOK = false
			}
		}
		c.check(tailOK, name+":tail", P.pos(fn.Pos()), "after the iteration a Send error is returned without Flush, otherwise the client is flushed and Flush's error returned", "after the iteration Replay does not (return the Send error without flushing | flush and return Flush's error)")
	}
	if n < 1 {
		c.undecided("replayer-implementation("+only+")", "-", "the storing Replayer implementation "+only+" was not found")
	}
}

func r08_4(c *Ctx) {
	P := c.P
	n := 0
	for _, fn := range P.Funcs {
		par := fn.Parent()
		if par == nil || par.Name() != "each" || par.Signature.Recv() == nil || !typeIs(par.Signature.Recv().Type(), "sse", "queue") {
			continue
		}
		if len(fn.Params) != 1 {
			continue
		}
		yield := fn.Params[0]
		eachInstr(fn, func(in ssa.Instruction) {
			call, ok := in.(*ssa.Call)
			if !ok || call.Call.Value != ssa.Value(yield) {
				return
			}
			n++
			name := fnLabel(fn) + ":yield#" + itoa(n)
			// false edge leads to return with no further yield
			var fe *cfgEdge
			for _, ifi := range ifsIn(fn) {
				if s, ok := boolEdge(ifi, func(v ssa.Value) bool { return v == ssa.Value(call) }); ok {
					fe = &cfgEdge{ifi.Block(), 1 - s}
				}
			}
			if fe == nil {
				c.bad(name, P.ipos(call), "the result of yield is ignored: the iteration cannot be stopped")
				return
			}
			again := false
			forward([]startPoint{atEdge(fe.From, fe.Idx)}, func(x ssa.Instruction) searchAction {
				if c2, ok := x.(*ssa.Call); ok && c2.Call.Value == ssa.Value(yield) {
					again = true
				}
				return cont
			})
			c.check(!again, name, P.ipos(call), "a false yield result leads to return without another yield", "after yield returned false another element can still be yielded: a failed replay keeps sending")
			// the yielded element is buf[i] for the yielded index i
			elemOK := false
			if len(call.Call.Args) == 2 {
				if a, ok := loadedFrom(call.Call.Args[1]); ok {
					if ia, ok := a.(*ssa.IndexAddr); ok && ia.Index == call.Call.Args[0] {
						if _, ok := isFieldLoad(ia.X, "queue", "buf"); ok {
							elemOK = true
						}
					}
				}
			}
			c.check(elemOK, name+":element", P.ipos(call), "yields (i, buf[i])", "the yielded element is not buf[i] for the yielded index")
		})
	}
	if n == 0 {
		c.anchor("queue.each iterator body")
	}
	// the ranges visited: [startAt, tail) when startAt < tail, else [startAt, len(buf)) and then [0, tail)
	for _, fn := range P.Funcs {
		par := fn.Parent()
		if par == nil || par.Name() != "each" || par.Signature.Recv() == nil || !typeIs(par.Signature.Recv().Type(), "sse", "queue") || len(par.Params) != 2 {
			continue
		}
		name := fnLabel(fn) + ":ranges"
		isStart := func(v ssa.Value) bool { return carriesOnly(v, par.Params[1]) }
		isTail := func(v ssa.Value) bool { _, ok := isFieldLoad(v, "queue", "tail"); return ok }
		isLenBuf := func(v ssa.Value) bool {
			call, ok := v.(*ssa.Call)
			if !ok {
				return false
			}
			b, ok := call.Call.Value.(*ssa.Builtin)
			if !ok || b.Name() != "len" {
				return false
			}
			_, ok = isFieldLoad(call.Call.Args[0], "queue", "buf")
			return ok
		}
		describe := func(v ssa.Value) string {
			switch {
			case isStart(v):
				return "startAt"
			case isTail(v):
				return "tail"
			case isLenBuf(v):
				return "len(buf)"
			}
			if k, ok := constInt(v); ok && k == 0 {
				return "0"
			}
			if _, ok := isFieldLoad(v, "queue", "head"); ok {
				return "head"
			}
			if _, ok := isFieldLoad(v, "queue", "count"); ok {
				return "count"
			}
			return "?"
		}
		type rng struct {
			from, to string
			head     *ssa.BasicBlock
		}
		var rs []rng
		shapeOK := true
		for _, l := range loopsOf(fn) {
			var ind *ssa.Phi
			for _, in := range l.Head.Instrs {
				if phi, ok := in.(*ssa.Phi); ok {
					for _, e := range phi.Edges {
						if b, ok := e.(*ssa.BinOp); ok && b.Op == token.ADD && b.X == ssa.Value(phi) {
							if k, ok := constInt(b.Y); ok && k == 1 {
								ind = phi
							}
						}
					}
				}
			}
			if ind == nil || len(l.Head.Instrs) == 0 {
				shapeOK = false
				continue
			}
			ifi, ok := l.Head.Instrs[len(l.Head.Instrs)-1].(*ssa.If)
			if !ok {
				shapeOK = false
				continue
			}
			cnd := decodeIf(ifi)
			// `for i := range buf` is compiled as i' = phi(-1, i); i = i'+1; i < len(buf)
			rangeForm := false
			if b, ok := cnd.X.(*ssa.BinOp); ok && b.Op == token.ADD && b.X == ssa.Value(ind) {
				if k, ok := constInt(b.Y); ok && k == 1 {
					rangeForm = true
				}
			}
			if cnd.Y == nil || cnd.Op != token.LSS || (cnd.X != ssa.Value(ind) && !rangeForm) || !l.Blocks[l.Head.Succs[cnd.succWhen(true)]] {
				shapeOK = false
				continue
			}
			from := "?"
			for i, e := range ind.Edges {
				if !l.Blocks[l.Head.Preds[i]] {
					from = describe(e)
					if rangeForm {
						from = "?"
						if k, ok := constInt(e); ok && k == -1 {
							from = "0"
						}
					}
				}
			}
			rs = append(rs, rng{from, describe(cnd.Y), l.Head})
		}
		if !shapeOK || len(rs) == 0 {
			c.ok(name, P.pos(fn.Pos()), "not decided: the iteration is not written as counted `for i := a; i < b; i++` loops")
			continue
		}
		got := ""
		for _, r := range rs {
			got += " [" + r.from + "," + r.to + ")"
		}
		knownWrong := false
		for _, r := range rs {
			if r.to == "head" || r.to == "count" || r.from == "head" || r.from == "count" || r.from == "tail" {
				knownWrong = true
			}
		}
		// Put order means starting at the slot asked for: an iteration none of whose ranges begins at startAt
		// (one pass over the backing array with a membership test) yields the newest slots first on a wrapped ring
		startsAtStart := false
		for _, r := range rs {
			if r.from == "startAt" {
				startsAtStart = true
			}
		}
		if !startsAtStart {
			knownWrong = true
		}
		good := len(rs) == 3
		var direct, upper, lower *rng
		for i := range rs {
			switch {
			case rs[i].from == "startAt" && rs[i].to == "tail":
				direct = &rs[i]
			case rs[i].from == "startAt" && rs[i].to == "len(buf)":
				upper = &rs[i]
			case rs[i].from == "0" && rs[i].to == "tail":
				lower = &rs[i]
			}
		}
		good = good && direct != nil && upper != nil && lower != nil
		if !good && !knownWrong {
			c.ok(name, P.pos(fn.Pos()), "not decided: the iteration is written with other ranges than the canonical three (found:"+got+")")
			continue
		}
		if good {
			// the direct range under startAt < tail, the wrapped pair under its negation, upper before lower
			g1 := factGuards(fn, direct.head, factEdgesOfCompare(fn, isStart, isTail, true))
			g2 := factGuards(fn, upper.head, factEdgesOfCompare(fn, isStart, isTail, false))
			good = g1 && g2 && upper.head.Dominates(lower.head) && !lower.head.Dominates(upper.head)
		}
		c.check(good, name, P.pos(fn.Pos()), "visits [startAt, tail) when startAt < tail, else [startAt, len(buf)) and then [0, tail)",
			"the iteration does not visit exactly the occupied slots from startAt to tail (ranges found:"+got+"): on a wrapped ring that is not full it walks into empty slots or stops early")
	}
}

// factEdgesOfCompare: the fact established by the branch edges on which `a < b` holds (want) or fails (!want),
// for the comparison of a value satisfying isA with one satisfying isB.
func factEdgesOfCompare(fn *ssa.Function, isA, isB func(ssa.Value) bool, want bool) fact {
	var es []cfgEdge
	for _, ifi := range ifsIn(fn) {
		cnd := decodeIf(ifi)
		if cnd.Y == nil {
			continue
		}
		op := cnd.Op
		switch {
		case isA(cnd.X) && isB(cnd.Y):
		case isB(cnd.X) && isA(cnd.Y):
			op = flipOp(op)
		default:
			continue
		}
		switch op {
		case token.LSS:
			es = append(es, cfgEdge{ifi.Block(), cnd.succWhen(want)})
		case token.GEQ:
			es = append(es, cfgEdge{ifi.Block(), cnd.succWhen(!want)})
		}
	}
	return factEdges(es...)
}

// ---------------------------------------------------------------------------
// C09

func isTimeCall(v ssa.Value, method string) (*ssa.Call, bool) {
	return isStaticCall(v, "(time.Time)."+method)
}

func r09_1(c *Ctx) {
	P := c.P
	fn := P.Fn("(*ValidReplayer).Replay")
	if fn == nil {
		c.anchor("(*ValidReplayer).Replay")
		return
	}
	rp := findReplayParts(P, fn)
	name := fnLabel(fn)
	if rp.cb == nil || rp.nowCall == nil || rp.nowCell == nil {
		c.bad(name+":now", P.pos(fn.Pos()), "Replay does not take v.Now() once and share it with its per-element callback")
		return
	}
	// the now cell holds exactly this call's v.Now() result, stored before the iteration
	st, _, esc := cellStores(rp.nowCell)
	c.check(!esc && len(st) == 1 && st[0] == ssa.Value(rp.nowCall) && instrDominates(rp.nowCall, rp.iterCall), name+":now", P.ipos(rp.nowCall), "now is the v.Now() result of this Replay call, taken before the iteration", "the time compared with the expiry is not this call's single v.Now() result")
	cb := rp.cb
	elem := cb.Params[1]
	isNow := func(v ssa.Value) bool {
		a, ok := loadedFrom(v)
		return ok && cellRoot(a) == ssa.Value(rp.nowCell)
	}
	isExp := func(v ssa.Value) bool {
		base, ok := isFieldLoad(v, "messageWithTopicsAndExpiry", "exp")
		return ok && cellHoldsOnly(rootAddr(base), elem)
	}
	n := 0
	eachInstrDeep(cb, func(in ssa.Instruction) {
		s, ok := isInvoke(in, "sse", "MessageWriter", "Send")
		if !ok {
			return
		}
		n++
		g := factGuards(cb, s.Block(), factBool(func(v ssa.Value) bool {
			if call, ok := isTimeCall(v, "After"); ok {
				return isExp(call.Call.Args[0]) && isNow(call.Call.Args[1])
			}
			if call, ok := isTimeCall(v, "Before"); ok {
				return isNow(call.Call.Args[0]) && isExp(call.Call.Args[1])
			}
			return false
		}, true))
		c.check(g, name+":expiry-guard", P.ipos(s), "Send is dominated by m.exp.After(now)", "an event can be replayed without m.exp.After(now) holding: expired events (now >= Put time + TTL) are replayed")
	})
	if n == 0 {
		c.bad(name+":expiry-guard", P.pos(cb.Pos()), "no Send in the callback")
	}
}

func r09_2(c *Ctx) {
	P := c.P
	fn := P.Fn("(*ValidReplayer).Put")
	if fn == nil {
		c.anchor("(*ValidReplayer).Put")
		return
	}
	name := fnLabel(fn)
	var nows []*ssa.Call
	var enq *ssa.Call
	eachInstrDeep(fn, func(in ssa.Instruction) {
		if call, ok := in.(*ssa.Call); ok && call.Call.StaticCallee() == nil && !call.Call.IsInvoke() {
			if _, ok := isFieldLoad(call.Call.Value, "ValidReplayer", "Now"); ok {
				nows = append(nows, call)
			}
		}
		if q := isQueueCall(in, "enqueue"); q != nil {
			enq = q
		}
	})
	if !c.check(len(nows) == 1, name+":single-now", P.pos(fn.Pos()), "Put reads the clock exactly once", "Put reads the clock "+itoa(len(nows))+" times: the expiry stamp and the GC decision may use different instants") || enq == nil {
		if enq == nil {
			c.bad(name+":stamp", P.pos(fn.Pos()), "Put does not enqueue")
		}
		return
	}
	now := nows[0]
	// stored exp
	stampOK := false
	if a, ok := loadedFrom(enq.Call.Args[1]); ok {
		for _, r := range *a.Referrers() {
			fa, ok := r.(*ssa.FieldAddr)
			if !ok {
				continue
			}
			if _, ok := isFieldSel(fa, "messageWithTopicsAndExpiry", "exp"); !ok {
				continue
			}
			for _, rr := range *fa.Referrers() {
				if st, ok := rr.(*ssa.Store); ok && st.Addr == ssa.Value(fa) {
					if add, ok := isTimeCall(st.Val, "Add"); ok && carriesOnly(add.Call.Args[0], now) {
						if _, ok := isFieldLoad(add.Call.Args[1], "ValidReplayer", "ttl"); ok {
							stampOK = true
						}
					}
				}
			}
		}
	}
	c.check(stampOK, name+":stamp", P.ipos(enq), "exp = now.Add(v.ttl) with this Put's now", "the stored expiry is not (this Put's v.Now()).Add(v.ttl)")
	// GC decision uses the same now
	gcOK := true
	nGC := 0
	eachInstrDeep(fn, func(in ssa.Instruction) {
		if call, ok := isModCall(in, "(*ValidReplayer).doGC"); ok {
			nGC++
			if !carriesOnly(call.Call.Args[1], now) {
				gcOK = false
			}
		}
		// the due test (now - lastGC), wherever it is written
		if sub, ok := isStaticCall(in, "(time.Time).Sub"); ok {
			if _, l := isFieldLoad(sub.Call.Args[1], "ValidReplayer", "lastGC"); l {
				nGC++
				if !carriesOnly(sub.Call.Args[0], now) {
					gcOK = false
				}
			}
		}
	})
	c.check(gcOK && nGC >= 2, name+":gc-now", P.pos(fn.Pos()), "shouldGC/doGC receive the same now", "the GC decision/collection does not use this Put's now")
	// every collection, wherever it is started (the exported GC as well), measures expiry on the replayer's
	// own clock - the one the stamps were taken from
	inPut := map[*ssa.Function]bool{}
	for _, g := range regionFuncs(fn) {
		inPut[g] = true
	}
	for _, f := range P.Funcs {
		if inPut[f] || f.Synthetic != "" {
			continue // Put's own collection (also inside an inlined helper) is decided by gc-now above
		}
		eachInstr(f, func(in ssa.Instruction) {
			call, ok := isModCall(in, "(*ValidReplayer).doGC")
			if !ok {
				return
			}
			good := true
			src := sources(call.Call.Args[1])
			if len(src) == 0 {
				src = []ssa.Value{call.Call.Args[1]}
			}
			for _, sv := range src {
				nc, isC := sv.(*ssa.Call)
				if !isC || nc.Call.StaticCallee() != nil || nc.Call.IsInvoke() {
					good = false
					continue
				}
				b, isNow := isFieldLoad(nc.Call.Value, "ValidReplayer", "Now")
				if !isNow || !carriesOnly(b, call.Call.Args[0]) && b != call.Call.Args[0] {
					good = false
				}
			}
			c.check(good, fnLabel(f)+":gc-clock", P.ipos(call), "the collection is given the replayer's own v.Now()", "a collection is run with a time that is not the replayer's v.Now() (the clock the expiry stamps were taken from): with an injected clock unexpired events are dropped, or expired ones kept")
		})
	}
	// ttl is only written by the constructor, with the validated positive parameter
	for _, a := range P.fieldAccesses("ValidReplayer", "ttl") {
		if a.Kind != "write" {
			continue
		}
		st := a.Use.(*ssa.Store)
		p, isP := st.Val.(*ssa.Parameter)
		good := isP
		if good {
			good = false
			// any integer comparison that establishes ttl >= 1 on the way to the store (ttl <= 0, ttl < 1, ttl > 0, …)
			good = intGuard(a.Fn, st.Block(), func(v ssa.Value) bool { return v == ssa.Value(p) }, negInf, 1, posInf)
		}
		c.check(good, fnLabel(a.Fn)+":ttl-write", P.ipos(st), "ttl is set from the constructor's parameter under ttl > 0", "ttl is written without the positive-TTL check")
	}
}

func r09_3(c *Ctx) {
	P := c.P
	n := 0
	for _, fn := range P.Funcs {
		if fn.Signature.Recv() == nil || !typeIs(fn.Signature.Recv().Type(), "sse", "ValidReplayer") {
			continue
		}
		var nowP *ssa.Parameter
		for _, p := range fn.Params {
			if p.Type().String() == "time.Time" {
				nowP = p
			}
		}
		eachInstr(fn, func(in ssa.Instruction) {
			dq := isQueueCall(in, "dequeue")
			if dq == nil {
				return
			}
			n++
			name := fnLabel(fn) + ":dequeue"
			g := false
			for _, ifi := range ifsIn(fn) {
				succ, ok := boolEdge(ifi, func(v ssa.Value) bool {
					call, ok := isTimeCall(v, "After")
					if !ok || nowP == nil || call.Call.Args[1] != ssa.Value(nowP) {
						return false
					}
					return isHeadExp(call.Call.Args[0])
				})
				if ok && edgeDominates(ifi.Block(), 1-succ, dq.Block()) {
					g = true
				}
			}
			c.check(g, name, P.ipos(dq), "dequeue only when the head element's expiry is not after now", "a message can be dequeued without its expiry having passed: an unexpired event is dropped by garbage collection")
		})
	}
	if n == 0 {
		c.bad("ValidReplayer:dequeue", "-", "no dequeue call under ValidReplayer: expired messages are never collected")
	}
}

// isHeadExp: v is the exp field of buf[head] (through a local copy).
func isHeadExp(v ssa.Value) bool {
	base, ok := isFieldLoad(v, "messageWithTopicsAndExpiry", "exp")
	if !ok {
		return false
	}
	isHeadElem := func(x ssa.Value) bool {
		a, ok := loadedFrom(x)
		if !ok {
			return false
		}
		ia, ok := a.(*ssa.IndexAddr)
		if !ok {
			return false
		}
		_, okB := isFieldLoad(ia.X, "queue", "buf")
		_, okH := isFieldLoad(ia.Index, "queue", "head")
		return okB && okH
	}
	if ia, ok := base.(*ssa.IndexAddr); ok {
		_, okB := isFieldLoad(ia.X, "queue", "buf")
		_, okH := isFieldLoad(ia.Index, "queue", "head")
		if okB && okH {
			return true
		}
	}
	root := rootAddr(base)
	if al, ok := cellRoot(root).(*ssa.Alloc); ok {
		st, _, esc := cellStores(al)
		return !esc && len(st) == 1 && isHeadElem(st[0])
	}
	if ia, ok := root.(*ssa.IndexAddr); ok {
		_, okB := isFieldLoad(ia.X, "queue", "buf")
		_, okH := isFieldLoad(ia.Index, "queue", "head")
		return okB && okH
	}
	return false
}

func r09_4(c *Ctx) {
	P := c.P
	fn := P.Fn("(*ValidReplayer).Put")
	if fn == nil {
		c.anchor("(*ValidReplayer).Put")
		return
	}
	name := fnLabel(fn)
	var enq, rs *ssa.Call
	eachInstrDeep(fn, func(in ssa.Instruction) {
		if q := isQueueCall(in, "enqueue"); q != nil {
			enq = q
		}
		if q := isQueueCall(in, "resize"); q != nil {
			rs = q
		}
	})
	if enq == nil || rs == nil {
		c.bad(name+":grow", P.pos(fn.Pos()), "Put does not resize before enqueue: a full buffer overwrites its oldest unexpired element")
		return
	}
	isLenBuf := func(v ssa.Value) bool {
		call, ok := v.(*ssa.Call)
		if !ok {
			return false
		}
		b, ok := call.Call.Value.(*ssa.Builtin)
		if !ok || b.Name() != "len" {
			return false
		}
		_, ok = isFieldLoad(call.Call.Args[0], "queue", "buf")
		return ok
	}
	// the full test
	var fullE *cfgEdge
	for _, ifi := range ifsIn(fn) {
		cnd := decodeIf(ifi)
		if cnd.Y == nil {
			continue
		}
		_, xc := isFieldLoad(cnd.X, "queue", "count")
		_, yc := isFieldLoad(cnd.Y, "queue", "count")
		if (xc && isLenBuf(cnd.Y)) || (yc && isLenBuf(cnd.X)) {
			if cnd.Op == token.EQL || cnd.Op == token.GEQ {
				fullE = &cfgEdge{ifi.Block(), cnd.succWhen(true)}
			}
		}
	}
	if fullE == nil {
		c.bad(name+":full-test", P.pos(fn.Pos()), "Put does not test count == len(buf) before enqueueing")
		return
	}
	// every path from the function entry to enqueue either resizes or passes the not-full edge of the test
	skip := reachesAvoiding(entryPoint(fn), enq, func(in ssa.Instruction) bool { return in == ssa.Instruction(rs) }, map[cfgEdge]bool{{fullE.From, 1 - fullE.Idx}: true})
	c.check(!skip, name+":grow", P.ipos(rs), "every path to enqueue either found count != len(buf) or resized first", "a path reaches enqueue without having resized and without having established that the buffer is not full: the oldest unexpired event is overwritten")
	// and nothing on the not-full edge skips: enqueue reachable only via (not full) or (resize)
	// the new capacity: len(buf)*k, k >= 2, possibly floored by a positive constant
	capOK := true
	for _, s := range sources(rs.Call.Args[1]) {
		if k, ok := constInt(s); ok {
			if k <= 0 {
				capOK = false
			}
			continue
		}
		b, ok := s.(*ssa.BinOp)
		if !ok || b.Op != token.MUL {
			capOK = false
			continue
		}
		k, isK := constInt(b.Y)
		if !(isLenBuf(b.X) && isK && k >= 2) {
			k2, isK2 := constInt(b.X)
			if !(isLenBuf(b.Y) && isK2 && k2 >= 2) {
				capOK = false
			}
		}
	}
	c.check(capOK, name+":new-capacity", P.ipos(rs), "the new capacity is len(buf)*k (k >= 2) or a positive floor", "the new capacity is not at least twice the old one / a positive floor: the buffer does not grow")
}

// ---------------------------------------------------------------------------
// C18

func r18_1(c *Ctx) {
	P := c.P
	ctor := P.Fn("NewFiniteReplayer")
	if ctor == nil {
		c.anchor("NewFiniteReplayer")
		return
	}
	// FiniteReplayer methods
	var methods []*ssa.Function
	for _, fn := range P.Funcs {
		if fn.Parent() == nil && fn.Signature.Recv() != nil && typeIs(fn.Signature.Recv().Type(), "sse", "FiniteReplayer") && fn.Synthetic == "" {
			methods = append(methods, fn)
		}
	}
	reach := P.reachFrom(methods...)
	nW := 0
	for _, a := range P.fieldAccesses("queue", "buf") {
		if a.Kind == "addr" {
			c.bad(fnLabel(a.Fn)+":addr(queue.buf)", P.ipos(a.Use), "the address of queue.buf escapes: the buffer can be replaced outside the checked writers")
			continue
		}
		if a.Kind != "write" {
			continue
		}
		nW++
		st := a.Use.(*ssa.Store)
		name := fnLabel(a.Fn) + ":write(queue.buf)"
		if a.Fn == ctor {
			// make([]T, count, count) under count >= 2
			ms, ok := st.Val.(*ssa.MakeSlice)
			good := ok
			if good {
				cnt := ctor.Params[0]
				good = ms.Len == ssa.Value(cnt) && ms.Cap == ssa.Value(cnt)
				g := intGuard(ctor, st.Block(), func(v ssa.Value) bool { return v == ssa.Value(cnt) }, negInf, 1, posInf)
				good = good && g
			}
			c.check(good, name, P.ipos(st), "the constructor allocates exactly `count` slots under a positive-count check", "the FiniteReplayer buffer is not make([]T, count) under the count check: capacity differs from N")
			continue
		}
		if reach[a.Fn] {
			c.bad(name, P.ipos(st), fnLabel(a.Fn)+" replaces queue.buf and is reachable from a FiniteReplayer method: the buffer can grow beyond N slots, so more than N messages stay reachable")
		} else {
			c.ok(name, P.ipos(st), "writer of queue.buf is unreachable from every FiniteReplayer method")
		}
	}
	if nW == 0 {
		c.undecided("write(queue.buf)", "-", "no writer of queue.buf found")
	}
	// element writers: stores through an index into a load of queue.buf only in queue methods
	for _, fn := range P.Funcs {
		if !inSSEPackage(fn) {
			continue
		}
		eachInstr(fn, func(in ssa.Instruction) {
			st, ok := in.(*ssa.Store)
			if !ok {
				return
			}
			ia, ok := rootIndexAddr(st.Addr)
			if !ok {
				return
			}
			if _, ok := isFieldLoad(ia.X, "queue", "buf"); !ok {
				return
			}
			top := fn
			for top.Parent() != nil {
				top = top.Parent()
			}
			isQueueMethod := top.Signature.Recv() != nil && typeIs(top.Signature.Recv().Type(), "sse", "queue")
			c.check(isQueueMethod && (top.Name() == "enqueue" || top.Name() == "dequeue"), fnLabel(fn)+":element-write", P.ipos(st), "buffer slots are written only by enqueue/dequeue", "a buffer slot is written outside enqueue/dequeue")
		})
	}
	// append to queue.buf anywhere?
	for _, fn := range P.Funcs {
		eachInstr(fn, func(in ssa.Instruction) {
			if call, ok := isBuiltin(in, "append"); ok {
				if _, ok := isFieldLoad(call.Common().Args[0], "queue", "buf"); ok {
					c.bad(fnLabel(fn)+":append(queue.buf)", P.ipos(in), "queue.buf is appended to: the buffer can grow")
				}
			}
		})
	}
	// type walk: no other field of FiniteReplayer / queue can hold a message
	if o := P.SSE.Pkg.Scope().Lookup("FiniteReplayer"); o != nil {
		st := o.Type().Underlying().(*types.Struct)
		okT := true
		for i := 0; i < st.NumFields(); i++ {
			f := st.Field(i)
			switch f.Name() {
			case "currentID":
				if f.Type().String() != "*uint64" {
					okT = false
				}
			case "buf":
				if !typeIs(f.Type(), "sse", "queue") {
					okT = false
				}
			default:
				okT = false
			}
		}
		c.check(okT, "FiniteReplayer:fields", P.pos(o.Pos()), "FiniteReplayer has only the counter and the queue", "FiniteReplayer has a field besides the counter and the queue that may retain messages")
	} else {
		c.anchor("type FiniteReplayer")
	}
	if o := P.SSE.Pkg.Scope().Lookup("queue"); o != nil {
		st, _ := o.Type().Underlying().(*types.Struct)
		okT := st != nil
		if okT {
			for i := 0; i < st.NumFields(); i++ {
				f := st.Field(i)
				if f.Name() == "buf" {
					continue
				}
				if b, ok := f.Type().Underlying().(*types.Basic); !ok || b.Info()&types.IsInteger == 0 {
					okT = false
				}
			}
		}
		c.check(okT, "queue:fields", P.pos(o.Pos()), "queue has only the slice and integer indices", "queue has a non-integer field besides buf that may retain elements")
	} else {
		c.anchor("type queue")
	}
}

func rootIndexAddr(a ssa.Value) (*ssa.IndexAddr, bool) {
	for {
		switch x := a.(type) {
		case *ssa.IndexAddr:
			return x, true
		case *ssa.FieldAddr:
			a = x.X
		default:
			return nil, false
		}
	}
}

func queueMethod(P *Program, name string) *ssa.Function {
	for _, fn := range P.Funcs {
		if fn.Parent() == nil && fn.Name() == name && fn.Signature.Recv() != nil && typeIs(fn.Signature.Recv().Type(), "sse", "queue") && fn.Synthetic == "" && fn.TypeParams().Len() > 0 {
			return fn
		}
	}
	// generic body: the function with type parameters in its receiver
	for _, fn := range P.Funcs {
		if fn.Parent() == nil && fn.Name() == name && fn.Signature.Recv() != nil && typeIs(fn.Signature.Recv().Type(), "sse", "queue") && fn.Synthetic == "" {
			return fn
		}
	}
	return nil
}

func r18_2(c *Ctx) {
	P := c.P
	fn := queueMethod(P, "dequeue")
	if fn == nil {
		c.anchor("queue.dequeue")
		return
	}
	name := fnLabel(fn)
	var zero *ssa.Store
	var moves []*ssa.Store
	eachInstrDeep(fn, func(in ssa.Instruction) {
		st, ok := in.(*ssa.Store)
		if !ok {
			return
		}
		if ia, ok := st.Addr.(*ssa.IndexAddr); ok {
			_, okB := isFieldLoad(ia.X, "queue", "buf")
			_, okH := isFieldLoad(ia.Index, "queue", "head")
			if okB && okH && isZeroValue(st.Val) {
				zero = st
			}
			return
		}
		if _, n, _, ok := fieldSel(st.Addr); ok && (n == "head" || n == "count") {
			moves = append(moves, st)
		}
	})
	if zero == nil {
		c.bad(name+":zero-slot", P.pos(fn.Pos()), "dequeue does not store the zero value into buf[head]: the collected message stays reachable from the buffer")
	} else {
		// only the read index matters for which slot is cleared; the count may be updated on either side
		okOrder, headMoves := len(moves) > 0, 0
		for _, m := range moves {
			if _, n, _, _ := fieldSel(m.Addr); n != "head" {
				continue
			}
			headMoves++
			if !instrDominates(zero, m) {
				okOrder = false
			}
		}
		okOrder = okOrder && headMoves > 0
		c.check(okOrder, name+":zero-slot", P.ipos(zero), "buf[head] is zeroed before head/count move", "head/count are updated before (or without) zeroing buf[head]: a different slot is cleared")
	}
	// count decremented only in dequeue (and rewritten nowhere except enqueue's increment)
	for _, a := range P.fieldAccesses("queue", "count") {
		if a.Kind != "write" {
			continue
		}
		st := a.Use.(*ssa.Store)
		if _, same := isFieldLoad(st.Val, "queue", "count"); same {
			// the count is carried over unchanged (a rebuilt queue value, e.g. `*q = queue[T]{…, count: q.count}`)
			c.ok(fnLabel(a.Fn)+":count-write", P.ipos(st), "count is carried over unchanged")
			continue
		}
		b, ok := st.Val.(*ssa.BinOp)
		good := ok
		if good {
			k, isK := constInt(b.Y)
			_, isLoad := isFieldLoad(b.X, "queue", "count")
			switch {
			case b.Op == token.SUB && isK && k == 1 && isLoad:
				good = a.Fn == fn
			case b.Op == token.ADD && isK && k == 1 && isLoad:
				good = a.Fn.Name() == "enqueue"
			default:
				good = false
			}
		}
		c.check(good, fnLabel(a.Fn)+":count-write", P.ipos(st), "count changes by one, in enqueue/dequeue only", "queue.count is written in another way: the GC loop's notion of emptiness no longer matches the buffer")
	}
}

// isZeroValue: const zero, or `*new(T)` (a load of a fresh never-written Alloc).
func isZeroValue(v ssa.Value) bool {
	if isZeroConst(v) {
		return true
	}
	if a, ok := loadedFrom(v); ok {
		if al, ok := a.(*ssa.Alloc); ok {
			st, _, esc := cellStores(al)
			return !esc && len(st) == 0
		}
	}
	return false
}

func r18_3(c *Ctx) {
	P := c.P
	fn := queueMethod(P, "resize")
	if fn == nil {
		c.anchor("queue.resize")
		return
	}
	name := fnLabel(fn)
	var mk *ssa.MakeSlice
	eachInstrDeep(fn, func(in ssa.Instruction) {
		if m, ok := in.(*ssa.MakeSlice); ok {
			mk = m
		}
	})
	fresh := false
	for _, a := range P.fieldAccesses("queue", "buf") {
		if a.Kind == "write" && a.Fn == fn {
			st := a.Use.(*ssa.Store)
			fresh = mk != nil && st.Val == ssa.Value(mk) && mk.Len == ssa.Value(fn.Params[1])
		}
	}
	c.check(fresh, name+":fresh-buffer", P.pos(fn.Pos()), "q.buf is assigned a slice made in this call with the requested size", "resize does not install a freshly made buffer of the requested size")
	// the old slice is only read: loads of q.buf flow only to len, slicing and copy sources
	keeps := false
	eachInstrDeep(fn, func(in ssa.Instruction) {
		st, ok := in.(*ssa.Store)
		if !ok {
			return
		}
		for _, s := range sources(st.Val) {
			x := s
			for {
				if sl, ok := x.(*ssa.Slice); ok {
					x = sl.X
					continue
				}
				break
			}
			if _, ok := isFieldLoad(x, "queue", "buf"); ok {
				keeps = true
			}
		}
	})
	c.check(!keeps, name+":old-buffer-dropped", P.pos(fn.Pos()), "the old buffer is stored nowhere", "resize stores (a slice of) the old buffer somewhere: collected messages stay reachable")
	// head/tail re-based
	var headZero, tailCount bool
	eachInstrDeep(fn, func(in ssa.Instruction) {
		st, ok := in.(*ssa.Store)
		if !ok {
			return
		}
		if _, n, _, ok := fieldSel(st.Addr); ok {
			if n == "head" {
				k, isK := constInt(st.Val)
				headZero = isK && k == 0
			}
			if n == "tail" {
				_, tailCount = isFieldLoad(st.Val, "queue", "count")
			}
		}
	})
	c.check(headZero && tailCount, name+":rebase", P.pos(fn.Pos()), "after resize head = 0 and tail = count", "resize does not re-base head to 0 and tail to count")
}

func r18_4(c *Ctx) {
	P := c.P
	fn := P.Fn("(*ValidReplayer).doGC")
	if fn == nil {
		c.anchor("(*ValidReplayer).doGC")
		return
	}
	var dq *ssa.Call
	eachInstrDeep(fn, func(in ssa.Instruction) {
		if q := isQueueCall(in, "dequeue"); q != nil {
			dq = q
		}
	})
	if dq == nil {
		c.bad(fnLabel(fn)+":gc-loop", P.pos(fn.Pos()), "doGC never dequeues")
		return
	}
	loops := loopsContaining(fn, dq.Block())
	if len(loops) != 1 {
		c.bad(fnLabel(fn)+":gc-loop", P.ipos(dq), "dequeue is not inside exactly one loop: at most one element is collected per run")
		return
	}
	l := loops[0]
	// exit edges of the loop
	var nowP *ssa.Parameter
	for _, p := range fn.Params {
		if p.Type().String() == "time.Time" {
			nowP = p
		}
	}
	ok := true
	nExit := 0
	for b := range l.Blocks {
		for i, s := range b.Succs {
			if l.Blocks[s] {
				continue
			}
			nExit++
			ifi, isIf := b.Instrs[len(b.Instrs)-1].(*ssa.If)
			if !isIf {
				ok = false
				continue
			}
			good := false
			// count > 0 false edge
			if op, k, succ, okc := cmpConstEdge(ifi, func(v ssa.Value) bool { _, ok := isFieldLoad(v, "queue", "count"); return ok }); okc && k == 0 {
				if (op == token.GTR && i == 1-succ) || (op == token.NEQ && i == 1-succ) || (op == token.EQL && i == succ) || (op == token.LEQ && i == succ) {
					good = true
				}
			}
			// unexpired edge
			if succ, okb := boolEdge(ifi, func(v ssa.Value) bool {
				call, ok := isTimeCall(v, "After")
				return ok && nowP != nil && call.Call.Args[1] == ssa.Value(nowP) && isHeadExp(call.Call.Args[0])
			}); okb && i == succ {
				good = true
			}
			if !good {
				ok = false
			}
		}
	}
	c.check(ok && nExit >= 2, fnLabel(fn)+":gc-loop", P.ipos(dq), "the collection loop exits only when the queue is empty or the head is unexpired", "the collection loop can exit while the head element is expired (e.g. after one element): expired messages stay reachable after a collection")
}

// ---------------------------------------------------------------------------
// C19

func r19_1(c *Ctx) {
	P := c.P
	var roots []*ssa.Function
	for _, ri := range findReplayers(P) {
		if ri.put != nil {
			roots = append(roots, ri.put)
		}
	}
	if f := P.Fn("(*Joe).Publish"); f != nil {
		roots = append(roots, f)
	} else {
		c.anchor("(*Joe).Publish")
	}
	if f := P.Fn("(*Server).Publish"); f != nil {
		roots = append(roots, f)
	}
	jp := findJoe(P)
	if jp.loop != nil {
		roots = append(roots, jp.loop)
	}
	reach := P.reachFrom(roots...)
	n, bad := 0, 0
	for _, fn := range P.Funcs {
		if !reach[fn] || !inSSEPackage(fn) {
			continue
		}
		n++
		eachInstr(fn, func(in ssa.Instruction) {
			var addr ssa.Value
			switch x := in.(type) {
			case *ssa.Store:
				addr = x.Addr
			case *ssa.MapUpdate:
				addr = x.Map
			default:
				return
			}
			root, through := messageRoot(addr)
			if _, isStore := in.(*ssa.Store); isStore && !through && isPtrToMessage(addr.Type()) {
				// `*p = v` with p a *Message: the whole message is overwritten
				if _, isAlloc := addr.(*ssa.Alloc); !isAlloc {
					root, through = stripPhi(addr), true
				}
			}
			if !through {
				return
			}
			switch r := root.(type) {
			case *ssa.Alloc:
				return // fresh message (Clone's composite literal, new(Message))
			case *ssa.Call:
				if _, ok := isModCall(r, "(*Message).Clone"); ok {
					return
				}
			}
			bad++
			c.bad(fnLabel(fn)+":store-through-message", P.ipos(in), "a store goes through a *Message that is not a fresh copy ("+describe(root)+") in a function reachable from Put/Publish: the caller's message is modified")
		})
	}
	if bad == 0 {
		c.ok("put-publish-reach:no-message-store", "-", itoa(n)+" functions reachable from Put/Publish/the loop contain no store through a caller's *Message")
	}
	c.ok("put-publish-reach:roots", "-", itoa(len(roots))+" roots (Replayer.Put implementations, Joe.Publish, Server.Publish, Joe's loop)")
	c.ok("put-publish-reach:functions", "-", itoa(n)+" functions analysed")
}

// messageRoot follows an address back through field/index selections and
// pointer loads; through reports whether a *Message was dereferenced on the
// way, root is the value the *Message came from.
func messageRoot(addr ssa.Value) (root ssa.Value, through bool) {
	v := addr
	for i := 0; i < 32; i++ {
		switch x := v.(type) {
		case *ssa.FieldAddr:
			if typeIs(x.X.Type(), "sse", "Message") && isPointer(x.X.Type()) {
				// x.X is the *Message
				return stripPhi(x.X), true
			}
			v = x.X
		case *ssa.IndexAddr:
			v = x.X
		case *ssa.UnOp:
			if x.Op != token.MUL {
				return v, false
			}
			v = x.X
		case *ssa.Slice:
			v = x.X
		default:
			return v, false
		}
	}
	return v, false
}

func isPtrToMessage(t types.Type) bool {
	p, ok := t.Underlying().(*types.Pointer)
	if !ok {
		return false
	}
	n, ok := p.Elem().(*types.Named)
	return ok && n.Obj().Name() == "Message" && n.Obj().Pkg() != nil && n.Obj().Pkg().Path() == modPath
}

func stripPhi(v ssa.Value) ssa.Value {
	s := sources(v)
	if len(s) == 1 {
		return s[0]
	}
	return v
}

func r19_2(c *Ctx) {
	P := c.P
	fn := P.Fn("(*Message).Clone")
	if fn == nil {
		c.anchor("(*Message).Clone")
		return
	}
	name := fnLabel(fn)
	// the chunks field of the result
	var chunksStore *ssa.Store
	eachInstrDeep(fn, func(in ssa.Instruction) {
		if st, ok := in.(*ssa.Store); ok {
			if b, ok := isFieldSel(st.Addr, "Message", "chunks"); ok {
				if _, isAlloc := b.(*ssa.Alloc); isAlloc {
					chunksStore = st
				}
			}
		}
	})
	capped := false
	if chunksStore != nil {
		switch v := chunksStore.Val.(type) {
		case *ssa.Slice:
			if v.Max != nil && v.High != nil && sameValue(v.Max, v.High) {
				if _, ok := isFieldLoad(v.X, "Message", "chunks"); ok {
					capped = true
				}
			}
		case *ssa.Call:
			if b, ok := v.Call.Value.(*ssa.Builtin); ok && b.Name() == "append" {
				if isNilConst(v.Call.Args[0]) {
					capped = true
				}
			}
			if cn := calleeName(v); cn == "slices.Clone" {
				capped = true
			}
		}
	}
	// every field of the clone is taken from the same field of the original
	if o := P.SSE.Pkg.Scope().Lookup("Message"); o != nil {
		st := o.Type().Underlying().(*types.Struct)
		copied := map[string]bool{}
		eachInstrDeep(fn, func(in ssa.Instruction) {
			s2, ok := in.(*ssa.Store)
			if !ok {
				return
			}
			_, n, b, ok := fieldSel(s2.Addr)
			if !ok {
				return
			}
			if _, isAlloc := b.(*ssa.Alloc); !isAlloc || !typeIs(b.Type(), "sse", "Message") {
				return
			}
			for _, sv := range append(sources(s2.Val), s2.Val) {
				x := sv
				if sl, isSl := x.(*ssa.Slice); isSl {
					x = sl.X
				}
				if call, isC := x.(*ssa.Call); isC && len(call.Call.Args) > 0 {
					x = call.Call.Args[len(call.Call.Args)-1] // slices.Clone(e.chunks), append(nil, e.chunks...)
				}
				if rb, ok := isFieldLoad(x, "Message", n); ok && rb == ssa.Value(fn.Params[0]) {
					copied[n] = true
				}
			}
		})
		missing := ""
		for i := 0; i < st.NumFields(); i++ {
			if !copied[st.Field(i).Name()] {
				missing += " " + st.Field(i).Name()
			}
		}
		// a whole-struct copy (`c := *e`) copies everything
		whole := false
		eachInstrDeep(fn, func(in ssa.Instruction) {
			if s2, ok := in.(*ssa.Store); ok {
				if ld, ok := s2.Val.(*ssa.UnOp); ok && ld.Op == token.MUL && ld.X == ssa.Value(fn.Params[0]) {
					if _, isAlloc := s2.Addr.(*ssa.Alloc); isAlloc {
						whole = true
					}
				}
			}
		})
		c.check(missing == "" || whole, name+":copies-every-field", P.pos(fn.Pos()), "the clone takes every field of Message from the original", "Clone does not copy the field(s)"+missing+": the copy Put stores and publishes differs from the caller's message")
	}
	c.check(capped, name+":chunks-capped", P.pos(fn.Pos()), "the clone's chunks are a three-index slice with max == high (the first append reallocates) or a fresh copy",
		"Clone shares the chunks backing array without capping it: appending to the clone (or the original) can overwrite the other's chunks")
	// every other field copied by value; type walk
	if o := P.SSE.Pkg.Scope().Lookup("Message"); o != nil {
		st := o.Type().Underlying().(*types.Struct)
		okT := true
		bad := ""
		for i := 0; i < st.NumFields(); i++ {
			f := st.Field(i)
			if f.Name() == "chunks" {
				// element type must be value-semantic
				if sl, ok := f.Type().Underlying().(*types.Slice); !ok || !valueSemantic(sl.Elem(), 0) {
					okT = false
					bad = "chunks element"
				}
				continue
			}
			if !valueSemantic(f.Type(), 0) {
				okT = false
				bad = f.Name()
			}
		}
		c.check(okT, "Message:fields-value-semantics", P.pos(o.Pos()), "every field of Message other than chunks has value semantics", "Message field "+bad+" has reference semantics and Clone does not deep-copy it: clone and original share state")
	} else {
		c.anchor("type Message")
	}
	// no in-place edit of a chunks element anywhere in the module
	n := 0
	for _, f := range P.Funcs {
		eachInstr(f, func(in ssa.Instruction) {
			st, ok := in.(*ssa.Store)
			if !ok {
				return
			}
			ia, ok := rootIndexAddr(st.Addr)
			if !ok {
				return
			}
			x := ia.X
			for {
				if sl, ok := x.(*ssa.Slice); ok {
					x = sl.X
					continue
				}
				break
			}
			if _, ok := isFieldLoad(x, "Message", "chunks"); ok {
				n++
				c.bad(fnLabel(f)+":in-place-chunk-edit", P.ipos(st), "a chunk of a Message is modified in place: clones sharing the backing array observe the change")
			}
		})
	}
	// ... nor through a builtin or library call that writes the elements of its slice argument
	isChunksView := func(v ssa.Value) bool {
		for _, x := range append(sources(v), v) {
			for {
				if sl, ok := x.(*ssa.Slice); ok {
					x = sl.X
					continue
				}
				break
			}
			if _, ok := isFieldLoad(x, "Message", "chunks"); ok {
				return true
			}
		}
		return false
	}
	inPlace := map[string]bool{"slices.Reverse": true, "slices.Sort": true, "slices.SortFunc": true, "slices.SortStableFunc": true, "slices.Delete": true, "slices.DeleteFunc": true,
		"slices.Insert": true, "slices.Compact": true, "slices.CompactFunc": true, "slices.Replace": true, "sort.Slice": true, "sort.SliceStable": true}
	for _, f := range P.Funcs {
		eachInstr(f, func(in ssa.Instruction) {
			ci, ok := in.(ssa.CallInstruction)
			if !ok || len(ci.Common().Args) == 0 {
				return
			}
			cc := ci.Common()
			writes := false
			if b, isB := cc.Value.(*ssa.Builtin); isB && (b.Name() == "clear" || b.Name() == "copy") {
				writes = true
			}
			if callee := cc.StaticCallee(); callee != nil {
				nm := callee.String()
				if o := callee.Origin(); o != nil {
					nm = o.String()
				}
				if inPlace[nm] {
					writes = true
				}
			}
			if writes && isChunksView(cc.Args[0]) {
				n++
				c.bad(fnLabel(f)+":in-place-chunk-edit", P.ipos(in), "the chunks of a Message are overwritten in place (clear/copy/in-place slice operation): the caller's message and every clone sharing the backing array lose or change their content")
			}
		})
	}
	if n == 0 {
		c.ok("module:no-in-place-chunk-edit", "-", "no store, clear, copy or in-place slice operation in the module writes the elements of a Message's chunks")
	}
	// chunks writers: append results or nil only
	for _, a := range P.fieldAccesses("Message", "chunks") {
		if a.Kind != "write" || a.Fn == fn {
			continue
		}
		st := a.Use.(*ssa.Store)
		good := isNilConst(st.Val) || grownFromChunks(st.Val, map[ssa.Value]bool{}, 0)
		c.check(good, fnLabel(a.Fn)+":write(Message.chunks)", P.ipos(st), "chunks only grow by append or are reset to nil", "Message.chunks is assigned something other than append(e.chunks, ...) or nil")
	}
}

func valueSemantic(t types.Type, depth int) bool {
	if depth > 6 {
		return false
	}
	switch u := t.Underlying().(type) {
	case *types.Basic:
		return u.Kind() != types.UnsafePointer
	case *types.Struct:
		for i := 0; i < u.NumFields(); i++ {
			if !valueSemantic(u.Field(i).Type(), depth+1) {
				return false
			}
		}
		return true
	case *types.Array:
		return valueSemantic(u.Elem(), depth+1)
	}
	return false
}

func r19_3(c *Ctx) {
	P := c.P
	fn := P.Fn("ensureID")
	if fn == nil {
		c.anchor("ensureID")
		return
	}
	n := 0
	eachInstrDeep(fn, func(in ssa.Instruction) {
		st, ok := in.(*ssa.Store)
		if !ok {
			return
		}
		b, ok := isFieldSel(st.Addr, "Message", "ID")
		if !ok {
			return
		}
		n++
		_, isClone := isModCall(b, "(*Message).Clone")
		returned := false
		for _, ret := range returnsOf(fn) {
			for _, s := range sources(ret.Results[0]) {
				if s == b && instrDominates(st, ret) {
					returned = true
				}
			}
		}
		c.check(isClone && returned, fnLabel(fn)+":id-on-clone", P.ipos(st), "the automatic ID is stored into the Clone() result, which is returned", "the automatic ID is stored into the caller's message (or the ID-carrying copy is not what is returned)")
	})
	if n == 0 {
		c.bad(fnLabel(fn)+":id-on-clone", P.pos(fn.Pos()), "ensureID never sets an ID")
	}
}

// R18.5 (opportunistic, reports only a positively identified wrong order): when resize
// linearises a wrapped ring with two copies into the fresh buffer, the copy to offset 0 must
// read the older segment buf[head:] and the copy to the following offset the newer segment
// buf[:tail]. Other shapes are not decided (ring arithmetic is outside this family).
func init() {
	register(&Rule{ID: "R18.5", Title: "resize linearises a wrapped ring oldest-segment first (opportunistic)", Floor: 1, Run: r18_5})
	for _, id := range []string{"C09", "C04"} {
		if p := properties[id]; p != nil {
			p.Rules = append(p.Rules, "R18.5")
			p.Explanation += " R18.5 (opportunistic) when resize copies a wrapped ring in two pieces, the piece placed first is buf[head:] (older events) and the second buf[:tail]; other shapes of resize are reported as not decided, not as violations."
		}
	}
}

func r18_5(c *Ctx) {
	P := c.P
	fn := queueMethod(P, "resize")
	if fn == nil {
		c.anchor("queue.resize")
		return
	}
	var mk *ssa.MakeSlice
	eachInstrDeep(fn, func(in ssa.Instruction) {
		if m, ok := in.(*ssa.MakeSlice); ok {
			mk = m
		}
	})
	type cp struct {
		call    *ssa.Call
		atZero  bool // destination is the fresh buffer itself
		fromLow ssa.Value
		fromHi  ssa.Value
		srcBuf  bool
	}
	byBlock := map[*ssa.BasicBlock][]cp{}
	eachInstrDeep(fn, func(in ssa.Instruction) {
		call, ok := in.(*ssa.Call)
		if !ok {
			return
		}
		b, ok := call.Call.Value.(*ssa.Builtin)
		if !ok || b.Name() != "copy" || mk == nil {
			return
		}
		dst, src := call.Call.Args[0], call.Call.Args[1]
		x := cp{call: call}
		switch d := dst.(type) {
		case *ssa.MakeSlice:
			x.atZero = d == mk
		case *ssa.Slice:
			if d.X != ssa.Value(mk) {
				return
			}
			if d.Low == nil {
				x.atZero = true
			}
		default:
			return
		}
		if s, ok := src.(*ssa.Slice); ok {
			if _, ok := isFieldLoad(s.X, "queue", "buf"); ok {
				x.srcBuf = true
				x.fromLow, x.fromHi = s.Low, s.High
			}
		}
		byBlock[call.Block()] = append(byBlock[call.Block()], x)
	})
	isFld := func(v ssa.Value, f string) bool {
		if v == nil {
			return false
		}
		_, ok := isFieldLoad(v, "queue", f)
		return ok
	}
	decided := false
	for _, cps := range byBlock {
		if len(cps) != 2 || !cps[0].srcBuf || !cps[1].srcBuf {
			continue
		}
		first, second := cps[0], cps[1]
		if !first.atZero || second.atZero {
			continue
		}
		decided = true
		name := fnLabel(fn) + ":wrapped-copy-order"
		good := isFld(first.fromLow, "head") && first.fromHi == nil && second.fromLow == nil && isFld(second.fromHi, "tail")
		wrong := first.fromLow == nil && isFld(first.fromHi, "tail") && isFld(second.fromLow, "head")
		switch {
		case good:
			c.ok(name, P.ipos(first.call), "older segment buf[head:] first, then buf[:tail]")
		case wrong:
			c.bad(name, P.ipos(first.call), "the wrapped ring is linearised newer-segment first (buf[:tail] before buf[head:]): after a grow/shrink of a wrapped buffer events are stored out of Put order, so replay skips, duplicates or reorders events")
		default:
			c.ok(name, P.ipos(first.call), "two-piece copy of an unrecognised shape: order not decided")
		}
	}
	if !decided {
		c.ok(fnLabel(fn)+":wrapped-copy-order", P.pos(fn.Pos()), "resize does not use the two-copy idiom: order preservation is not decided by this rule")
	}
	// the piece buf[:tail] is skipped only where head < tail strictly: a full ring has head == tail and its
	// elements before the write index must be copied too (opportunistic: only when resize copies buf[:tail]
	// under a comparison of head and tail)
	var tailCopy *ssa.Call
	eachInstrDeep(fn, func(in ssa.Instruction) {
		call, ok := in.(*ssa.Call)
		if !ok {
			return
		}
		if b, ok := call.Call.Value.(*ssa.Builtin); !ok || b.Name() != "copy" {
			return
		}
		if sl, ok := call.Call.Args[1].(*ssa.Slice); ok && sl.Low == nil && isFld(sl.High, "tail") {
			if _, ok := isFieldLoad(sl.X, "queue", "buf"); ok {
				tailCopy = call
			}
		}
	})
	if tailCopy != nil {
		verdict := ""
		for _, ifi := range ifsIn(fn) {
			cnd := decodeIf(ifi)
			if cnd.Y == nil {
				continue
			}
			x, y, op := cnd.X, cnd.Y, cnd.Op
			if isFld(x, "tail") && isFld(y, "head") {
				x, y, op = y, x, flipOp(op)
			}
			if !isFld(x, "head") || !isFld(y, "tail") {
				continue
			}
			// op relates head ? tail; find the edge that skips the tail copy
			for e := 0; e < 2; e++ {
				if edgeDominates(ifi.Block(), e, tailCopy.Block()) {
					continue
				}
				if !edgeDominates(ifi.Block(), 1-e, tailCopy.Block()) {
					continue // this comparison does not decide the tail copy
				}
				// relation established on the skipping edge e
				rel := op
				if e != cnd.succWhen(true) {
					rel = map[token.Token]token.Token{token.LSS: token.GEQ, token.LEQ: token.GTR, token.GTR: token.LEQ, token.GEQ: token.LSS, token.EQL: token.NEQ, token.NEQ: token.EQL}[op]
				}
				if rel == token.LSS {
					verdict = "ok"
				} else if verdict == "" {
					verdict = "head " + rel.String() + " tail"
				}
			}
		}
		switch verdict {
		case "ok":
			c.ok(fnLabel(fn)+":wrapped-copy-guard", P.ipos(tailCopy), "buf[:tail] is skipped only where head < tail")
		case "":
			c.ok(fnLabel(fn)+":wrapped-copy-guard", P.ipos(tailCopy), "not decided: the copy of buf[:tail] is not governed by a comparison of head and tail")
		default:
			c.bad(fnLabel(fn)+":wrapped-copy-guard", P.ipos(tailCopy), "the copy of buf[:tail] is skipped where only "+verdict+" is known: a full ring (head == tail > 0) loses the elements stored before the write index when it is resized")
		}
	}
}

// R08.5: start-index protocol between findIDInQueue and queue.each.
// each(startAt) treats startAt == tail as "the whole ring" (that is how a full
// ring is iterated from its head). A position computed from a *found* ID must
// therefore never be returned while it may equal the write index: "nothing after
// it" has to be reported as -1. Every non-negative return of findIDInQueue is
// accepted only if, on every path, the returned value is the constant -1, is
// q.head itself (replay everything from the oldest element), or was compared
// with q.tail after its last modification and found different.
func init() {
	register(&Rule{ID: "R08.5", Title: "lookup/iteration protocol: a found position equal to the write index is reported as -1", Floor: 2, Run: r08_5})
	for _, id := range []string{"C08", "C09", "C04"} {
		if p := properties[id]; p != nil {
			p.Rules = append(p.Rules, "R08.5")
			p.Explanation += " R08.5 each(startAt) iterates the whole ring when startAt equals the write index, so findIDInQueue may return a non-negative index only if it is q.head itself (replay everything) or was compared with q.tail after its last modification and found different — this is the structural part of 'the newest ID replays nothing' (path enumeration over findIDInQueue)."
		}
	}
}

type protoVerdict struct {
	bad  bool
	desc string
}

// lookupProtocol analyses one (loop-free) lookup function: for each return, is the returned
// index -1, q.head, or compared with q.tail after its last modification? A return that passes on
// the result of another module lookup function is fine iff that function is.
func lookupProtocol(fn *ssa.Function, depth int) (map[*ssa.Return]*protoVerdict, string) {
	if len(loopsOf(fn)) > 0 {
		return nil, "the function contains a loop; the path enumeration of this rule does not apply"
	}
	isTail := func(v ssa.Value) bool { _, ok := isFieldLoad(v, "queue", "tail"); return ok }
	isHead := func(v ssa.Value) bool { _, ok := isFieldLoad(v, "queue", "head"); return ok }
	type st struct {
		cell    map[ssa.Value]string
		checked map[ssa.Value]bool
		neg     map[ssa.Value]bool
		phi     map[*ssa.Phi]ssa.Value
	}
	clone := func(s *st) *st {
		n := &st{cell: map[ssa.Value]string{}, checked: map[ssa.Value]bool{}, neg: map[ssa.Value]bool{}, phi: map[*ssa.Phi]ssa.Value{}}
		for k, v := range s.cell {
			n.cell[k] = v
		}
		for k, v := range s.checked {
			n.checked[k] = v
		}
		for k, v := range s.neg {
			n.neg[k] = v
		}
		for k, v := range s.phi {
			n.phi[k] = v
		}
		return n
	}
	loadState := map[ssa.Value]string{}
	results := map[*ssa.Return]*protoVerdict{}
	var classify func(s *st, v ssa.Value) string
	classify = func(s *st, v ssa.Value) string {
		if k, ok := constInt(v); ok {
			if k == -1 {
				return "neg1"
			}
			return "unknown"
		}
		if isHead(v) {
			return "head"
		}
		if s.neg[v] {
			return "neg1"
		}
		if s.checked[v] {
			return "checked"
		}
		if p, ok := v.(*ssa.Phi); ok {
			if r, ok := s.phi[p]; ok {
				return classify(s, r)
			}
		}
		if ls, ok := loadState[v]; ok {
			return ls
		}
		// the result of another lookup function of the module
		if call, ok := v.(*ssa.Call); ok && depth < 3 {
			callee := call.Call.StaticCallee()
			if callee != nil && callee.Blocks == nil && callee.Origin() != nil {
				callee = callee.Origin()
			}
			if callee != nil && callee != fn && callee.Blocks != nil && inSSEPackage(callee) {
				// instantiation wrappers forward to the generic body
				target := callee
				if callee.Synthetic != "" {
					eachInstrDeep(callee, func(in ssa.Instruction) {
						if c2, ok := in.(*ssa.Call); ok {
							if g := c2.Call.StaticCallee(); g != nil && g.Blocks != nil {
								target = g
							}
						}
					})
				}
				sub, why := lookupProtocol(target, depth+1)
				if why == "" && len(sub) > 0 {
					all := true
					for _, v := range sub {
						if v.bad {
							all = false
						}
					}
					if all {
						return "checked"
					}
				}
			}
		}
		return "unknown"
	}
	nPaths := 0
	var walk func(b *ssa.BasicBlock, pred *ssa.BasicBlock, s *st, depthW int)
	walk = func(b *ssa.BasicBlock, pred *ssa.BasicBlock, s *st, depthW int) {
		if depthW > 64 || nPaths > 20000 {
			return
		}
		for _, in := range b.Instrs {
			switch x := in.(type) {
			case *ssa.Phi:
				for i, p := range b.Preds {
					if p == pred {
						s.phi[x] = x.Edges[i]
					}
				}
			case *ssa.Store:
				if al, ok := cellRoot(x.Addr).(*ssa.Alloc); ok && x.Addr == ssa.Value(al) && al.Type().String() == "*int" {
					s.cell[al] = classify(s, x.Val)
					if s.cell[al] == "checked" {
						s.cell[al] = "unknown"
					}
				}
			case *ssa.UnOp:
				if x.Op == token.MUL {
					if al, ok := cellRoot(x.X).(*ssa.Alloc); ok && x.X == ssa.Value(al) && al.Type().String() == "*int" {
						stt, ok := s.cell[al]
						if !ok {
							stt = "unknown"
						}
						loadState[x] = stt
					}
				}
			case *ssa.Call:
				for _, a := range x.Call.Args {
					if mc, ok := a.(*ssa.MakeClosure); ok {
						for _, bnd := range mc.Bindings {
							if al, ok := bnd.(*ssa.Alloc); ok {
								if _, tracked := s.cell[al]; tracked {
									s.cell[al] = "unknown"
								}
							}
						}
					}
				}
			case *ssa.If:
				cnd := decodeIf(x)
				for idx := 0; idx < 2; idx++ {
					ns := clone(s)
					if cnd.Y != nil && (cnd.Op == token.EQL || cnd.Op == token.NEQ) {
						eqEdge := cnd.succWhen(cnd.Op == token.EQL)
						var val ssa.Value
						switch {
						case isTail(cnd.Y):
							val = cnd.X
						case isTail(cnd.X):
							val = cnd.Y
						}
						mark := func(v ssa.Value, what string) {
							if what == "checked" {
								ns.checked[v] = true
							} else {
								ns.neg[v] = true
							}
							if a, ok := loadedFrom(v); ok {
								if al, ok := cellRoot(a).(*ssa.Alloc); ok && a == ssa.Value(al) {
									cur := ns.cell[al]
									if what == "neg1" || cur == "unknown" || cur == "" {
										ns.cell[al] = what
									}
								}
							}
						}
						if val != nil && idx != eqEdge {
							mark(val, "checked")
						}
						if k, ok := constInt(cnd.Y); ok && k == -1 && idx == eqEdge {
							mark(cnd.X, "neg1")
						}
					}
					// the same sentinel test written as a sign test (i < 0, !(i >= 0), i <= -1, !(i > -1)): the
					// callers treat every negative result as "nothing to replay"
					if k, ok := constInt(cnd.Y); ok && cnd.Y != nil {
						negWhen := -1
						switch {
						case cnd.Op == token.LSS && k == 0, cnd.Op == token.LEQ && k == -1:
							negWhen = cnd.succWhen(true)
						case cnd.Op == token.GEQ && k == 0, cnd.Op == token.GTR && k == -1:
							negWhen = cnd.succWhen(false)
						}
						if negWhen == idx {
							ns.neg[cnd.X] = true
							if a, ok := loadedFrom(cnd.X); ok {
								if al, ok := cellRoot(a).(*ssa.Alloc); ok && a == ssa.Value(al) {
									ns.cell[al] = "neg1"
								}
							}
						}
					}
					walk(b.Succs[idx], b, ns, depthW+1)
				}
				return
			case *ssa.Jump:
				walk(b.Succs[0], b, s, depthW+1)
				return
			case *ssa.Return:
				nPaths++
				v := results[x]
				if v == nil {
					v = &protoVerdict{}
					results[x] = v
				}
				if len(x.Results) == 1 {
					if classify(s, x.Results[0]) == "unknown" {
						v.bad = true
						v.desc = describe(x.Results[0])
					}
				}
				return
			case *ssa.Panic:
				return
			}
		}
	}
	walk(fn.Blocks[0], nil, &st{cell: map[ssa.Value]string{}, checked: map[ssa.Value]bool{}, neg: map[ssa.Value]bool{}, phi: map[*ssa.Phi]ssa.Value{}}, 0)
	return results, ""
}

func r08_5(c *Ctx) {
	P := c.P
	var fn *ssa.Function
	for _, f := range P.Funcs {
		if f.Parent() == nil && f.Name() == "findIDInQueue" && f.Synthetic == "" && inSSEPackage(f) {
			fn = f
		}
	}
	if fn == nil {
		c.anchor("findIDInQueue")
		return
	}
	// the ring is only walked, and its head element only read, when it holds something: an empty ring has
	// head == tail, which queue.each takes for "full", so every slot - all zero values - is visited
	{
		isCount := func(v ssa.Value) bool { _, ok := isFieldLoad(v, "queue", "count"); return ok }
		var unguarded ssa.Instruction
		nScan := 0
		eachInstr(fn, func(in ssa.Instruction) {
			if isQueueCall(in, "each") == nil {
				return
			}
			nScan++
			if !intGuard(fn, in.Block(), isCount, 0, 1, posInf) {
				unguarded = in
			}
		})
		if nScan > 0 {
			pos := P.pos(fn.Pos())
			if unguarded != nil {
				pos = P.ipos(unguarded)
			}
			c.check(unguarded == nil, fnLabel(fn)+":scan-only-when-non-empty", pos, "the buffer is searched only where count != 0 was established",
				"the buffer is searched although it may be empty: with head == tail queue.each visits every slot, and the ID of a zero slot's nil message is read (a panic, after which Joe disables the replayer for everybody)")
		}
	}
	results, why := lookupProtocol(fn, 0)
	if why != "" {
		c.undecided(fnLabel(fn)+":protocol", P.pos(fn.Pos()), why)
		return
	}
	i := 0
	for _, ret := range returnsOf(fn) {
		v := results[ret]
		name := fnLabel(fn) + ":return#" + itoa(i)
		i++
		if v == nil {
			c.ok(name, P.ipos(ret), "unreachable return")
			continue
		}
		if v.bad {
			c.bad(name, P.ipos(ret), "a position that was not compared with the write index (q.tail) after its last modification can be returned ("+v.desc+"); when it equals q.tail — the ID presented is the newest one — queue.each replays the whole buffer instead of nothing",
				"failing history: FiniteReplayer(N=3, auto IDs), Put a b c, Replay with Last-Event-ID 2 (the newest) -> a b c are replayed again; with manual IDs the same happens whenever the write index has wrapped to 0")
		} else {
			c.ok(name, P.ipos(ret), "the returned index is -1, q.head, or was found different from q.tail after its last modification")
		}
	}
}

// R18.6: the GC clock (ValidReplayer.lastGC) advances only when it is initialised (IsZero) or
// when a collection has just run; otherwise frequent Puts would postpone collection forever.
func init() {
	register(&Rule{ID: "R18.6", Title: "lastGC advances only on initialisation or right after a collection", Floor: 2, Run: r18_6})
	for _, id := range []string{"C18"} {
		if p := properties[id]; p != nil {
			p.Rules = append(p.Rules, "R18.6")
			p.Explanation += " R18.6 ValidReplayer.lastGC is assigned only this Put's now, and only when it was zero or right after doGC ran under shouldGC (frequent Puts must not postpone the collection forever); shouldGC compares now-lastGC with GCInterval."
		}
	}
}

func r18_6(c *Ctx) {
	P := c.P
	fn := P.Fn("(*ValidReplayer).Put")
	if fn == nil {
		c.anchor("(*ValidReplayer).Put")
		return
	}
	var now *ssa.Call
	eachInstrDeep(fn, func(in ssa.Instruction) {
		if call, ok := in.(*ssa.Call); ok && call.Call.StaticCallee() == nil && !call.Call.IsInvoke() {
			if _, ok := isFieldLoad(call.Call.Value, "ValidReplayer", "Now"); ok {
				now = call
			}
		}
	})
	var gcCall *ssa.Call
	eachInstrDeep(fn, func(in ssa.Instruction) {
		if call, ok := isModCall(in, "(*ValidReplayer).doGC"); ok {
			gcCall = call
		}
	})
	// the due test: now.Sub(v.lastGC) >= v.GCInterval (the predicate helper, if any, is inlined by the
	// normalisation pre-pass, so the comparison is always found in Put's region)
	isDue := func(v ssa.Value) bool {
		b, ok := v.(*ssa.BinOp)
		if !ok {
			return false
		}
		x, y, op := b.X, b.Y, b.Op
		if _, iv := isFieldLoad(x, "ValidReplayer", "GCInterval"); iv {
			x, y, op = y, x, flipOp(op)
		}
		if op != token.GEQ {
			return false
		}
		sub, ok := isTimeCall(x, "Sub")
		if !ok {
			return false
		}
		_, l := isFieldLoad(sub.Call.Args[1], "ValidReplayer", "lastGC")
		_, iv := isFieldLoad(y, "ValidReplayer", "GCInterval")
		return l && iv && now != nil && carriesOnly(sub.Call.Args[0], now)
	}
	dueFact := factBool(isDue, true)
	haveDue := false
	eachInstrDeep(fn, func(in ssa.Instruction) {
		if v, ok := in.(ssa.Value); ok && isDue(v) {
			haveDue = true
		}
	})
	n := 0
	for _, a := range P.fieldAccesses("ValidReplayer", "lastGC") {
		if a.Kind != "write" {
			continue
		}
		n++
		st := a.Use.(*ssa.Store)
		name := fnLabel(a.Fn) + ":write(lastGC)"
		inRegion := false
		for _, rf := range regionFuncs(fn) {
			if a.Fn == rf {
				inRegion = true
			}
		}
		if !inRegion {
			c.bad(name, P.ipos(st), "lastGC is written outside ValidReplayer.Put")
			continue
		}
		valOK := now != nil && carriesOnly(st.Val, now)
		isZero := guardedByBool(fn, st.Block(), func(v ssa.Value) bool {
			call, ok := isTimeCall(v, "IsZero")
			if !ok {
				return false
			}
			_, ok = isFieldLoad(call.Call.Args[0], "ValidReplayer", "lastGC")
			return ok
		}, true)
		afterGC := gcCall != nil && haveDue && (instrDominates(gcCall, st) || instrDominates(st, gcCall)) &&
			factGuards(fn, st.Block(), dueFact) && factGuards(fn, gcCall.Block(), dueFact)
		c.check(valOK && (isZero || afterGC), name, P.ipos(st), "lastGC = now only when it was zero or right after a collection", "lastGC is advanced on a path where no collection ran (and it was not the initialisation): Puts arriving more often than GCInterval postpone collection forever, expired messages stay reachable")
	}
	if n == 0 {
		c.bad(fnLabel(fn)+":write(lastGC)", P.pos(fn.Pos()), "lastGC is never advanced: every Put after GCInterval runs a collection")
	}
	// the initialisation of the GC clock does not depend on the interval setting: with GCInterval == 0 (manual
	// collection) the clock must still start, or enabling the interval later postpones the first collection
	for _, a := range P.fieldAccesses("ValidReplayer", "lastGC") {
		if a.Kind != "write" {
			continue
		}
		st := a.Use.(*ssa.Store)
		isZeroG := factGuards(fn, st.Block(), factBool(func(v ssa.Value) bool {
			call, ok := isTimeCall(v, "IsZero")
			if !ok {
				return false
			}
			_, ok = isFieldLoad(call.Call.Args[0], "ValidReplayer", "lastGC")
			return ok
		}, true))
		if !isZeroG {
			continue
		}
		isIv := func(v ssa.Value) bool { _, ok := isFieldLoad(v, "ValidReplayer", "GCInterval"); return ok }
		dep := intGuard(fn, st.Block(), isIv, negInf, 1, posInf) || intGuard(fn, st.Block(), isIv, negInf, negInf, 0)
		c.check(!dep, fnLabel(fn)+":clock-init-unconditional", P.ipos(st), "the GC clock starts on the first Put whatever GCInterval is", "the GC clock is only started under a condition on GCInterval: Puts made while GCInterval is 0 leave it unset, and the first Put after the interval is enabled does not collect")
	}
	// doGC under the due test
	c.check(gcCall != nil && haveDue && factGuards(fn, gcCall.Block(), dueFact), fnLabel(fn)+":gc-when-due", P.pos(fn.Pos()), "Put collects when now - lastGC >= GCInterval says it is due", "Put does not run doGC under the due test (now - lastGC >= GCInterval)")
	c.check(haveDue, fnLabel(fn)+":due-test", P.pos(fn.Pos()), "a collection is due when now - lastGC >= GCInterval", "Put does not compare now - lastGC with GCInterval")
	// the collection is skipped only when the interval is off or it is not due yet: every other path to a
	// successful return passes doGC (an extra condition in front of the due test lets expired messages pile up)
	if gcCall != nil && haveDue {
		blocked := map[cfgEdge]bool{}
		isIv := func(v ssa.Value) bool { _, ok := isFieldLoad(v, "ValidReplayer", "GCInterval"); return ok }
		// "due-like": the due comparison itself, or a boolean built from it that is false whenever it is false
		// (`interval > 0 && due` materialised as a phi, or the result of an inlined predicate whose returns are
		// the constant false or due-like values)
		var isDueLike func(v ssa.Value, depth int) bool
		isDueLike = func(v ssa.Value, depth int) bool {
			if depth > 4 {
				return false
			}
			if isDue(v) {
				return true
			}
			if call, ok := v.(*ssa.Call); ok {
				var lit *ssa.Function
				switch f := call.Call.Value.(type) {
				case *ssa.MakeClosure:
					lit, _ = f.Fn.(*ssa.Function)
				case *ssa.Function:
					lit = f
				}
				if lit == nil || lit.Parent() == nil || lit.Blocks == nil {
					return false
				}
				some := false
				for _, r := range returnsOf(lit) {
					if len(r.Results) != 1 {
						return false
					}
					for _, src := range sources(r.Results[0]) {
						if b, isC := constBool(src); isC && !b {
							continue
						}
						if !isDueLike(src, depth+1) {
							return false
						}
						some = true
					}
				}
				return some
			}
			if ph, ok := v.(*ssa.Phi); ok {
				some := false
				for _, src := range sources(ph) {
					if b, isC := constBool(src); isC && !b {
						continue
					}
					if !isDueLike(src, depth+1) {
						return false
					}
					some = true
				}
				return some
			}
			return false
		}
		isClockUnset := func(v ssa.Value) bool {
			call, ok := isTimeCall(v, "IsZero")
			if !ok {
				return false
			}
			_, ok = isFieldLoad(call.Call.Args[0], "ValidReplayer", "lastGC")
			return ok
		}
		for _, rf := range regionFuncs(fn) {
			for _, ifi := range ifsInOnly(rf) {
				if s, ok := boolEdge(ifi, func(v ssa.Value) bool { return isDueLike(v, 0) }); ok {
					blocked[cfgEdge{ifi.Block(), 1 - s}] = true
				}
				// the very first Put only starts the clock: nothing can be due yet
				if s, ok := boolEdge(ifi, isClockUnset); ok {
					blocked[cfgEdge{ifi.Block(), s}] = true
				}
				if op, k, succ, ok := cmpConstEdge(ifi, isIv); ok {
					switch {
					case (op == token.GTR && k == 0) || (op == token.GEQ && k == 1) || (op == token.NEQ && k == 0):
						blocked[cfgEdge{ifi.Block(), 1 - succ}] = true
					case (op == token.LEQ && k == 0) || (op == token.LSS && k == 1) || (op == token.EQL && k == 0):
						blocked[cfgEdge{ifi.Block(), succ}] = true
					}
				}
			}
		}
		skipped := ""
		for _, ret := range returnsOf(fn) {
			if len(ret.Results) != 2 {
				continue
			}
			success := true
			for _, src := range sources(ret.Results[1]) {
				if !isNilConst(src) {
					success = false
				}
			}
			if success && reachesAvoiding(entryPoint(fn), ret, func(in ssa.Instruction) bool { return in == ssa.Instruction(gcCall) }, blocked) {
				skipped = P.ipos(ret)
			}
		}
		c.check(skipped == "", fnLabel(fn)+":gc-whenever-due", P.ipos(gcCall), "Put skips the collection only when GCInterval is off or the interval has not passed",
			"a Put can succeed without collecting although GCInterval is on and the interval has passed (a further condition stands in front of the due test): expired messages stay reachable until that condition happens to hold")
	}
}

// R18.7: enqueue moves the read index (head) only when it has just overwritten the
// oldest element of a full ring. Moving it otherwise drops buffered events.
func init() {
	register(&Rule{ID: "R18.7", Title: "enqueue moves head only on the overwrite path (ring full)", Floor: 1, Run: r18_7})
	for _, id := range []string{"C09", "C04"} {
		if p := properties[id]; p != nil {
			p.Rules = append(p.Rules, "R18.7")
			p.Explanation += " R18.7 enqueue writes q.head only on paths on which count == len(buf) held (the element it overwrote was the oldest); on every other path the read index is untouched, so no buffered event is dropped by a Put (path enumeration with the boolean flag resolved per path)."
		}
	}
}

func r18_7(c *Ctx) {
	P := c.P
	fn := queueMethod(P, "enqueue")
	if fn == nil {
		c.anchor("queue.enqueue")
		return
	}
	if len(loopsOf(fn)) > 0 {
		c.undecided(fnLabel(fn)+":head-moves", P.pos(fn.Pos()), "enqueue contains a loop; path enumeration does not apply")
		return
	}
	isLenBuf := func(v ssa.Value) bool {
		call, ok := v.(*ssa.Call)
		if !ok {
			return false
		}
		b, ok := call.Call.Value.(*ssa.Builtin)
		if !ok || b.Name() != "len" {
			return false
		}
		_, ok = isFieldLoad(call.Call.Args[0], "queue", "buf")
		return ok
	}
	// "the ring is full": count == len(buf) (or >=), as a fact — established by a branch on the
	// comparison itself or on a materialised conjunction that contains it (`full := a && count == len(buf)`)
	isFullCmp := func(v ssa.Value) bool {
		b, ok := v.(*ssa.BinOp)
		if !ok {
			return false
		}
		x, y, op := b.X, b.Y, b.Op
		if isLenBuf(x) {
			x, y, op = y, x, flipOp(op)
		}
		_, xc := isFieldLoad(x, "queue", "count")
		return xc && isLenBuf(y) && (op == token.EQL || op == token.GEQ)
	}
	isNotFullCmp := func(v ssa.Value) bool {
		b, ok := v.(*ssa.BinOp)
		if !ok {
			return false
		}
		x, y, op := b.X, b.Y, b.Op
		if isLenBuf(x) {
			x, y, op = y, x, flipOp(op)
		}
		_, xc := isFieldLoad(x, "queue", "count")
		return xc && isLenBuf(y) && (op == token.NEQ || op == token.LSS)
	}
	fullFacts := []fact{factBool(isFullCmp, true), factBool(isNotFullCmp, false)}
	name := fnLabel(fn) + ":head-moves"
	have := false
	eachInstrDeep(fn, func(in ssa.Instruction) {
		if v, ok := in.(ssa.Value); ok && (isFullCmp(v) || isNotFullCmp(v)) {
			have = true
		}
	})
	if !have {
		c.bad(name, P.pos(fn.Pos()), "enqueue never tests whether the ring is full (count == len(buf))")
		return
	}
	type res struct{ bad bool }
	stores := map[*ssa.Store]*res{}
	okEnum := enumeratePaths(fn, 4096, func(in ssa.Instruction, st *pathState) {
		s, ok := in.(*ssa.Store)
		if !ok {
			return
		}
		if _, ok := isFieldSel(s.Addr, "queue", "head"); !ok {
			return
		}
		r := stores[s]
		if r == nil {
			r = &res{}
			stores[s] = r
		}
		passed := false
		for _, ff := range fullFacts {
			if pathEstablishes(st, ff) {
				passed = true
			}
		}
		if !passed {
			r.bad = true
		}
	})
	if !okEnum {
		c.undecided(name, P.pos(fn.Pos()), "too many paths")
		return
	}
	if len(stores) == 0 {
		c.bad(name, P.pos(fn.Pos()), "enqueue never moves head: a full ring would keep reporting overwritten elements as its oldest")
		return
	}
	for s, r := range stores {
		c.check(!r.bad, name, P.ipos(s), "head is written only on paths where the ring was full", "enqueue writes q.head on a path on which the ring was not full: the read index jumps and buffered (unexpired, not yet evicted) events become unreachable for replay")
	}
}

// ---------------------------------------------------------------------------
// R08.6: the ID lookup recognises exactly the language the issuer writes, treats only strictly
// older IDs as evicted, and wraps ring positions by the bound it compared them with.

func init() {
	register(&Rule{ID: "R08.6", Title: "ID lookup: decimal 64-bit parse (as issued), `evicted` only for strictly older IDs, ring positions wrapped by the bound they were compared with", Floor: 3, Run: r08_6})
	for _, id := range []string{"C08", "C09", "C04"} {
		if p := properties[id]; p != nil {
			p.Rules = append(p.Rules, "R08.6")
			p.Explanation += " R08.6 in findIDInQueue every strconv.ParseUint has the constants base 10 / 64 bits (the issuer writes FormatUint(n, 10)); a return of q.head (\"the ID was evicted: replay everything\") is reached only on the strict edge presented < oldest of the comparison of the two parsed IDs; and, in findIDInQueue and the queue methods, a value that is reduced by B under a comparison with A has A ≡ B (Engler-style contradiction rule: `if i >= len(buf) { i -= count }` is reported)."
		}
	}
}

// exprShape: a canonical rendering of a pure expression in which two loads of the same field path
// are equal (used for "compared with A, then reduced by B" consistency).
func exprShape(v ssa.Value, depth int) string {
	if depth > 8 {
		return "…"
	}
	switch x := v.(type) {
	case *ssa.Const:
		if x.Value == nil {
			return "nil"
		}
		return x.Value.ExactString()
	case *ssa.Parameter:
		return "param:" + x.Name()
	case *ssa.FreeVar:
		return "free:" + x.Name()
	case *ssa.Extract:
		return x.Tuple.Name() + "#" + itoa(x.Index)
	case *ssa.Convert:
		return exprShape(x.X, depth+1)
	case *ssa.ChangeType:
		return exprShape(x.X, depth+1)
	case *ssa.BinOp:
		return "(" + exprShape(x.X, depth+1) + x.Op.String() + exprShape(x.Y, depth+1) + ")"
	case *ssa.FieldAddr:
		return exprShape(x.X, depth+1) + "." + itoa(x.Field)
	case *ssa.Field:
		return exprShape(x.X, depth+1) + "." + itoa(x.Field)
	case *ssa.IndexAddr:
		return exprShape(x.X, depth+1) + "[" + exprShape(x.Index, depth+1) + "]"
	case *ssa.UnOp:
		if x.Op == token.MUL {
			return "*" + exprShape(x.X, depth+1)
		}
		return x.Op.String() + exprShape(x.X, depth+1)
	case *ssa.Call:
		if b, ok := x.Call.Value.(*ssa.Builtin); ok && len(x.Call.Args) == 1 {
			return b.Name() + "(" + exprShape(x.Call.Args[0], depth+1) + ")"
		}
	case *ssa.Phi:
		return "phi:" + x.Name()
	}
	return v.Name()
}

func r08_6(c *Ctx) {
	P := c.P
	var fn *ssa.Function
	var queueFns []*ssa.Function
	for _, f := range P.Funcs {
		if f.Synthetic != "" || !inSSEPackage(f) {
			continue
		}
		if f.Parent() == nil && f.Name() == "findIDInQueue" {
			fn = f
		}
		if f.Signature.Recv() != nil && typeIs(f.Signature.Recv().Type(), "sse", "queue") {
			queueFns = append(queueFns, f)
		}
	}
	if fn == nil {
		c.anchor("findIDInQueue")
		return
	}
	name := fnLabel(fn)
	// the lookup may be split over unexported (generic) helpers: take the module functions it calls as well
	lookupFns := []*ssa.Function{fn}
	{
		seen := map[*ssa.Function]bool{fn: true}
		for i := 0; i < len(lookupFns) && i < 8; i++ {
			eachInstrDeep(lookupFns[i], func(in ssa.Instruction) {
				call, ok := in.(*ssa.Call)
				if !ok {
					return
				}
				callee := call.Call.StaticCallee()
				if callee == nil || callee.Blocks == nil || seen[callee] || !inSSEPackage(callee) || callee.Signature.Recv() != nil {
					return
				}
				if orig := callee.Origin(); orig != nil && orig.Blocks != nil {
					callee = orig
					if seen[callee] {
						return
					}
				}
				if callee.Signature.Results().Len() != 1 || callee.Signature.Results().At(0).Type().String() != "int" {
					return
				}
				seen[callee] = true
				lookupFns = append(lookupFns, callee)
			})
		}
	}
	fromHeadElemOf := func(call *ssa.Call) bool { return parsedFromHead(call) }
	// (a) parse agrees with issue
	var parses []*ssa.Call
	for _, lf := range lookupFns {
		eachInstrDeep(lf, func(in ssa.Instruction) {
			if call, ok := isStaticCall(in, "strconv.ParseUint", "strconv.ParseInt", "strconv.Atoi"); ok {
				parses = append(parses, call)
			}
		})
	}
	for i, call := range parses {
		okk := calleeName(call) == "strconv.ParseUint"
		if okk {
			base, isB := constInt(call.Call.Args[1])
			bits, isS := constInt(call.Call.Args[2])
			okk = isB && base == 10 && isS && bits == 64
		}
		c.check(okk, name+":parse#"+itoa(i), P.ipos(call), "IDs are recognised with ParseUint(s, 10, 64), the inverse of the issuer's FormatUint(n, 10)",
			"an automatic ID is not parsed as a 64-bit base-10 unsigned number: strings the issuer never wrote (0x3, 0b11, 1_0, …) are accepted as buffered IDs, or issued IDs are not recognised")
	}
	// the presented ID is recognised by strconv.ParseUint (whole string, range-checked), not by a hand-written loop
	{
		presented := 0
		for _, call := range parses {
			if !fromHeadElemOf(call) && calleeName(call) == "strconv.ParseUint" {
				presented++
			}
		}
		c.check(presented > 0, name+":presented-id-parsed", P.pos(fn.Pos()), "the presented ID goes through strconv.ParseUint", "the presented ID is not parsed by strconv.ParseUint (a hand-written digit loop accepts trailing garbage such as \"3x\" or wraps above 2^64): never-issued IDs are treated as buffered ones")
	}
	// (d) canonical form: ParseUint also accepts decimal strings the issuer never writes (leading
	// zeros: "010" parses to 10); the presented ID must be checked to be in the issuer's form
	for i, call := range parses {
		if fromHeadElemOf(call) {
			continue // the stored ID was written by the issuer
		}
		sArg := call.Call.Args[0]
		sameS := func(v ssa.Value) bool { return v == sArg || exprShape(v, 0) == exprShape(sArg, 0) }
		f := call.Parent()
		onlyMinusOne := func(b *ssa.BasicBlock, e int) bool {
			ok, any := true, false
			forward([]startPoint{atEdge(b, e)}, func(in ssa.Instruction) searchAction {
				if r, isR := in.(*ssa.Return); isR {
					any = true
					if k, isK := constInt(r.Results[0]); !isK || k != -1 {
						ok = false
					}
				}
				return cont
			})
			return ok && any
		}
		canonical := false
		for _, ifi := range ifsIn(f) {
			cnd := decodeIf(ifi)
			if cnd.Y == nil || (cnd.Op != token.EQL && cnd.Op != token.NEQ) {
				continue
			}
			// A: s != FormatUint(parsed, 10)  =>  -1
			isFmt := func(v ssa.Value) bool {
				fc, ok := isStaticCall(v, "strconv.FormatUint")
				if !ok {
					return false
				}
				e, isE := fc.Call.Args[0].(*ssa.Extract)
				base, isK := constInt(fc.Call.Args[1])
				return isE && e.Tuple == ssa.Value(call) && e.Index == 0 && isK && base == 10
			}
			if (sameS(cnd.X) && isFmt(cnd.Y)) || (sameS(cnd.Y) && isFmt(cnd.X)) {
				if onlyMinusOne(ifi.Block(), cnd.succWhen(cnd.Op == token.NEQ)) {
					canonical = true
				}
			}
			// B: len(s) > 1 && s[0] == '0'  =>  -1
			var x, ix ssa.Value
			switch q := cnd.X.(type) {
			case *ssa.Index:
				x, ix = q.X, q.Index
			case *ssa.Lookup:
				x, ix = q.X, q.Index
			}
			if x != nil && sameS(x) {
				i0, isI := constInt(ix)
				k, isK := constInt(cnd.Y)
				if isI && i0 == 0 && isK && k == '0' {
					e := cnd.succWhen(cnd.Op == token.EQL)
					if onlyMinusOne(ifi.Block(), e) && intGuard(f, ifi.Block(), isLenCallOf(sameS), 0, 2, posInf) {
						canonical = true
					}
				}
			}
		}
		c.check(canonical, name+":canonical#"+itoa(i), P.ipos(call), "a presented ID that is not in the issuer's form (leading zeros) is rejected",
			"the presented ID is accepted whenever it parses as a decimal number, although the issuer (FormatUint) never writes leading zeros: the never-issued ID \"010\" is treated as the buffered ID 10 and everything after it is replayed")
	}
	// (e) manual IDs are compared as EventID values (value and set flag), not as strings: an unset ID must
	// not match the valid empty ID
	for _, lf := range lookupFns {
		for _, g := range append(regionFuncs(lf), lf.AnonFuncs...) {
			eachInstr(g, func(in ssa.Instruction) {
				b, ok := in.(*ssa.BinOp)
				if !ok || (b.Op != token.EQL && b.Op != token.NEQ) {
					return
				}
				isIDString := func(v ssa.Value) bool {
					for _, sv := range sources(v) {
						call, ok := sv.(*ssa.Call)
						if !ok || calleeName(call) != expandName("(messageField).String") {
							return false
						}
					}
					return len(sources(v)) > 0
				}
				if isIDString(b.X) && isIDString(b.Y) {
					c.bad(name+":id-compared-as-string", P.ipos(b), "buffered and presented IDs are compared as strings: the unset ID (no Last-Event-ID) matches a buffered event whose ID is the valid empty ID, and a brand-new subscriber is sent history")
				}
			})
		}
	}
	// (b) evicted only when strictly older
	isParsed := func(v ssa.Value) (*ssa.Call, bool) {
		e, ok := v.(*ssa.Extract)
		if !ok || e.Index != 0 {
			return nil, false
		}
		for _, p := range parses {
			if e.Tuple == ssa.Value(p) {
				return p, true
			}
		}
		return nil, false
	}
	fromHeadElem := parsedFromHead
	var lookupRegion []*ssa.Function
	for _, lf := range lookupFns {
		lookupRegion = append(lookupRegion, regionFuncs(lf)...)
	}
	for _, f := range lookupRegion {
		for _, ifi := range ifsIn(f) {
			cnd := decodeIf(ifi)
			if cnd.Y == nil {
				continue
			}
			px, okx := isParsed(cnd.X)
			py, oky := isParsed(cnd.Y)
			if !okx || !oky || px == py {
				continue
			}
			// orient: presented OP oldest
			op := cnd.Op
			if fromHeadElem(px) && !fromHeadElem(py) {
				op = flipOp(op)
			} else if !(fromHeadElem(py) && !fromHeadElem(px)) {
				continue
			}
			// which edge establishes presented < oldest (strictly), which only presented <= oldest
			var strict, loose = -1, -1
			switch op {
			case token.LSS:
				strict = cnd.succWhen(true)
			case token.GEQ:
				strict = cnd.succWhen(false)
			case token.LEQ:
				loose = cnd.succWhen(true)
			case token.GTR:
				loose = cnd.succWhen(false)
			default:
				continue
			}
			for ri, ret := range returnsOf(f) {
				isHead := false
				for _, s := range sources(ret.Results[0]) {
					if _, ok := isFieldLoad(s, "queue", "head"); ok {
						isHead = true
					}
				}
				if !isHead {
					continue
				}
				rn := name + ":evicted-return#" + itoa(ri)
				if strict >= 0 && edgeDominates(ifi.Block(), strict, ret.Block()) {
					c.ok(rn, P.ipos(ret), "q.head (replay everything) is returned only when the presented ID is strictly older than the oldest buffered one")
				} else if loose >= 0 && edgeDominates(ifi.Block(), loose, ret.Block()) {
					c.bad(rn, P.ipos(ret), "q.head (replay everything) is also returned when the presented ID equals the oldest buffered ID: that event is replayed again (duplicate at the resume boundary)")
				}
			}
		}
	}
	// (f) ID arithmetic stays 64-bit unsigned until a range check bounded it: a conversion of a value computed
	// from the parsed IDs to a narrower or signed integer must be dominated by an upper-bound test of that value
	{
		k := 0
		fromParsed := func(v ssa.Value) bool {
			seen := map[ssa.Value]bool{}
			var walk func(x ssa.Value) bool
			walk = func(x ssa.Value) bool {
				if x == nil || seen[x] {
					return false
				}
				seen[x] = true
				if _, ok := isParsed(x); ok {
					return true
				}
				switch y := x.(type) {
				case *ssa.BinOp:
					return walk(y.X) || walk(y.Y)
				case *ssa.Convert:
					return walk(y.X)
				case *ssa.ChangeType:
					return walk(y.X)
				case *ssa.Phi:
					for _, e := range y.Edges {
						if walk(e) {
							return true
						}
					}
				}
				return false
			}
			return walk(v)
		}
		for _, g := range lookupRegion {
			g := g
			eachInstr(g, func(in ssa.Instruction) {
				cv, ok := in.(*ssa.Convert)
				if !ok {
					return
				}
				sb, okS := cv.X.Type().Underlying().(*types.Basic)
				db, okD := cv.Type().Underlying().(*types.Basic)
				if !okS || !okD || sb.Info()&types.IsInteger == 0 || db.Info()&types.IsInteger == 0 {
					return
				}
				if !fromParsed(cv.X) {
					return
				}
				wide := func(b *types.Basic) bool {
					switch b.Kind() {
					case types.Uint64, types.Uint, types.Uintptr:
						return true
					}
					return false
				}
				if wide(db) {
					return
				}
				k++
				bounded := false
				xs := exprShape(cv.X, 0)
				for _, ifi := range ifsIn(g) {
					cnd := decodeIf(ifi)
					if cnd.Y == nil {
						continue
					}
					op := cnd.Op
					switch {
					case cnd.X == cv.X || exprShape(cnd.X, 0) == xs:
					case cnd.Y == cv.X || exprShape(cnd.Y, 0) == xs:
						op = flipOp(op)
					default:
						continue
					}
					var e int
					switch op {
					case token.LSS, token.LEQ:
						e = cnd.succWhen(true)
					case token.GEQ, token.GTR:
						e = cnd.succWhen(false)
					default:
						continue
					}
					if edgeDominates(ifi.Block(), e, cv.Block()) {
						bounded = true
						bound := cnd.Y
						if cnd.Y == cv.X || exprShape(cnd.Y, 0) == xs {
							bound = cnd.X
						}
						_, isCount := isFieldLoad(stripConvAll(bound), "queue", "count")
						if isCount {
							// IDs oldest … oldest+count-1 are buffered: the distance must be strictly below count
							strict := op == token.LSS || op == token.GEQ
							c.check(strict, name+":range-check-strict#"+itoa(k), P.ipos(ifi), "a distance equal to the number of buffered events is rejected (that ID is the next one to be issued)",
								"the range check admits a distance equal to the number of buffered events: the ID one past the newest — never issued yet — is looked up, the position computed for it lies beyond the newest slot and the whole buffer is replayed")
						}
						c.check(isCount, name+":range-check-against-count#"+itoa(k), P.ipos(ifi), "the distance from the oldest buffered ID is compared with the number of buffered events",
							"the distance from the oldest buffered ID is compared with "+exprShape(bound, 0)+" instead of the number of buffered events (queue.count): while the ring is not full a never-issued ID passes the test and everything buffered is replayed")
					}
				}
				c.check(bounded, name+":narrowing#"+itoa(k), P.ipos(cv), "a value computed from the parsed IDs is converted to "+db.Name()+" only after an upper-bound test of it",
					"a value computed from the parsed IDs is converted to "+db.Name()+" before any range check: IDs that differ by a multiple of the narrower type's range (or exceed the signed range) are confused, so a never-issued ID is treated as a buffered one")
			})
		}
	}
	// (f2) slot positions wrap at the length of the backing array: the number of buffered events is not a
	// position bound (while the ring is not full, or after it wrapped, the two differ)
	{
		bad := ""
		var allIfs []*ssa.If
		for _, g := range lookupRegion {
			allIfs = append(allIfs, ifsInOnly(g)...)
		}
		for _, ifi := range allIfs {
			cnd := decodeIf(ifi)
			if cnd.Y == nil || (cnd.Op != token.EQL && cnd.Op != token.NEQ) {
				continue
			}
			for _, pr := range [][2]ssa.Value{{cnd.X, cnd.Y}, {cnd.Y, cnd.X}} {
				if _, isCount := isFieldLoad(stripConvAll(pr[0]), "queue", "count"); !isCount {
					continue
				}
				if _, isK := pr[1].(*ssa.Const); isK {
					continue
				}
				bad = P.ipos(ifi)
			}
		}
		c.check(bad == "", name+":position-not-compared-with-count", "-", "no slot position is tested for equality with the number of buffered events",
			"a slot position is tested for equality with queue.count (at "+bad+"): positions wrap at len(queue.buf); with a partly filled ring the position after the newest event equals count, is reset to 0 and the whole buffer is replayed for the newest ID")
	}
	// (g) a position computed from the parsed IDs that is found beyond a bound is brought back by subtracting
	// that bound (the distance may exceed one slot), not by resetting it to a constant
	{
		k := 0
		derived := func(v ssa.Value) bool {
			seen := map[ssa.Value]bool{}
			var walk func(x ssa.Value) bool
			walk = func(x ssa.Value) bool {
				if x == nil || seen[x] {
					return false
				}
				seen[x] = true
				if _, ok := isParsed(x); ok {
					return true
				}
				switch y := x.(type) {
				case *ssa.BinOp:
					return walk(y.X) || walk(y.Y)
				case *ssa.Convert:
					return walk(y.X)
				}
				return false
			}
			return walk(v)
		}
		for _, g := range lookupRegion {
			g := g
			eachInstr(g, func(in ssa.Instruction) {
				phi, ok := in.(*ssa.Phi)
				if !ok || len(phi.Edges) != 2 {
					return
				}
				for i := 0; i < 2; i++ {
					v, other := phi.Edges[i], phi.Edges[1-i]
					if !derived(v) || v == other {
						continue
					}
					if _, isPhi := v.(*ssa.Phi); isPhi {
						continue
					}
					// the branch that decides between v and its replacement compares v with a bound
					for _, ifi := range ifsInOnly(g) {
						cnd := decodeIf(ifi)
						if cnd.Y == nil || cnd.X != v {
							continue
						}
						if cnd.Op != token.GEQ && cnd.Op != token.GTR && cnd.Op != token.LSS && cnd.Op != token.LEQ && cnd.Op != token.EQL {
							continue
						}
						if !ifi.Block().Dominates(phi.Block()) {
							continue
						}
						k++
						sub, isSub := other.(*ssa.BinOp)
						bound := cnd.Y
						if cnd.Op == token.GTR || cnd.Op == token.LEQ {
							// v > A-1 is v >= A
							if bb, ok := bound.(*ssa.BinOp); ok && bb.Op == token.SUB {
								if k1, isK := constInt(bb.Y); isK && k1 == 1 {
									bound = bb.X
								}
							}
						}
						okk := isSub && sub.Op == token.SUB && sub.X == v && exprShape(sub.Y, 0) == exprShape(bound, 0)
						c.check(okk, name+":wrap-by-subtraction#"+itoa(k), P.ipos(ifi), "a position beyond the bound is reduced by that bound",
							"a position computed from the IDs and found beyond "+exprShape(cnd.Y, 0)+" is replaced by "+exprShape(other, 0)+" instead of being reduced by the bound: the replay starts at the wrong slot whenever the position lies more than one step past the end of the ring (already received events are sent again)")
					}
				}
			})
		}
	}
	// (c) compared with A, reduced by B  =>  A ≡ B
	for _, f := range append(append([]*ssa.Function{}, lookupFns...), queueFns...) {
		for _, g := range regionFuncs(f) {
			k := 0
			eachInstrDeep(g, func(in ssa.Instruction) {
				sub, ok := in.(*ssa.BinOp)
				if !ok || sub.Op != token.SUB {
					return
				}
				if _, isK := sub.Y.(*ssa.Const); isK {
					return
				}
				xs := exprShape(sub.X, 0)
				for _, ifi := range ifsIn(g) {
					cnd := decodeIf(ifi)
					if cnd.Y == nil {
						continue
					}
					var bound ssa.Value
					op := cnd.Op
					if exprShape(cnd.X, 0) == xs || cnd.X == sub.X {
						bound = cnd.Y
					} else if exprShape(cnd.Y, 0) == xs || cnd.Y == sub.X {
						bound = cnd.X
						op = flipOp(op)
					} else {
						continue
					}
					var e int
					switch op {
					case token.GEQ, token.GTR, token.EQL:
						e = cnd.succWhen(true)
					case token.LSS, token.LEQ, token.NEQ:
						e = cnd.succWhen(false)
					default:
						continue
					}
					if !edgeDominates(ifi.Block(), e, sub.Block()) {
						continue
					}
					// x > A-1 is x >= A
					if op == token.GTR || op == token.LEQ {
						if bb, ok := bound.(*ssa.BinOp); ok && bb.Op == token.SUB {
							if k1, isK := constInt(bb.Y); isK && k1 == 1 {
								bound = bb.X
							}
						}
					}
					k++
					nm := fnLabel(g) + ":reduce-by-bound#" + itoa(k)
					c.check(exprShape(bound, 0) == exprShape(sub.Y, 0), nm, P.ipos(sub), "the value is reduced by the bound it was compared with",
						"a position is compared with one quantity ("+exprShape(bound, 0)+") but reduced by another ("+exprShape(sub.Y, 0)+"): the wrapped ring index is wrong whenever the two differ (e.g. a ring that is not full)")
				}
			})
		}
	}
}

// ---------------------------------------------------------------------------
// R09.8: a shrinking resize leaves room (new size > count), so that tail = count stays a valid
// position (< len(buf)) — findIDInQueue's "newest ID" test and enqueue rely on it.

func init() {
	register(&Rule{ID: "R09.8", Title: "a shrinking resize is requested only with a size provably larger than the element count", Floor: 1, Run: r09_8})
	for _, id := range []string{"C09", "C04"} {
		if p := properties[id]; p != nil {
			p.Rules = append(p.Rules, "R09.8")
			p.Explanation += " R09.8 every resize(len(buf)/k2 floored by a constant f) under a guard count <= len(buf)/k1 has k1 >= 2*k2 and f >= 1 (then the new size exceeds count for every len), and is reported when k1 <= k2 (then count == new size is reachable: resize leaves tail == len(buf), the newest-ID test misfires and a full replay is sent); other ratios are recorded as not decided."
		}
	}
}

func r09_8(c *Ctx) {
	P := c.P
	n := 0
	for _, fn := range P.Funcs {
		if !inSSEPackage(fn) || fn.Synthetic != "" {
			continue
		}
		eachInstr(fn, func(in ssa.Instruction) {
			call, ok := in.(*ssa.Call)
			if !ok || isQueueCall(call, "resize") == nil || len(call.Call.Args) != 2 {
				return
			}
			// argument: len(buf)/k2, possibly floored by a constant
			var k2, floor int64 = 0, 0
			shape := true
			for _, s := range sources(call.Call.Args[1]) {
				if k, isK := constInt(s); isK {
					if k > floor {
						floor = k
					}
					continue
				}
				if _, isCnt := isFieldLoad(s, "queue", "count"); isCnt {
					// resize(count): the new buffer is exactly full, so resize leaves tail == len(buf)
					n++
					c.bad(fnLabel(fn)+":shrink-keeps-room", P.ipos(call), "the buffer is resized to the number of buffered elements itself: resize then leaves tail == len(buf), a position findIDInQueue's wrapped index never equals, so presenting the newest ID replays the whole buffer (and the next enqueue writes out of range)")
					shape = false
					continue
				}
				b, isB := s.(*ssa.BinOp)
				if !isB || (b.Op != token.QUO && b.Op != token.SHR) || !isLenOfQueueBuf(b.X) {
					shape = false
					continue
				}
				k, isK := constInt(b.Y)
				if !isK || k <= 0 {
					shape = false
					continue
				}
				if b.Op == token.SHR {
					k = 1 << uint(k)
				}
				k2 = k
			}
			if !shape || k2 == 0 {
				return // a growing resize (R09.4) or another form
			}
			n++
			name := fnLabel(fn) + ":shrink-keeps-room"
			// guard: count <= len(buf)/k1 (or count < len(buf)/k1)
			var k1 int64
			strictLess := false
			for _, ifi := range ifsIn(fn) {
				cnd := decodeIf(ifi)
				if cnd.Y == nil {
					continue
				}
				x, y, op := cnd.X, cnd.Y, cnd.Op
				if _, isCnt := isFieldLoad(y, "queue", "count"); isCnt {
					x, y, op = y, x, flipOp(op)
				}
				if _, isCnt := isFieldLoad(x, "queue", "count"); !isCnt {
					continue
				}
				b, isB := y.(*ssa.BinOp)
				if !isB || (b.Op != token.QUO && b.Op != token.SHR) || !isLenOfQueueBuf(b.X) {
					continue
				}
				k, isK := constInt(b.Y)
				if !isK || k <= 0 {
					continue
				}
				if b.Op == token.SHR {
					k = 1 << uint(k)
				}
				var e int
				switch op {
				case token.LEQ:
					e = cnd.succWhen(true)
				case token.LSS:
					e = cnd.succWhen(true)
					strictLess = true
				case token.GTR:
					e = cnd.succWhen(false)
				case token.GEQ:
					e = cnd.succWhen(false)
					strictLess = true
				default:
					continue
				}
				if edgeDominates(ifi.Block(), e, call.Block()) {
					k1 = k
				}
			}
			switch {
			case k1 == 0:
				c.ok(name, P.ipos(call), "not decided: no `count <= len(buf)/k` guard recognised for this shrinking resize")
			case k1 >= 2*k2 && floor >= 1:
				c.ok(name, P.ipos(call), "count <= len/"+itoa(int(k1))+" and new size = max(len/"+itoa(int(k2))+", "+itoa(int(floor))+") > count for every len")
			case k1 <= k2 && !strictLess:
				c.bad(name, P.ipos(call), "the buffer is shrunk to len/"+itoa(int(k2))+" whenever count <= len/"+itoa(int(k1))+": count can equal (or exceed) the new size, so resize leaves tail == len(buf) (or drops elements); presenting the newest ID then replays the whole buffer")
			default:
				c.ok(name, P.ipos(call), "not decided: thresholds len/"+itoa(int(k1))+" vs len/"+itoa(int(k2))+" need arithmetic this rule does not do")
			}
		})
	}
	if n == 0 {
		c.ok("shrink-keeps-room", "-", "no shrinking resize in the module")
	}
}

func isLenOfQueueBuf(v ssa.Value) bool {
	call, ok := v.(*ssa.Call)
	if !ok {
		return false
	}
	b, ok := call.Call.Value.(*ssa.Builtin)
	if !ok || b.Name() != "len" || len(call.Call.Args) != 1 {
		return false
	}
	_, isBuf := isFieldLoad(call.Call.Args[0], "queue", "buf")
	return isBuf
}

// parsedFromHead: the string parsed by call derives from q.buf[q.head] (the oldest stored ID).
func parsedFromHead(call *ssa.Call) bool {
	// the parsed string derives from q.buf[q.head]
	found := false
	var walk func(v ssa.Value, d int)
	walk = func(v ssa.Value, d int) {
		if d > 8 || found {
			return
		}
		switch x := v.(type) {
		case *ssa.Call:
			for _, a := range x.Call.Args {
				walk(a, d+1)
			}
			if x.Call.IsInvoke() {
				walk(x.Call.Value, d+1)
			}
		case *ssa.UnOp:
			walk(x.X, d+1)
		case *ssa.IndexAddr:
			if _, ok := isFieldLoad(x.Index, "queue", "head"); ok {
				found = true
			}
		case *ssa.MakeInterface:
			walk(x.X, d+1)
		case *ssa.ChangeType:
			walk(x.X, d+1)
		case *ssa.Convert:
			walk(x.X, d+1)
		case *ssa.Extract:
			walk(x.Tuple, d+1)
		case *ssa.Field:
			walk(x.X, d+1)
		case *ssa.FieldAddr:
			walk(x.X, d+1)
		case *ssa.Phi:
			for _, e := range x.Edges {
				walk(e, d+1)
			}
		}
	}
	walk(call.Call.Args[0], 0)
	return found
}

// isSubscriptionClient: every origin of v (through locals, also captured ones) is a load of a
// Subscription's Client field.
func isSubscriptionClient(v ssa.Value) bool {
	if _, ok := isFieldLoad(v, "Subscription", "Client"); ok {
		return true
	}
	src := sources(v)
	for _, sv := range src {
		if _, ok := isFieldLoad(sv, "Subscription", "Client"); !ok {
			return false
		}
	}
	return len(src) > 0
}

// grownFromChunks: every origin of v (through phis, locals, inlined helpers and their parameters) is the
// message's own chunks slice, extended by zero or more appends.
func grownFromChunks(v ssa.Value, seen map[ssa.Value]bool, depth int) bool {
	if depth > 12 {
		return false
	}
	src := sources(v)
	if len(src) == 0 {
		return false
	}
	for _, sv := range src {
		if seen[sv] {
			continue
		}
		seen[sv] = true
		if _, ok := isFieldLoad(sv, "Message", "chunks"); ok {
			continue
		}
		if call, ok := sv.(*ssa.Call); ok {
			if b, ok := call.Call.Value.(*ssa.Builtin); ok && b.Name() == "append" {
				if grownFromChunks(call.Call.Args[0], seen, depth+1) {
					continue
				}
			}
		}
		return false
	}
	return true
}
