package main

import (
	"go/token"

	"golang.org/x/tools/go/ssa"
)

func init() {
	prop(&PropertySpec{
		ID: "C11", Level: "other",
		Rules: []string{"R11.1", "R11.2", "R11.3", "R11.4", "R11.5", "R11.6", "R11.7", "R10.3", "R01.7"},
		Explanation: "Decides the chain of local links that makes Connect's result non-nil and the reported error the right one: " +
			"R11.1 Connect returns only doConnect's error (when retrying was refused) or ctx.Err(), never a nil constant; " +
			"R11.2 doConnect's errors are fresh *ConnectionError values or ctx-guarded pass-throughs, with shouldRetry=false for reset/validator/ctx returns; " +
			"R11.3 Connection.read returns the error its callback captured; R11.4 the event iterator always ends with an error yield when the parser reports one (ignoreEOF=false on the Connection path); " +
			"R01.7 the end of the stream is classified as clean only by identity with io.EOF (a read error that merely wraps io.EOF is still reported as itself); R10.3 the request is sent only after resetRequest() succeeded (a failed body reset ends Connect at once); R11.5 Parser.Next returning false implies Parser.Err()!=nil (scanner exhausted or field-parser error), R11.6 a read error takes precedence over ErrUnexpectedEOF in Parser.Err, R11.7 the clean-EOF marker is set and recovered as io.EOF.",
		NotDecided: "retry-count semantics (C12); which concrete error value a transport produces; that user validators return promptly.",
	})

	register(&Rule{ID: "R11.1", Title: "Connect return sources: doConnect error under refused retry, or ctx.Err(); never nil", Floor: 3, Run: r11_1})
	register(&Rule{ID: "R11.2", Title: "doConnect returns fresh *ConnectionError or ctx-guarded errors; shouldRetry constants", Floor: 5, Run: r11_2})
	register(&Rule{ID: "R11.3", Title: "Connection.read returns the error captured by its callback", Floor: 3, Run: r11_3})
	register(&Rule{ID: "R11.4", Title: "iterator ends with an error yield whenever the parser reports an error", Floor: 2, Run: r11_4})
	register(&Rule{ID: "R11.5", Title: "Parser.Next false => Parser.Err != nil", Floor: 2, Run: r11_5})
	register(&Rule{ID: "R11.6", Title: "Parser.Err: scanner read error precedes the field parser's ErrUnexpectedEOF", Floor: 1, Run: r11_6})
	register(&Rule{ID: "R11.7", Title: "clean-EOF marker set on Scan()==false && Err()==nil and recovered as io.EOF", Floor: 2, Run: r11_7})
}

// returnsOf lists the Return instructions of fn, skipping the synthetic
// recover block (reached only when a deferred function recovers a panic).
func returnsOf(fn *ssa.Function) []*ssa.Return {
	var out []*ssa.Return
	for _, b := range fn.Blocks {
		if b == fn.Recover {
			continue
		}
		if len(b.Instrs) == 0 {
			continue
		}
		if r, ok := b.Instrs[len(b.Instrs)-1].(*ssa.Return); ok {
			out = append(out, r)
		}
	}
	return out
}

func isCtxErrCall(v ssa.Value) bool {
	c, ok := v.(*ssa.Call)
	if !ok || !c.Call.IsInvoke() || c.Call.Method.Name() != "Err" {
		return false
	}
	n := namedOf(c.Call.Value.Type())
	return n != nil && n.Obj().Pkg() != nil && n.Obj().Pkg().Path() == "context" && n.Obj().Name() == "Context"
}

// extractOf: v is Extract #idx of a call satisfying pred.
func extractOf(v ssa.Value, idx int, pred func(c *ssa.Call) bool) (*ssa.Call, bool) {
	e, ok := v.(*ssa.Extract)
	if !ok || e.Index != idx {
		return nil, false
	}
	c, ok := e.Tuple.(*ssa.Call)
	if !ok || !pred(c) {
		return nil, false
	}
	return c, true
}

func r11_1(c *Ctx) {
	P := c.P
	fn := P.Fn("(*Connection).Connect")
	if fn == nil {
		c.anchor("(*Connection).Connect")
		return
	}
	isDoConnect := func(call *ssa.Call) bool { _, ok := isModCall(call, "(*Connection).doConnect"); return ok }
	isNext := func(call *ssa.Call) bool { _, ok := isModCall(call, "(*backoffController).next"); return ok }
	for i, ret := range returnsOf(fn) {
		name := fnLabel(fn) + ":return#" + itoa(i)
		if len(ret.Results) != 1 {
			c.undecided(name, P.ipos(ret), "unexpected result arity")
			continue
		}
		srcs := sources(ret.Results[0])
		for _, s := range srcs {
			switch {
			case isNilConst(s) || isZeroConst(s):
				c.bad(name, P.ipos(ret), "Connect can return a nil error constant: it would return without a reason")
			case isCtxErrCall(s):
				// must be on the ctx.Done() arm: the select of this loop has a
				// receive on ctx.Done(); accept if the return is dominated by
				// a select whose states include Done().
				c.check(dominatedBySelectOnDone(ret), name, P.ipos(ret), "returns ctx.Err() on the ctx.Done() arm",
					"returns ctx.Err() but not under a select arm receiving from ctx.Done(): Err() may still be nil")
			default:
				call, ok := extractOf(s, 1, isDoConnect)
				if !ok {
					c.undecided(name, P.ipos(ret), "return operand is neither doConnect's error nor ctx.Err(): "+describe(s))
					continue
				}
				// must be guarded: !shouldRetry (Extract #0 false) or next() refused.
				guard := guardedByBool(fn, ret.Block(), func(v ssa.Value) bool {
					if e, ok := v.(*ssa.Extract); ok && e.Index == 0 && e.Tuple == ssa.Value(call) {
						return true
					}
					if _, ok := extractOf(v, 1, isNext); ok {
						return true
					}
					return false
				}, false)
				c.check(guard, name, P.ipos(ret), "returns doConnect's error only when shouldRetry is false or next() refused",
					"returns doConnect's error although neither shouldRetry==false nor next() refusing guards this path: the connection is not retried according to the backoff policy")
			}
		}
	}
}

func dominatedBySelectOnDone(in ssa.Instruction) bool {
	fn := in.Parent()
	okk := false
	eachInstrDeep(fn, func(x ssa.Instruction) {
		sel, ok := x.(*ssa.Select)
		if !ok {
			return
		}
		for idx, st := range sel.States {
			if st.Dir != 2 /* types.RecvOnly */ {
				continue
			}
			if call, ok := st.Chan.(*ssa.Call); ok && call.Call.IsInvoke() && call.Call.Method.Name() == "Done" {
				// find the If testing extract #0 == idx whose true edge dominates `in`
				for _, ifi := range ifsIn(fn) {
					op, k, succ, ok := cmpConstEdge(ifi, func(v ssa.Value) bool {
						e, ok := v.(*ssa.Extract)
						return ok && e.Index == 0 && e.Tuple == ssa.Value(sel)
					})
					if ok && op == token.EQL && int(k) == idx && edgeDominates(ifi.Block(), succ, in.Block()) {
						okk = true
					}
				}
			}
		}
	})
	return okk
}

// freshConnErr: v is `make error <- *ConnectionError (new ConnectionError)`;
// returns the value stored into its Err field.
func freshConnErr(v ssa.Value) (errVal ssa.Value, ok bool) {
	if mi, isMI := v.(*ssa.MakeInterface); isMI {
		v = mi.X
	}
	al, isAl := v.(*ssa.Alloc)
	if !isAl || !typeIs(al.Type(), "sse", "ConnectionError") {
		return nil, false
	}
	for _, r := range *al.Referrers() {
		if fa, isFA := r.(*ssa.FieldAddr); isFA {
			if _, isErr := isFieldSel(fa, "ConnectionError", "Err"); isErr {
				for _, rr := range *fa.Referrers() {
					if st, isSt := rr.(*ssa.Store); isSt && st.Addr == ssa.Value(fa) {
						errVal = st.Val
					}
				}
			}
		}
	}
	return errVal, true
}

func r11_2(c *Ctx) {
	P := c.P
	fn := P.Fn("(*Connection).doConnect")
	if fn == nil {
		c.anchor("(*Connection).doConnect")
		return
	}
	// every response is validated before it is read: no path from the request to the parser avoids the validator
	{
		var do, val, rd *ssa.Call
		eachInstrDeep(fn, func(in ssa.Instruction) {
			if call, ok := isStaticCall(in, "(*net/http.Client).Do"); ok {
				do = call
			}
			if call, ok := isModCall(in, "(*Connection).read"); ok {
				rd = call
			}
			if call, ok := in.(*ssa.Call); ok && !call.Call.IsInvoke() && call.Call.StaticCallee() == nil {
				if _, ok := isFieldLoad(call.Call.Value, "Client", "ResponseValidator"); ok {
					val = call
				}
			}
		})
		if do != nil && rd != nil {
			good := val != nil && !reachesAvoiding(afterInstr(do), rd, func(in ssa.Instruction) bool { return in == ssa.Instruction(val) }, nil) &&
				guardedByNil(fn, rd.Block(), func(v ssa.Value) bool { return v == ssa.Value(val) }, true)
			c.check(good, fnLabel(fn)+":validated-before-read", P.ipos(rd), "the response of every attempt passes the validator (and only an accepted one is read)",
				"a response can reach the parser without having passed the ResponseValidator on this attempt (validated once, cached, or skipped): a reconnect answered with an error page is parsed as an event stream and retried for ever instead of ending Connect with the validation error")
		}
	}
	staleCtxErr := ""
	isErrorsIsCtx := func(v ssa.Value, subject func(ssa.Value) bool) bool {
		call, ok := isStaticCall(v, "errors.Is")
		if !ok {
			return false
		}
		if !isCtxErrCall(call.Call.Args[1]) {
			return false
		}
		for _, s := range sources(call.Call.Args[0]) {
			if subject(s) {
				// ctx.Err() is asked after the operation whose error it classifies: a value read before the
				// operation is nil for a cancellation that arrives while the operation runs
				var prod ssa.Instruction
				switch t := s.(type) {
				case *ssa.Extract:
					prod, _ = t.Tuple.(ssa.Instruction)
				case ssa.Instruction:
					prod = t
				}
				errCall, _ := call.Call.Args[1].(*ssa.Call)
				if prod != nil && errCall != nil && !instrDominates(prod, errCall) {
					staleCtxErr = P.ipos(errCall)
					continue
				}
				return true
			}
		}
		return false
	}
	defer func() {
		c.check(staleCtxErr == "", fnLabel(fn)+":ctx-err-read-after-operation", P.pos(fn.Pos()), "ctx.Err() is read after the operation whose error it is compared with",
			"the context error compared with an operation's error is read (at "+staleCtxErr+") before that operation ran: a cancellation during the operation is compared with a stale nil, so Connect wraps context.Canceled in a *ConnectionError and retries")
	}()
	kinds := map[string]bool{}
	defer func() {
		c.check(kinds["reset"], fnLabel(fn)+":reset-failure-returns", P.pos(fn.Pos()), "a failed request reset is returned (without retry)", "doConnect has no return for a failed request reset: Connect does not end when the body cannot be re-obtained")
		c.check(kinds["validator"], fnLabel(fn)+":validator-failure-returns", P.pos(fn.Pos()), "a validator failure is returned (without retry)", "doConnect has no return for a response-validator failure")
	}()
	for i, ret := range returnsOf(fn) {
		name := fnLabel(fn) + ":return#" + itoa(i)
		if len(ret.Results) != 2 {
			c.undecided(name, P.ipos(ret), "unexpected result arity")
			continue
		}
		// a bare `return` reads the named results from memory (the function has a defer): follow each to the value it holds
		retry := sources(throughLocalCell(ret.Results[0]))
		errs := sources(throughLocalCell(ret.Results[1]))
		if len(retry) != 1 || len(errs) != 1 {
			c.undecided(name, P.ipos(ret), "return operands do not resolve to single values")
			continue
		}
		rv, isConst := constBool(retry[0])
		if !isConst {
			c.undecided(name, P.ipos(ret), "shouldRetry is not a constant on this return")
			continue
		}
		e := errs[0]
		if isNilConst(e) || isZeroConst(e) {
			c.bad(name, P.ipos(ret), "doConnect returns a nil error: Connect would return nil or retry without a reason")
			continue
		}
		if inner, ok := freshConnErr(e); ok {
			// classify by what the wrapped error is
			kind := "other"
			for _, s := range sources(inner) {
				if _, ok := isModCall(s, "(*Connection).resetRequest"); ok {
					kind = "reset"
				}
				if call, ok := s.(*ssa.Call); ok && !call.Call.IsInvoke() && call.Call.StaticCallee() == nil {
					if _, ok := isFieldLoad(call.Call.Value, "Client", "ResponseValidator"); ok {
						kind = "validator"
					}
				}
			}
			kinds[kind] = true
			switch kind {
			case "reset", "validator":
				c.check(!rv, name, P.ipos(ret), "fresh *ConnectionError ("+kind+" failure) with shouldRetry=false",
					"a "+kind+" failure is returned with shouldRetry=true: Connect must return at once without retrying")
			default:
				c.check(rv, name, P.ipos(ret), "fresh *ConnectionError (transport/stream failure) with shouldRetry=true",
					"a transport/stream failure is returned with shouldRetry=false: the connection would not be retried")
			}
			continue
		}
		// pass-through errors must be guarded by errors.Is(err, ctx.Err()) and not retried
		isRead := func(v ssa.Value) bool { _, ok := isModCall(v, "(*Connection).read"); return ok }
		isDoErr := func(v ssa.Value) bool {
			_, ok := extractOf(v, 1, func(call *ssa.Call) bool { _, ok := isStaticCall(call, "(*net/http.Client).Do"); return ok })
			return ok
		}
		var subject func(ssa.Value) bool
		switch {
		case isRead(e):
			subject = isRead
		default:
			if _, ok := isFieldLoad(e, "url.Error", "Err"); ok {
				subject = isDoErr
			}
		}
		if subject == nil {
			c.undecided(name, P.ipos(ret), "returned error is neither a fresh *ConnectionError nor a ctx-guarded pass-through: "+describe(e))
			continue
		}
		g := guardedByBool(fn, ret.Block(), func(v ssa.Value) bool { return isErrorsIsCtx(v, subject) }, true)
		c.check(g && !rv, name, P.ipos(ret), "pass-through error guarded by errors.Is(err, ctx.Err()), shouldRetry=false",
			"pass-through error is not guarded by errors.Is(err, ctx.Err()) or is retried")
	}
}

func r11_3(c *Ctx) {
	P := c.P
	fn := P.Fn("(*Connection).read")
	if fn == nil {
		c.anchor("(*Connection).read")
		return
	}
	rets := returnsOf(fn)
	for i, ret := range rets {
		name := fnLabel(fn) + ":return#" + itoa(i)
		if len(ret.Results) != 1 {
			c.undecided(name, P.ipos(ret), "unexpected arity")
			continue
		}
		ld, ok := ret.Results[0].(*ssa.UnOp)
		if !ok || ld.Op != token.MUL {
			c.undecided(name, P.ipos(ret), "return operand is not a load of the captured error cell: "+describe(ret.Results[0]))
			continue
		}
		cell, ok := cellRoot(ld.X).(*ssa.Alloc)
		if !ok {
			c.undecided(name, P.ipos(ret), "returned cell is not a local")
			continue
		}
		_, stores, esc := cellStores(cell)
		if esc {
			c.undecided(name, P.ipos(ret), "error cell escapes")
			continue
		}
		// the cell must be written by the callback passed to the iterator
		var cbs []*ssa.Function
		for _, st := range stores {
			if st.Parent() != fn {
				cbs = append(cbs, st.Parent())
			}
		}
		if len(cbs) == 0 {
			c.bad(name, P.ipos(ret), "no callback stores the yielded error into the returned variable: read would return nil")
			continue
		}
		c.ok(name, P.ipos(ret), "returns the variable the iterator callback stores into")
		for _, cb := range cbs {
			checkCaptureCallback(c, cb, cell)
		}
	}
}

// checkCaptureCallback: in callback cb(e Event, err error) bool: on the
// err != nil edge the error is stored into the cell on every path, and those
// paths return false; the nil edge returns true.
func checkCaptureCallback(c *Ctx, cb *ssa.Function, cell *ssa.Alloc) {
	P := c.P
	name := fnLabel(cb)
	if len(cb.Params) != 2 {
		c.undecided(name+":shape", P.pos(cb.Pos()), "callback does not have (Event, error) parameters")
		return
	}
	errParam := cb.Params[1]
	var nonNilEdge *cfgEdge
	for _, ifi := range ifsIn(cb) {
		if s, ok := nilEdge(ifi, func(v ssa.Value) bool { return v == ssa.Value(errParam) }); ok {
			nonNilEdge = &cfgEdge{ifi.Block(), 1 - s}
		}
	}
	if nonNilEdge == nil {
		c.bad(name+":err-test", P.pos(cb.Pos()), "callback never tests its error parameter against nil")
		return
	}
	isStore := func(in ssa.Instruction) bool {
		st, ok := in.(*ssa.Store)
		return ok && cellRoot(st.Addr) == ssa.Value(cell) && st.Val == ssa.Value(errParam)
	}
	// every path from the non-nil edge to a return passes the store
	escapes := false
	forward([]startPoint{atEdge(nonNilEdge.From, nonNilEdge.Idx)}, func(in ssa.Instruction) searchAction {
		if isStore(in) {
			return stopPath
		}
		if _, ok := in.(*ssa.Return); ok {
			escapes = true
		}
		return cont
	})
	c.check(!escapes, name+":store-on-error", P.pos(cb.Pos()), "on err != nil every path stores the error into the returned variable",
		"a path with err != nil returns without storing the error: Connection.read can return nil after a failed stream")
	// returns: false on error edge, true otherwise
	okRet := true
	for _, ret := range returnsOf(cb) {
		if len(ret.Results) != 1 {
			okRet = false
			continue
		}
		onErr := edgeDominates(nonNilEdge.From, nonNilEdge.Idx, ret.Block())
		for _, s := range sources(ret.Results[0]) {
			b, isC := constBool(s)
			if !isC || b == onErr {
				okRet = false
			}
		}
	}
	c.check(okRet, name+":returns", P.pos(cb.Pos()), "callback returns false after an error and true after an event",
		"callback return values do not stop the iteration exactly on error")
}

// iteratorBody locates the closure returned by sse.read (the event iterator).
func iteratorBody(P *Program) *ssa.Function {
	rd := P.Fn("read")
	if rd == nil {
		return nil
	}
	for _, ret := range returnsOf(rd) {
		if len(ret.Results) == 1 {
			if mc, ok := ret.Results[0].(*ssa.MakeClosure); ok {
				return mc.Fn.(*ssa.Function)
			}
		}
	}
	return nil
}

// iteratorParts locates the main roles inside the iterator body.
type iterParts struct {
	fn        *ssa.Function
	next      *ssa.Call // Parser.Next call (loop condition)
	perr      *ssa.Call // Parser.Err call after the loop
	yieldCell ssa.Value // cell holding the yield parameter (or the parameter)
	doYield   *ssa.Function
	doYieldMC *ssa.MakeClosure
}

func findIterParts(P *Program) *iterParts {
	it := iteratorBody(P)
	if it == nil {
		return nil
	}
	ip := &iterParts{fn: it}
	eachInstrDeep(it, func(in ssa.Instruction) {
		if call, ok := isModCall(in, "(*parser.Parser).Next"); ok {
			ip.next = call
		}
		if call, ok := isModCall(in, "(*parser.Parser).Err"); ok {
			ip.perr = call
		}
		if mc, ok := in.(*ssa.MakeClosure); ok {
			f := mc.Fn.(*ssa.Function)
			// doYield: a closure that calls the yield function
			if callsYield(f) {
				ip.doYield = f
				ip.doYieldMC = mc
			}
		}
	})
	return ip
}

func isYieldSig(t interface{ String() string }) bool {
	return t.String() == "func("+modPath+".Event, error) bool"
}

// isYieldCall: a dynamic call of a value of the yield type func(Event, error) bool.
func isYieldCall(in ssa.Instruction) (*ssa.Call, bool) {
	call, ok := in.(*ssa.Call)
	if !ok || call.Call.IsInvoke() || call.Call.StaticCallee() != nil {
		return nil, false
	}
	if !isYieldSig(call.Call.Value.Type()) {
		return nil, false
	}
	return call, true
}

func callsYield(f *ssa.Function) bool {
	r := false
	eachInstrDeep(f, func(in ssa.Instruction) {
		if _, ok := isYieldCall(in); ok {
			r = true
		}
	})
	return r
}

func r11_4(c *Ctx) {
	P := c.P
	ip := findIterParts(P)
	if ip == nil || ip.next == nil || ip.perr == nil {
		c.anchor("event iterator (closure returned by read) with Parser.Next/Parser.Err")
		return
	}
	it := ip.fn
	// the loop-exit edge: false edge of the If on Parser.Next's result
	var exit *cfgEdge
	for _, ifi := range ifsIn(it) {
		if s, ok := boolEdge(ifi, func(v ssa.Value) bool { return v == ssa.Value(ip.next) }); ok {
			exit = &cfgEdge{ifi.Block(), 1 - s}
		}
	}
	if exit == nil {
		c.anchor("loop exit on Parser.Next()==false in the iterator")
		return
	}
	blocked := map[cfgEdge]bool{}
	for _, ifi := range ifsIn(it) {
		// perr == nil edge
		if s, ok := nilEdge(ifi, func(v ssa.Value) bool { return v == ssa.Value(ip.perr) }); ok {
			blocked[cfgEdge{ifi.Block(), s}] = true
		}
		// consumer stopped: false result of a (do)yield call
		if s, ok := boolEdge(ifi, func(v ssa.Value) bool {
			call, ok := v.(*ssa.Call)
			if !ok {
				return false
			}
			if _, ok := isYieldCall(call); ok {
				return true
			}
			return ip.doYieldMC != nil && call.Call.Value == ssa.Value(ip.doYieldMC)
		}); ok {
			blocked[cfgEdge{ifi.Block(), 1 - s}] = true
		}
		// ignoreEOF == true edge (free variable / parameter named by role: the bool free var)
		if s, ok := boolEdge(ifi, func(v ssa.Value) bool {
			a, ok := loadedFrom(v)
			if !ok {
				return false
			}
			fv, ok := a.(*ssa.FreeVar)
			return ok && deref(fv.Type()).String() == "bool"
		}); ok {
			blocked[cfgEdge{ifi.Block(), s}] = true
		}
	}
	isErrYield := func(in ssa.Instruction) bool {
		call, ok := isYieldCall(in)
		if !ok || len(call.Call.Args) != 2 {
			return false
		}
		for _, s := range sources(call.Call.Args[1]) {
			if s == ssa.Value(ip.perr) {
				return true
			}
		}
		return false
	}
	var escape ssa.Instruction
	forwardEx([]startPoint{atEdge(exit.From, exit.Idx)}, func(in ssa.Instruction) searchAction {
		if isErrYield(in) {
			return stopPath
		}
		if r, ok := in.(*ssa.Return); ok && escape == nil {
			escape = r
		}
		return cont
	}, blocked)
	name := fnLabel(it) + ":final-error-yield"
	if escape != nil {
		c.bad(name, P.ipos(escape), "a path from the end of the stream with a non-nil parser error (ignoreEOF=false, consumer not stopped) returns without yielding the error: Connection.read would return nil")
	} else {
		c.ok(name, P.pos(it.Pos()), "every path with perr != nil (and ignoreEOF false) yields the error before returning")
	}
	// call sites of read: Connection.read passes false, Read passes true
	rd := P.Fn("read")
	for _, site := range P.staticCallSites(rd) {
		caller := site.Parent()
		args := site.Common().Args
		nm := fnLabel(caller) + ":ignoreEOF-arg"
		if len(args) != 4 {
			c.undecided(nm, P.ipos(site), "read no longer takes four arguments")
			continue
		}
		b, isC := constBool(args[3])
		if !isC {
			c.undecided(nm, P.ipos(site), "ignoreEOF argument is not a constant")
			continue
		}
		isConn := typeIsRecv(caller, "Connection")
		if isConn {
			c.check(!b, nm, P.ipos(site), "Connection path reads with ignoreEOF=false (a clean EOF is reported as an error so that Connect retries)",
				"Connection path passes ignoreEOF=true: a stream that ends cleanly makes Connection.read return nil and Connect return nil")
		} else {
			c.check(b, nm, P.ipos(site), "Read passes ignoreEOF=true (EOF is success for Read)", "Read passes ignoreEOF=false: a clean EOF would be reported as an error")
		}
	}
}

func typeIsRecv(fn *ssa.Function, name string) bool {
	for fn.Parent() != nil {
		fn = fn.Parent()
	}
	if fn.Signature.Recv() == nil {
		return false
	}
	return typeIs(fn.Signature.Recv().Type(), "sse", name)
}

// ---------------------------------------------------------------------------
// parser.Parser

type parserParts struct {
	next, err *ssa.Function
}

func isScanCall(v ssa.Value) bool {
	_, ok := isStaticCall(v, "(*bufio.Scanner).Scan")
	return ok
}
func isScannerErrCall(v ssa.Value) bool {
	_, ok := isStaticCall(v, "(*bufio.Scanner).Err")
	return ok
}

// isScannerErrLike: v is the scanner's error as seen through an inlined getter: every result of the
// literal is the scanner's Err(), or nil where the literal has established that the scanner is gone
// (inputScanner == nil, i.e. the clean end of input was recorded). v == nil then means "no read error".
func isScannerErrLike(v ssa.Value) bool {
	if isScannerErrCall(v) {
		return true
	}
	call, ok := v.(*ssa.Call)
	if !ok {
		return false
	}
	g := iifeCallee(call)
	if g == nil || g.Signature.Results().Len() != 1 {
		return false
	}
	isInputScanner := func(x ssa.Value) bool { _, ok := isFieldLoad(x, "parser.Parser", "inputScanner"); return ok }
	sawCall := false
	for _, r := range returnsOf(g) {
		rv := r.Results[0]
		switch {
		case isScannerErrCall(rv):
			sawCall = true
		case isNilConst(rv):
			if !factGuards(g, r.Block(), factNil(isInputScanner, true)) {
				return false
			}
		default:
			return false
		}
	}
	return sawCall
}
func isFieldParserErrCall(v ssa.Value) bool {
	_, ok := isModCall(v, "(*parser.FieldParser).Err")
	return ok
}

func isEOFMarkerStore(in ssa.Instruction) bool {
	st, ok := in.(*ssa.Store)
	if !ok || !isNilConst(st.Val) {
		return false
	}
	_, ok = isFieldSel(st.Addr, "parser.Parser", "inputScanner")
	return ok
}

func r11_5(c *Ctx) {
	P := c.P
	fn := P.Fn("(*parser.Parser).Next")
	if fn == nil {
		c.anchor("(*parser.Parser).Next")
		return
	}
	for i, ret := range returnsOf(fn) {
		name := fnLabel(fn) + ":return#" + itoa(i)
		if len(ret.Results) != 1 {
			c.undecided(name, P.ipos(ret), "unexpected arity")
			continue
		}
		for _, s := range sources(ret.Results[0]) {
			if b, isC := constBool(s); isC {
				if b {
					c.ok(name, P.ipos(ret), "returns true")
					continue
				}
				// constant false: justified by Scan()==false with (Err()!=nil or the
				// clean-EOF marker stored), or by a non-nil field-parser error.
				if guardedByNil(fn, ret.Block(), isFieldParserErrCall, false) {
					c.ok(name, P.ipos(ret), "false under FieldParser.Err() != nil")
					continue
				}
				justified := false
				for _, ifi := range ifsIn(fn) {
					s, ok := boolEdge(ifi, isScanCall)
					if !ok {
						continue
					}
					falseEdge := cfgEdge{ifi.Block(), 1 - s}
					if !edgeDominates(falseEdge.From, falseEdge.Idx, ret.Block()) && !factGuards(fn, ret.Block(), factEdges(falseEdge)) {
						continue
					}
					// every path from that edge to ret passes the marker store or the Err()!=nil edge
					blocked := map[cfgEdge]bool{}
					for _, j := range ifsIn(fn) {
						if sn, ok := nilEdge(j, isScannerErrLike); ok {
							blocked[cfgEdge{j.Block(), 1 - sn}] = true
						}
					}
					if !reachesAvoiding(atEdge(falseEdge.From, falseEdge.Idx), ret, isEOFMarkerStore, blocked) {
						justified = true
					}
				}
				c.check(justified, name, P.ipos(ret), "false only after Scan()==false with a scanner error or the clean-EOF marker set",
					"returns false on a path where neither the scanner reported an error/EOF nor the field parser has an error: Parser.Err() is nil, the stream looks successfully ended (Connect returns nil, Read stops silently)")
				continue
			}
			// non-constant: only a recursive result is acceptable
			if call, ok := s.(*ssa.Call); ok && call.Call.StaticCallee() == fn {
				c.ok(name, P.ipos(ret), "returns the result of a recursive call")
				continue
			}
			if _, ok := isModCall(s, "(*parser.FieldParser).Next"); ok {
				c.bad(name, P.ipos(ret), "propagates FieldParser.Next's result: its false exit with no error (token without a field, e.g. a blank-line or comment-only token) makes Parser.Next return false while Parser.Err() is nil",
					"failing input: body \"\\n\" or \"data: x\\n\\n: c\\n\" -> Connect returns nil")
				continue
			}
			c.undecided(name, P.ipos(ret), "return operand is neither a constant nor a recursive result: "+describe(s))
		}
	}
}

func r11_6(c *Ctx) {
	P := c.P
	fn := P.Fn("(*parser.Parser).Err")
	if fn == nil {
		c.anchor("(*parser.Parser).Err")
		return
	}
	n := 0
	for i, ret := range returnsOf(fn) {
		if len(ret.Results) != 1 {
			continue
		}
		fromFP := false
		for _, s := range sources(ret.Results[0]) {
			if isFieldParserErrCall(s) {
				fromFP = true
			}
		}
		if !fromFP {
			continue
		}
		n++
		name := fnLabel(fn) + ":return-field-parser-error#" + itoa(i)
		// every path from entry to this return passes an edge with evidence
		// that the scanner has no read error: inputScanner == nil edge or
		// inputScanner.Err() == nil edge.
		blocked := map[cfgEdge]bool{}
		isInputScanner := func(v ssa.Value) bool { _, ok := isFieldLoad(v, "parser.Parser", "inputScanner"); return ok }
		// a local that holds the scanner's error, or nil where the scanner is known to be gone (clean EOF)
		readErrLocal := func(v ssa.Value) bool {
			phi, ok := v.(*ssa.Phi)
			if !ok {
				return false
			}
			sawCall := false
			for i, e := range phi.Edges {
				switch {
				case isScannerErrCall(e):
					sawCall = true
				case isNilConst(e):
					pred := phi.Block().Preds[i]
					okEdge := factGuards(fn, pred, factNil(isInputScanner, true))
					if !okEdge && len(pred.Instrs) > 0 {
						if ifi, isIf := pred.Instrs[len(pred.Instrs)-1].(*ssa.If); isIf {
							for si, sb := range pred.Succs {
								if sb == phi.Block() && edgeEstablishes(ifi, si, factNil(isInputScanner, true)) {
									okEdge = true
								}
							}
						}
					}
					if !okEdge {
						return false
					}
				default:
					return false
				}
			}
			return sawCall
		}
		for _, j := range ifsIn(fn) {
			if sn, ok := nilEdge(j, func(v ssa.Value) bool { return isScannerErrLike(v) || readErrLocal(v) }); ok {
				blocked[cfgEdge{j.Block(), sn}] = true
			}
			if sn, ok := nilEdge(j, func(v ssa.Value) bool { _, ok := isFieldLoad(v, "parser.Parser", "inputScanner"); return ok }); ok {
				blocked[cfgEdge{j.Block(), sn}] = true
			}
		}
		if reachesAvoiding(entryPoint(fn), ret, nil, blocked) {
			c.bad(name, P.ipos(ret), "Parser.Err can return the field parser's ErrUnexpectedEOF without first establishing that the scanner has no read error: a read error in mid-line is reported as ErrUnexpectedEOF",
				"failing input: reader yields \"data: x\\nda\" then error boom -> ErrUnexpectedEOF instead of boom")
		} else {
			c.ok(name, P.ipos(ret), "field-parser error returned only after the scanner was found to have no read error")
		}
	}
	if n == 0 {
		c.bad(fnLabel(fn)+":no-field-parser-error", P.pos(fn.Pos()), "Parser.Err never returns the field parser's error: an unterminated last line would not be reported as ErrUnexpectedEOF")
	}
	// a read error is reported as itself: where the scanner's error was found non-nil, it is what is returned
	{
		var bad ssa.Instruction
		edges := 0
		for _, j := range ifsIn(fn) {
			sn, ok := nilEdge(j, isScannerErrLike)
			if !ok {
				continue
			}
			edges++
			forward([]startPoint{atEdge(j.Block(), 1-sn)}, func(in ssa.Instruction) searchAction {
				r, isR := in.(*ssa.Return)
				if !isR || r.Parent() != fn || len(r.Results) != 1 {
					return cont
				}
				for _, sv := range sources(r.Results[0]) {
					if isNilConst(sv) {
						continue // cannot be the value on the edge that found it non-nil (a nil-safe query helper)
					}
					if !isScannerErrLike(sv) {
						bad = r
					}
				}
				return stopPath
			})
		}
		if edges > 0 {
			pos := P.pos(fn.Pos())
			if bad != nil {
				pos = P.ipos(bad)
			}
			c.check(bad == nil, fnLabel(fn)+":read-error-as-itself", pos, "a non-nil scanner error is returned unchanged", "on the path where the scanner reported a read error Parser.Err can return something else (a translation to ErrUnexpectedEOF, nil, …): the read error is not reported as itself")
		}
	}
}

func r11_7(c *Ctx) {
	P := c.P
	next := P.Fn("(*parser.Parser).Next")
	errf := P.Fn("(*parser.Parser).Err")
	if next == nil || errf == nil {
		c.anchor("(*parser.Parser).Next/Err")
		return
	}
	// marker stores: each must be under Scan()==false and Err()==nil
	n := 0
	eachInstrDeep(next, func(in ssa.Instruction) {
		if !isEOFMarkerStore(in) {
			return
		}
		n++
		name := fnLabel(next) + ":eof-marker-store"
		g1 := guardedByBool(next, in.Block(), isScanCall, false)
		g2 := guardedByNil(next, in.Block(), isScannerErrLike, true)
		c.check(g1 && g2, name, P.ipos(in), "clean-EOF marker set only when Scan()==false and the scanner has no error",
			"clean-EOF marker is set without Scan()==false && Err()==nil: a read error or a live stream would be reported as io.EOF")
	})
	if n == 0 {
		c.bad(fnLabel(next)+":eof-marker-store", P.pos(next.Pos()), "Parser.Next never records the clean end of input; bufio.Scanner suppresses io.EOF, so Parser.Err would be nil at a clean end")
	}
	// Err: returns io.EOF under marker == nil
	okEOF := false
	for _, ret := range returnsOf(errf) {
		if len(ret.Results) != 1 {
			continue
		}
		for _, s := range sources(ret.Results[0]) {
			if a, ok := loadedFrom(s); ok {
				if g, ok := a.(*ssa.Global); ok && g.Pkg.Pkg.Path() == "io" && g.Name() == "EOF" {
					if guardedByNil(errf, ret.Block(), func(v ssa.Value) bool { _, ok := isFieldLoad(v, "parser.Parser", "inputScanner"); return ok }, true) {
						okEOF = true
					}
				}
			}
		}
	}
	c.check(okEOF, fnLabel(errf)+":eof-recovery", P.pos(errf.Pos()), "Parser.Err returns io.EOF when the clean-EOF marker is set",
		"Parser.Err does not return io.EOF under the clean-EOF marker: a cleanly ended stream yields a nil error")
}

func itoa(i int) string {
	const d = "0123456789"
	if i < 10 {
		return string(d[i])
	}
	return itoa(i/10) + string(d[i%10])
}
