package main

import (
	"fmt"
	"go/constant"
	"go/token"
	"go/types"
	"sort"
	"strings"

	"golang.org/x/tools/go/ssa"
)

// ---------------------------------------------------------------------------
// basic iteration

func eachInstr(fn *ssa.Function, f func(in ssa.Instruction)) {
	for _, b := range fn.Blocks {
		for _, in := range b.Instrs {
			f(in)
		}
	}
}

func instrIndex(in ssa.Instruction) int {
	for i, x := range in.Block().Instrs {
		if x == in {
			return i
		}
	}
	return -1
}

func deref(t types.Type) types.Type {
	if p, ok := t.Underlying().(*types.Pointer); ok {
		return p.Elem()
	}
	return t
}

// ---------------------------------------------------------------------------
// calls

// calleeName returns the full name of the statically resolved callee of a
// call instruction ("strconv.ParseInt", "(*bufio.Scanner).Scan"), "" for
// dynamic calls and builtins.
func calleeName(c ssa.CallInstruction) string {
	if f := c.Common().StaticCallee(); f != nil {
		if o := f.Origin(); o != nil {
			return o.String()
		}
		return f.String()
	}
	return ""
}

// asCall returns the CallCommon if in is a Call/Go/Defer.
func asCall(in ssa.Instruction) (ssa.CallInstruction, bool) {
	c, ok := in.(ssa.CallInstruction)
	return c, ok
}

// isStaticCall reports whether v/in is a call whose resolved callee has the given full name.
func isStaticCall(in interface{}, names ...string) (*ssa.Call, bool) {
	c, ok := in.(*ssa.Call)
	if !ok {
		return nil, false
	}
	n := calleeName(c)
	for _, want := range names {
		if n == want {
			return c, true
		}
	}
	return nil, false
}

// isModCall: static call to a module function given by short name.
func isModCall(in interface{}, shorts ...string) (*ssa.Call, bool) {
	c, ok := in.(*ssa.Call)
	if !ok {
		return nil, false
	}
	n := calleeName(c)
	for _, s := range shorts {
		if n == expandName(s) {
			return c, true
		}
	}
	return nil, false
}

func isBuiltin(in interface{}, name string) (ssa.CallInstruction, bool) {
	c, ok := in.(ssa.CallInstruction)
	if !ok {
		return nil, false
	}
	if b, ok := c.Common().Value.(*ssa.Builtin); ok && b.Name() == name {
		return c, true
	}
	return nil, false
}

// isInvoke: interface method call iface.method where the interface's named
// type is pkg.name ("sse","MessageWriter") — or any interface if name=="".
func isInvoke(in interface{}, pkg, name, method string) (ssa.CallInstruction, bool) {
	c, ok := in.(ssa.CallInstruction)
	if !ok {
		return nil, false
	}
	cc := c.Common()
	if !cc.IsInvoke() || cc.Method.Name() != method {
		return nil, false
	}
	if name == "" {
		return c, true
	}
	if typeIs(cc.Value.Type(), pkg, name) {
		return c, true
	}
	return nil, false
}

// ---------------------------------------------------------------------------
// fields

// fieldVarOf returns the struct field selected by a FieldAddr or Field value
// together with the name of the (origin) named struct type that owns it.
func fieldSel(v ssa.Value) (owner string, name string, base ssa.Value, ok bool) {
	switch x := v.(type) {
	case *ssa.FieldAddr:
		t := deref(x.X.Type())
		st, _ := t.Underlying().(*types.Struct)
		if st == nil {
			return
		}
		return ownerName(t), st.Field(x.Field).Name(), x.X, true
	case *ssa.Field:
		t := x.X.Type()
		st, _ := t.Underlying().(*types.Struct)
		if st == nil {
			return
		}
		return ownerName(t), st.Field(x.Field).Name(), x.X, true
	}
	return
}

func ownerName(t types.Type) string {
	if n := namedOf(t); n != nil {
		o := n.Origin().Obj()
		if o.Pkg() != nil && o.Pkg().Path() == parserPath {
			return "parser." + o.Name()
		}
		if o.Pkg() != nil && !strings.HasPrefix(o.Pkg().Path(), modPath) {
			return o.Pkg().Name() + "." + o.Name()
		}
		return o.Name()
	}
	return ""
}

func isFieldSel(v ssa.Value, owner, name string) (base ssa.Value, ok bool) {
	o, n, b, ok := fieldSel(v)
	if ok && o == owner && n == name {
		return b, true
	}
	// owner "~" with name "type:T": a field of type T of any struct type of the module, whatever the
	// struct and the field are called (used where the base value pins down which struct is meant)
	if ok && owner == "~" && strings.HasPrefix(name, "type:") && o != "" && !strings.Contains(o, ".") {
		if fieldSelType(v) == name[len("type:"):] {
			return b, true
		}
	}
	return nil, false
}

// fieldSelType renders the type of the field selected by a FieldAddr/Field, relative to the module's root package.
func fieldSelType(v ssa.Value) string {
	var t types.Type
	var idx int
	switch x := v.(type) {
	case *ssa.FieldAddr:
		t, idx = deref(x.X.Type()), x.Field
	case *ssa.Field:
		t, idx = x.X.Type(), x.Field
	default:
		return ""
	}
	st, _ := t.Underlying().(*types.Struct)
	if st == nil {
		return ""
	}
	return types.TypeString(st.Field(idx).Type(), func(p *types.Package) string {
		if p.Path() == modPath {
			return ""
		}
		return p.Name()
	})
}

// loadedFrom: if v is a load (*addr) return addr.
func loadedFrom(v ssa.Value) (ssa.Value, bool) {
	if u, ok := v.(*ssa.UnOp); ok && u.Op == token.MUL {
		return u.X, true
	}
	return nil, false
}

// isFieldLoad: v is a load of owner.name (via FieldAddr) or a Field extraction of it.
func isFieldLoad(v ssa.Value, owner, name string) (base ssa.Value, ok bool) {
	if a, ok := loadedFrom(v); ok {
		return isFieldSel(a, owner, name)
	}
	if f, ok := v.(*ssa.Field); ok {
		return isFieldSel(f, owner, name)
	}
	return nil, false
}

// FieldAccess is one instruction touching a struct field.
type FieldAccess struct {
	Fn    *ssa.Function
	Instr ssa.Instruction // the FieldAddr / Field instruction
	Use   ssa.Instruction // the load/store/other use (nil for Field reads)
	Kind  string          // "read", "write", "addr" (address escapes to something else)
	Base  ssa.Value
}

// fieldAccesses lists every access to owner.name in the module.
func (P *Program) fieldAccesses(owner, name string) []FieldAccess {
	var out []FieldAccess
	for _, fn := range P.Funcs {
		eachInstr(fn, func(in ssa.Instruction) {
			v, ok := in.(ssa.Value)
			if !ok {
				return
			}
			base, ok := isFieldSel(v, owner, name)
			if !ok {
				return
			}
			if _, isF := v.(*ssa.Field); isF {
				out = append(out, FieldAccess{Fn: fn, Instr: in, Kind: "read", Base: base})
				return
			}
			refs := v.Referrers()
			if refs == nil {
				return
			}
			for _, r := range *refs {
				switch u := r.(type) {
				case *ssa.Store:
					if u.Addr == v {
						out = append(out, FieldAccess{Fn: fn, Instr: in, Use: r, Kind: "write", Base: base})
					} else {
						out = append(out, FieldAccess{Fn: fn, Instr: in, Use: r, Kind: "addr", Base: base})
					}
				case *ssa.UnOp:
					out = append(out, FieldAccess{Fn: fn, Instr: in, Use: r, Kind: "read", Base: base})
				case *ssa.FieldAddr, *ssa.IndexAddr:
					// nested selection: classified at the inner field
					out = append(out, FieldAccess{Fn: fn, Instr: in, Use: r, Kind: "sub", Base: base})
				case *ssa.DebugRef:
				default:
					out = append(out, FieldAccess{Fn: fn, Instr: in, Use: r, Kind: "addr", Base: base})
				}
			}
		})
	}
	return out
}

// ---------------------------------------------------------------------------
// constants

func constOf(v ssa.Value) (*ssa.Const, bool) {
	c, ok := v.(*ssa.Const)
	return c, ok
}

func isNilConst(v ssa.Value) bool {
	c, ok := v.(*ssa.Const)
	return ok && c.Value == nil && isNillable(c.Type())
}

func isNillable(t types.Type) bool {
	switch t.Underlying().(type) {
	case *types.Pointer, *types.Interface, *types.Slice, *types.Map, *types.Chan, *types.Signature:
		return true
	}
	if b, ok := t.Underlying().(*types.Basic); ok && b.Kind() == types.UntypedNil {
		return true
	}
	return false
}

// isZeroConst: a constant that is the zero value of its type.
func isZeroConst(v ssa.Value) bool {
	c, ok := v.(*ssa.Const)
	if !ok {
		return false
	}
	if c.Value == nil {
		return true // nil or zero aggregate
	}
	switch c.Value.Kind() {
	case constant.Bool:
		return !constant.BoolVal(c.Value)
	case constant.String:
		return constant.StringVal(c.Value) == ""
	case constant.Int, constant.Float, constant.Complex:
		return constant.Sign(c.Value) == 0
	}
	return false
}

func constBool(v ssa.Value) (val, ok bool) {
	c, isC := v.(*ssa.Const)
	if !isC || c.Value == nil || c.Value.Kind() != constant.Bool {
		return false, false
	}
	return constant.BoolVal(c.Value), true
}

func constInt(v ssa.Value) (int64, bool) {
	c, isC := v.(*ssa.Const)
	if !isC || c.Value == nil || c.Value.Kind() != constant.Int {
		return 0, false
	}
	return c.Int64(), true
}

func constString(v ssa.Value) (string, bool) {
	c, isC := v.(*ssa.Const)
	if !isC || c.Value == nil || c.Value.Kind() != constant.String {
		return "", false
	}
	return constant.StringVal(c.Value), true
}

// ---------------------------------------------------------------------------
// value walking

// stripConv removes ChangeType/Convert/MakeInterface/ChangeInterface wrappers.
func stripConv(v ssa.Value) ssa.Value {
	for {
		switch x := v.(type) {
		case *ssa.ChangeType:
			v = x.X
		case *ssa.MakeInterface:
			v = x.X
		case *ssa.ChangeInterface:
			v = x.X
		default:
			return v
		}
	}
}

// cellStores returns every value stored (anywhere in fn and its closures)
// into the Alloc/FreeVar cell `addr` itself (not its sub-fields), and whether
// the cell's address escapes to anything other than loads, stores, field
// selections, DebugRefs and closure bindings.
func cellStores(addr ssa.Value) (stored []ssa.Value, stores []*ssa.Store, escapes bool) {
	seen := map[ssa.Value]bool{}
	var walk func(a ssa.Value)
	walk = func(a ssa.Value) {
		if seen[a] {
			return
		}
		seen[a] = true
		refs := a.Referrers()
		if refs == nil {
			escapes = true
			return
		}
		for _, r := range *refs {
			switch u := r.(type) {
			case *ssa.Store:
				if u.Addr == a {
					stored = append(stored, u.Val)
					stores = append(stores, u)
				} else {
					escapes = true
				}
			case *ssa.UnOp, *ssa.DebugRef, *ssa.FieldAddr, *ssa.IndexAddr:
			case *ssa.MakeClosure:
				// the cell is captured: follow the corresponding free variable
				fn := u.Fn.(*ssa.Function)
				for i, b := range u.Bindings {
					if b == a {
						walk(fn.FreeVars[i])
					}
				}
			default:
				escapes = true
			}
		}
	}
	// if addr is a FreeVar, go up to the captured cell in the parent
	root := cellRoot(addr)
	walk(root)
	return
}

// cellRoot maps a FreeVar (captured by reference) back to the Alloc it is bound to.
func cellRoot(addr ssa.Value) ssa.Value {
	for {
		fv, ok := addr.(*ssa.FreeVar)
		if !ok {
			return addr
		}
		fn := fv.Parent()
		idx := -1
		for i, x := range fn.FreeVars {
			if x == fv {
				idx = i
			}
		}
		par := fn.Parent()
		if par == nil || idx < 0 {
			return addr
		}
		var bound ssa.Value
		eachInstr(par, func(in ssa.Instruction) {
			if mc, ok := in.(*ssa.MakeClosure); ok && mc.Fn == fn && idx < len(mc.Bindings) {
				bound = mc.Bindings[idx]
			}
		})
		if bound == nil {
			return addr
		}
		addr = bound
	}
}

// sources resolves v to the set of "origin" values it may carry: through Phi,
// conversions, and loads of non-escaping local cells (all stores, flow
// insensitive). Values it cannot look through are returned as themselves.
func sources(v ssa.Value) []ssa.Value {
	var out []ssa.Value
	seen := map[ssa.Value]bool{}
	var walk func(v ssa.Value)
	walk = func(v ssa.Value) {
		if seen[v] {
			return
		}
		seen[v] = true
		switch x := v.(type) {
		case *ssa.Phi:
			for _, e := range x.Edges {
				walk(e)
			}
			return
		case *ssa.ChangeType:
			walk(x.X)
			return
		case *ssa.MakeInterface:
			walk(x.X)
			return
		case *ssa.ChangeInterface:
			walk(x.X)
			return
		case *ssa.Call:
			if g := iifeCallee(x); g != nil && g.Signature.Results().Len() == 1 {
				for _, ret := range returnsOf(g) {
					walk(ret.Results[0])
				}
				return
			}
		case *ssa.Parameter:
			// the parameter of an immediately-invoked function literal is its argument
			if g := x.Parent(); g != nil {
				if site := iifeSiteCached(g); site != nil {
					for i, p := range g.Params {
						if p == x && i < len(site.Call.Args) {
							walk(site.Call.Args[i])
							return
						}
					}
				}
			}
		case *ssa.Extract:
			if call, ok := x.Tuple.(*ssa.Call); ok {
				if g := iifeCallee(call); g != nil {
					for _, ret := range returnsOf(g) {
						if x.Index < len(ret.Results) {
							walk(ret.Results[x.Index])
						}
					}
					return
				}
			}
		case *ssa.UnOp:
			if x.Op == token.MUL {
				root := cellRoot(x.X)
				// a variable captured by an immediately-invoked literal: the cell lives in the enclosing function
				if fv, isFV := x.X.(*ssa.FreeVar); isFV {
					if g := fv.Parent(); g != nil {
						if site := iifeSiteCached(g); site != nil {
							if mc, ok := site.Call.Value.(*ssa.MakeClosure); ok {
								for i, b := range g.FreeVars {
									if b == fv && i < len(mc.Bindings) {
										if al, isAl := mc.Bindings[i].(*ssa.Alloc); isAl {
											st, _, esc := cellStores(al)
											if !esc && len(st) > 0 {
												for _, sv := range st {
													walk(sv)
												}
												return
											}
										}
									}
								}
							}
						}
					}
				}
				if _, isAlloc := root.(*ssa.Alloc); isAlloc {
					st, stores, esc := cellStores(x.X)
					if !esc {
						// flow-sensitive refinement: a store to the cell earlier
						// in the load's own block kills every other store of
						// this function (go/ssa spills named results:
						// `*t0 = x; rundefers; t1 = *t0; return t1`); stores
						// made by closures that capture the cell stay possible.
						local, reachesEntry := reachingStores(x)
						if len(local) > 0 || reachesEntry {
							for _, so := range local {
								walk(so.Val)
							}
							for _, so := range stores {
								if so.Parent() != x.Parent() {
									walk(so.Val)
								}
							}
							if reachesEntry && len(local) == 0 && !hasForeign(stores, x.Parent()) {
								out = append(out, v) // still the zero value
							}
							return
						}
						if len(st) == 0 {
							out = append(out, v) // zero value cell
							return
						}
						for _, s := range st {
							walk(s)
						}
						return
					}
				}
			}
		}
		out = append(out, v)
	}
	walk(v)
	return out
}

// carriesOnly: every origin of v (through phis, conversions and spilled local cells, e.g. a
// parameter that a function literal captures) is p.
func carriesOnly(v ssa.Value, p ssa.Value) bool {
	if v == p {
		return true
	}
	src := sources(v)
	if len(src) == 0 {
		return false
	}
	for _, s := range src {
		if s != p {
			return false
		}
	}
	return true
}

// carriesOnlyConv is carriesOnly through channel-direction and named-type conversions on the way.
func carriesOnlyConv(v ssa.Value, p ssa.Value) bool {
	src := sources(v)
	if len(src) == 0 {
		return false
	}
	for _, s := range src {
		if stripConvAll(s) != p && s != p {
			// a converted load of a cell holding p
			ok := false
			for _, s2 := range sources(stripConvAll(s)) {
				if stripConvAll(s2) == p {
					ok = true
				} else {
					return false
				}
			}
			if !ok {
				return false
			}
		}
	}
	return true
}

// sourcesIgnoringFailed is sources(v), except that a result which an inlined helper returns beside a
// constant false ("no result": `return 0, false`) is not an origin: the caller only uses the value
// after testing that flag (the flag/use correlation itself is what forwardEx follows).
func sourcesIgnoringFailed(v ssa.Value) []ssa.Value {
	var out []ssa.Value
	for _, sv := range sources(v) {
		out = append(out, sv)
	}
	e, ok := v.(*ssa.Extract)
	if !ok {
		// through a single local copy
		if src := sources(v); len(src) == 1 && src[0] != v {
			if _, isE := src[0].(*ssa.Extract); isE {
				return sourcesIgnoringFailed(src[0])
			}
		}
		return out
	}
	call, ok := e.Tuple.(*ssa.Call)
	if !ok {
		return out
	}
	g := iifeCallee(call)
	if g == nil {
		return out
	}
	out = nil
	for _, r := range returnsOf(g) {
		if e.Index >= len(r.Results) {
			continue
		}
		failed := false
		for i, other := range r.Results {
			if i == e.Index {
				continue
			}
			if bv, isC := constBool(other); isC && !bv {
				failed = true
			}
		}
		if failed {
			continue
		}
		out = append(out, sources(r.Results[e.Index])...)
	}
	return out
}

func hasForeign(stores []*ssa.Store, fn *ssa.Function) bool {
	for _, s := range stores {
		if s.Parent() != fn {
			return true
		}
	}
	return false
}

// reachingStores: the stores of the load's own function to the loaded cell
// that may reach the load (backward search over the CFG; a store kills all
// earlier ones on its path). reachesEntry reports a store-free path from the
// function entry (the cell may still hold its zero value / initial content).
func reachingStores(load *ssa.UnOp) (out []*ssa.Store, reachesEntry bool) {
	type item struct {
		b *ssa.BasicBlock
		i int // scan instructions with index < i
	}
	idx := instrIndex(load)
	seen := map[*ssa.BasicBlock]bool{}
	stack := []item{{load.Block(), idx}}
	dup := map[*ssa.Store]bool{}
	for len(stack) > 0 {
		it := stack[len(stack)-1]
		stack = stack[:len(stack)-1]
		foundStore := false
		for k := it.i - 1; k >= 0; k-- {
			if st, ok := it.b.Instrs[k].(*ssa.Store); ok && sameAddr(st.Addr, load.X) {
				if !dup[st] {
					dup[st] = true
					out = append(out, st)
				}
				foundStore = true
				break
			}
		}
		if foundStore {
			continue
		}
		if len(it.b.Preds) == 0 {
			reachesEntry = true
			continue
		}
		for _, p := range it.b.Preds {
			if seen[p] {
				continue
			}
			seen[p] = true
			stack = append(stack, item{p, len(p.Instrs)})
		}
	}
	return
}

// sameAddr: two address expressions denote the same location (purely
// structural: identical roots and identical field/index paths).
func sameAddr(a, b ssa.Value) bool {
	if a == b {
		return true
	}
	switch x := a.(type) {
	case *ssa.FieldAddr:
		y, ok := b.(*ssa.FieldAddr)
		return ok && x.Field == y.Field && sameAddrOrVal(x.X, y.X)
	case *ssa.IndexAddr:
		y, ok := b.(*ssa.IndexAddr)
		return ok && sameAddrOrVal(x.X, y.X) && sameValue(x.Index, y.Index)
	case *ssa.FreeVar, *ssa.Alloc, *ssa.Global, *ssa.Parameter:
		return cellRoot(a) == cellRoot(b)
	}
	return false
}

func sameAddrOrVal(a, b ssa.Value) bool {
	return sameAddr(a, b) || sameValue(a, b)
}

// noWriteBetween: a and b are in one block; no store, call or defer lies between them.
func noWriteBetween(a, b ssa.Instruction) bool {
	blk := a.Block()
	ia, ib := instrIndex(a), instrIndex(b)
	if ia > ib {
		ia, ib = ib, ia
	}
	for k := ia + 1; k < ib; k++ {
		switch x := blk.Instrs[k].(type) {
		case *ssa.Store, *ssa.Defer, *ssa.Go, *ssa.MapUpdate, *ssa.Send, *ssa.RunDefers:
			return false
		case *ssa.Call:
			if _, isBuiltin := x.Call.Value.(*ssa.Builtin); !isBuiltin {
				return false
			}
		}
	}
	return true
}

// noWriteOnPaths: no store, map update, non-builtin call, defer or go lies on any path from a to b
// (a dominates b).
func noWriteOnPaths(a, b ssa.Instruction) bool {
	isWriter := func(in ssa.Instruction) bool {
		switch x := in.(type) {
		case *ssa.Store, *ssa.Defer, *ssa.Go, *ssa.MapUpdate, *ssa.Send, *ssa.RunDefers:
			return true
		case *ssa.Call:
			if _, isBuiltin := x.Call.Value.(*ssa.Builtin); !isBuiltin {
				if callee := x.Call.StaticCallee(); callee != nil && callee.Pkg != nil && !inSSEPackage(callee) && x.Call.Signature().Recv() == nil {
					// a plain function of another package (strings, strconv, …) cannot write the module's state
					return false
				}
				if callee := x.Call.StaticCallee(); callee != nil && isPureModuleFunc(callee) {
					return false
				}
				return true
			}
		}
		return false
	}
	ba, bb := a.Block(), b.Block()
	// blocks on some path from a to b: forward-reachable from a's successors and backward-reachable from b
	fwd := reach(ba.Succs, nil, nil)
	back := map[*ssa.BasicBlock]bool{bb: true}
	stack := []*ssa.BasicBlock{bb}
	for len(stack) > 0 {
		x := stack[len(stack)-1]
		stack = stack[:len(stack)-1]
		for _, p := range x.Preds {
			if !back[p] {
				back[p] = true
				stack = append(stack, p)
			}
		}
	}
	for i := instrIndex(a) + 1; i < len(ba.Instrs); i++ {
		if isWriter(ba.Instrs[i]) {
			return false
		}
	}
	for i := 0; i < instrIndex(b); i++ {
		if isWriter(bb.Instrs[i]) {
			return false
		}
	}
	for blk := range fwd {
		if !back[blk] || blk == bb || blk == ba {
			continue
		}
		for _, in := range blk.Instrs {
			if isWriter(in) {
				return false
			}
		}
	}
	// b's block reachable again from itself (a loop around b) or a's block re-entered: be conservative
	if fwd[ba] && back[ba] && ba != bb {
		for _, in := range ba.Instrs {
			if isWriter(in) {
				return false
			}
		}
	}
	return true
}

// isPureModuleFunc: a module function without pointer receiver/parameters to module state that only
// computes on strings and integers (NewlineIndex, isNewlineChar, NextChunk, trimFirstSpace, …).
func isPureModuleFunc(f *ssa.Function) bool {
	if f.Blocks == nil || f.Signature.Recv() != nil {
		return false
	}
	for i := 0; i < f.Signature.Params().Len(); i++ {
		switch t := f.Signature.Params().At(i).Type().Underlying().(type) {
		case *types.Basic:
		default:
			_ = t
			return false
		}
	}
	pure := true
	eachInstr(f, func(in ssa.Instruction) {
		switch x := in.(type) {
		case *ssa.Store:
			if _, isAlloc := cellRoot(x.Addr).(*ssa.Alloc); !isAlloc {
				pure = false
			}
		case *ssa.MapUpdate, *ssa.Send, *ssa.Go, *ssa.Defer:
			pure = false
		case *ssa.Call:
			if _, isBuiltin := x.Call.Value.(*ssa.Builtin); isBuiltin {
				return
			}
			callee := x.Call.StaticCallee()
			if callee == nil || callee == f {
				pure = false
				return
			}
			if inSSEPackage(callee) && !isPureModuleFuncShallow(callee) {
				pure = false
			}
		}
	})
	return pure
}

func isPureModuleFuncShallow(f *ssa.Function) bool {
	if f.Blocks == nil || f.Signature.Recv() != nil {
		return false
	}
	ok := true
	eachInstr(f, func(in ssa.Instruction) {
		switch x := in.(type) {
		case *ssa.Store:
			if _, isAlloc := cellRoot(x.Addr).(*ssa.Alloc); !isAlloc {
				ok = false
			}
		case *ssa.MapUpdate, *ssa.Send, *ssa.Go, *ssa.Defer:
			ok = false
		case *ssa.Call:
			if _, isBuiltin := x.Call.Value.(*ssa.Builtin); !isBuiltin {
				if callee := x.Call.StaticCallee(); callee == nil || inSSEPackage(callee) {
					ok = false
				}
			}
		}
	})
	return ok
}

// sameValue: structural equality of pure SSA values (go/ssa does no CSE).
// Loads are equal only if they are the same instruction, or loads of the same
// never-reassigned cell (a cell with at most one store).
func sameValue(a, b ssa.Value) bool {
	if a == b {
		return true
	}
	if a == nil || b == nil {
		return false
	}
	switch x := a.(type) {
	case *ssa.Const:
		y, ok := b.(*ssa.Const)
		if !ok || !types.Identical(x.Type(), y.Type()) {
			return false
		}
		if x.Value == nil || y.Value == nil {
			return x.Value == nil && y.Value == nil
		}
		return constant.Compare(x.Value, token.EQL, y.Value)
	case *ssa.ChangeType:
		y, ok := b.(*ssa.ChangeType)
		return ok && sameValue(x.X, y.X)
	case *ssa.Convert:
		y, ok := b.(*ssa.Convert)
		return ok && types.Identical(x.Type(), y.Type()) && sameValue(x.X, y.X)
	case *ssa.Field:
		y, ok := b.(*ssa.Field)
		return ok && x.Field == y.Field && sameValue(x.X, y.X)
	case *ssa.Extract:
		y, ok := b.(*ssa.Extract)
		return ok && x.Index == y.Index && x.Tuple == y.Tuple
	case *ssa.BinOp:
		y, ok := b.(*ssa.BinOp)
		return ok && x.Op == y.Op && sameValue(x.X, y.X) && sameValue(x.Y, y.Y)
	case *ssa.UnOp:
		y, ok := b.(*ssa.UnOp)
		if !ok || x.Op != y.Op {
			return false
		}
		if x.Op != token.MUL {
			return sameValue(x.X, y.X)
		}
		// loads: same single-assignment cell, or two loads of one address in one
		// block with no store or call in between (go/ssa does no CSE)
		if sameAddr(x.X, y.X) {
			if x.Block() == y.Block() && noWriteBetween(x, y) {
				return true
			}
			if x.Parent() == y.Parent() && x.Block() != y.Block() {
				// one load dominates the other and nothing that can write lies on any path between them
				if x.Block().Dominates(y.Block()) && noWriteOnPaths(x, y) {
					return true
				}
				if y.Block().Dominates(x.Block()) && noWriteOnPaths(y, x) {
					return true
				}
			}
			root := cellRoot(x.X)
			if _, isAlloc := root.(*ssa.Alloc); isAlloc {
				_, stores, esc := cellStores(x.X)
				return !esc && len(stores) <= 1
			}
		}
		return false
	case *ssa.Call:
		y, ok := b.(*ssa.Call)
		if !ok {
			return false
		}
		bx, okx := x.Call.Value.(*ssa.Builtin)
		by, oky := y.Call.Value.(*ssa.Builtin)
		if okx && oky && bx.Name() == by.Name() && (bx.Name() == "len" || bx.Name() == "cap") {
			return sameValue(x.Call.Args[0], y.Call.Args[0])
		}
		return false
	}
	return false
}

// ---------------------------------------------------------------------------
// CFG

// reach returns the blocks reachable from the given start blocks, never
// traversing an edge for which blockedEdge returns true and never entering a
// block for which blockedBlock returns true (the start blocks are entered
// unconditionally).
func reach(starts []*ssa.BasicBlock, blockedEdge func(from, to *ssa.BasicBlock, idx int) bool, blockedBlock func(b *ssa.BasicBlock) bool) map[*ssa.BasicBlock]bool {
	seen := map[*ssa.BasicBlock]bool{}
	var stack []*ssa.BasicBlock
	for _, s := range starts {
		if !seen[s] {
			seen[s] = true
			stack = append(stack, s)
		}
	}
	for len(stack) > 0 {
		b := stack[len(stack)-1]
		stack = stack[:len(stack)-1]
		for i, s := range b.Succs {
			if blockedEdge != nil && blockedEdge(b, s, i) {
				continue
			}
			if seen[s] {
				continue
			}
			if blockedBlock != nil && blockedBlock(s) {
				continue
			}
			seen[s] = true
			stack = append(stack, s)
		}
	}
	return seen
}

// edgeDominates: every path from the function entry to target traverses the
// edge from -> from.Succs[idx].
func edgeDominates(from *ssa.BasicBlock, idx int, target *ssa.BasicBlock) bool {
	fn := from.Parent()
	if target.Parent() != fn {
		lifted, ok := liftBlock(target, fn)
		if !ok {
			return false
		}
		target = lifted
	}
	entry := fn.Blocks[0]
	if target == entry {
		return false
	}
	r := reach([]*ssa.BasicBlock{entry}, func(a, b *ssa.BasicBlock, i int) bool {
		return a == from && i == idx
	}, nil)
	if !r[target] {
		// also require that target is reachable at all with the edge present
		full := reach([]*ssa.BasicBlock{entry}, nil, nil)
		return full[target]
	}
	return false
}

// instrDominates: a is executed before b on every path reaching b.
func instrDominates(a, b ssa.Instruction) bool {
	if a.Parent() != b.Parent() {
		if lb, ok := liftInstr(b, a.Parent()); ok {
			b = lb
		} else if la, ok := liftMust(a, b.Parent()); ok {
			// a sits in a function literal invoked on the way to b and is executed on every
			// normal return of that literal
			a = la
		} else {
			return false
		}
	}
	if a.Block() == b.Block() {
		return instrIndex(a) < instrIndex(b)
	}
	return a.Block().Dominates(b.Block())
}

// liftMust maps an instruction inside (nested) IIFEs of fn to the call in fn that executes it,
// provided the instruction is executed on every path to a normal return of each literal.
func liftMust(in ssa.Instruction, fn *ssa.Function) (ssa.Instruction, bool) {
	for i := 0; i < 8; i++ {
		g := in.Parent()
		if g == fn {
			return in, true
		}
		site := iifeSiteCached(g)
		if site == nil {
			return nil, false
		}
		for _, ret := range returnsOf(g) {
			if !(in.Block() == ret.Block() || in.Block().Dominates(ret.Block())) {
				return nil, false
			}
		}
		in = site
	}
	return nil, false
}

// Search walks forward from a program point. visit is called on every
// instruction reached; it returns stop (do not continue past this
// instruction on this path), found (record and stop), or cont.
type searchAction int

const (
	cont searchAction = iota
	stopPath
	found
)

type startPoint struct {
	B *ssa.BasicBlock
	I int // first instruction index to visit
}

func afterInstr(in ssa.Instruction) startPoint {
	return startPoint{in.Block(), instrIndex(in) + 1}
}

func atEdge(from *ssa.BasicBlock, idx int) startPoint {
	return startPoint{from.Succs[idx], 0}
}

// forward explores all CFG paths from the start points. It returns the first
// instruction for which visit returned found (nil if none), plus whether a
// function exit (Return/Panic) was reached without being stopped.
func forward(starts []startPoint, visit func(in ssa.Instruction) searchAction) (hit ssa.Instruction, reachedExit bool) {
	return forwardEx(starts, visit, nil)
}

type cfgEdge struct {
	From *ssa.BasicBlock
	Idx  int
}

// forwardEx is forward with a set of CFG edges that must not be traversed.
func forwardEx(starts []startPoint, visit func(in ssa.Instruction) searchAction, blocked map[cfgEdge]bool) (hit ssa.Instruction, reachedExit bool) {
	// an item may carry the constant boolean results with which an immediately-invoked literal was left:
	// if the caller branches on such a result right after the call, only the matching edge is followed
	// (`x, ok := func() (T, bool) { … return zero, false … }(); if !ok { … }`)
	// an item also carries the boolean flags known on its path: a phi of bool type whose incoming value on
	// the edge taken is a constant (`accepted := true; if bad { accepted = false }; … if accepted {`), or a
	// local bool cell last stored a constant. A later branch on such a flag follows only the matching edge.
	type item struct {
		b     *ssa.BasicBlock
		i     int
		site  *ssa.Call
		key   string
		flags map[ssa.Value]bool
	}
	type seenKey struct {
		b   *ssa.BasicBlock
		i   int
		key string
	}
	flagKey := func(fl map[ssa.Value]bool) string {
		if len(fl) == 0 {
			return ""
		}
		var ks []string
		for v, b := range fl {
			t := "F"
			if b {
				t = "T"
			}
			ks = append(ks, v.Name()+"@"+fnLabel(v.Parent())+t)
		}
		sort.Strings(ks)
		return "|" + strings.Join(ks, ",")
	}
	cloneFlags := func(fl map[ssa.Value]bool) map[ssa.Value]bool {
		if len(fl) == 0 {
			return nil
		}
		n := make(map[ssa.Value]bool, len(fl))
		for k, v := range fl {
			n[k] = v
		}
		return n
	}
	// flagsOnEdge: the flags known after moving from block b to its successor s
	flagsOnEdge := func(fl map[ssa.Value]bool, b, s *ssa.BasicBlock) map[ssa.Value]bool {
		var out map[ssa.Value]bool
		for _, in := range s.Instrs {
			phi, isPhi := in.(*ssa.Phi)
			if !isPhi {
				break
			}
			if bt, ok := phi.Type().Underlying().(*types.Basic); !ok || bt.Kind() != types.Bool {
				continue
			}
			for pi, pr := range s.Preds {
				if pr != b || pi >= len(phi.Edges) {
					continue
				}
				if bv, isC := constBool(phi.Edges[pi]); isC {
					if out == nil {
						out = cloneFlags(fl)
						if out == nil {
							out = map[ssa.Value]bool{}
						}
					}
					out[phi] = bv
				} else if kv, ok := fl[phi.Edges[pi]]; ok {
					if out == nil {
						out = cloneFlags(fl)
					}
					out[phi] = kv
				} else if _, had := fl[phi]; had {
					if out == nil {
						out = cloneFlags(fl)
					}
					delete(out, phi)
				}
			}
		}
		if out == nil {
			return fl
		}
		return out
	}
	known := map[string]map[int]bool{}
	// seen is keyed by (block, first index, result context) so that a continuation after an IIFE call can
	// re-enter the caller's block at the instruction after the call
	seen := map[seenKey]bool{}
	var stack []item
	for _, s := range starts {
		stack = append(stack, item{b: s.B, i: s.I})
	}
	for len(stack) > 0 {
		it := stack[len(stack)-1]
		stack = stack[:len(stack)-1]
		sk := seenKey{it.b, it.i, it.key + flagKey(it.flags)}
		if seen[sk] {
			continue
		}
		seen[sk] = true
		stopped := false
		for k := it.i; k < len(it.b.Instrs); k++ {
			in := it.b.Instrs[k]
			// a local bool cell: remember the constant last stored, forget on any other store
			if st, isSt := in.(*ssa.Store); isSt {
				if al, isAl := cellRoot(st.Addr).(*ssa.Alloc); isAl {
					if bt, ok := deref(al.Type()).Underlying().(*types.Basic); ok && bt.Kind() == types.Bool {
						it.flags = cloneFlags(it.flags)
						if bv, isC := constBool(st.Val); isC {
							if it.flags == nil {
								it.flags = map[ssa.Value]bool{}
							}
							it.flags[al] = bv
						} else if it.flags != nil {
							delete(it.flags, al)
						}
					}
				}
			}
			// the return of an immediately-invoked literal is not an exit: control continues after its call
			if ret, isRet := in.(*ssa.Return); isRet {
				if site := iifeSiteCached(in.Parent()); site != nil {
					kn := map[int]bool{}
					key := ""
					for ri, rv := range ret.Results {
						if bv, isC := constBool(rv); isC && rv.Type().Underlying().String() == "bool" {
							kn[ri] = bv
							if bv {
								key += itoa(ri) + "T"
							} else {
								key += itoa(ri) + "F"
							}
						}
					}
					if key != "" {
						key = site.Name() + ":" + key
						known[key] = kn
					}
					stack = append(stack, item{b: site.Block(), i: instrIndex(site) + 1, site: site, key: key, flags: it.flags})
					stopped = true
					break
				}
			}
			switch visit(in) {
			case found:
				if hit == nil {
					hit = in
				}
				stopped = true
			case stopPath:
				stopped = true
			}
			if stopped {
				break
			}
			// descend into an immediately-invoked function literal: its body runs here
			if call, ok := in.(*ssa.Call); ok {
				if g := iifeCallee(call); g != nil {
					stack = append(stack, item{b: g.Blocks[0], i: 0, flags: it.flags})
					stopped = true // the continuation after the call is scheduled from g's returns
					break
				}
				// any other call may run a function literal that writes a captured bool cell
				if len(it.flags) > 0 {
					var drop []ssa.Value
					for v := range it.flags {
						if al, isAl := v.(*ssa.Alloc); isAl && al.Heap {
							drop = append(drop, v)
						}
					}
					if len(drop) > 0 {
						it.flags = cloneFlags(it.flags)
						for _, v := range drop {
							delete(it.flags, v)
						}
					}
				}
			}
			switch in.(type) {
			case *ssa.Return, *ssa.Panic:
				reachedExit = true
			}
		}
		if stopped {
			continue
		}
		// a branch on a result of the literal just left, with that result known
		only := -1
		if it.site != nil && it.key != "" && len(it.b.Instrs) > 0 {
			if ifi, isIf := it.b.Instrs[len(it.b.Instrs)-1].(*ssa.If); isIf {
				v, neg := ifi.Cond, false
				for {
					u, isU := v.(*ssa.UnOp)
					if !isU || u.Op != token.NOT {
						break
					}
					v, neg = u.X, !neg
				}
				idx := -1
				if e, isE := v.(*ssa.Extract); isE && e.Tuple == ssa.Value(it.site) {
					idx = e.Index
				} else if v == ssa.Value(it.site) {
					idx = 0
				}
				if idx >= 0 {
					if bv, ok := known[it.key][idx]; ok {
						if bv != neg {
							only = 0
						} else {
							only = 1
						}
					}
				}
			}
		}
		// a branch on a known flag
		if only < 0 && len(it.flags) > 0 && len(it.b.Instrs) > 0 {
			if ifi, isIf := it.b.Instrs[len(it.b.Instrs)-1].(*ssa.If); isIf {
				v, neg := ifi.Cond, false
				for {
					u, isU := v.(*ssa.UnOp)
					if !isU || u.Op != token.NOT {
						break
					}
					v, neg = u.X, !neg
				}
				var fv ssa.Value = v
				if ld, isLd := v.(*ssa.UnOp); isLd && ld.Op == token.MUL {
					fv = cellRoot(ld.X)
				}
				if bv, ok := it.flags[fv]; ok {
					if bv != neg {
						only = 0
					} else {
						only = 1
					}
				}
			}
		}
		for i, s := range it.b.Succs {
			if blocked[cfgEdge{it.b, i}] {
				continue
			}
			if only >= 0 && i != only {
				continue
			}
			stack = append(stack, item{b: s, i: 0, flags: flagsOnEdge(it.flags, it.b, s)})
		}
	}
	return
}

// forwardLocal is forward confined to one function: it neither descends into immediately-invoked
// literals nor continues past the function's own returns (used where an inlined helper is analysed as a
// unit of its own).
func forwardLocal(starts []startPoint, visit func(in ssa.Instruction) searchAction, blocked map[cfgEdge]bool) (hit ssa.Instruction) {
	type item struct {
		b *ssa.BasicBlock
		i int
	}
	seen := map[item]bool{}
	var stack []item
	for _, s := range starts {
		stack = append(stack, item{s.B, s.I})
	}
	for len(stack) > 0 {
		it := stack[len(stack)-1]
		stack = stack[:len(stack)-1]
		if seen[it] {
			continue
		}
		seen[it] = true
		stopped := false
		for k := it.i; k < len(it.b.Instrs); k++ {
			switch visit(it.b.Instrs[k]) {
			case found:
				if hit == nil {
					hit = it.b.Instrs[k]
				}
				stopped = true
			case stopPath:
				stopped = true
			}
			if stopped {
				break
			}
		}
		if stopped {
			continue
		}
		for i, sb := range it.b.Succs {
			if blocked[cfgEdge{it.b, i}] {
				continue
			}
			stack = append(stack, item{sb, 0})
		}
	}
	return
}

// reachesAvoidingLocal is reachesAvoiding within one function (see forwardLocal).
func reachesAvoidingLocal(start startPoint, target ssa.Instruction, barrier func(ssa.Instruction) bool, blocked map[cfgEdge]bool) bool {
	hit := forwardLocal([]startPoint{start}, func(in ssa.Instruction) searchAction {
		if in == target {
			return found
		}
		if barrier != nil && barrier(in) {
			return stopPath
		}
		return cont
	}, blocked)
	return hit != nil
}

// entryPoint is the start of a function.
func entryPoint(fn *ssa.Function) startPoint { return startPoint{fn.Blocks[0], 0} }

// reachesAvoiding: is there a path from start that executes target without
// first executing a barrier instruction or traversing a blocked edge?
func reachesAvoiding(start startPoint, target ssa.Instruction, barrier func(ssa.Instruction) bool, blocked map[cfgEdge]bool) bool {
	hit, _ := forwardEx([]startPoint{start}, func(in ssa.Instruction) searchAction {
		if in == target {
			return found
		}
		if barrier != nil && barrier(in) {
			return stopPath
		}
		return cont
	}, blocked)
	return hit != nil
}

// ---------------------------------------------------------------------------
// branch conditions

// Cond describes the decoded condition of an If: value V compared (==/!=)
// with W; TrueIsEq says whether the true successor is the "V == W" edge.
type Cond struct {
	If       *ssa.If
	Op       token.Token
	X, Y     ssa.Value
	Negated  bool // cond was wrapped in a !
	CondRoot ssa.Value
}

// peelBool strips negations and comparisons with a boolean constant (`!x`, `x == false`, `x != true`, as a
// `switch ok { case false: }` is compiled) and reports whether the remaining value is negated.
func peelBool(v ssa.Value) (ssa.Value, bool) {
	neg := false
	for i := 0; i < 8; i++ {
		if u, ok := v.(*ssa.UnOp); ok && u.Op == token.NOT {
			neg = !neg
			v = u.X
			continue
		}
		if b, ok := v.(*ssa.BinOp); ok && (b.Op == token.EQL || b.Op == token.NEQ) {
			x, y := b.X, b.Y
			if _, xc := constBool(x); xc {
				x, y = y, x
			}
			if k, yc := constBool(y); yc {
				if _, both := constBool(x); !both {
					if (b.Op == token.EQL) != k {
						neg = !neg
					}
					v = x
					continue
				}
			}
		}
		break
	}
	return v, neg
}

func decodeIf(ifi *ssa.If) Cond {
	c := Cond{If: ifi, CondRoot: ifi.Cond}
	v, neg := peelBool(ifi.Cond)
	c.Negated = neg
	if b, ok := v.(*ssa.BinOp); ok {
		c.Op, c.X, c.Y = b.Op, b.X, b.Y
		// canonical orientation: a constant operand stands on the right (`nil != err`, `' ' == c[0]`, `0 < n`)
		if _, xk := b.X.(*ssa.Const); xk {
			if _, yk := b.Y.(*ssa.Const); !yk {
				c.Op, c.X, c.Y = flipOp(b.Op), b.Y, b.X
			}
		}
	} else {
		// a plain boolean value: treat as V != false
		c.Op, c.X, c.Y = token.NEQ, v, nil
	}
	return c
}

// succWhen returns the successor index (0 true / 1 false) taken when the
// decoded comparison `X Op Y` evaluates to want.
func (c Cond) succWhen(want bool) int {
	if c.Negated {
		want = !want
	}
	if want {
		return 0
	}
	return 1
}

// ifsIn returns all If instructions of fn.
// ifsIn: the branches of fn and of the immediately-invoked literals nested in it (on a tree without
// inlined helpers that is just fn's own branches).
func ifsIn(fn *ssa.Function) []*ssa.If {
	var out []*ssa.If
	for _, f := range regionFuncs(fn) {
		out = append(out, ifsInOnly(f)...)
	}
	return out
}

// ifsInOnly: the branches of fn itself.
func ifsInOnly(fn *ssa.Function) []*ssa.If {
	var out []*ssa.If
	for _, b := range fn.Blocks {
		if len(b.Instrs) == 0 {
			continue
		}
		if i, ok := b.Instrs[len(b.Instrs)-1].(*ssa.If); ok {
			out = append(out, i)
		}
	}
	return out
}

// boolEdge: if `ifi` tests boolean value v (possibly negated), return the
// successor index taken when v is true.
func boolEdge(ifi *ssa.If, isV func(ssa.Value) bool) (succWhenTrue int, ok bool) {
	v, neg := peelBool(ifi.Cond)
	if !isV(v) && !isV(throughLocalCell(v)) {
		return 0, false
	}
	if neg {
		return 1, true
	}
	return 0, true
}

// nilEdge: if `ifi` compares a value satisfying isV with nil, return the
// successor index taken when the value is nil.
func nilEdge(ifi *ssa.If, isV func(ssa.Value) bool) (succWhenNil int, ok bool) {
	c := decodeIf(ifi)
	if c.Y == nil || (c.Op != token.EQL && c.Op != token.NEQ) {
		return 0, false
	}
	var other ssa.Value
	switch {
	case isNilConst(c.Y):
		other = c.X
	case isNilConst(c.X):
		other = c.Y
	default:
		return 0, false
	}
	if !isV(other) && !isV(throughLocalCell(other)) {
		return 0, false
	}
	return c.succWhen(c.Op == token.EQL), true
}

// throughLocalCell: when v is a load of a local variable that does not escape, is written only by its
// own function and holds, at the load, the value of exactly one store (`err = f(); if err != nil`
// with err a named result kept in memory because of a defer), the stored value; v itself otherwise.
func throughLocalCell(v ssa.Value) ssa.Value {
	u, ok := v.(*ssa.UnOp)
	if !ok || u.Op != token.MUL {
		return v
	}
	a, ok := u.X.(*ssa.Alloc)
	if !ok {
		return v
	}
	_, stores, esc := cellStores(a)
	if esc {
		return v
	}
	for _, st := range stores {
		if st.Parent() != u.Parent() {
			return v
		}
	}
	rs, entry := reachingStores(u)
	if entry && len(rs) == 0 {
		// never written on the way here: the variable still holds its zero value
		t := u.Type()
		switch tt := t.Underlying().(type) {
		case *types.Basic:
			switch {
			case tt.Info()&types.IsBoolean != 0:
				return ssa.NewConst(constant.MakeBool(false), t)
			case tt.Info()&types.IsInteger != 0:
				return ssa.NewConst(constant.MakeInt64(0), t)
			case tt.Info()&types.IsString != 0:
				return ssa.NewConst(constant.MakeString(""), t)
			}
		case *types.Pointer, *types.Interface, *types.Slice, *types.Map, *types.Chan, *types.Signature:
			return ssa.NewConst(nil, t)
		}
		return v
	}
	if entry || len(rs) != 1 {
		return v
	}
	return rs[0].Val
}

// cmpConstEdge: `ifi` compares a value satisfying isV with an integer
// constant; returns op normalised so that the value is on the left, the
// constant, and the successor index taken when the comparison is true.
func cmpConstEdge(ifi *ssa.If, isV func(ssa.Value) bool) (op token.Token, k int64, succWhenTrue int, ok bool) {
	c := decodeIf(ifi)
	if c.Y == nil {
		return
	}
	if kv, isK := constInt(c.Y); isK && (isV(c.X) || isV(throughLocalCell(c.X))) {
		return c.Op, kv, c.succWhen(true), true
	}
	if kv, isK := constInt(c.X); isK && (isV(c.Y) || isV(throughLocalCell(c.Y))) {
		return flipOp(c.Op), kv, c.succWhen(true), true
	}
	return
}

func flipOp(op token.Token) token.Token {
	switch op {
	case token.LSS:
		return token.GTR
	case token.GTR:
		return token.LSS
	case token.LEQ:
		return token.GEQ
	case token.GEQ:
		return token.LEQ
	}
	return op
}

// guardedByNil reports whether block target is dominated by the edge of some
// If in fn on which a value satisfying isV is (wantNil) nil / non-nil.
func guardedByNil(fn *ssa.Function, target *ssa.BasicBlock, isV func(ssa.Value) bool, wantNil bool) bool {
	return factGuards(fn, target, factNil(isV, wantNil))
}

// guardedByBool reports whether target is dominated by the edge of some If on
// which the boolean satisfying isV has value want (directly, or through an
// immediately-invoked bool literal that implies it).
func guardedByBool(fn *ssa.Function, target *ssa.BasicBlock, isV func(ssa.Value) bool, want bool) bool {
	return factGuards(fn, target, factBool(isV, want))
}

// ---------------------------------------------------------------------------
// loops

// natural loops: for every back edge t->h (h dominates t) the set of blocks
// that can reach t without passing through h, plus h.
type Loop struct {
	Head   *ssa.BasicBlock
	Blocks map[*ssa.BasicBlock]bool
}

func loopsOf(fn *ssa.Function) []*Loop {
	byHead := map[*ssa.BasicBlock]*Loop{}
	var order []*ssa.BasicBlock
	for _, b := range fn.Blocks {
		for _, s := range b.Succs {
			if s.Dominates(b) {
				l := byHead[s]
				if l == nil {
					l = &Loop{Head: s, Blocks: map[*ssa.BasicBlock]bool{s: true}}
					byHead[s] = l
					order = append(order, s)
				}
				// walk predecessors from b up to s
				stack := []*ssa.BasicBlock{b}
				for len(stack) > 0 {
					x := stack[len(stack)-1]
					stack = stack[:len(stack)-1]
					if l.Blocks[x] {
						continue
					}
					l.Blocks[x] = true
					stack = append(stack, x.Preds...)
				}
			}
		}
	}
	var out []*Loop
	for _, h := range order {
		out = append(out, byHead[h])
	}
	return out
}

func loopsContaining(fn *ssa.Function, b *ssa.BasicBlock) []*Loop {
	var out []*Loop
	if b.Parent() != fn {
		// loops inside the IIFE chain count as well
		for _, f := range enclosingChain(b, fn) {
			if f == fn {
				break
			}
			lb, _ := liftBlock(b, f)
			if lb != nil {
				out = append(out, loopsContaining(f, lb)...)
			}
		}
		lifted, ok := liftBlock(b, fn)
		if !ok {
			return out
		}
		b = lifted
	}
	for _, l := range loopsOf(fn) {
		if l.Blocks[b] {
			out = append(out, l)
		}
	}
	return out
}

// ---------------------------------------------------------------------------
// call graph

// reachFrom: module functions reachable from root in the call graph
// (including root), following calls, go and defer.
func (P *Program) reachFrom(roots ...*ssa.Function) map[*ssa.Function]bool {
	seen := map[*ssa.Function]bool{}
	var stack []*ssa.Function
	for _, r := range roots {
		if r != nil && !seen[r] {
			seen[r] = true
			stack = append(stack, r)
		}
	}
	for len(stack) > 0 {
		f := stack[len(stack)-1]
		stack = stack[:len(stack)-1]
		n := P.CG.Nodes[f]
		if n == nil {
			continue
		}
		for _, e := range n.Out {
			c := e.Callee.Func
			if c == nil || seen[c] {
				continue
			}
			seen[c] = true
			stack = append(stack, c)
		}
		// closures created inside f are considered reachable from f (they
		// may be invoked through values the graph resolves conservatively).
		for _, af := range f.AnonFuncs {
			if !seen[af] {
				seen[af] = true
				stack = append(stack, af)
			}
		}
	}
	return seen
}

// callersOf returns the call sites of fn in module functions.
func (P *Program) callersOf(fn *ssa.Function) []ssa.CallInstruction {
	var out []ssa.CallInstruction
	n := P.CG.Nodes[fn]
	if n == nil {
		return nil
	}
	seen := map[ssa.CallInstruction]bool{}
	for _, e := range n.In {
		if e.Site != nil && !seen[e.Site] {
			seen[e.Site] = true
			out = append(out, e.Site)
		}
	}
	return out
}

// staticCallSites lists every static call to the module function fn (by
// resolved callee, not by name).
func (P *Program) staticCallSites(fn *ssa.Function) []ssa.CallInstruction {
	var out []ssa.CallInstruction
	for _, f := range P.Funcs {
		eachInstr(f, func(in ssa.Instruction) {
			if c, ok := in.(ssa.CallInstruction); ok {
				if sc := c.Common().StaticCallee(); sc != nil && (sc == fn || sc.Origin() == fn) {
					out = append(out, c)
				}
			}
		})
	}
	return out
}

// exportedRoots: exported functions and methods of exported types of the sse
// package plus every `go` target — the entry points other goroutines can be in.
func (P *Program) exportedRoots() []*ssa.Function {
	var out []*ssa.Function
	for _, fn := range P.Funcs {
		if fn.Parent() != nil || fn.Synthetic != "" {
			continue
		}
		obj, _ := fn.Object().(*types.Func)
		if obj == nil || !obj.Exported() {
			continue
		}
		if obj.Pkg() == nil || obj.Pkg().Path() != modPath {
			continue
		}
		out = append(out, fn)
	}
	return out
}

func fnLabel(fn *ssa.Function) string { return shortName(fn) }

func describe(v ssa.Value) string {
	if v == nil {
		return "<nil>"
	}
	switch x := v.(type) {
	case *ssa.Const:
		return "const " + x.String()
	case *ssa.Parameter:
		return "parameter " + x.Name()
	case *ssa.FreeVar:
		return "freevar " + x.Name()
	case *ssa.Global:
		return "global " + x.Name()
	}
	if in, ok := v.(ssa.Instruction); ok {
		return fmt.Sprintf("%s = %s", v.Name(), in.String())
	}
	return v.Name() + ":" + v.String()
}

// ---------------------------------------------------------------------------
// path enumeration with phi resolution (for small loop-free functions)

type pathState struct {
	Phi   map[*ssa.Phi]ssa.Value
	Edges map[cfgEdge]bool
}

// resolve follows phis chosen on this path.
func (s *pathState) resolve(v ssa.Value) ssa.Value {
	for i := 0; i < 16; i++ {
		p, ok := v.(*ssa.Phi)
		if !ok {
			return v
		}
		r, ok := s.Phi[p]
		if !ok {
			return v
		}
		v = r
	}
	return v
}

// enumeratePaths walks every acyclic path from the function entry. visit is
// called for every instruction with the path state; a branch whose condition
// resolves (through the phis chosen on the path) to a boolean constant follows
// only the feasible edge. It returns false if the path budget was exceeded.
func enumeratePaths(fn *ssa.Function, maxPaths int, visit func(in ssa.Instruction, st *pathState)) bool {
	n := 0
	ok := true
	var walk func(b, pred *ssa.BasicBlock, st *pathState, onPath map[*ssa.BasicBlock]bool)
	walk = func(b, pred *ssa.BasicBlock, st *pathState, onPath map[*ssa.BasicBlock]bool) {
		if !ok || onPath[b] {
			return
		}
		onPath[b] = true
		defer delete(onPath, b)
		for _, in := range b.Instrs {
			if p, isPhi := in.(*ssa.Phi); isPhi {
				for i, pr := range b.Preds {
					if pr == pred {
						st.Phi[p] = p.Edges[i]
					}
				}
			}
			visit(in, st)
			switch x := in.(type) {
			case *ssa.If:
				cond := st.resolve(x.Cond)
				neg := false
				for {
					if u, isU := cond.(*ssa.UnOp); isU && u.Op == token.NOT {
						neg = !neg
						cond = st.resolve(u.X)
						continue
					}
					break
				}
				for i := 0; i < 2; i++ {
					if bv, isC := constBool(cond); isC {
						if neg {
							bv = !bv
						}
						if (i == 0) != bv {
							continue
						}
					}
					ns := &pathState{Phi: map[*ssa.Phi]ssa.Value{}, Edges: map[cfgEdge]bool{}}
					for k, v := range st.Phi {
						ns.Phi[k] = v
					}
					for k, v := range st.Edges {
						ns.Edges[k] = v
					}
					ns.Edges[cfgEdge{b, i}] = true
					walk(b.Succs[i], b, ns, onPath)
				}
				return
			case *ssa.Jump:
				walk(b.Succs[0], b, st, onPath)
				return
			case *ssa.Return, *ssa.Panic:
				n++
				if n > maxPaths {
					ok = false
				}
				return
			}
		}
	}
	walk(fn.Blocks[0], nil, &pathState{Phi: map[*ssa.Phi]ssa.Value{}, Edges: map[cfgEdge]bool{}}, map[*ssa.BasicBlock]bool{})
	return ok
}

// ---------------------------------------------------------------------------
// abstract path interpretation over assumed boolean facts

// absPath is one feasible path under the assumptions.
type absPath struct {
	Instrs  []ssa.Instruction
	Ret     *ssa.Return     // the path ends in this return (nil if it ended at a stop point)
	End     ssa.Instruction // the stop instruction the path ended at (walkPaths)
	EndEdge *cfgEdge        // the stop edge the path ended with (walkPaths); it is part of St.Edges
	St      *pathState
}

// abstractPaths enumerates the acyclic paths of fn that are feasible under
// `assume`, which gives the truth value of selected boolean SSA values
// (comparisons, call results); conditions are evaluated through NOT, phis
// chosen on the path and constants. Unknown conditions fork.
func abstractPaths(fn *ssa.Function, maxPaths int, assume func(v ssa.Value) (bool, bool)) ([]absPath, bool) {
	return walkPaths(fn.Blocks[0], 0, maxPaths, assume, nil, nil)
}

var walkDepth int

// evalUnder evaluates a boolean value on a finished path under the assumptions (constants, NOT,
// phis chosen on the path, assumed values).
func evalUnder(st *pathState, v ssa.Value, assume func(v ssa.Value) (bool, bool)) (bool, bool) {
	v = st.resolve(v)
	if b, isC := constBool(v); isC {
		return b, true
	}
	if b, known := assume(v); known {
		return b, true
	}
	if u, isU := v.(*ssa.UnOp); isU && u.Op == token.NOT {
		if b, known := evalUnder(st, u.X, assume); known {
			return !b, true
		}
	}
	return false, false
}

// walkPaths is abstractPaths from an arbitrary program point; a path also ends (and is recorded)
// at an instruction for which stop returns true or when it is about to take an edge for which
// stopEdge returns true. Paths that would revisit a block are dropped.
func walkPaths(start *ssa.BasicBlock, startIdx int, maxPaths int, assume func(v ssa.Value) (bool, bool), stop func(in ssa.Instruction) bool, stopEdge func(e cfgEdge) bool) ([]absPath, bool) {
	var out []absPath
	ok := true
	if assume == nil {
		assume = func(ssa.Value) (bool, bool) { return false, false }
	}
	var eval func(st *pathState, v ssa.Value) (bool, bool)
	eval = func(st *pathState, v ssa.Value) (bool, bool) {
		v = st.resolve(v)
		if b, isC := constBool(v); isC {
			return b, true
		}
		if b, known := assume(v); known {
			return b, true
		}
		if u, isU := v.(*ssa.UnOp); isU && u.Op == token.NOT {
			if b, known := eval(st, u.X); known {
				return !b, true
			}
		}
		if b, isB := v.(*ssa.BinOp); isB && (b.Op == token.EQL || b.Op == token.NEQ) {
			// comparison of two known booleans
			l, lk := eval(st, b.X)
			r, rk := eval(st, b.Y)
			if lk && rk && b.X.Type().Underlying().String() == "bool" {
				if b.Op == token.EQL {
					return l == r, true
				}
				return l != r, true
			}
		}
		if call, isCall := v.(*ssa.Call); isCall {
			// an immediately-invoked bool literal (an inlined predicate helper): known when every
			// path through it that is feasible under the assumptions yields the same known value
			if g := iifeCallee(call); g != nil && g.Signature.Results().Len() == 1 && g.Signature.Results().At(0).Type().String() == "bool" && len(loopsOf(g)) == 0 && walkDepth < 3 {
				walkDepth++
				sub, okS := walkPaths(g.Blocks[0], 0, 256, assume, nil, nil)
				walkDepth--
				if okS && len(sub) > 0 {
					val, first, all := false, true, true
					for _, sp := range sub {
						if sp.Ret == nil {
							continue
						}
						walkDepth++
						r, known := evalUnder(sp.St, sp.Ret.Results[0], assume)
						walkDepth--
						if !known {
							all = false
							break
						}
						if first {
							val, first = r, false
						} else if r != val {
							all = false
							break
						}
					}
					if all && !first {
						return val, true
					}
				}
			}
		}
		return false, false
	}
	record := func(p absPath) {
		out = append(out, p)
		if len(out) > maxPaths {
			ok = false
		}
	}
	var walk func(b, pred *ssa.BasicBlock, from int, st *pathState, instrs []ssa.Instruction, onPath map[*ssa.BasicBlock]bool)
	walk = func(b, pred *ssa.BasicBlock, from int, st *pathState, instrs []ssa.Instruction, onPath map[*ssa.BasicBlock]bool) {
		if !ok || onPath[b] {
			return
		}
		onPath[b] = true
		defer delete(onPath, b)
		for idx, in := range b.Instrs {
			if idx < from {
				continue
			}
			if p, isPhi := in.(*ssa.Phi); isPhi {
				for i, pr := range b.Preds {
					if pr == pred {
						st.Phi[p] = p.Edges[i]
					}
				}
			}
			instrs = append(instrs, in)
			if stop != nil && stop(in) {
				record(absPath{Instrs: instrs, End: in, St: st})
				return
			}
			switch x := in.(type) {
			case *ssa.If:
				val, known := eval(st, x.Cond)
				for i := 0; i < 2; i++ {
					if known && (i == 0) != val {
						continue
					}
					ns := &pathState{Phi: map[*ssa.Phi]ssa.Value{}, Edges: map[cfgEdge]bool{}}
					for k, v := range st.Phi {
						ns.Phi[k] = v
					}
					for k, v := range st.Edges {
						ns.Edges[k] = v
					}
					e := cfgEdge{b, i}
					ns.Edges[e] = true
					if stopEdge != nil && stopEdge(e) {
						ee := e
						record(absPath{Instrs: append([]ssa.Instruction(nil), instrs...), EndEdge: &ee, St: ns})
						continue
					}
					walk(b.Succs[i], b, 0, ns, append([]ssa.Instruction(nil), instrs...), onPath)
				}
				return
			case *ssa.Jump:
				e := cfgEdge{b, 0}
				if stopEdge != nil && stopEdge(e) {
					st.Edges[e] = true
					record(absPath{Instrs: instrs, EndEdge: &e, St: st})
					return
				}
				walk(b.Succs[0], b, 0, st, instrs, onPath)
				return
			case *ssa.Return:
				record(absPath{Instrs: instrs, Ret: x, St: st})
				return
			case *ssa.Panic:
				return
			}
		}
	}
	walk(start, nil, startIdx, &pathState{Phi: map[*ssa.Phi]ssa.Value{}, Edges: map[cfgEdge]bool{}}, nil, map[*ssa.BasicBlock]bool{})
	return out, ok
}

// ---------------------------------------------------------------------------
// integer comparison semantics

const (
	negInf = int64(-1 << 62)
	posInf = int64(1 << 62)
)

// intEdgeSets: for `ifi` comparing an integer value satisfying isV with a
// constant, returns for each successor the interval [lo,hi] of values on that
// edge (intersected with [domMin, +inf)); an edge whose set is not an interval
// (v != k in the interior) gets ok=false for that edge.
func intEdgeSets(ifi *ssa.If, isV func(ssa.Value) bool, domMin int64) (lo, hi [2]int64, okEdge [2]bool, ok bool) {
	op, k, succTrue, isCmp := cmpConstEdge(ifi, isV)
	if !isCmp {
		return
	}
	set := func(op token.Token, k int64) (int64, int64, bool) {
		switch op {
		case token.LSS:
			return negInf, k - 1, true
		case token.LEQ:
			return negInf, k, true
		case token.GTR:
			return k + 1, posInf, true
		case token.GEQ:
			return k, posInf, true
		case token.EQL:
			return k, k, true
		case token.NEQ:
			// only an interval when k is at the domain boundary
			if k == domMin {
				return k + 1, posInf, true
			}
			if k < domMin {
				return negInf, posInf, true
			}
			return 0, 0, false
		}
		return 0, 0, false
	}
	negate := map[token.Token]token.Token{token.LSS: token.GEQ, token.LEQ: token.GTR, token.GTR: token.LEQ, token.GEQ: token.LSS, token.EQL: token.NEQ, token.NEQ: token.EQL}
	tl, th, tok := set(op, k)
	fl, fh, fok := set(negate[op], k)
	clamp := func(l, h int64) (int64, int64) {
		if l < domMin {
			l = domMin
		}
		return l, h
	}
	tl, th = clamp(tl, th)
	fl, fh = clamp(fl, fh)
	lo[succTrue], hi[succTrue], okEdge[succTrue] = tl, th, tok
	lo[1-succTrue], hi[1-succTrue], okEdge[1-succTrue] = fl, fh, fok
	return lo, hi, okEdge, true
}

// intGuard: is target dominated by an edge on which the integer value
// satisfying isV (known to be >= domMin) lies within [wantLo, wantHi]?
func intGuard(fn *ssa.Function, target *ssa.BasicBlock, isV func(ssa.Value) bool, domMin, wantLo, wantHi int64) bool {
	for _, f := range enclosingChain(target, fn) {
		for _, ifi := range ifsInOnly(f) {
			lo, hi, okE, ok := intEdgeSets(ifi, isV, domMin)
			if !ok {
				continue
			}
			for e := 0; e < 2; e++ {
				if okE[e] && lo[e] >= wantLo && hi[e] <= wantHi && lo[e] <= hi[e] && edgeDominates(ifi.Block(), e, target) {
					return true
				}
			}
		}
	}
	return false
}

// intEdge: the successor of ifi on which the value lies within [wantLo,wantHi] (ok=false if none).
func intEdge(ifi *ssa.If, isV func(ssa.Value) bool, domMin, wantLo, wantHi int64) (int, bool) {
	lo, hi, okE, ok := intEdgeSets(ifi, isV, domMin)
	if !ok {
		return 0, false
	}
	for e := 0; e < 2; e++ {
		if okE[e] && lo[e] >= wantLo && hi[e] <= wantHi && lo[e] <= hi[e] {
			return e, true
		}
	}
	return 0, false
}

func isLenCallOf(pred func(ssa.Value) bool) func(ssa.Value) bool {
	return func(v ssa.Value) bool {
		call, ok := v.(*ssa.Call)
		if !ok {
			return false
		}
		b, ok := call.Call.Value.(*ssa.Builtin)
		return ok && b.Name() == "len" && pred(call.Call.Args[0])
	}
}
