package main

// PropertySpec binds a property to the rules that decide its structural clauses.
type PropertySpec struct {
	ID          string
	Level       string // evidence level: "other" or "proof"
	Rules       []string
	Explanation string
	NotDecided  string
	Technique   string
	Assumptions []string
}

var trustedBase = []string{
	"Go language semantics encoded in the rules (unbuffered send completes only when received; select picks any ready case; double close / send on closed channel panic; deferred calls run on return and panic; three-index slices cap capacity)",
	"standard library contracts by name: bufio.Scanner (Scan()==false => Err()!=nil or clean EOF; token never exceeds the configured maximum), strconv.ParseUint(s,10,n) accepts exactly non-empty ASCII digit strings in range, http.Header.Set/Del/Get canonicalise keys, context.Context.Err() non-nil once Done() is closed, http.Client.Do returns *url.Error with non-nil Err, sync.Once, sync.RWMutex, time.Time.After/Add",
	"parser.NewlineIndex returns length 0 iff its argument has no CR/LF (its comparison constants are checked structurally)",
	"go/packages, go/types, go/ssa of golang.org/x/tools v0.29.0 and the checker's own engines (validated by seeded faults in the thorough tier)",
	"code outside the module (user MessageWriter, Replayer, callbacks, RoundTripper) honours the interface documentation; no reflection/unsafe access to unexported fields",
}

var commonAssumptions = []string{
	"the analysed build configuration(s) cover every non-test file of packages sse and internal/parser (checked: an excluded file fails the run)",
	"standard-library contracts and Go semantics as listed in coverage.trusted_base",
	"the verdict covers only the structural clauses named in coverage.explanation; clauses under coverage.not_decided are not claimed",
}

var properties = map[string]*PropertySpec{}

func prop(p *PropertySpec) {
	if p.Assumptions == nil {
		p.Assumptions = commonAssumptions
	}
	properties[p.ID] = p
}
