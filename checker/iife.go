package main

import (
	"go/token"
	"sync"

	"golang.org/x/tools/go/ssa"
)

// Immediately-invoked function literals (IIFEs). The normalisation pre-pass
// inlines helpers; where a helper has several return statements the inliner
// produces `func() T { ... }()`. An IIFE executes exactly where its call
// stands, so the engines treat its body as part of the enclosing function:
// values are traced through its returns, dominance queries lift a block of the
// literal to the block of its call, path searches descend into it and come
// back out of its returns.

// iifeSite returns the call that immediately invokes the function literal fn
// (nil if fn is not an IIFE).
func iifeSite(fn *ssa.Function) *ssa.Call {
	par := fn.Parent()
	if par == nil || fn.Blocks == nil {
		return nil
	}
	var site *ssa.Call
	uses := 0
	consider := func(v ssa.Value) {
		refs := v.Referrers()
		if refs == nil {
			return
		}
		for _, r := range *refs {
			switch u := r.(type) {
			case *ssa.DebugRef:
			case *ssa.Call:
				if u.Call.Value == v {
					site = u
					uses++
				} else {
					uses += 2
				}
			default:
				uses += 2
			}
		}
	}
	direct := 0
	eachInstr(par, func(in ssa.Instruction) {
		if mc, ok := in.(*ssa.MakeClosure); ok && mc.Fn == ssa.Value(fn) {
			consider(mc)
		}
		// a literal without free variables is called as a plain function value
		if c, ok := in.(ssa.CallInstruction); ok && c.Common().Value == ssa.Value(fn) {
			if call, isCall := in.(*ssa.Call); isCall {
				site = call
				direct++
			} else {
				direct += 2
			}
		}
		for _, op := range in.Operands(nil) {
			if *op == ssa.Value(fn) {
				if c, ok := in.(ssa.CallInstruction); ok && c.Common().Value == ssa.Value(fn) {
					continue
				}
				if _, isMC := in.(*ssa.MakeClosure); isMC {
					continue
				}
				direct += 2
			}
		}
	})
	if uses+direct == 1 {
		return site
	}
	return nil
}

var (
	iifeMu    sync.Mutex
	iifeCache = map[*ssa.Function]*ssa.Call{}
	iifeKnown = map[*ssa.Function]bool{}
)

func iifeSiteCached(fn *ssa.Function) *ssa.Call {
	iifeMu.Lock()
	if iifeKnown[fn] {
		r := iifeCache[fn]
		iifeMu.Unlock()
		return r
	}
	iifeMu.Unlock()
	r := iifeSite(fn)
	iifeMu.Lock()
	iifeKnown[fn] = true
	iifeCache[fn] = r
	iifeMu.Unlock()
	return r
}

// iifeCallee: the function literal immediately invoked by call (nil if none).
func iifeCallee(call *ssa.Call) *ssa.Function {
	var f *ssa.Function
	switch v := call.Call.Value.(type) {
	case *ssa.MakeClosure:
		f, _ = v.Fn.(*ssa.Function)
	case *ssa.Function:
		f = v
	}
	if f == nil || f.Parent() == nil {
		return nil
	}
	if iifeSiteCached(f) == call {
		return f
	}
	return nil
}

// liftInstr maps an instruction inside (nested) IIFEs of fn to the call
// instruction in fn that executes it; instructions of fn map to themselves.
func liftInstr(in ssa.Instruction, fn *ssa.Function) (ssa.Instruction, bool) {
	for i := 0; i < 8; i++ {
		if in.Parent() == fn {
			return in, true
		}
		site := iifeSiteCached(in.Parent())
		if site == nil {
			return nil, false
		}
		in = site
	}
	return nil, false
}

func liftBlock(b *ssa.BasicBlock, fn *ssa.Function) (*ssa.BasicBlock, bool) {
	if b.Parent() == fn {
		return b, true
	}
	if len(b.Instrs) == 0 {
		return nil, false
	}
	in, ok := liftInstr(b.Instrs[0], fn)
	if !ok {
		return nil, false
	}
	return in.Block(), true
}

// eachInstrDeep iterates over fn and the IIFEs nested in it.
func eachInstrDeep(fn *ssa.Function, f func(in ssa.Instruction)) {
	eachInstr(fn, func(in ssa.Instruction) {
		f(in)
		if call, ok := in.(*ssa.Call); ok {
			if g := iifeCallee(call); g != nil {
				eachInstrDeep(g, f)
			}
		}
	})
}

// regionFuncs: fn and the IIFEs nested in it.
func regionFuncs(fn *ssa.Function) []*ssa.Function {
	out := []*ssa.Function{fn}
	eachInstr(fn, func(in ssa.Instruction) {
		if call, ok := in.(*ssa.Call); ok {
			if g := iifeCallee(call); g != nil {
				out = append(out, regionFuncs(g)...)
			}
		}
	})
	return out
}

// ifsInRegion: the If instructions of fn and of the IIFE chain that contains target.
func enclosingChain(b *ssa.BasicBlock, top *ssa.Function) []*ssa.Function {
	var out []*ssa.Function
	f := b.Parent()
	for i := 0; i < 8 && f != nil; i++ {
		out = append(out, f)
		if f == top {
			return out
		}
		site := iifeSiteCached(f)
		if site == nil {
			break
		}
		f = site.Parent()
	}
	if len(out) == 0 || out[len(out)-1] != top {
		// target is not nested in top through IIFEs
		return []*ssa.Function{b.Parent()}
	}
	return out
}

// ---------------------------------------------------------------------------
// facts established by branch edges, including edges of `if <IIFE>() {`

type fact struct {
	isV   func(ssa.Value) bool
	kind  string // "bool", "nil" or "edge"
	want  bool   // bool: the value; nil: true = value is nil
	edges map[cfgEdge]bool
	// kind "int": the integer satisfying isV (known to be >= domMin) lies in [lo, hi]
	domMin, lo, hi int64
}

// factInt: an integer value lies within [lo, hi] (given that it is never below domMin).
func factInt(isV func(ssa.Value) bool, domMin, lo, hi int64) fact {
	return fact{isV: isV, kind: "int", domMin: domMin, lo: lo, hi: hi}
}

// factEdges: "control passed one of these branch edges" (e.g. a particular select arm was taken); through
// iifeImplies this also covers `if !helper() { … }` where the helper returns false exactly on that arm.
func factEdges(es ...cfgEdge) fact {
	m := map[cfgEdge]bool{}
	for _, e := range es {
		m[e] = true
	}
	return fact{kind: "edge", edges: m}
}

func factBool(isV func(ssa.Value) bool, want bool) fact {
	return fact{isV: isV, kind: "bool", want: want}
}
func factNil(isV func(ssa.Value) bool, wantNil bool) fact {
	return fact{isV: isV, kind: "nil", want: wantNil}
}

// directEdge: the successor of ifi on which the fact holds by ifi's own condition.
func directEdge(ifi *ssa.If, f fact) (int, bool) {
	switch f.kind {
	case "int":
		return intEdge(ifi, f.isV, f.domMin, f.lo, f.hi)
	case "edge":
		for e := 0; e < 2; e++ {
			if f.edges[cfgEdge{ifi.Block(), e}] {
				return e, true
			}
		}
	case "bool":
		if s, ok := boolEdge(ifi, f.isV); ok {
			if f.want {
				return s, true
			}
			return 1 - s, true
		}
	case "nil":
		if s, ok := nilEdge(ifi, f.isV); ok {
			if f.want {
				return s, true
			}
			return 1 - s, true
		}
	}
	return 0, false
}

// boolIIFE: ifi branches on a bool result of an immediately-invoked literal (its only result, or
// one component of a multi-result literal: `if m, ok := func(…) (T, bool) {…}(x); ok`).
func boolIIFE(ifi *ssa.If) (g *ssa.Function, succWhenTrue int, ok bool) {
	g, _, succWhenTrue, ok = boolIIFEIdx(ifi)
	return
}

func boolIIFEIdx(ifi *ssa.If) (g *ssa.Function, idx int, succWhenTrue int, ok bool) {
	v := ifi.Cond
	neg := false
	for {
		if u, isU := v.(*ssa.UnOp); isU && u.Op == token.NOT {
			neg = !neg
			v = u.X
			continue
		}
		break
	}
	if e, isE := v.(*ssa.Extract); isE {
		idx = e.Index
		v = e.Tuple
	}
	call, isCall := v.(*ssa.Call)
	if !isCall {
		return nil, 0, 0, false
	}
	g = iifeCallee(call)
	if g == nil || g.Signature.Results().Len() <= idx || g.Signature.Results().At(idx).Type().String() != "bool" || len(loopsOf(g)) > 0 {
		return nil, 0, 0, false
	}
	if _, isE := v.(*ssa.Call); isE && idx == 0 && g.Signature.Results().Len() != 1 {
		if _, viaExtract := stripNot(ifi.Cond).(*ssa.Extract); !viaExtract {
			return nil, 0, 0, false
		}
	}
	if neg {
		return g, idx, 1, true
	}
	return g, idx, 0, true
}

// iifeImplies: whenever the bool literal g returns `result`, the fact holds.
func iifeImplies(g *ssa.Function, result bool, f fact) bool {
	return iifeImpliesIdx(g, 0, result, f)
}

func iifeImpliesIdx(g *ssa.Function, idx int, result bool, f fact) bool {
	paths, ok := abstractPaths(g, 512, func(ssa.Value) (bool, bool) { return false, false })
	if !ok || len(paths) == 0 {
		return false
	}
	for _, p := range paths {
		r := p.St.resolve(p.Ret.Results[idx])
		// can this path produce `result`?
		neg := false
		for {
			if u, isU := r.(*ssa.UnOp); isU && u.Op == token.NOT {
				neg = !neg
				r = p.St.resolve(u.X)
				continue
			}
			break
		}
		established := false
		if b, isC := constBool(r); isC {
			if neg {
				b = !b
			}
			if b != result {
				continue // this path never yields `result`
			}
		} else if f.kind == "bool" && f.isV(r) {
			// returned value is (the negation of) the fact's variable
			val := result
			if neg {
				val = !val
			}
			if val == f.want {
				established = true
			} else {
				return false
			}
		} else if f.kind == "nil" {
			// `return err != nil` style
			if b, isB := r.(*ssa.BinOp); isB && (b.Op == token.EQL || b.Op == token.NEQ) {
				var other ssa.Value
				if isNilConst(b.Y) {
					other = b.X
				} else if isNilConst(b.X) {
					other = b.Y
				}
				if other != nil && f.isV(other) {
					isNil := (b.Op == token.EQL) == (result != neg)
					if isNil == f.want {
						established = true
					} else {
						return false
					}
				}
			}
		}
		if !established {
			// look for a branch on the path that establishes it
			for e := range p.St.Edges {
				ifi, isIf := e.From.Instrs[len(e.From.Instrs)-1].(*ssa.If)
				if !isIf {
					continue
				}
				if s, ok := directEdge(ifi, f); ok && s == e.Idx {
					established = true
				}
			}
		}
		if !established {
			return false
		}
	}
	return true
}

// edgeEstablishes: on successor e of ifi the fact holds, by ifi's own condition, because ifi
// branches on a bool IIFE that implies it, or because the condition is a materialised `a && b` /
// `a || b` (a phi of booleans, as go/ssa builds for `switch { case a && b: }` or `ok := a && b`)
// every feasible operand of which implies it.
func edgeEstablishes(ifi *ssa.If, e int, f fact) bool {
	if s, ok := directEdge(ifi, f); ok && s == e {
		return true
	}
	if g, idx, succTrue, ok := boolIIFEIdx(ifi); ok {
		return iifeImpliesIdx(g, idx, e == succTrue, f)
	}
	return condImplies(ifi.Cond, e == 0, f, ifi.Parent(), 0)
}

// condImplies: whenever the boolean v has the value val, the fact holds.
func condImplies(v ssa.Value, val bool, f fact, fn *ssa.Function, depth int) bool {
	if depth > 6 {
		return false
	}
	for {
		u, isU := v.(*ssa.UnOp)
		if !isU || u.Op != token.NOT {
			break
		}
		v, val = u.X, !val
	}
	switch f.kind {
	case "bool":
		if f.isV(v) && val == f.want {
			return true
		}
	case "nil":
		if b, isB := v.(*ssa.BinOp); isB && (b.Op == token.EQL || b.Op == token.NEQ) {
			var other ssa.Value
			if isNilConst(b.Y) {
				other = b.X
			} else if isNilConst(b.X) {
				other = b.Y
			}
			if other != nil && f.isV(other) {
				isNil := (b.Op == token.EQL) == val
				return isNil == f.want
			}
		}
	}
	phi, isPhi := v.(*ssa.Phi)
	if !isPhi || phi.Type().Underlying().String() != "bool" {
		return false
	}
	feasible := 0
	for i, ed := range phi.Edges {
		pred := phi.Block().Preds[i]
		if c, isC := constBool(ed); isC {
			if c != val {
				continue
			}
			feasible++
			if !predEstablishes(pred, phi.Block(), f, fn) {
				return false
			}
			continue
		}
		feasible++
		if condImplies(ed, val, f, fn, depth+1) || predEstablishes(pred, phi.Block(), f, fn) {
			continue
		}
		return false
	}
	return feasible > 0
}

// predEstablishes: control arriving in `to` from `pred` has the fact: pred is guarded by it, or the
// edge pred→to itself establishes it.
func predEstablishes(pred, to *ssa.BasicBlock, f fact, fn *ssa.Function) bool {
	if factGuardsShallow(fn, pred, f) {
		return true
	}
	if len(pred.Instrs) > 0 {
		if ifi, isIf := pred.Instrs[len(pred.Instrs)-1].(*ssa.If); isIf {
			for si, sb := range pred.Succs {
				if sb == to {
					if s, ok := directEdge(ifi, f); ok && s == si {
						return true
					}
				}
			}
		}
	}
	return false
}

// factGuardsShallow is factGuards restricted to direct conditions (used inside condImplies to avoid
// unbounded recursion).
func factGuardsShallow(fn *ssa.Function, target *ssa.BasicBlock, f fact) bool {
	for _, fnc := range enclosingChain(target, fn) {
		for _, ifi := range ifsInOnly(fnc) {
			if s, ok := directEdge(ifi, f); ok && edgeDominates(ifi.Block(), s, target) {
				return true
			}
		}
	}
	return false
}

// factGuards: target is dominated by an edge establishing the fact.
func factGuards(fn *ssa.Function, target *ssa.BasicBlock, f fact) bool {
	for _, fnc := range enclosingChain(target, fn) {
		for _, ifi := range ifsInOnly(fnc) {
			for e := 0; e < 2; e++ {
				if edgeEstablishes(ifi, e, f) && edgeDominates(ifi.Block(), e, target) {
					return true
				}
			}
		}
	}
	return false
}

// edgesWhereAll: the If edges of fn on which all facts hold (each either established by the
// edge itself or already guaranteed at the If's block).
func edgesWhereAll(fn *ssa.Function, facts ...fact) []cfgEdge {
	var out []cfgEdge
	for _, rf := range regionFuncs(fn) {
		for _, ifi := range ifsInOnly(rf) {
			for e := 0; e < 2; e++ {
				all, any := true, false
				for _, f := range facts {
					if edgeEstablishes(ifi, e, f) {
						any = true
						continue
					}
					if !factGuards(fn, ifi.Block(), f) {
						all = false
					}
				}
				if all && any {
					out = append(out, cfgEdge{ifi.Block(), e})
				}
			}
		}
	}
	return out
}

// pathEstablishes: one of the branch edges taken on this path establishes the fact.
func pathEstablishes(st *pathState, f fact) bool {
	for e := range st.Edges {
		if len(e.From.Instrs) == 0 {
			continue
		}
		ifi, isIf := e.From.Instrs[len(e.From.Instrs)-1].(*ssa.If)
		if isIf && edgeEstablishes(ifi, e.Idx, f) {
			return true
		}
	}
	return false
}

func stripNot(v ssa.Value) ssa.Value {
	for {
		if u, isU := v.(*ssa.UnOp); isU && u.Op == token.NOT {
			v = u.X
			continue
		}
		return v
	}
}
