package main

import (
	"sync"

	"golang.org/x/tools/go/ssa"
)

// Immediately-invoked function literals (IIFEs). The normalisation pre-pass
// inlines helpers; where a helper has several return statements the inliner
// produces `func() T { ... }()`. An IIFE executes exactly where its call
// stands, so the engines treat its body as part of the enclosing function:
// values are traced through its returns, dominance queries lift a block of the
// literal to the block of its call, path searches descend into it and come
// back out of its returns.

// iifeSite returns the call that immediately invokes the function literal fn
// (nil if fn is not an IIFE).
func iifeSite(fn *ssa.Function) *ssa.Call {
	par := fn.Parent()
	if par == nil || fn.Blocks == nil {
		return nil
	}
	var site *ssa.Call
	uses := 0
	consider := func(v ssa.Value) {
		refs := v.Referrers()
		if refs == nil {
			return
		}
		for _, r := range *refs {
			switch u := r.(type) {
			case *ssa.DebugRef:
			case *ssa.Call:
				if u.Call.Value == v {
					site = u
					uses++
				} else {
					uses += 2
				}
			default:
				uses += 2
			}
		}
	}
	direct := 0
	eachInstr(par, func(in ssa.Instruction) {
		if mc, ok := in.(*ssa.MakeClosure); ok && mc.Fn == ssa.Value(fn) {
			consider(mc)
		}
		// a literal without free variables is called as a plain function value
		if c, ok := in.(ssa.CallInstruction); ok && c.Common().Value == ssa.Value(fn) {
			if call, isCall := in.(*ssa.Call); isCall {
				site = call
				direct++
			} else {
				direct += 2
			}
		}
		for _, op := range in.Operands(nil) {
			if *op == ssa.Value(fn) {
				if c, ok := in.(ssa.CallInstruction); ok && c.Common().Value == ssa.Value(fn) {
					continue
				}
				if _, isMC := in.(*ssa.MakeClosure); isMC {
					continue
				}
				direct += 2
			}
		}
	})
	if uses+direct == 1 {
		return site
	}
	return nil
}

var (
	iifeMu    sync.Mutex
	iifeCache = map[*ssa.Function]*ssa.Call{}
	iifeKnown = map[*ssa.Function]bool{}
)

func iifeSiteCached(fn *ssa.Function) *ssa.Call {
	iifeMu.Lock()
	if iifeKnown[fn] {
		r := iifeCache[fn]
		iifeMu.Unlock()
		return r
	}
	iifeMu.Unlock()
	r := iifeSite(fn)
	iifeMu.Lock()
	iifeKnown[fn] = true
	iifeCache[fn] = r
	iifeMu.Unlock()
	return r
}

// iifeCallee: the function literal immediately invoked by call (nil if none).
func iifeCallee(call *ssa.Call) *ssa.Function {
	var f *ssa.Function
	switch v := call.Call.Value.(type) {
	case *ssa.MakeClosure:
		f, _ = v.Fn.(*ssa.Function)
	case *ssa.Function:
		f = v
	}
	if f == nil || f.Parent() == nil {
		return nil
	}
	if iifeSiteCached(f) == call {
		return f
	}
	return nil
}

// liftInstr maps an instruction inside (nested) IIFEs of fn to the call
// instruction in fn that executes it; instructions of fn map to themselves.
func liftInstr(in ssa.Instruction, fn *ssa.Function) (ssa.Instruction, bool) {
	for i := 0; i < 8; i++ {
		if in.Parent() == fn {
			return in, true
		}
		site := iifeSiteCached(in.Parent())
		if site == nil {
			return nil, false
		}
		in = site
	}
	return nil, false
}

func liftBlock(b *ssa.BasicBlock, fn *ssa.Function) (*ssa.BasicBlock, bool) {
	if b.Parent() == fn {
		return b, true
	}
	if len(b.Instrs) == 0 {
		return nil, false
	}
	in, ok := liftInstr(b.Instrs[0], fn)
	if !ok {
		return nil, false
	}
	return in.Block(), true
}

// eachInstrDeep iterates over fn and the IIFEs nested in it.
func eachInstrDeep(fn *ssa.Function, f func(in ssa.Instruction)) {
	eachInstr(fn, func(in ssa.Instruction) {
		f(in)
		if call, ok := in.(*ssa.Call); ok {
			if g := iifeCallee(call); g != nil {
				eachInstrDeep(g, f)
			}
		}
	})
}

// regionFuncs: fn and the IIFEs nested in it.
func regionFuncs(fn *ssa.Function) []*ssa.Function {
	out := []*ssa.Function{fn}
	eachInstr(fn, func(in ssa.Instruction) {
		if call, ok := in.(*ssa.Call); ok {
			if g := iifeCallee(call); g != nil {
				out = append(out, regionFuncs(g)...)
			}
		}
	})
	return out
}

// ifsInRegion: the If instructions of fn and of the IIFE chain that contains target.
func enclosingChain(b *ssa.BasicBlock, top *ssa.Function) []*ssa.Function {
	var out []*ssa.Function
	f := b.Parent()
	for i := 0; i < 8 && f != nil; i++ {
		out = append(out, f)
		if f == top {
			return out
		}
		site := iifeSiteCached(f)
		if site == nil {
			break
		}
		f = site.Parent()
	}
	if len(out) == 0 || out[len(out)-1] != top {
		// target is not nested in top through IIFEs
		return []*ssa.Function{b.Parent()}
	}
	return out
}
