package main

import (
	"go/token"
	"go/types"
	"strings"

	"golang.org/x/tools/go/ssa"
)

// Rules about Joe's loop shared by C03, C04, C07, C17.

func init() {
	prop(&PropertySpec{
		ID: "C03", Level: "other",
		Rules: []string{"R03.1", "R03.2", "R03.9", "R03.3", "R03.4", "R03.5", "R03.6", "R03.7", "R03.8", "R07.6", "R17.1"},
		Explanation: "Decides the structural premises of exactly-once in-order delivery: R03.1 the subscribers map and every Replayer.Put/Replay invocation are confined to the single loop goroutine (only one go statement, started under sync.Once; no access from any function reachable from an exported entry point without crossing that go statement); " +
			"R03.2 operation channels are unbuffered, reply channels buffered; R03.3 the fan-out Send is nested in exactly the main loop and the range over subscribers, is called on the current range value's Client, under topicsIntersect(sub.Topics, msg.topics) of the message received in this iteration, at one call site; " +
			"R03.4 every successful Send is followed by Flush on the same client before the next subscriber; R03.5 every accepted message reaches the fan-out before the next select; R03.6 Publish's hand-off/return sources; R03.7 topicsIntersect is true only under an equality of an element of each argument and false after both loops; R03.8 the range over the subscribers is left only by exhausting the map (no return/break/goto out of the fan-out); R07.6 the loop has no other blocking operation; R17.1 a failing subscriber does not end the fan-out for the subscribers after it.",
		NotDecided: "ordering/linearisation over all interleavings as a theorem (follows from the confinement and capacity rules by argument); 'delivered before cancellation was requested' timing.",
	})
	prop(&PropertySpec{
		ID: "C04", Level: "other",
		Rules: []string{"R04.1", "R04.2", "R04.3", "R03.1", "R03.5", "R08.1", "R09.6", "R08.2"},
		Explanation: "Decides the replay/live boundary structure: R04.1 Put precedes the fan-out whenever a replayer is configured; R04.2 the message handed to Send is loaded from the cell into which Put's ID-carrying result is stored whenever it is non-nil (and Put did not fail); " +
			"R04.3 replay and registration happen in one loop iteration with no channel operation between them, the insert is reached exactly when Replay did not return a genuine error, and a failed replay sends the error, closes and does not register; R03.1 the replayer is only used from the loop goroutine (Put and Replay never overlap); R03.5 no select between accept and fan-out; R08.1/R08.2 automatic IDs are consecutive in Put order (a rejected Put consumes none), which the automatic-ID lookup relies on.",
		NotDecided: "which elements each(i) visits for a given start index and what findIDInQueue computes for evicted/absent IDs (ring index arithmetic; only the start-index protocol R08.5 and the copy order R18.5 are decided), eviction arithmetic, equality of ID values beyond R04.2.",
	})
	prop(&PropertySpec{
		ID: "C07", Level: "other",
		Rules: []string{"R07.1", "R07.2", "R07.3", "R07.4", "R07.5", "R07.6", "R03.9", "R06.2"},
		Explanation: "Decides the structural premises of termination: R07.1 every blocking channel operation in Subscribe/Publish/Shutdown is a select with a receive from a channel that shutdown closes (j.done, j.closed, the call's own done channel, ctx.Done()) or a receive on the reply channel that R07.3 proves is always closed; " +
			"R07.2 the loop registers, before its loop, defers that close j.closed and close every registered subscriber (so they also run on panic); R07.3 the reply channel is closed on every path of the message arm before the fan-out, with at most one (buffered) send before; " +
			"R07.4 close(j.done) in Shutdown is covered by a deferred recover that turns the double close into ErrProviderClosed; R07.5 init() dominates every channel-field load in exported methods; R07.6 the loop's only blocking operations are its main select, buffered sends and user-interface calls.",
		NotDecided: "deadlock freedom over all interleavings as a theorem; goroutine exit timing; that user Send/Flush calls return.",
	})
	prop(&PropertySpec{
		ID: "C17", Level: "other",
		Rules: []string{"R17.1", "R17.2", "R17.3", "R17.4", "R03.5", "R04.3"},
		Explanation: "Decides failure isolation structurally: R17.1 on the fan-out's error edge the error is sent to the current iteration's key, that same key is removed and control returns to the range (no return/break/panic); R17.2 a Put error is sent on the reply channel, the published message stays in place and the fan-out is still reached; " +
			"R17.3 every Replayer interface call in sse runs under a deferred recover that disables the shared replayer variable and marks the error as a panic, and every use in the loop is under a non-nil test of a fresh load of that variable; R17.4 the panic marker is never forwarded to Publish and leads to registration, not to an error.",
		NotDecided: "delivery to the healthy subscribers over all schedules as such; behaviour of user code that panics inside Send/Flush.",
	})

	register(&Rule{ID: "R03.1", Title: "subscribers map and replayer calls confined to the loop goroutine", Floor: 4, Run: r03_1})
	register(&Rule{ID: "R03.3", Title: "fan-out shape: one guarded Send per subscriber per message", Floor: 4, Run: r03_3})
	register(&Rule{ID: "R03.8", Title: "the fan-out range is left only by exhausting the subscribers map", Floor: 1, Run: r03_8})
	register(&Rule{ID: "R03.4", Title: "successful Send is followed by Flush on the same client", Floor: 1, Run: r03_4})
	register(&Rule{ID: "R03.5", Title: "accepted message reaches the fan-out before the next select", Floor: 1, Run: r03_5})
	register(&Rule{ID: "R03.6", Title: "Publish hand-off and return sources", Floor: 4, Run: r03_6})
	register(&Rule{ID: "R03.7", Title: "topicsIntersect shape", Floor: 2, Run: r03_7})
	register(&Rule{ID: "R04.1", Title: "Put precedes the fan-out", Floor: 1, Run: r04_1})
	register(&Rule{ID: "R04.2", Title: "the ID-carrying copy returned by Put is what is fanned out", Floor: 2, Run: r04_2})
	register(&Rule{ID: "R04.3", Title: "replay and registration are atomic in one loop iteration", Floor: 3, Run: r04_3})
	register(&Rule{ID: "R07.1", Title: "every blocking operation of Subscribe/Publish/Shutdown has a shutdown escape", Floor: 5, Run: r07_1})
	register(&Rule{ID: "R07.2", Title: "loop-exit cleanup is deferred before the loop", Floor: 2, Run: r07_2})
	register(&Rule{ID: "R07.3", Title: "reply channel always closed before the fan-out", Floor: 2, Run: r07_3})
	register(&Rule{ID: "R07.4", Title: "idempotent Shutdown (recovered double close)", Floor: 1, Run: r07_4})
	register(&Rule{ID: "R07.5", Title: "init() dominates channel-field loads in exported methods", Floor: 3, Run: r07_5})
	register(&Rule{ID: "R07.6", Title: "loop has no blocking operation besides its select, buffered sends and user calls", Floor: 1, Run: r07_6})
	register(&Rule{ID: "R17.1", Title: "failing subscriber: error to its channel, remove it, continue", Floor: 2, Run: r17_1})
	register(&Rule{ID: "R17.2", Title: "Put error forwarded to Publish, fan-out still reached", Floor: 2, Run: r17_2})
	register(&Rule{ID: "R17.3", Title: "replayer calls run under a disabling recover; nil-guarded uses", Floor: 4, Run: r17_3})
	register(&Rule{ID: "R17.4", Title: "panic marker is not forwarded to the publisher", Floor: 1, Run: r17_4})
}

type loopParts struct {
	jp         *joeParts
	fn         *ssa.Function
	rng        *ssa.Range
	next       *ssa.Next
	sends      []ssa.CallInstruction // MessageWriter.Send invokes
	flushes    []ssa.CallInstruction
	tryPut     *ssa.Call // call whose callee invokes Replayer.Put
	tryReplay  *ssa.Call
	replyClose ssa.CallInstruction
	replySends []*ssa.Send
	inserts    []*ssa.MapUpdate
	replayCell ssa.Value // address of the shared replayer variable
	problems   []string
}

// callsInvoke: does fn contain an interface invoke of Replayer.<method>?
func invokesReplayer(fn *ssa.Function, method string) bool {
	r := false
	if fn == nil || fn.Blocks == nil {
		return false
	}
	eachInstrDeep(fn, func(in ssa.Instruction) {
		if _, ok := isInvoke(in, "sse", "Replayer", method); ok {
			r = true
		}
	})
	return r
}

func findLoop(P *Program) *loopParts {
	jp := findJoe(P)
	lp := &loopParts{jp: jp, fn: jp.loop}
	lp.problems = append(lp.problems, jp.problems...)
	if jp.loop == nil || jp.sel == nil {
		return lp
	}
	fn := jp.loop
	eachInstrDeep(fn, func(in ssa.Instruction) {
		switch x := in.(type) {
		case *ssa.Range:
			if isJoeField(x.X, "subscribers") && jp.inArm("message", x.Block()) {
				lp.rng = x
			}
		case *ssa.Next:
			if r, ok := x.Iter.(*ssa.Range); ok && isJoeField(r.X, "subscribers") && jp.inArm("message", x.Block()) {
				lp.next = x
			}
		case *ssa.Send:
			if _, ok := isFieldLoad(x.Chan, "~", "type:chan<- error"); ok {
				lp.replySends = append(lp.replySends, x)
			}
		case *ssa.MapUpdate:
			if isJoeField(x.Map, "subscribers") {
				lp.inserts = append(lp.inserts, x)
			}
		case *ssa.Call:
			if c, ok := isInvoke(x, "sse", "MessageWriter", "Send"); ok {
				lp.sends = append(lp.sends, c)
			}
			if c, ok := isInvoke(x, "sse", "MessageWriter", "Flush"); ok {
				lp.flushes = append(lp.flushes, c)
			}
			if callee := x.Call.StaticCallee(); callee != nil {
				if invokesReplayer(callee, "Put") {
					lp.tryPut = x
				}
				if invokesReplayer(callee, "Replay") {
					lp.tryReplay = x
				}
			}
			if b, ok := isBuiltin(x, "close"); ok {
				if _, ok := isFieldLoad(b.Common().Args[0], "~", "type:chan<- error"); ok {
					lp.replyClose = b
				}
			}
		}
	})
	// the shared replayer variable: the *Replayer argument of tryPut / tryReplay
	for _, call := range []*ssa.Call{lp.tryPut, lp.tryReplay} {
		if call == nil {
			continue
		}
		for _, a := range call.Call.Args {
			if p, ok := a.Type().Underlying().(*types.Pointer); ok && typeIs(p.Elem(), "sse", "Replayer") {
				if lp.replayCell != nil && !sameCell(lp.replayCell, a) {
					lp.problems = append(lp.problems, "tryPut and tryReplay do not share one replayer variable")
				}
				lp.replayCell = a
			}
		}
	}
	return lp
}

// sameGoroutineReach: functions reachable from roots without crossing a go statement.
func (P *Program) reachNoGo(roots ...*ssa.Function) map[*ssa.Function]bool {
	seen := map[*ssa.Function]bool{}
	var stack []*ssa.Function
	for _, r := range roots {
		if r != nil && !seen[r] {
			seen[r] = true
			stack = append(stack, r)
		}
	}
	for len(stack) > 0 {
		f := stack[len(stack)-1]
		stack = stack[:len(stack)-1]
		if n := P.CG.Nodes[f]; n != nil {
			for _, e := range n.Out {
				if _, isGo := e.Site.(*ssa.Go); isGo {
					continue
				}
				if c := e.Callee.Func; c != nil && !seen[c] {
					// a function literal whose closure value never leaves its lexical parent (it is only
					// called, deferred or started there) cannot be the target of a dynamic call elsewhere: the
					// CHA edge into it from an unrelated `f()` is an artefact
					if c.Parent() != nil && c.Parent() != f && closureStaysLocal(c) {
						continue
					}
					seen[c] = true
					stack = append(stack, c)
				}
			}
		}
		for _, af := range f.AnonFuncs {
			// a closure handed to `go` directly is a different goroutine
			isGoTarget := false
			eachInstrDeep(f, func(in ssa.Instruction) {
				if g, ok := in.(*ssa.Go); ok {
					if mc, ok := g.Call.Value.(*ssa.MakeClosure); ok && mc.Fn == ssa.Value(af) {
						isGoTarget = true
					}
				}
			})
			if !isGoTarget && !seen[af] {
				seen[af] = true
				stack = append(stack, af)
			}
		}
	}
	return seen
}

func r03_1(c *Ctx) {
	P := c.P
	jp := findJoe(P)
	for _, pr := range jp.problems {
		c.anchor(pr)
	}
	if jp.loop == nil {
		return
	}
	// the go statement is inside a closure passed to sync.Once.Do
	onceOK := false
	if par := jp.initFn.Parent(); par != nil {
		eachInstrDeep(par, func(in ssa.Instruction) {
			if call, ok := isStaticCall(in, "(*sync.Once).Do"); ok {
				if mc, ok := call.Call.Args[1].(*ssa.MakeClosure); ok && mc.Fn == ssa.Value(jp.initFn) {
					onceOK = true
				}
			}
		})
	} else {
		// the initialiser is a method passed to Once.Do as a method value (`j.initDone.Do(j.setup)`): every
		// use of it in the module is such a bound-method closure handed to Once.Do
		uses, viaOnce := 0, 0
		for _, f := range P.Funcs {
			if !inSSEPackage(f) {
				continue
			}
			eachInstr(f, func(in ssa.Instruction) {
				if call, ok := isStaticCall(in, "(*sync.Once).Do"); ok {
					if mc, ok := call.Call.Args[1].(*ssa.MakeClosure); ok {
						if w, ok := mc.Fn.(*ssa.Function); ok && boundMethodTarget(w) == jp.initFn {
							viaOnce++
						}
					}
				}
				if ci, ok := in.(ssa.CallInstruction); ok && ci.Common().StaticCallee() == jp.initFn {
					if w := ci.Parent(); boundMethodTarget(w) != jp.initFn {
						uses++
					}
				}
			})
		}
		onceOK = viaOnce > 0 && uses == 0
	}
	c.check(onceOK, fnLabel(jp.initFn)+":go-under-once", P.ipos(jp.goInstr), "the loop goroutine is started inside sync.Once.Do: exactly one loop exists",
		"the go statement starting Joe's loop is not inside a sync.Once.Do closure: two loops could run and no single publish order exists")
	// go statements in Joe code other than the loop start
	nGo := 0
	for _, fn := range P.Funcs {
		if !isJoeCode(P, fn) {
			continue
		}
		eachInstr(fn, func(in ssa.Instruction) {
			if g, ok := in.(*ssa.Go); ok && g != jp.goInstr {
				nGo++
				c.bad(fnLabel(fn)+":extra-go", P.ipos(in), "another goroutine is started in Joe's code: operations are no longer serialised by the single loop")
			}
		})
	}
	loopReach := P.reachNoGo(jp.loop)
	otherReach := P.reachNoGo(P.exportedRoots()...)
	check := func(fn *ssa.Function, what string, in ssa.Instruction) {
		name := fnLabel(fn) + ":" + what
		if fn == jp.initFn {
			c.check(instrDominates(in, jp.goInstr), name, P.ipos(in), "initialisation before the loop goroutine is started", "Joe.subscribers / the replayer is touched in the initialiser after the loop goroutine was started")
			return
		}
		if !loopReach[fn] {
			c.bad(name, P.ipos(in), what+" outside the loop goroutine's call tree ("+fnLabel(fn)+" is not reachable from "+fnLabel(jp.loop)+")")
			return
		}
		if otherReach[fn] {
			c.bad(name, P.ipos(in), what+" in "+fnLabel(fn)+", which is also reachable from an exported entry point without crossing the go statement: another goroutine can touch it concurrently with the loop")
			return
		}
		c.ok(name, P.ipos(in), "confined to the loop goroutine")
	}
	for _, a := range P.fieldAccesses("Joe", "subscribers") {
		check(a.Fn, "access(Joe.subscribers)", a.Instr)
	}
	for _, fn := range P.Funcs {
		if !inSSEPackage(fn) {
			continue
		}
		eachInstr(fn, func(in ssa.Instruction) {
			for _, m := range []string{"Put", "Replay"} {
				if _, ok := isInvoke(in, "sse", "Replayer", m); ok {
					check(fn, "invoke(Replayer."+m+")", in)
				}
			}
		})
	}
}

func r03_3(c *Ctx) {
	P := c.P
	lp := findLoop(P)
	if lp.fn == nil || lp.next == nil {
		c.anchor("Joe loop / range over subscribers in the message arm")
		return
	}
	fn := lp.fn
	name := fnLabel(fn) + ":fan-out"
	var inArm []ssa.CallInstruction
	for _, s := range lp.sends {
		if lp.jp.inArm("message", s.Block()) {
			inArm = append(inArm, s)
		}
	}
	if !c.check(len(inArm) == 1 && len(lp.sends) == 1, name+":one-send-site", P.ipos(lp.next), "exactly one MessageWriter.Send call site in the loop function, in the message arm",
		"the loop function has "+itoa(len(lp.sends))+" Send call sites ("+itoa(len(inArm))+" in the message arm): a message can be handed to a subscriber twice or outside the fan-out") {
		return
	}
	send := inArm[0]
	// nesting: exactly the main loop and the range loop
	loops := loopsContaining(fn, send.Block())
	rangeLoop := false
	for _, l := range loops {
		if l.Head == lp.next.Block() {
			rangeLoop = true
		}
	}
	c.check(len(loops) == 2 && rangeLoop, name+":nesting", P.ipos(send), "Send is nested in exactly the main loop and the range over subscribers",
		"Send is nested in "+itoa(len(loops))+" loops (expected: main loop + range over subscribers): one Send per matching topic / per something else duplicates deliveries")
	// receiver: Client of the current range value
	recvOK := false
	isCurSub := func(base ssa.Value) bool {
		// base is the cell holding the range value, or the extract itself
		if a, ok := cellRoot(base).(*ssa.Alloc); ok {
			st, _, esc := cellStores(a)
			if esc || len(st) != 1 {
				return false
			}
			nx, ok := rangeValueOverJoeMap(st[0], "subscribers")
			return ok && nx == lp.next
		}
		nx, ok := rangeValueOverJoeMap(base, "subscribers")
		return ok && nx == lp.next
	}
	if base, ok := isFieldLoad(send.Common().Value, "Subscription", "Client"); ok && isCurSub(base) {
		recvOK = true
	}
	c.check(recvOK, name+":receiver", P.ipos(send), "Send is invoked on the Client of the current range value", "Send is not invoked on the current subscriber's Client")
	// guard: topicsIntersect(sub.Topics, msg.topics) true edge
	msg := lp.jp.recv("message")
	isCurMsgTopics := func(v ssa.Value) bool {
		base, ok := isFieldLoad(v, "~", "type:[]string")
		if !ok {
			return false
		}
		return cellHoldsOnly(rootAddr(base), msg)
	}
	guard := guardedByBool(fn, send.Block(), func(v ssa.Value) bool {
		call, ok := isModCall(v, "topicsIntersect")
		if !ok {
			return false
		}
		a, b := call.Call.Args[0], call.Call.Args[1]
		subTopics := func(v ssa.Value) bool {
			base, ok := isFieldLoad(v, "Subscription", "Topics")
			return ok && isCurSub(base)
		}
		return (subTopics(a) && isCurMsgTopics(b)) || (subTopics(b) && isCurMsgTopics(a))
	}, true)
	c.check(guard, name+":topic-guard", P.ipos(send), "Send is dominated by topicsIntersect(sub.Topics, msg.topics) == true for the current subscriber and the message received in this iteration",
		"Send is not guarded by topicsIntersect of the current subscriber's topics with the received message's topics: non-matching subscribers would receive the message")
}

// cellHoldsOnly: addr is a local cell whose only store is v (or addr's root is v itself).
func cellHoldsOnly(addr ssa.Value, v ssa.Value) bool {
	if v == nil {
		return false
	}
	if a, ok := cellRoot(addr).(*ssa.Alloc); ok {
		st, _, esc := cellStores(a)
		return !esc && len(st) == 1 && (st[0] == v || carriesOnly(st[0], v))
	}
	return addr == v
}

func r03_4(c *Ctx) {
	P := c.P
	lp := findLoop(P)
	if lp.fn == nil || lp.next == nil || len(lp.sends) == 0 {
		c.anchor("fan-out Send")
		return
	}
	fn := lp.fn
	for _, send := range lp.sends {
		sv := send.Value()
		var nilE *cfgEdge
		for _, f := range regionFuncs(fn) {
			for _, ifi := range ifsIn(f) {
				if s, ok := nilEdge(ifi, func(v ssa.Value) bool { return v == ssa.Value(sv) }); ok {
					nilE = &cfgEdge{ifi.Block(), s}
				}
			}
		}
		name := fnLabel(fn) + ":send-then-flush"
		if nilE == nil {
			c.bad(name, P.ipos(send), "the result of Send is never tested against nil")
			continue
		}
		isFlush := func(in ssa.Instruction) bool {
			fl, ok := isInvoke(in, "sse", "MessageWriter", "Flush")
			if !ok {
				return false
			}
			return sameValue(fl.Common().Value, send.Common().Value) || sameLoad(fl.Common().Value, send.Common().Value)
		}
		var offender ssa.Instruction
		forward([]startPoint{atEdge(nilE.From, nilE.Idx)}, func(in ssa.Instruction) searchAction {
			if isFlush(in) {
				return stopPath
			}
			switch in.(type) {
			case *ssa.Next, *ssa.Select, *ssa.Return:
				if offender == nil {
					offender = in
				}
				return stopPath
			}
			return cont
		})
		c.check(offender == nil, name, P.ipos(send), "every path after a successful Send flushes the same client before moving on",
			"after a successful Send a path reaches the next subscriber / the select without Flush on the same client: the event stays in the writer's buffer while Joe is idle")
	}
}

func r03_5(c *Ctx) {
	P := c.P
	lp := findLoop(P)
	if lp.fn == nil || lp.rng == nil {
		c.anchor("range over subscribers in the message arm")
		return
	}
	e, ok := lp.jp.armEdge("message")
	if !ok {
		c.anchor("message arm")
		return
	}
	var offender ssa.Instruction
	forward([]startPoint{atEdge(e.From, e.Idx)}, func(in ssa.Instruction) searchAction {
		if in == ssa.Instruction(lp.rng) {
			return stopPath
		}
		switch x := in.(type) {
		case *ssa.Select, *ssa.Return:
			if offender == nil {
				offender = in
			}
			return stopPath
		case *ssa.UnOp:
			if x.Op == token.ARROW {
				if offender == nil {
					offender = in
				}
				return stopPath
			}
		}
		return cont
	})
	c.check(offender == nil, fnLabel(lp.fn)+":accept-to-fan-out", P.ipos(lp.rng), "every path from accepting a message reaches the range over subscribers before any select/receive/return",
		"a path from accepting a message reaches "+offenderText(P, offender)+" without fanning the message out: a message accepted by Publish is not delivered")
}

func offenderText(P *Program, in ssa.Instruction) string {
	if in == nil {
		return "-"
	}
	return in.String() + " at " + P.ipos(in)
}

func r03_6(c *Ctx) {
	P := c.P
	fn := P.Fn("(*Joe).Publish")
	if fn == nil {
		c.anchor("(*Joe).Publish")
		return
	}
	var sel *ssa.Select
	var reply *ssa.MakeChan
	eachInstrDeep(fn, func(in ssa.Instruction) {
		if s, ok := in.(*ssa.Select); ok {
			sel = s
		}
		if m, ok := in.(*ssa.MakeChan); ok {
			reply = m
		}
	})
	if sel == nil || reply == nil {
		c.anchor("Publish's select / reply channel")
		return
	}
	sendIdx, doneIdx := -1, -1
	for i, st := range sel.States {
		if st.Dir == types.SendOnly && isJoeField(st.Chan, "message") {
			sendIdx = i
		}
		if st.Dir == types.RecvOnly && isJoeField(st.Chan, "done") {
			doneIdx = i
		}
	}
	c.check(sendIdx >= 0, fnLabel(fn)+":hand-off", P.ipos(sel), "the message is handed to the loop by a send on j.message inside the select", "Publish does not send on j.message inside its select")
	// the sent value carries this call's msg, topics and reply channel
	if sendIdx >= 0 {
		sent := sel.States[sendIdx].Send
		ok := false
		if a, isLoad := loadedFrom(sent); isLoad {
			if al, isAlloc := cellRoot(a).(*ssa.Alloc); isAlloc {
				var msgOK, topOK, repOK bool
				var walk func(v ssa.Value)
				seen := map[ssa.Value]bool{}
				walk = func(v ssa.Value) {
					if seen[v] {
						return
					}
					seen[v] = true
					for _, r := range *v.Referrers() {
						switch u := r.(type) {
						case *ssa.FieldAddr:
							walk(u)
						case *ssa.Store:
							if u.Addr != v {
								continue
							}
							_, n, _, _ := fieldSel(v)
							switch n {
							case "message":
								msgOK = u.Val == ssa.Value(fn.Params[1]) || carriesOnly(u.Val, fn.Params[1])
							case "topics":
								topOK = u.Val == ssa.Value(fn.Params[2]) || carriesOnly(u.Val, fn.Params[2])
							case "replayerErr":
								repOK = stripConv(u.Val) == ssa.Value(reply) || carriesOnlyConv(u.Val, reply)
							}
							if v == ssa.Value(al) {
								// whole-struct store from another local composite
								for _, s := range sources(u.Val) {
									if a2, ok := loadedFrom(s); ok {
										walk(cellRoot(a2))
									}
								}
								if ld, ok := u.Val.(*ssa.UnOp); ok {
									walk(cellRoot(ld.X))
								}
							}
						}
					}
				}
				walk(al)
				ok = msgOK && topOK && repOK
			}
		}
		c.check(ok, fnLabel(fn)+":sent-value", P.ipos(sel), "the published value carries this call's message, topics and reply channel", "the value sent to the loop does not carry this call's message, topics and reply channel")
	}
	for i, ret := range returnsOf(fn) {
		name := fnLabel(fn) + ":return#" + itoa(i)
		for _, s := range sources(ret.Results[0]) {
			switch {
			case isGlobalLoad(s, "ErrNoTopic"):
				g := intGuard(fn, ret.Block(), isLenCallOf(func(v ssa.Value) bool { return v == ssa.Value(fn.Params[2]) || carriesOnly(v, fn.Params[2]) }), 0, 0, 0)
				c.check(g, name, P.ipos(ret), "ErrNoTopic only when len(topics)==0", "ErrNoTopic returned without len(topics)==0")
			case isGlobalLoad(s, "ErrProviderClosed"):
				g := false
				if doneIdx >= 0 {
					if e, ok := selectArmEdge(sel, doneIdx); ok && (edgeDominates(e.From, e.Idx, ret.Block()) || factGuards(fn, ret.Block(), factEdges(e))) {
						g = true
					}
				}
				c.check(g, name, P.ipos(ret), "ErrProviderClosed only on the <-j.done arm", "ErrProviderClosed returned outside the <-j.done arm: an accepted message would be reported as refused")
			default:
				u, ok := s.(*ssa.UnOp)
				g := ok && u.Op == token.ARROW && (stripConv(u.X) == ssa.Value(reply) || carriesOnlyConv(u.X, reply) || replyThroughResult(u.X, reply))
				if g && sendIdx >= 0 {
					e, ok := selectArmEdge(sel, sendIdx)
					g = ok && (edgeDominates(e.From, e.Idx, ret.Block()) || factGuards(fn, ret.Block(), factEdges(e)))
				}
				if g {
					c.ok(name, P.ipos(ret), "returns the value received from the reply channel after the loop accepted the message")
				} else {
					c.undecided(name, P.ipos(ret), "return operand is not ErrNoTopic, ErrProviderClosed or the reply received after the hand-off: "+describe(s))
				}
			}
		}
	}
}

func r03_7(c *Ctx) {
	P := c.P
	fn := P.Fn("topicsIntersect")
	if fn == nil || len(fn.Params) != 2 {
		c.anchor("topicsIntersect(a, b)")
		return
	}
	elemOf := func(v ssa.Value, p *ssa.Parameter) bool {
		a, ok := loadedFrom(v)
		if !ok {
			return false
		}
		ia, ok := a.(*ssa.IndexAddr)
		if !ok || ia.X != ssa.Value(p) {
			return false
		}
		// the index must be a loop variable (every element is compared), not a constant
		_, isConst := ia.Index.(*ssa.Const)
		return !isConst && len(loopsContaining(fn, ia.Block())) > 0
	}
	// library form: slices.ContainsFunc(x, func(t) bool { return slices.Contains(y, t) }) with {x, y} =
	// the two parameters (the contracts of slices.Contains/ContainsFunc — "some element equals / satisfies" —
	// are part of the trusted base)
	libForm := func(v ssa.Value) bool {
		call, ok := v.(*ssa.Call)
		if !ok || len(call.Call.Args) != 2 {
			return false
		}
		callee := call.Call.StaticCallee()
		if callee == nil || fnPkgPath(callee) != "slices" || !strings.HasPrefix(callee.Name(), "ContainsFunc") {
			return false
		}
		var outer *ssa.Parameter
		for _, p := range fn.Params {
			if call.Call.Args[0] == ssa.Value(p) {
				outer = p
			}
		}
		var g *ssa.Function
		switch fv := call.Call.Args[1].(type) {
		case *ssa.MakeClosure:
			g, _ = fv.Fn.(*ssa.Function)
		case *ssa.Function:
			g = fv
		}
		if outer == nil || g == nil || len(g.Params) != 1 || len(loopsOf(g)) > 0 {
			return false
		}
		for _, r := range returnsOf(g) {
			inner, ok := r.Results[0].(*ssa.Call)
			if !ok || len(inner.Call.Args) != 2 {
				return false
			}
			ic := inner.Call.StaticCallee()
			if ic == nil || fnPkgPath(ic) != "slices" || !strings.HasPrefix(ic.Name(), "Contains") || strings.HasPrefix(ic.Name(), "ContainsFunc") {
				return false
			}
			if inner.Call.Args[1] != ssa.Value(g.Params[0]) {
				return false
			}
			// the searched slice is the other parameter (captured)
			other := false
			for _, src := range sources(inner.Call.Args[0]) {
				_ = src
			}
			if u, ok := inner.Call.Args[0].(*ssa.UnOp); ok {
				if fv, ok := u.X.(*ssa.FreeVar); ok {
					for i, b := range g.FreeVars {
						if b == fv {
							if mc, ok := call.Call.Args[1].(*ssa.MakeClosure); ok && i < len(mc.Bindings) {
								for _, p := range fn.Params {
									if p != outer && cellHoldsOnly(mc.Bindings[i], p) {
										other = true
									}
								}
							}
						}
					}
				}
			}
			if fv, ok := inner.Call.Args[0].(*ssa.FreeVar); ok {
				for i, b := range g.FreeVars {
					if b == fv {
						if mc, ok := call.Call.Args[1].(*ssa.MakeClosure); ok && i < len(mc.Bindings) {
							for _, p := range fn.Params {
								if p != outer && mc.Bindings[i] == ssa.Value(p) {
									other = true
								}
							}
						}
					}
				}
			}
			if !other {
				return false
			}
		}
		return len(returnsOf(g)) > 0
	}
	// every pair is compared: the cursor of each loop starts afresh whenever the loop is entered. A cursor that is
	// carried over from the enclosing loop (declared once in front of both) makes the inner loop run only once.
	{
		carried := ""
		eachInstr(fn, func(in ssa.Instruction) {
			ia, ok := in.(*ssa.IndexAddr)
			if !ok || (ia.X != ssa.Value(fn.Params[0]) && ia.X != ssa.Value(fn.Params[1])) {
				return
			}
			idx := ia.Index
			for k := 0; k < 4; k++ {
				if b, ok := idx.(*ssa.BinOp); ok && (b.Op == token.ADD || b.Op == token.SUB) {
					if _, isK := b.Y.(*ssa.Const); isK {
						idx = b.X
						continue
					}
				}
				if cv, ok := idx.(*ssa.Convert); ok {
					idx = cv.X
					continue
				}
				break
			}
			ph, ok := idx.(*ssa.Phi)
			if !ok {
				return
			}
			for _, e := range ph.Edges {
				if q, isPhi := e.(*ssa.Phi); isPhi && q != ph && len(loopsContaining(fn, q.Block())) > 0 && len(loopsContaining(fn, ph.Block())) > len(loopsContaining(fn, q.Block())) {
					carried = P.ipos(ia)
				}
			}
		})
		if len(loopsOf(fn)) > 0 {
			c.check(carried == "", fnLabel(fn)+":all-pairs", P.pos(fn.Pos()), "the cursor of the inner loop starts afresh for every element of the outer loop",
				"the cursor of the inner loop (index used at "+carried+") is carried over from the enclosing loop instead of starting afresh: after the first outer element the inner loop is already exhausted, so only the first element of one argument is compared with the other argument (a message published to [news, sports] no longer reaches a subscriber of sports)")
		}
	}
	for i, ret := range returnsOf(fn) {
		name := fnLabel(fn) + ":return#" + itoa(i)
		if libForm(ret.Results[0]) {
			c.ok(name, P.ipos(ret), "slices.ContainsFunc(one argument, t => slices.Contains(the other argument, t))")
			c.ok(name+":both-arguments", P.ipos(ret), "both arguments are searched completely (library form)")
			continue
		}
		for _, s := range sources(ret.Results[0]) {
			b, isC := constBool(s)
			if !isC {
				c.undecided(name, P.ipos(ret), "non-constant result")
				continue
			}
			if b {
				g := false
				for _, ifi := range ifsIn(fn) {
					cnd := decodeIf(ifi)
					if cnd.Y == nil || (cnd.Op != token.EQL && cnd.Op != token.NEQ) {
						continue
					}
					if (elemOf(cnd.X, fn.Params[0]) && elemOf(cnd.Y, fn.Params[1])) || (elemOf(cnd.X, fn.Params[1]) && elemOf(cnd.Y, fn.Params[0])) {
						if edgeDominates(ifi.Block(), cnd.succWhen(cnd.Op == token.EQL), ret.Block()) {
							g = true
						}
					}
				}
				c.check(g, name, P.ipos(ret), "true only under equality of an element of a with an element of b", "topicsIntersect returns true without an equality between an element of each argument")
			} else {
				// false only after both loops: not inside any loop
				c.check(len(loopsContaining(fn, ret.Block())) == 0 && len(loopsOf(fn)) >= 2, name, P.ipos(ret), "false only after both loops are exhausted",
					"topicsIntersect returns false inside a loop (before all pairs were compared), or does not iterate over both arguments")
			}
		}
	}
}

func r04_1(c *Ctx) {
	P := c.P
	lp := findLoop(P)
	if lp.fn == nil || lp.rng == nil {
		c.anchor("fan-out range")
		return
	}
	e, _ := lp.jp.armEdge("message")
	name := fnLabel(lp.fn) + ":put-before-fan-out"
	if lp.tryPut == nil {
		c.bad(name, P.ipos(lp.rng), "the message arm never calls Replayer.Put (through a recover-protected helper): published messages cannot be replayed")
		return
	}
	blocked := map[cfgEdge]bool{}
	for _, f := range regionFuncs(lp.fn) {
		for _, ifi := range ifsIn(f) {
			if s, ok := nilEdge(ifi, func(v ssa.Value) bool { return lp.isReplayLoad(v) }); ok {
				blocked[cfgEdge{ifi.Block(), s}] = true
			}
		}
	}
	skip := reachesAvoiding(atEdge(e.From, e.Idx), lp.rng, func(in ssa.Instruction) bool { return in == ssa.Instruction(lp.tryPut) }, blocked)
	c.check(!skip, name, P.ipos(lp.tryPut), "with a replayer configured, Put is called on every path before the fan-out",
		"a path reaches the fan-out without Put although a replayer is configured: a subscriber resuming later misses this event, or live and replayed copies differ")
}

func (lp *loopParts) isReplayLoad(v ssa.Value) bool {
	a, ok := loadedFrom(v)
	if !ok || lp.replayCell != nil == false {
		return false
	}
	if sameCell(a, lp.replayCell) {
		return true
	}
	// through a pointer copy (`p := &replay; *p`), e.g. the parameter binding of an inlined helper
	src := sources(a)
	for _, sv := range src {
		if !sameCell(sv, lp.replayCell) {
			return false
		}
	}
	return len(src) > 0
}

// sameCell: two address values denote the same variable: the same local cell (through captures), or the
// same field of the same receiver (`&j.replayer` is a fresh FieldAddr at every use).
func sameCell(a, b ssa.Value) bool {
	if a == nil || b == nil {
		return false
	}
	if cellRoot(a) == cellRoot(b) {
		return true
	}
	fa, okA := cellRoot(a).(*ssa.FieldAddr)
	fb, okB := cellRoot(b).(*ssa.FieldAddr)
	if !okA || !okB || fa.Field != fb.Field || fa.X.Type() != fb.X.Type() {
		return false
	}
	if fa.X == fb.X {
		return true
	}
	// both bases are the method's receiver (possibly through a spill cell)
	pa, okPA := stripPhi(fa.X).(*ssa.Parameter)
	pb, okPB := stripPhi(fb.X).(*ssa.Parameter)
	if okPA && okPB && pa == pb {
		return true
	}
	return carriesOnly(fa.X, fb.X) || carriesOnly(fb.X, fa.X)
}

func r04_2(c *Ctx) {
	P := c.P
	lp := findLoop(P)
	if lp.fn == nil || lp.tryPut == nil || len(lp.sends) != 1 {
		c.anchor("tryPut call / single fan-out Send")
		return
	}
	fn := lp.fn
	msg := lp.jp.recv("message")
	send := lp.sends[0]
	isPutM := extractOfCallPred(lp.tryPut, 0)
	putErr := extractOfCallPred(lp.tryPut, 1)
	isPublished := func(v ssa.Value) bool {
		base, ok := isFieldLoad(v, "~", "type:*Message")
		return ok && cellHoldsOnly(rootAddr(base), msg)
	}
	// Send's argument carries only the published message or Put's returned message
	arg := send.Common().Args[0]
	argSrc := sources(arg)
	argOK := len(argSrc) > 0
	viaPut := false
	for _, sv := range argSrc {
		switch {
		case isPublished(sv):
		case isPutM(sv):
			viaPut = true
		default:
			argOK = false
		}
	}
	c.check(argOK, fnLabel(fn)+":send-arg", P.ipos(send), "Send receives the published message (or Put's returned copy of it)", "Send's argument is not loaded from the cell that holds the published message (a copy captured before Put would carry no ID)")
	name := fnLabel(fn) + ":store-put-result"
	// edges on which Put did not succeed with a message
	region := regionFuncs(fn)
	blocked := map[cfgEdge]bool{}
	for _, f := range region {
		for _, ifi := range ifsIn(f) {
			for e := 0; e < 2; e++ {
				if edgeEstablishes(ifi, e, factNil(isPutM, true)) || edgeEstablishes(ifi, e, factNil(putErr, false)) {
					blocked[cfgEdge{ifi.Block(), e}] = true
				}
			}
		}
	}
	// form A: Put's result is stored into the message field of the received cell
	var st *ssa.Store
	eachInstrDeep(fn, func(in ssa.Instruction) {
		s, ok := in.(*ssa.Store)
		if !ok {
			return
		}
		if b, ok := isFieldSel(s.Addr, "~", "type:*Message"); ok && cellHoldsOnly(rootAddr(b), msg) {
			if isPutM(s.Val) {
				st = s
			}
		}
	})
	target := ssa.Instruction(lp.rng)
	if lp.rng == nil {
		target = send
	}
	if st != nil {
		skip := reachesAvoiding(afterInstr(lp.tryPut), target, func(in ssa.Instruction) bool { return in == ssa.Instruction(st) }, blocked)
		c.check(!skip, name, P.ipos(st), "when Put succeeds with a non-nil message, that message replaces the one that is fanned out",
			"a path with a successful Put (err == nil, m != nil) reaches the fan-out without storing m: the event is delivered live without the ID under which it was buffered")
		c.check(guardedByNil(fn, st.Block(), isPutM, false), fnLabel(fn)+":store-guard", P.ipos(st),
			"the replacement happens only for a non-nil message", "Put's result replaces the message without a nil check: a replayer returning (nil, nil) makes Joe send nil")
		return
	}
	// form B: the message to deliver is a local that merges the published message with Put's result
	// (a phi, possibly inside an inlined helper whose result is what is sent)
	var merge *ssa.Phi
	for _, f := range region {
		eachInstr(f, func(in ssa.Instruction) {
			phi, ok := in.(*ssa.Phi)
			if !ok {
				return
			}
			has := false
			for _, e := range phi.Edges {
				for _, sv := range sources(e) {
					if isPutM(sv) {
						has = true
					}
				}
			}
			if has && viaPut {
				merge = phi
			}
		})
	}
	if merge == nil {
		c.bad(name, P.ipos(lp.tryPut), "Put's returned message (the copy that carries the automatic ID) is never stored into the message that is fanned out: live delivery and replay carry different IDs")
		return
	}
	okMerge, guardOK := true, true
	for i, e := range merge.Edges {
		pred := merge.Block().Preds[i]
		fromPut := false
		for _, sv := range sources(e) {
			if isPutM(sv) {
				fromPut = true
			}
		}
		if fromPut {
			if !predEstablishes(pred, merge.Block(), factNil(isPutM, false), merge.Parent()) {
				guardOK = false
			}
			continue
		}
		// the published message is kept: not on a path on which Put succeeded with a message
		if lp.tryPut.Parent() == merge.Parent() && len(pred.Instrs) > 0 {
			last := pred.Instrs[len(pred.Instrs)-1]
			if reachesAvoiding(afterInstr(lp.tryPut), last, nil, blocked) && instrDominates(lp.tryPut, last) {
				// reachable after a Put without passing a "Put failed / returned nil" edge
				edgeBlocked := false
				if _, isIf := last.(*ssa.If); isIf {
					for si, sb := range pred.Succs {
						if sb == merge.Block() && blocked[cfgEdge{pred, si}] {
							edgeBlocked = true
						}
					}
				}
				if !edgeBlocked {
					okMerge = false
				}
			}
		}
	}
	c.check(okMerge, name, P.ipos(merge), "when Put succeeds with a non-nil message, that message is the one that is fanned out (merged local)",
		"a path with a successful Put (err == nil, m != nil) reaches the fan-out with the published message instead of Put's: the event is delivered live without the ID under which it was buffered")
	c.check(guardOK, fnLabel(fn)+":store-guard", P.ipos(merge), "the replacement happens only for a non-nil message", "Put's result replaces the message without a nil check: a replayer returning (nil, nil) makes Joe send nil")
}

func r04_3(c *Ctx) {
	P := c.P
	lp := findLoop(P)
	if lp.fn == nil {
		c.anchor("Joe loop")
		return
	}
	fn := lp.fn
	e, ok := lp.jp.armEdge("subscription")
	sub := lp.jp.recv("subscription")
	if !ok || sub == nil {
		c.anchor("subscription arm")
		return
	}
	var insert *ssa.MapUpdate
	for _, mu := range lp.inserts {
		if lp.jp.inArm("subscription", mu.Block()) {
			insert = mu
		}
	}
	name := fnLabel(fn) + ":subscription-arm"
	if insert == nil || len(lp.inserts) != 1 {
		c.bad(name+":insert", P.ipos(lp.jp.sel), "expected exactly one insert into Joe.subscribers, in the subscription arm (found "+itoa(len(lp.inserts))+")")
		return
	}
	// inserted key/value are the received subscription's done / Subscription
	kOK, vOK := false, false
	if b, ok := isFieldLoad(insert.Key, "~", "type:subscriber"); ok && cellHoldsOnly(rootAddr(b), sub) {
		kOK = true
	}
	if b, ok := isFieldLoad(insert.Value, "~", "type:Subscription"); ok && cellHoldsOnly(rootAddr(b), sub) {
		vOK = true
	}
	c.check(kOK && vOK, name+":insert", P.ipos(insert), "the received subscription is registered under its own done channel", "the map insert does not register the received subscription under its own done channel")
	if lp.tryReplay == nil {
		c.bad(name+":replay", P.ipos(lp.jp.sel), "the subscription arm never calls Replayer.Replay")
		return
	}
	// Replay gets this subscription
	rOK := false
	for _, a := range lp.tryReplay.Call.Args {
		if b, ok := isFieldLoad(a, "~", "type:Subscription"); ok && cellHoldsOnly(rootAddr(b), sub) {
			rOK = true
		}
	}
	c.check(rOK && lp.jp.inArm("subscription", lp.tryReplay.Block()), name+":replay", P.ipos(lp.tryReplay), "Replay is called with the received subscription in the subscription arm", "Replay is not called with the received subscription")
	// no channel operation between replay and insert
	var offender ssa.Instruction
	forward([]startPoint{afterInstr(lp.tryReplay)}, func(in ssa.Instruction) searchAction {
		if in == ssa.Instruction(insert) {
			return stopPath
		}
		switch x := in.(type) {
		case *ssa.Select, *ssa.Return:
			return stopPath
		case *ssa.Go:
			offender = in
		case *ssa.UnOp:
			if x.Op == token.ARROW {
				offender = in
			}
		case *ssa.Send:
			if !isSubscriberType(x.Chan.Type()) {
				offender = in
			}
		}
		return cont
	})
	c.check(offender == nil, name+":atomic", P.ipos(insert), "no receive, foreign send or goroutine between Replay and the registration", "a channel operation lies between Replay and the registration: a publish can fall between them and be lost or duplicated")
	// error value: the phi/err of this arm
	errVals := func(v ssa.Value) bool {
		for _, s := range sources(v) {
			if s == ssa.Value(lp.tryReplay) {
				return true
			}
		}
		return false
	}
	isPanicOK := func(v ssa.Value) bool {
		e, ok := v.(*ssa.Extract)
		if !ok || e.Index != 1 {
			return false
		}
		ta, ok := e.Tuple.(*ssa.TypeAssert)
		return ok && ta.CommaOk && typeIs(ta.AssertedType, "sse", "replayPanic") && errVals(ta.X)
	}
	// (1) insert reached on every path with err == nil or panic marker
	blocked := map[cfgEdge]bool{}
	for _, ifi := range ifsIn(fn) {
		if s, ok := nilEdge(ifi, errVals); ok {
			_ = s
		}
	}
	// genuine-error edge set: err != nil && !isPanic. Find the If on isPanic reached only via err != nil.
	genuine := edgesWhereAll(fn, factNil(errVals, false), factBool(isPanicOK, false))
	if len(genuine) == 0 {
		c.undecided(name+":error-split", P.ipos(lp.tryReplay), "could not locate the `err != nil && !isPanic` split after Replay")
		return
	}
	// a later branch on a flag that records the outcome (`accepted := true; … accepted = false … if accepted`)
	// establishes the same facts again: only the first edge on each path is where the error is handled
	{
		var first []cfgEdge
		for _, g := range genuine {
			dominated := false
			for _, h := range genuine {
				if h == g {
					continue
				}
				// g lies after h on a path within this trip round the loop (stop at the next select), and not the
				// other way round
				hasSelect := func(x *ssa.BasicBlock) bool {
					for _, in := range x.Instrs {
						if _, isSel := in.(*ssa.Select); isSel {
							return true
						}
					}
					return false
				}
				after := func(a, b cfgEdge) bool {
					start := a.From.Succs[a.Idx]
					if hasSelect(start) {
						return false
					}
					return reach([]*ssa.BasicBlock{start}, nil, hasSelect)[b.From]
				}
				if after(h, g) && !after(g, h) {
					dominated = true
				}
			}
			if !dominated {
				first = append(first, g)
			}
		}
		if len(first) > 0 {
			genuine = first
		}
	}
	for _, g := range genuine {
		blocked[g] = true
	}
	skip := false
	{
		// from after tryReplay (and from the replay==nil bypass) every non-genuine-error path reaches insert before the next select
		var off ssa.Instruction
		forwardEx([]startPoint{atEdge(e.From, e.Idx)}, func(in ssa.Instruction) searchAction {
			if in == ssa.Instruction(insert) {
				return stopPath
			}
			switch in.(type) {
			case *ssa.Select, *ssa.Return:
				if off == nil {
					off = in
				}
				return stopPath
			}
			return cont
		}, blocked)
		skip = off != nil
	}
	// the subscription is registered as it was received: Joe's code never writes a field of a Subscription
	// (topics defaulted, an ID cleared or rewritten, another client)
	{
		var w ssa.Instruction
		for _, f := range P.Funcs {
			if !isJoeCode(P, f) {
				continue
			}
			eachInstr(f, func(in ssa.Instruction) {
				if st, ok := in.(*ssa.Store); ok && w == nil {
					if o, _, _, ok := fieldSel(st.Addr); ok && o == "Subscription" {
						w = st
					}
				}
			})
		}
		pos := P.ipos(insert)
		if w != nil {
			pos = P.ipos(w)
		}
		c.check(w == nil, name+":subscription-unchanged", pos, "no store into a field of a Subscription in Joe's code", "Joe writes a field of the subscription it was given (e.g. defaults empty topics): the subscriber is registered with other topics, ID or client than it asked for")
	}
	c.check(!skip, name+":registers", P.ipos(insert), "every path without a genuine replay error registers the subscriber before the next select", "a path without a genuine replay error reaches the next select without registering the subscriber: it would never receive live events")
	// (2) on a genuine error: send error on its done, close it, no insert
	closers := subscriberClosers(P)
	isDoneOfSub := func(v ssa.Value) bool {
		b, ok := isFieldLoad(v, "~", "type:subscriber")
		return ok && cellHoldsOnly(rootAddr(b), sub)
	}
	for _, g := range genuine {
		sent, closed, inserted := false, false, false
		var off ssa.Instruction
		forward([]startPoint{atEdge(g.From, g.Idx)}, func(in ssa.Instruction) searchAction {
			switch x := in.(type) {
			case *ssa.Send:
				if isDoneOfSub(x.Chan) && errVals(x.X) {
					sent = true
				}
			case *ssa.MapUpdate:
				if isJoeField(x.Map, "subscribers") {
					inserted = true
				}
			case *ssa.Select, *ssa.Return:
				if !closed && off == nil {
					off = in
				}
				return stopPath
			}
			if closesValue(in, closers, isDoneOfSub) {
				closed = true
				return stopPath
			}
			return cont
		})
		c.check(sent && closed && !inserted && off == nil, name+":replay-error", P.pos(g.From.Instrs[len(g.From.Instrs)-1].Pos()),
			"a genuine replay error is sent to the subscriber, its channel closed, and it is not registered",
			"on a genuine replay error the subscriber is not (error sent, channel closed, not registered): Subscribe would not return the replay error or the subscriber would stay registered")
	}
}

// ---------------------------------------------------------------------------
// C07

func r07_1(c *Ctx) {
	P := c.P
	for _, nm := range []string{"(*Joe).Subscribe", "(*Joe).Publish", "(*Joe).Shutdown"} {
		fn := P.Fn(nm)
		if fn == nil {
			c.anchor(nm)
			continue
		}
		var ownChans []ssa.Value
		eachInstrDeep(fn, func(in ssa.Instruction) {
			if m, ok := in.(*ssa.MakeChan); ok {
				ownChans = append(ownChans, m)
			}
		})
		isEscape := func(ch ssa.Value) bool {
			if isJoeField(ch, "done") || isJoeField(ch, "closed") {
				return true
			}
			if call, ok := ch.(*ssa.Call); ok && call.Call.IsInvoke() && call.Call.Method.Name() == "Done" {
				return true
			}
			for _, o := range ownChans {
				if stripConv(ch) == o || carriesOnly(stripConv(ch), o) {
					return true
				}
			}
			return false
		}
		n := 0
		eachInstrDeep(fn, func(in ssa.Instruction) {
			switch x := in.(type) {
			case *ssa.Select:
				n++
				name := fnLabel(fn) + ":select#" + itoa(n)
				if !x.Blocking {
					c.ok(name, P.ipos(x), "non-blocking select")
					return
				}
				has := false
				for _, st := range x.States {
					if st.Dir == types.RecvOnly && isEscape(st.Chan) {
						has = true
					}
				}
				c.check(has, name, P.ipos(x), "blocking select has a receive from a channel closed on shutdown / its own done / ctx.Done()",
					"blocking select without a receive from j.done, j.closed, the call's own channel or ctx.Done(): the call blocks forever once Joe is shut down")
			case *ssa.UnOp:
				if x.Op != token.ARROW {
					return
				}
				n++
				name := fnLabel(fn) + ":recv#" + itoa(n)
				// plain receive: only from the call's own reply channel (always closed by the loop: R07.3)
				own := false
				for _, o := range ownChans {
					if stripConv(x.X) == o || carriesOnly(stripConv(x.X), o) || replyThroughResult(x.X, o) {
						own = true
					}
				}
				c.check(own, name, P.ipos(x), "plain receive on the call's own reply channel (always closed by the loop, R07.3)", "plain blocking receive on a channel that shutdown does not close")
			case *ssa.Send:
				n++
				c.bad(fnLabel(fn)+":send#"+itoa(n), P.ipos(x), "plain blocking send outside a select: it blocks forever once the loop has exited")
			}
		})
	}
}

func r07_2(c *Ctx) {
	P := c.P
	jp := findJoe(P)
	if jp.loop == nil || jp.sel == nil {
		c.anchor("Joe loop")
		return
	}
	fn := jp.loop
	closers := subscriberClosers(P)
	var closedDefer, subsDefer *ssa.Defer
	eachInstrDeep(fn, func(in ssa.Instruction) {
		d, ok := in.(*ssa.Defer)
		if !ok {
			return
		}
		if b, ok := d.Call.Value.(*ssa.Builtin); ok && b.Name() == "close" && isJoeField(d.Call.Args[0], "closed") {
			closedDefer = d
		}
		if callee := d.Call.StaticCallee(); callee != nil && closesAllSubscribers(callee, closers) {
			subsDefer = d
		}
	})
	dominatesLoop := func(d *ssa.Defer) bool {
		return d != nil && instrDominates(d, jp.sel) && len(loopsContaining(fn, d.Block())) == 0
	}
	c.check(dominatesLoop(closedDefer), fnLabel(fn)+":defer-close-closed", P.pos(fn.Pos()), "close(j.closed) is deferred before the loop (runs on return and on panic)",
		"the loop does not defer close(j.closed) before entering its loop: Shutdown waits forever (or until its context ends) after the loop exits or panics")
	c.check(dominatesLoop(subsDefer), fnLabel(fn)+":defer-close-subscribers", P.pos(fn.Pos()), "a function closing every registered subscriber is deferred before the loop",
		"the loop does not defer the release of all registered subscribers before entering its loop: pending Subscribe calls never return after shutdown or a panic")
	// order: subscribers are released before closed is closed (defers run LIFO) so that Shutdown returns only when all are released
	if closedDefer != nil && subsDefer != nil {
		c.check(instrDominates(closedDefer, subsDefer), fnLabel(fn)+":defer-order", P.ipos(subsDefer), "defers run LIFO: subscribers are released before j.closed is closed",
			"j.closed is closed before the subscribers are released: Shutdown returns nil while subscribers are still registered")
	}
}

// closesAllSubscribers: f ranges over Joe.subscribers and closes every key.
func closesAllSubscribers(f *ssa.Function, closers map[*ssa.Function]int) bool {
	if f.Blocks == nil {
		return false
	}
	ok := false
	eachInstrDeep(f, func(in ssa.Instruction) {
		if closesValue(in, closers, func(v ssa.Value) bool { _, k := rangeKeyOverJoeMap(v, "subscribers"); return k }) {
			ok = true
		}
	})
	// no early exit from the range other than exhaustion: the only return is the one after the range
	// (a return under `len(j.subscribers) == 0` releases nothing because there is nothing to release)
	isLenSubs := isLenCallOf(func(v ssa.Value) bool { return isJoeField(v, "subscribers") })
	n := 0
	for _, r := range returnsOf(f) {
		if intGuard(f, r.Block(), isLenSubs, 0, 0, 0) {
			continue
		}
		n++
	}
	return ok && n == 1
}

func r07_3(c *Ctx) {
	P := c.P
	lp := findLoop(P)
	if lp.fn == nil || lp.rng == nil {
		c.anchor("Joe loop / fan-out")
		return
	}
	fn := lp.fn
	e, _ := lp.jp.armEdge("message")
	name := fnLabel(fn) + ":reply-closed"
	if lp.replyClose == nil {
		c.bad(name, P.ipos(lp.rng), "the message arm never closes the reply channel: every Publish blocks forever on its reply")
		return
	}
	// every path from the arm to the fan-out (or to a user call other than tryPut) passes the close
	isClose := func(in ssa.Instruction) bool { return in == ssa.Instruction(lp.replyClose) }
	var off ssa.Instruction
	forward([]startPoint{atEdge(e.From, e.Idx)}, func(in ssa.Instruction) searchAction {
		if isClose(in) {
			return stopPath
		}
		switch x := in.(type) {
		case *ssa.Range, *ssa.Select, *ssa.Return, *ssa.Next:
			if off == nil {
				off = in
			}
			return stopPath
		case *ssa.Call:
			if x.Call.IsInvoke() && off == nil {
				off = in
				return stopPath
			}
		}
		return cont
	})
	c.check(off == nil, name, P.ipos(lp.replyClose), "the reply channel is closed on every path of the message arm before the fan-out and before any user call",
		"a path of the message arm reaches "+offenderText(P, off)+" without closing the reply channel: Publish stays blocked behind slow subscribers or forever")
	// the reply cell is this message's
	// at most one send before the close, none after
	nBefore := 0
	for _, s := range lp.replySends {
		if reachesAvoiding(afterInstr(s), lp.replyClose, nil, nil) {
			nBefore++
		}
		if reachesAvoiding(afterInstr(lp.replyClose), s, func(in ssa.Instruction) bool { _, ok := in.(*ssa.Select); return ok }, nil) {
			c.bad(fnLabel(fn)+":reply-send-after-close", P.ipos(s), "a send on the reply channel is reachable after its close: send on closed channel panics the loop")
		}
		// two sends on one path?
		for _, s2 := range lp.replySends {
			if s2 != s && reachesAvoiding(afterInstr(s), s2, func(in ssa.Instruction) bool { _, ok := in.(*ssa.Select); return ok }, nil) {
				c.bad(fnLabel(fn)+":reply-two-sends", P.ipos(s2), "two sends on the capacity-1 reply channel on one path: the second blocks the loop")
			}
		}
	}
	c.ok(fnLabel(fn)+":reply-sends", P.ipos(lp.replyClose), itoa(nBefore)+" send site(s) precede the close; none follows it")
}

func r07_4(c *Ctx) {
	P := c.P
	fn := P.Fn("(*Joe).Shutdown")
	if fn == nil {
		c.anchor("(*Joe).Shutdown")
		return
	}
	n := 0
	eachInstrDeep(fn, func(in ssa.Instruction) {
		cl, ok := isBuiltin(in, "close")
		if !ok || !isJoeField(cl.Common().Args[0], "done") {
			return
		}
		if _, isDefer := in.(*ssa.Defer); isDefer {
			return
		}
		n++
		name := fnLabel(fn) + ":close(j.done)"
		// dominated by a defer of a closure that recovers and assigns ErrProviderClosed to the result
		good := false
		nestedDefer := false
		eachInstrDeep(fn, func(d ssa.Instruction) {
			df, ok := d.(*ssa.Defer)
			if !ok || !instrDominates(df, in) {
				return
			}
			if df.Parent() != fn {
				// a recover scoped to a nested literal ends the panic there: Shutdown then carries on into its wait
				// and returns whatever that yields (its context's error) instead of ErrProviderClosed
				nestedDefer = true
				return
			}
			var f *ssa.Function
			switch v := df.Call.Value.(type) {
			case *ssa.MakeClosure:
				f, _ = v.Fn.(*ssa.Function)
			case *ssa.Function:
				f = v
			}
			if f == nil {
				return
			}
			var rec ssa.Value
			eachInstrDeep(f, func(x ssa.Instruction) {
				if b, ok := isBuiltin(x, "recover"); ok {
					rec = b.Value()
				}
			})
			if rec == nil {
				return
			}
			// store of ErrProviderClosed into the captured result under recover() != nil
			eachInstrDeep(f, func(x ssa.Instruction) {
				st, ok := x.(*ssa.Store)
				if !ok || !isGlobalLoad(st.Val, "ErrProviderClosed") {
					return
				}
				if _, isFV := st.Addr.(*ssa.FreeVar); !isFV {
					return
				}
				if guardedByNil(f, st.Block(), func(v ssa.Value) bool { return v == rec }, false) {
					good = true
				}
			})
		})
		if !good {
			// alternative idiom: close inside sync.Once.Do
			if par := fn; par != nil {
				_ = par
			}
		}
		_ = nestedDefer
		c.check(good, name, P.ipos(in), "close(j.done) is covered by a recover deferred by Shutdown itself that reports ErrProviderClosed",
			"close(j.done) is not covered by a deferred recover()/ErrProviderClosed: a second or concurrent Shutdown panics with close of closed channel")
	})
	if n == 0 {
		c.bad(fnLabel(fn)+":close(j.done)", P.pos(fn.Pos()), "Shutdown never closes j.done: the loop is never told to stop")
	}
	// every return of Shutdown is preceded by the close: a Shutdown that returns has told the loop to stop
	{
		skip := false
		var at ssa.Instruction
		for _, ret := range returnsOf(fn) {
			if reachesAvoiding(entryPoint(fn), ret, func(in ssa.Instruction) bool {
				cl, ok := isBuiltin(in, "close")
				if !ok {
					return false
				}
				if _, isDefer := in.(*ssa.Defer); isDefer {
					return false
				}
				return isJoeField(cl.Common().Args[0], "done")
			}, nil) {
				skip = true
				at = ret
			}
		}
		c.check(!skip, fnLabel(fn)+":always-signals", posOfInstr(P, at, fn), "every path of Shutdown closes j.done before returning", "a path of Shutdown returns without closing j.done (e.g. when its context is already done): the loop is never told to stop, pending Subscribe calls never return and a later Shutdown reports success")
	}
	// Shutdown's wait: select on j.closed and ctx.Done(); returns ctx.Err() on the latter
	var sel *ssa.Select
	eachInstrDeep(fn, func(in ssa.Instruction) {
		if s, ok := in.(*ssa.Select); ok {
			sel = s
		}
	})
	if sel != nil {
		hasClosed := false
		for _, st := range sel.States {
			if st.Dir == types.RecvOnly && isJoeField(st.Chan, "closed") {
				hasClosed = true
			}
		}
		c.check(hasClosed, fnLabel(fn)+":waits-for-closed", P.ipos(sel), "Shutdown waits for j.closed (all subscribers released) or its context", "Shutdown does not wait for j.closed")
	} else {
		c.bad(fnLabel(fn)+":waits-for-closed", P.pos(fn.Pos()), "Shutdown does not wait for the loop to exit")
	}
}

func r07_5(c *Ctx) {
	P := c.P
	// the initialiser touches Joe's state only inside the Once callback (a fast path that reads a field first is
	// an unsynchronised read of a half-initialised Joe)
	for _, fn := range P.Funcs {
		if fn.Parent() != nil || fn.Signature.Recv() == nil || !typeIs(fn.Signature.Recv().Type(), "sse", "Joe") || !callsOnceDo(fn) || fn.Synthetic != "" {
			continue
		}
		var early ssa.Instruction
		eachInstr(fn, func(in ssa.Instruction) {
			v, ok := in.(ssa.Value)
			if !ok || early != nil {
				return
			}
			if o, n, _, ok := fieldOfLoad(v); ok && o == "Joe" && n != "initDone" {
				early = in
			}
		})
		pos := P.pos(fn.Pos())
		if early != nil {
			pos = P.ipos(early)
		}
		c.check(early == nil, fnLabel(fn)+":only-once-do", pos, "the initialiser reads no field of Joe outside the sync.Once callback", "the initialiser reads a field of Joe before (outside) the sync.Once: a concurrent first caller can see a half-initialised Joe and then block for ever on a nil channel, or Shutdown recovers close(nil) and reports ErrProviderClosed although nothing was shut down")
	}
	// Joe's request channels are never closed (a Subscribe or Publish parked on a send would panic); only the two
	// signal channels done and closed are
	for _, fn := range P.Funcs {
		if !isJoeCode(P, fn) {
			continue
		}
		eachInstr(fn, func(in ssa.Instruction) {
			cl, ok := isBuiltin(in, "close")
			if !ok {
				return
			}
			a := cl.Common().Args[0]
			for _, f := range []string{"message", "subscription", "unsubscription"} {
				if isJoeField(a, f) {
					c.bad(fnLabel(fn)+":close(j."+f+")", P.ipos(in), "Joe's request channel "+f+" is closed: a caller parked on a send to it (Subscribe's unsubscription hand-off, Publish) panics with send on closed channel")
				}
			}
		})
	}
	for _, fn := range P.Funcs {
		if fn.Parent() != nil || fn.Signature.Recv() == nil || !typeIs(fn.Signature.Recv().Type(), "sse", "Joe") {
			continue
		}
		if fn.Object() == nil || !fn.Object().Exported() || fn.Synthetic != "" {
			continue
		}
		var initCall ssa.Instruction
		eachInstr(fn, func(in ssa.Instruction) {
			if call, ok := in.(*ssa.Call); ok {
				if callee := call.Call.StaticCallee(); callee != nil && callsOnceDo(callee) && initCall == nil {
					initCall = in
				}
			}
		})
		name := fnLabel(fn) + ":init-first"
		bad := false
		eachInstr(fn, func(in ssa.Instruction) {
			v, ok := in.(ssa.Value)
			if !ok {
				return
			}
			o, n, _, ok := fieldOfLoad(v)
			if !ok || o != "Joe" {
				return
			}
			if _, isChan := v.Type().Underlying().(*types.Chan); !isChan {
				return
			}
			if initCall == nil || !instrDominates(initCall, in) {
				bad = true
				c.bad(name, P.ipos(in), "channel field Joe."+n+" is loaded before init() ran: on a fresh Joe it is nil and the operation blocks forever")
			}
		})
		if !bad {
			c.ok(name, P.pos(fn.Pos()), "init() dominates every load of a channel field")
		}
	}
}

func callsOnceDo(f *ssa.Function) bool {
	r := false
	if f.Blocks == nil {
		return false
	}
	eachInstrDeep(f, func(in ssa.Instruction) {
		if _, ok := isStaticCall(in, "(*sync.Once).Do"); ok {
			r = true
		}
	})
	return r
}

func r07_6(c *Ctx) {
	P := c.P
	jp := findJoe(P)
	if jp.loop == nil || jp.sel == nil {
		c.anchor("Joe loop")
		return
	}
	reach := P.reachNoGo(jp.loop)
	n := 0
	for _, fn := range P.Funcs {
		if !reach[fn] || !isJoeCode(P, fn) {
			continue
		}
		eachInstr(fn, func(in ssa.Instruction) {
			bad := ""
			switch x := in.(type) {
			case *ssa.Select:
				if x != jp.sel && x.Blocking {
					bad = "a second blocking select"
				}
				if x != jp.sel && !x.Blocking {
					// a poll of one of Joe's own request channels in the middle of handling another request:
					// requests are served one at a time, in the order the main select takes them
					for _, st := range x.States {
						if st.Dir == types.RecvOnly {
							if _, ok := isFieldLoad(st.Chan, "Joe", "~"); ok || isJoeChanLoad(st.Chan) {
								n++
								c.bad(fnLabel(fn)+":request-taken-mid-handling", P.ipos(in), "the loop goroutine receives from one of Joe's request channels outside its main select: an unsubscription (subscription, message, shutdown) is acted on in the middle of a delivery, so a subscriber can lose a message that was published before it asked to leave")
							}
						}
					}
				}
			case *ssa.UnOp:
				if x.Op == token.ARROW {
					bad = "a blocking receive"
				}
			case *ssa.Send:
				// allowed: sends on subscriber channels (R06.2) and on the reply channel (R07.3), both buffered (R03.2)
				if !isSubscriberType(x.Chan.Type()) {
					if _, ok := isFieldLoad(x.Chan, "~", "type:chan<- error"); !ok {
						bad = "a send on a channel that is neither a subscriber's nor the reply channel"
					}
				}
			case *ssa.Call:
				switch calleeName(x) {
				case "time.Sleep", "(*sync.Mutex).Lock", "(*sync.RWMutex).Lock", "(*sync.RWMutex).RLock", "(*sync.WaitGroup).Wait", "(*sync.Cond).Wait":
					bad = "a call to " + calleeName(x)
				}
			}
			if bad != "" {
				n++
				c.bad(fnLabel(fn)+":blocking-op", P.ipos(in), "the loop goroutine contains "+bad+": while it blocks there no Publish/Subscribe/Shutdown is served")
			}
		})
	}
	if n == 0 {
		c.ok(fnLabel(jp.loop)+":non-blocking", P.pos(jp.loop.Pos()), "the loop's only blocking operations are its main select, buffered sends and user-interface calls")
	}
}

// ---------------------------------------------------------------------------
// C17

func r17_1(c *Ctx) {
	P := c.P
	lp := findLoop(P)
	if lp.fn == nil || lp.next == nil || len(lp.sends) != 1 {
		c.anchor("fan-out Send")
		return
	}
	fn := lp.fn
	send := lp.sends[0]
	closers := subscriberClosers(P)
	// error values: Send's result and Flush's result (and phis of them)
	isErrVal := func(v ssa.Value) bool {
		for _, s := range sources(v) {
			ok := s == send.Value()
			for _, fl := range lp.flushes {
				if s == fl.Value() {
					ok = true
				}
			}
			if !ok {
				return false
			}
		}
		return true
	}
	isKey := func(v ssa.Value) bool {
		nx, ok := rangeKeyOverJoeMap(v, "subscribers")
		return ok && nx == lp.next
	}
	n := 0
	for _, ifi := range ifsIn(fn) {
		s, ok := nilEdge(ifi, func(v ssa.Value) bool {
			switch v.(type) {
			case *ssa.Phi, *ssa.Call, *ssa.UnOp:
				// the tested value must carry the Flush result on some path (i.e. it is the final error of the
				// Send-then-Flush sequence), not just Send's result
				if !isErrVal(v) {
					return false
				}
				for _, src := range sources(v) {
					for _, fl := range lp.flushes {
						if src == fl.Value() {
							return true
						}
					}
				}
			}
			return false
		})
		if !ok {
			// also accept a direct test of Flush's result
			s, ok = nilEdge(ifi, func(v ssa.Value) bool {
				for _, fl := range lp.flushes {
					if v == fl.Value() {
						return true
					}
				}
				return false
			})
			if !ok {
				continue
			}
		}
		n++
		errEdge := cfgEdge{ifi.Block(), 1 - s}
		name := fnLabel(fn) + ":fan-out-error-edge#" + itoa(n)
		sent, removed := false, false
		var off ssa.Instruction
		forward([]startPoint{atEdge(errEdge.From, errEdge.Idx)}, func(in ssa.Instruction) searchAction {
			switch x := in.(type) {
			case *ssa.Send:
				if isKey(x.Chan) && isErrVal(x.X) {
					sent = true
				}
			case *ssa.Next:
				return stopPath
			case *ssa.Return, *ssa.Panic, *ssa.Select:
				if off == nil {
					off = in
				}
				return stopPath
			}
			if closesValue(in, closers, isKey) {
				removed = true
			}
			return cont
		})
		// every path from the error edge passes the send and the removal before the Next
		missSend := reachesAvoiding(atEdge(errEdge.From, errEdge.Idx), lp.next, func(in ssa.Instruction) bool {
			x, ok := in.(*ssa.Send)
			return ok && isKey(x.Chan) && isErrVal(x.X)
		}, nil)
		missRemove := reachesAvoiding(atEdge(errEdge.From, errEdge.Idx), lp.next, func(in ssa.Instruction) bool { return closesValue(in, closers, isKey) }, nil)
		c.check(sent && removed && off == nil && !missSend && !missRemove, name, P.pos(ifi.Pos()),
			"a failing subscriber gets its own error, is itself removed, and the range continues",
			"on a Send/Flush error the loop does not (send the error to the failing subscriber's own channel, remove that same subscriber, continue with the next): "+
				"other subscribers miss the message or the wrong subscriber is removed"+map[bool]string{true: " (path leaves the range: " + offenderText(P, off) + ")", false: ""}[off != nil])
	}
	if n == 0 {
		c.bad(fnLabel(fn)+":fan-out-error-edge", P.ipos(send), "the result of Send/Flush is never tested: a failing subscriber is never removed and its error never reported")
	}
	// the error handed to the subscriber is the one that was found non-nil: on every path from the Send to
	// a send on the subscriber's channel, the value sent (as it resolves on that path) was tested non-nil
	if si, ok := send.(ssa.Instruction); ok {
		paths, okP := walkPaths(si.Block(), instrIndex(si)+1, 2048, nil, func(in ssa.Instruction) bool {
			x, ok := in.(*ssa.Send)
			return ok && isKey(x.Chan)
		}, func(e cfgEdge) bool { return e.From.Succs[e.Idx] == lp.next.Block() })
		bad := ""
		nSent := 0
		if okP {
			for _, p := range paths {
				x, ok := p.End.(*ssa.Send)
				if !ok {
					continue
				}
				nSent++
				v := p.St.resolve(x.X)
				if !pathEstablishes(p.St, factNil(func(y ssa.Value) bool { return y == v || p.St.resolve(y) == v }, false)) {
					bad = "a path sends a value to the failing subscriber that was not the error found non-nil on that path (e.g. Send's nil result after Flush failed): Subscribe returns nil for a subscriber that was removed because of an error"
				}
			}
		}
		if okP && nSent > 0 {
			c.check(bad == "", fnLabel(fn)+":fan-out-error-value", P.ipos(si), "the value sent to the failing subscriber is the error that was found non-nil on that path", bad)
		} else {
			c.ok(fnLabel(fn)+":fan-out-error-value", P.ipos(si), "not decided path-wise (the send on the subscriber's channel is not in the Send's function)")
		}
	}
	// Send's error must reach the test: Send's result flows into the tested value
	c.ok(fnLabel(fn)+":fan-out-error-sources", P.ipos(send), "error edge tests the Send/Flush result of the current subscriber")
}

func r17_2(c *Ctx) {
	P := c.P
	lp := findLoop(P)
	if lp.fn == nil || lp.tryPut == nil {
		c.anchor("tryPut call")
		return
	}
	fn := lp.fn
	putErr := extractOfCallPred(lp.tryPut, 1)
	// reply sends: value is Put's error, guarded by err != nil
	okSend := false
	for _, s := range lp.replySends {
		if putErr(s.X) && guardedByNil(fn, s.Block(), putErr, false) {
			okSend = true
		}
	}
	c.check(okSend, fnLabel(fn)+":put-error-forwarded", P.ipos(lp.tryPut), "Put's error is sent on the reply channel under err != nil", "Put's error is not forwarded to the publisher")
	// genuine error path: every path from err != nil && !isPanic passes the send
	isPanicOK := func(v ssa.Value) bool {
		e, ok := v.(*ssa.Extract)
		if !ok || e.Index != 1 {
			return false
		}
		ta, ok := e.Tuple.(*ssa.TypeAssert)
		return ok && ta.CommaOk && typeIs(ta.AssertedType, "sse", "replayPanic") && putErr(ta.X)
	}
	n := 0
	for _, g := range edgesWhereAll(fn, factNil(putErr, false), factBool(isPanicOK, false)) {
		ifi := g.From.Instrs[len(g.From.Instrs)-1].(*ssa.If)
		n++
		miss := false
		if lp.rng != nil {
			miss = reachesAvoiding(atEdge(g.From, g.Idx), lp.rng, func(in ssa.Instruction) bool {
				x, ok := in.(*ssa.Send)
				return ok && putErr(x.X)
			}, nil)
		}
		// the published message is left in place: no store into msg.message on this path
		stored := false
		forward([]startPoint{atEdge(g.From, g.Idx)}, func(in ssa.Instruction) searchAction {
			if in == ssa.Instruction(lp.rng) {
				return stopPath
			}
			if st, ok := in.(*ssa.Store); ok {
				if _, ok := isFieldSel(st.Addr, "~", "type:*Message"); ok {
					stored = true
				}
			}
			return cont
		})
		c.check(!miss && !stored, fnLabel(fn)+":put-error-path", P.pos(ifi.Pos()), "on a genuine Put error the error is sent to the publisher and the published message is left in place",
			"on a genuine Put error a path reaches the fan-out without reporting the error, or replaces the message")
	}
	if n == 0 {
		c.undecided(fnLabel(fn)+":put-error-path", P.ipos(lp.tryPut), "could not locate the `err != nil && !isPanic` split after Put")
	}
	// path-wise: whatever else is tested first (e.g. the returned message), every path from the Put call
	// to the fan-out that is consistent with (err != nil, not a panic) reports the error and keeps the message
	if lp.rng != nil && lp.tryPut.Parent() == fn {
		// the predicates also hold for a value that only carries Put's error (the parameter of an
		// inlined predicate helper)
		putErrD := func(v ssa.Value) bool {
			if putErr(v) {
				return true
			}
			src := sources(v)
			for _, s := range src {
				if !putErr(s) {
					return false
				}
			}
			return len(src) > 0
		}
		isPanicD := func(v ssa.Value) bool {
			e, ok := v.(*ssa.Extract)
			if !ok || e.Index != 1 {
				return false
			}
			ta, ok := e.Tuple.(*ssa.TypeAssert)
			return ok && ta.CommaOk && typeIs(ta.AssertedType, "sse", "replayPanic") && putErrD(ta.X)
		}
		assume := func(v ssa.Value) (bool, bool) {
			if isPanicD(v) {
				return false, true
			}
			if b, ok := v.(*ssa.BinOp); ok && (b.Op == token.NEQ || b.Op == token.EQL) {
				if (putErrD(b.X) && isNilConst(b.Y)) || (putErrD(b.Y) && isNilConst(b.X)) {
					return b.Op == token.NEQ, true
				}
			}
			return false, false
		}
		paths, okP := walkPaths(lp.tryPut.Block(), instrIndex(lp.tryPut)+1, 2048, assume, func(in ssa.Instruction) bool { return in == lp.rng }, nil)
		if okP && len(paths) > 0 {
			bad := ""
			for _, p := range paths {
				if p.End == nil {
					continue
				}
				sent, stored := false, false
				for _, in := range p.Instrs {
					if x, ok := in.(*ssa.Send); ok && putErr(x.X) {
						sent = true
					}
					if st, ok := in.(*ssa.Store); ok {
						if _, ok := isFieldSel(st.Addr, "~", "type:*Message"); ok {
							stored = true
						}
					}
				}
				if !sent {
					bad = "a path on which Put returned a genuine error reaches the fan-out without sending it to the publisher (e.g. the returned message is tested first): Publish returns nil although Put failed"
				} else if stored {
					bad = "a path on which Put returned a genuine error replaces the published message"
				}
			}
			c.check(bad == "", fnLabel(fn)+":put-error-all-paths", P.ipos(lp.tryPut), itoa(len(paths))+" paths consistent with a genuine Put error all report it and keep the published message", bad)
		} else {
			c.ok(fnLabel(fn)+":put-error-all-paths", P.ipos(lp.tryPut), "not decided path-wise (no enumerable path from Put to the fan-out in this function)")
		}
	}
}

func r17_3(c *Ctx) {
	var handlersSeen map[*ssa.Function]bool
	P := c.P
	lp := findLoop(P)
	if lp.fn == nil {
		c.anchor("Joe loop")
		return
	}
	// every function of sse that invokes Replayer.Put/Replay
	for _, fn := range P.Funcs {
		if !inSSEPackage(fn) {
			continue
		}
		var invokes []ssa.CallInstruction
		if handlersSeen == nil {
			handlersSeen = map[*ssa.Function]bool{}
		}
		eachInstr(fn, func(in ssa.Instruction) {
			for _, m := range []string{"Put", "Replay"} {
				if ci, ok := isInvoke(in, "sse", "Replayer", m); ok {
					invokes = append(invokes, ci)
				}
			}
		})
		for _, inv := range invokes {
			name := fnLabel(fn) + ":invoke(Replayer." + inv.Common().Method.Name() + ")"
			good := false
			var why string
			eachInstr(fn, func(d ssa.Instruction) {
				df, ok := d.(*ssa.Defer)
				if !ok || !instrDominates(df, inv) {
					return
				}
				h := df.Call.StaticCallee()
				if h == nil {
					if mc, ok := df.Call.Value.(*ssa.MakeClosure); ok {
						h, _ = mc.Fn.(*ssa.Function)
					}
				}
				if h == nil || h.Blocks == nil {
					return
				}
				if recoverDisables(h) {
					// the handler's replayer pointer is this function's replayer pointer parameter and the error pointer is its named result cell
					good = true
					for _, a := range df.Call.Args {
						pt, isPtr := a.Type().Underlying().(*types.Pointer)
						if !isPtr || !typeIs(pt.Elem(), "sse", "Replayer") {
							continue
						}
						src := sources(a)
						shared := len(src) > 0
						for _, sv := range src {
							if _, isParam := sv.(*ssa.Parameter); !isParam {
								shared = false
							}
						}
						if !shared {
							good = false
							why = "the deferred " + fnLabel(h) + " is handed a replayer variable of its own, not the one this call reads: the panicking replayer is never disabled"
						}
					}
					if !handlersSeen[h] {
						handlersSeen[h] = true
						at, what := handlerMayPanic(h)
						pos := P.pos(h.Pos())
						if at != nil {
							pos = P.ipos(at)
						}
						if fm := recoverForeignMarker(h); fm != nil {
							c.bad(fnLabel(h)+":marker-only", P.ipos(fm), "the recover handler stores an error other than the panic marker itself: the loop recognises a replayer panic by the marker's type, so this panic is reported to Publish/Subscribe as an ordinary replayer error instead of being absorbed")
						} else {
							c.ok(fnLabel(h)+":marker-only", P.pos(h.Pos()), "the handler stores only the panic marker through its error pointer")
						}
						c.check(at == nil, fnLabel(h)+":handler-cannot-panic", pos, "the recover handler contains no operation that can panic on some recovered value",
							"the recover handler itself can panic ("+what+"): a replayer panicking with such a value takes Joe's goroutine - and the process - down")
					}
				} else {
					why = "deferred " + fnLabel(h) + " does not (recover, set the replayer variable to nil, store the panic marker)"
				}
			})
			// the invoked value is loaded from the *Replayer parameter that the handler nils
			recvOK := false
			if a, ok := loadedFrom(inv.Common().Value); ok {
				cands := []ssa.Value{a}
				if _, isP := a.(*ssa.Parameter); !isP {
					cands = sources(a) // the parameter may be spilled because a deferred literal captures it
				}
				recvOK = len(cands) > 0
				for _, cv := range cands {
					p, ok := cv.(*ssa.Parameter)
					if !ok {
						recvOK = false
						break
					}
					if pt, ok := p.Type().Underlying().(*types.Pointer); !ok || !typeIs(pt.Elem(), "sse", "Replayer") {
						recvOK = false
					}
				}
			}
			if !good && why == "" {
				why = "no deferred recover handler dominates the call"
			}
			c.check(good && recvOK, name, P.ipos(inv), "the call runs under a deferred handler that recovers, disables the shared replayer and marks the error as a panic",
				"a Replayer call is not protected ("+why+"): a panicking replayer kills Joe's goroutine or keeps being used")
		}
	}
	// uses in the loop are guarded by a fresh != nil test
	for _, call := range []*ssa.Call{lp.tryPut, lp.tryReplay} {
		if call == nil {
			continue
		}
		name := fnLabel(lp.fn) + ":nil-guard(" + fnLabel(call.Call.StaticCallee()) + ")"
		guarded := guardedByNil(lp.fn, call.Block(), lp.isReplayLoad, false)
		if !guarded {
			// or the helper itself tests the variable (through its *Replayer parameter) before it invokes it
			if h := call.Call.StaticCallee(); h != nil && h.Blocks != nil {
				var ptr *ssa.Parameter
				for _, p := range h.Params {
					if pt, ok := p.Type().Underlying().(*types.Pointer); ok && typeIs(pt.Elem(), "sse", "Replayer") {
						ptr = p
					}
				}
				if ptr != nil {
					isLoad := func(v ssa.Value) bool { a, ok := loadedFrom(v); return ok && a == ssa.Value(ptr) }
					all, n := true, 0
					eachInstrDeep(h, func(in ssa.Instruction) {
						ci, ok := in.(ssa.CallInstruction)
						if !ok || !ci.Common().IsInvoke() || !typeIs(ci.Common().Value.Type(), "sse", "Replayer") {
							return
						}
						n++
						if !guardedByNil(h, in.Block(), isLoad, false) {
							all = false
						}
					})
					guarded = all && n > 0
				}
			}
		}
		c.check(guarded, name, P.ipos(call), "used only under a != nil test of a fresh load of the shared replayer variable",
			"the replayer helper is called without testing the shared replayer variable against nil: after a panic disabled it, the next call dereferences nil")
	}
}

// handlerMayPanic: an operation in a recover handler that panics for some recovered value or state: an
// unchecked type assertion, an explicit panic, an interface method call (e.g. on the recovered value),
// indexing, a map update, a channel send or close.
func handlerMayPanic(h *ssa.Function) (at ssa.Instruction, what string) {
	eachInstrDeep(h, func(x ssa.Instruction) {
		if at != nil {
			return
		}
		switch y := x.(type) {
		case *ssa.TypeAssert:
			if !y.CommaOk {
				at, what = x, "unchecked type assertion to "+y.AssertedType.String()
			}
		case *ssa.Panic:
			at, what = x, "explicit panic"
		case *ssa.Index, *ssa.IndexAddr, *ssa.Slice:
			// the argument array of a variadic call (a fresh local array, constant index) cannot fail
			var base ssa.Value
			switch z := y.(type) {
			case *ssa.IndexAddr:
				base = z.X
				if _, isK := z.Index.(*ssa.Const); !isK {
					base = nil
				}
			case *ssa.Slice:
				if z.Low == nil && z.High == nil {
					base = z.X
				}
			}
			if al, ok := base.(*ssa.Alloc); ok {
				if _, isArr := deref(al.Type()).Underlying().(*types.Array); isArr {
					return
				}
			}
			at, what = x, "index or slice operation"
		case *ssa.MapUpdate:
			at, what = x, "map update"
		case *ssa.Send:
			at, what = x, "channel send"
		case *ssa.Call:
			if y.Call.IsInvoke() {
				at, what = x, "interface method call "+y.Call.Method.Name()
			}
			if b, ok := y.Call.Value.(*ssa.Builtin); ok && b.Name() == "close" {
				at, what = x, "close of a channel"
			}
		case *ssa.BinOp:
			if y.Op == token.QUO || y.Op == token.REM {
				if _, isK := y.Y.(*ssa.Const); !isK {
					at, what = x, "division"
				}
			}
		}
	})
	return at, what
}

// recoverDisables: h calls recover() and, under != nil, stores nil through a
// *Replayer parameter and a replayPanic value through an *error parameter.
func recoverDisables(h *ssa.Function) bool {
	var rec ssa.Value
	eachInstrDeep(h, func(x ssa.Instruction) {
		if b, ok := isBuiltin(x, "recover"); ok {
			rec = b.Value()
		}
	})
	if rec == nil {
		return false
	}
	nilled, marked := false, false
	eachInstrDeep(h, func(x ssa.Instruction) {
		st, ok := x.(*ssa.Store)
		if !ok || !guardedByNil(h, st.Block(), func(v ssa.Value) bool { return v == rec }, false) {
			return
		}
		if pt, ok := st.Addr.Type().Underlying().(*types.Pointer); ok {
			if typeIs(pt.Elem(), "sse", "Replayer") && isNilConst(st.Val) {
				nilled = true
			}
			if pt.Elem().String() == "error" {
				if mi, ok := st.Val.(*ssa.MakeInterface); ok && typeIs(mi.X.Type(), "sse", "replayPanic") {
					marked = true
				}
			}
		}
	})
	return nilled && marked
}

// recoverForeignMarker: a store through the handler's *error parameter, under recover() != nil, of a value
// that is not the panic marker itself (the loop recognises the marker by its dynamic type, so a wrapped or
// different error is treated as an ordinary replayer error).
func recoverForeignMarker(h *ssa.Function) ssa.Instruction {
	var rec ssa.Value
	eachInstrDeep(h, func(x ssa.Instruction) {
		if b, ok := isBuiltin(x, "recover"); ok {
			rec = b.Value()
		}
	})
	var at ssa.Instruction
	eachInstrDeep(h, func(x ssa.Instruction) {
		st, ok := x.(*ssa.Store)
		if !ok || rec == nil || at != nil {
			return
		}
		pt, ok := st.Addr.Type().Underlying().(*types.Pointer)
		if !ok || pt.Elem().String() != "error" {
			return
		}
		if _, isP := stripPhi(st.Addr).(*ssa.Parameter); !isP {
			if _, isFV := st.Addr.(*ssa.FreeVar); !isFV {
				return
			}
		}
		if mi, ok := st.Val.(*ssa.MakeInterface); ok && typeIs(mi.X.Type(), "sse", "replayPanic") {
			return
		}
		at = st
	})
	return at
}

func r17_4(c *Ctx) {
	P := c.P
	lp := findLoop(P)
	if lp.fn == nil || lp.tryPut == nil {
		c.anchor("tryPut call")
		return
	}
	fn := lp.fn
	putErr := extractOfCallPred(lp.tryPut, 1)
	isPanicOK := func(v ssa.Value) bool {
		e, ok := v.(*ssa.Extract)
		if !ok || e.Index != 1 {
			return false
		}
		ta, ok := e.Tuple.(*ssa.TypeAssert)
		return ok && ta.CommaOk && typeIs(ta.AssertedType, "sse", "replayPanic") && putErr(ta.X)
	}
	for _, s := range lp.replySends {
		c.check(guardedByBool(fn, s.Block(), isPanicOK, false), fnLabel(fn)+":reply-send-not-panic", P.ipos(s), "the reply send happens only when the error is not the panic marker",
			"the panic marker can be sent to the publisher: a replayer panic must make Publish proceed as if no replayer were configured")
	}
	if len(lp.replySends) == 0 {
		c.bad(fnLabel(fn)+":reply-send-not-panic", P.ipos(lp.tryPut), "no send on the reply channel")
	}
	// a panic marker from Replay leads to registration, not to an error: R04.3's `registers` obligation
	// (every path that is not a genuine-error edge reaches the insert) decides it; C17 includes R04.3.
}

func firstOf(fn *ssa.Function, pred func(ssa.Instruction) bool) ssa.Instruction {
	var out ssa.Instruction
	eachInstrDeep(fn, func(in ssa.Instruction) {
		if out == nil && pred(in) {
			out = in
		}
	})
	return out
}

func posOfInstr(P *Program, in ssa.Instruction, fn *ssa.Function) string {
	if in != nil {
		return P.ipos(in)
	}
	return P.pos(fn.Pos())
}

func r03_8(c *Ctx) {
	P := c.P
	lp := findLoop(P)
	if lp.fn == nil || lp.next == nil {
		c.anchor("range over subscribers in the message arm")
		return
	}
	fn := lp.fn
	// the natural loop headed by the Next block
	var rl *Loop
	for _, l := range loopsOf(fn) {
		if l.Head == lp.next.Block() {
			rl = l
		}
	}
	name := fnLabel(fn) + ":fan-out-exits"
	if rl == nil {
		c.undecided(name, P.ipos(lp.next), "the range over the subscribers is not a natural loop")
		return
	}
	okExit := func(v ssa.Value) bool {
		e, ok := v.(*ssa.Extract)
		return ok && e.Index == 0 && e.Tuple == ssa.Value(lp.next)
	}
	var offender ssa.Instruction
	for b := range rl.Blocks {
		for i, s := range b.Succs {
			if rl.Blocks[s] {
				continue
			}
			// the only legal exit: the false edge of the range's ok
			ifi, isIf := b.Instrs[len(b.Instrs)-1].(*ssa.If)
			legal := false
			if isIf {
				if t, ok := boolEdge(ifi, okExit); ok && i == 1-t {
					legal = true
				}
			}
			if !legal && offender == nil {
				offender = b.Instrs[len(b.Instrs)-1]
			}
		}
		// a return or panic inside the loop body
		for _, in := range b.Instrs {
			switch in.(type) {
			case *ssa.Return, *ssa.Panic:
				if offender == nil {
					offender = in
				}
			}
		}
	}
	c.check(offender == nil, name, posOfInstr(P, offender, fn), "the fan-out is left only when every registered subscriber was visited", "the range over the subscribers can be left early (return/break/goto at "+posOfInstr(P, offender, fn)+"): subscribers not yet visited never get a message whose Publish already returned")
}

// extractOfCallPred: predicate "v is (a copy of) result #idx of call": directly the Extract, or a
// load of a local cell (e.g. a variable captured by a function literal) whose stores include it.
func extractOfCallPred(call *ssa.Call, idx int) func(ssa.Value) bool {
	return func(v ssa.Value) bool {
		if call == nil || v == nil {
			return false
		}
		hit := false
		for _, s := range sources(v) {
			e, ok := s.(*ssa.Extract)
			if ok && e.Index == idx && e.Tuple == ssa.Value(call) {
				hit = true
				continue
			}
			if isNilConst(s) || isZeroConst(s) {
				continue // zero initialisation of the variable
			}
			if u, isLoad := s.(*ssa.UnOp); isLoad && u == v {
				continue
			}
			return false
		}
		return hit
	}
}

// ---------------------------------------------------------------------------
// R07.7: what Shutdown can return

func init() {
	register(&Rule{ID: "R07.7", Title: "Shutdown returns nil, ErrProviderClosed or its context's Err()", Floor: 1, Run: r07_7})
	if p := properties["C07"]; p != nil {
		p.Rules = append(p.Rules, "R07.7")
		p.Explanation += " R07.7 every origin of Shutdown's result (through the spilled named result and the deferred closure's stores) is nil, ErrProviderClosed, or the Err() of the context parameter (\"its context's error\": not context.Cause, not another context)."
	}
}

func r07_7(c *Ctx) {
	P := c.P
	fn := P.Fn("(*Joe).Shutdown")
	if fn == nil || len(fn.Params) != 2 {
		c.anchor("(*Joe).Shutdown")
		return
	}
	ctx := fn.Params[1]
	name := fnLabel(fn) + ":result"
	n := 0
	bad := ""
	for _, ret := range returnsOf(fn) {
		if len(ret.Results) != 1 {
			continue
		}
		for _, s := range sources(ret.Results[0]) {
			n++
			switch {
			case isNilConst(s):
			case isGlobalLoad(s, "ErrProviderClosed"):
			default:
				if u, ok := s.(*ssa.UnOp); ok && u.Op == token.MUL {
					if _, isAlloc := cellRoot(u.X).(*ssa.Alloc); isAlloc {
						continue // the zero value of the result cell
					}
				}
				if ci, ok := s.(*ssa.Call); ok && ci.Call.IsInvoke() && ci.Call.Method.Name() == "Err" && carriesOnly(ci.Call.Value, ctx) {
					continue
				}
				bad = describe(s)
			}
		}
	}
	if n == 0 {
		c.undecided(name, P.pos(fn.Pos()), "no result origin found")
		return
	}
	c.check(bad == "", name, P.pos(fn.Pos()), "every origin of the result is nil, ErrProviderClosed or ctx.Err()", "Shutdown can return a value that is neither nil, ErrProviderClosed nor its context's Err(): "+bad)
}

// fnPkgPath: the package path of a function, also for instantiations of generic functions (whose
// Pkg field is nil).
func fnPkgPath(f *ssa.Function) string {
	if f.Pkg != nil {
		return f.Pkg.Pkg.Path()
	}
	if o := f.Origin(); o != nil && o.Pkg != nil {
		return o.Pkg.Pkg.Path()
	}
	if obj := f.Object(); obj != nil && obj.Pkg() != nil {
		return obj.Pkg().Path()
	}
	return ""
}

// boundMethodTarget: for the synthetic wrapper go/ssa creates for a method value (x.m), the method it calls.
func boundMethodTarget(w *ssa.Function) *ssa.Function {
	if w == nil || w.Synthetic == "" || !strings.Contains(w.Synthetic, "bound method wrapper") {
		return nil
	}
	var target *ssa.Function
	eachInstr(w, func(in ssa.Instruction) {
		if ci, ok := in.(ssa.CallInstruction); ok {
			if callee := ci.Common().StaticCallee(); callee != nil {
				target = callee
			}
		}
	})
	return target
}

// closureStaysLocal: every MakeClosure of the literal is used only as the callee of a call, defer or go
// in its lexical parent (it is not stored, passed or returned).
func closureStaysLocal(lit *ssa.Function) bool {
	par := lit.Parent()
	if par == nil {
		return false
	}
	found, local := false, true
	eachInstr(par, func(in ssa.Instruction) {
		mc, ok := in.(*ssa.MakeClosure)
		if !ok || mc.Fn != ssa.Value(lit) {
			return
		}
		found = true
		for _, r := range *mc.Referrers() {
			ci, isCall := r.(ssa.CallInstruction)
			if !isCall || ci.Common().Value != ssa.Value(mc) {
				local = false
			}
		}
	})
	if !found {
		// a literal without free variables is referenced as a plain function value
		eachInstr(par, func(in ssa.Instruction) {
			if ci, ok := in.(ssa.CallInstruction); ok && ci.Common().Value == ssa.Value(lit) {
				found = true
			}
			for _, op := range in.Operands(nil) {
				if *op == ssa.Value(lit) {
					if ci, ok := in.(ssa.CallInstruction); !ok || ci.Common().Value != ssa.Value(lit) {
						local = false
					}
				}
			}
		})
	}
	return found && local
}

// replyThroughResult: v is the reply channel as handed back by an inlined helper: every non-nil origin
// of v is the reply channel (the helper returns nil beside "not accepted").
func replyThroughResult(v ssa.Value, reply ssa.Value) bool {
	src := sources(v)
	some := false
	for _, sv := range src {
		if isNilConst(sv) {
			continue
		}
		if stripConvAll(sv) == reply || carriesOnlyConv(sv, reply) {
			some = true
			continue
		}
		return false
	}
	return some
}

// isJoeChanLoad: v is a load of a channel-typed field of Joe.
func isJoeChanLoad(v ssa.Value) bool {
	a, ok := loadedFrom(v)
	if !ok {
		return false
	}
	o, _, _, ok := fieldSel(a)
	if !ok || o != "Joe" {
		return false
	}
	_, isChan := v.Type().Underlying().(*types.Chan)
	return isChan
}

// R03.10: Joe's loop handles every request with that request's own values. A variable declared in front of
// the loop and written inside it (SSA: a phi at the loop head) carries a value from an earlier request into a
// later one; such a value must not reach what a request hands to subscribers, the replayer or its caller.
// The replayer variable itself (disabled after a panic) is the one piece of state the loop carries by design.
func init() {
	register(&Rule{ID: "R03.10", Title: "no value of an earlier request reaches a later request's sends, replayer calls, replies or decisions", Floor: 1, Run: r03_10})
}

func r03_10(c *Ctx) {
	P := c.P
	lp := findLoop(P)
	if lp.fn == nil || lp.jp.sel == nil {
		c.anchor("Joe's loop")
		return
	}
	fn := lp.fn
	selB := lp.jp.sel.Block()
	inLoop := reach([]*ssa.BasicBlock{selB}, nil, nil)
	isReplayerT := func(t types.Type) bool {
		if p, ok := t.Underlying().(*types.Pointer); ok {
			t = p.Elem()
		}
		n := namedOf(t)
		return n != nil && n.Obj().Name() == "Replayer"
	}
	tainted := map[ssa.Value]bool{}
	var work []ssa.Value
	var origin = map[ssa.Value]*ssa.Phi{}
	add := func(v ssa.Value, from *ssa.Phi) {
		if v == nil || tainted[v] {
			return
		}
		tainted[v] = true
		origin[v] = from
		work = append(work, v)
	}
	nCarried := 0
	for _, b := range fn.Blocks {
		if !b.Dominates(selB) || !inLoop[b] {
			continue
		}
		for _, in := range b.Instrs {
			ph, ok := in.(*ssa.Phi)
			if !ok {
				break
			}
			if isReplayerT(ph.Type()) {
				continue
			}
			if b, ok := ph.Type().Underlying().(*types.Basic); ok && b.Info()&types.IsNumeric != 0 {
				continue // a counter or a duration: not a value a request hands to anybody
			}
			nCarried++
			add(ph, ph)
		}
	}
	name := fnLabel(fn) + ":no-value-carried-between-requests"
	if nCarried == 0 {
		c.ok(name, P.ipos(lp.jp.sel), "no variable (other than the replayer) lives across iterations of the loop")
		return
	}
	var hit ssa.Instruction
	var hitPhi *ssa.Phi
	for len(work) > 0 {
		v := work[len(work)-1]
		work = work[:len(work)-1]
		refs := v.Referrers()
		if refs == nil {
			continue
		}
		for _, r := range *refs {
			if r.Block() == nil || !inLoop[r.Block()] {
				continue
			}
			switch x := r.(type) {
			case *ssa.Store:
				if x.Val == v {
					// the stored-into variable now holds the carried value
					if a, ok := rootAddr(x.Addr).(*ssa.Alloc); ok {
						add(a, origin[v])
					} else {
						add(cellRoot(x.Addr), origin[v])
					}
				}
			case *ssa.Send:
				if x.X == v && hit == nil {
					hit, hitPhi = x, origin[v]
				}
			case *ssa.MapUpdate:
				if (x.Key == v || x.Value == v) && hit == nil {
					hit, hitPhi = x, origin[v]
				}
			case *ssa.If:
				if hit == nil {
					hit, hitPhi = x, origin[v]
				}
			case *ssa.Return:
				if hit == nil {
					hit, hitPhi = x, origin[v]
				}
			case *ssa.Call:
				if b, isB := x.Call.Value.(*ssa.Builtin); isB {
					switch b.Name() {
					case "append", "copy", "min", "max":
						add(x, origin[v])
					case "len", "cap":
						add(x, origin[v])
					}
					continue
				}
				// a call outside the module (logging, formatting, time) is not something a request hands out:
				// its result carries the value on
				if callee := x.Call.StaticCallee(); callee != nil && !inSSEPackage(callee) && !x.Call.IsInvoke() {
					add(x, origin[v])
					continue
				}
				if hit == nil {
					hit, hitPhi = x, origin[v]
				}
			case *ssa.Defer, *ssa.Go:
				if hit == nil {
					hit, hitPhi = x, origin[v]
				}
			case *ssa.DebugRef:
			default:
				if val, ok := r.(ssa.Value); ok {
					add(val, origin[v])
				}
			}
		}
	}
	if hit == nil {
		c.ok(name, P.ipos(lp.jp.sel), "variables that live across iterations do not reach a send, a call, the subscribers map or a branch")
		return
	}
	what := "variable"
	if hitPhi != nil && hitPhi.Comment != "" {
		what = "variable " + hitPhi.Comment
	}
	c.bad(name, P.ipos(hit), "the "+what+" lives across iterations of Joe's loop (declared in front of it, written inside) and its value from an earlier request is used here for a later one: a later subscriber inherits an earlier one's error, or a slice handed to the replayer / the subscribers is rewritten by the next request")
}
