package main

import (
	"golang.org/x/tools/go/ssa"
)

func init() {
	register(&Rule{ID: "R03.2", Title: "Joe's operation channels (message, subscription, unsubscription) are unbuffered", Floor: 3, Run: r03_2})
	register(&Rule{ID: "R03.9", Title: "reply channels (subscription.done, publishedMessage.replayerErr) are buffered", Floor: 2, Run: r03_9})
}

func r03_2(c *Ctx) {
	for _, f := range []string{"message", "subscription", "unsubscription"} {
		chanCapacity(c, "Joe", f, true)
	}
}

func r03_9(c *Ctx) {
	chanCapacity(c, "subscription", "done", false)
	chanCapacity(c, "publishedMessage", "replayerErr", false)
}

func chanCapacity(c *Ctx, owner, field string, wantZero bool) {
	P := c.P
	chk := func(owner, field string, wantZero bool) {
		n := 0
		for _, a := range P.fieldAccesses(owner, field) {
			if a.Kind != "write" {
				continue
			}
			st := a.Use.(*ssa.Store)
			n++
			name := fnLabel(a.Fn) + ":make(" + owner + "." + field + ")"
			for _, s := range sources(st.Val) {
				mc, ok := stripConvAll(s).(*ssa.MakeChan)
				if !ok {
					c.undecided(name, P.ipos(st), "value stored into "+owner+"."+field+" is not a make(chan): "+describe(s))
					continue
				}
				k, isC := constInt(mc.Size)
				if !isC {
					c.undecided(name, P.ipos(st), "channel capacity is not a constant")
					continue
				}
				if wantZero {
					c.check(k == 0, name, P.ipos(st), "unbuffered",
						"operation channel "+owner+"."+field+" is buffered: the caller can return before the loop has accepted (ordered / processed) the operation")
				} else {
					c.check(k >= 1, name, P.ipos(st), "buffered (capacity >= 1): the loop's single send cannot block",
						"reply channel "+owner+"."+field+" is unbuffered: the loop blocks on a subscriber/publisher that is not receiving")
				}
			}
		}
		if n == 0 {
			c.undecided("make("+owner+"."+field+")", "-", "no store to "+owner+"."+field+" found")
		}
	}
	chk(owner, field, wantZero)
}

func stripConvAll(v ssa.Value) ssa.Value {
	for {
		switch x := v.(type) {
		case *ssa.ChangeType:
			v = x.X
		case *ssa.Convert:
			v = x.X
		case *ssa.MakeInterface:
			v = x.X
		default:
			return v
		}
	}
}
