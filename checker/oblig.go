package main

import (
	"bufio"
	"encoding/json"
	"fmt"
	"os"
	"path/filepath"
	"runtime/debug"
	"sort"
	"strings"
)

type Verdict string

const (
	Discharged Verdict = "discharged"
	Violated   Verdict = "violated"
	Undecided  Verdict = "undecided"
)

// Obligation is one instance of a rule on one construct of the program.
// Key = rule@construct is stable across line-number changes.
type Obligation struct {
	Rule      string   `json:"rule"`
	Construct string   `json:"construct"`
	Pos       string   `json:"pos"`
	Verdict   Verdict  `json:"verdict"`
	Detail    string   `json:"detail,omitempty"`
	Witness   []string `json:"witness,omitempty"`
}

func (o *Obligation) Key() string { return o.Rule + "@" + o.Construct }

// Rule is a repository-specific static rule.
type Rule struct {
	ID    string
	Title string
	// Floor is the minimal number of obligations (instances) the rule must
	// produce; below it the rule fails as vacuous.
	Floor int
	Run   func(c *Ctx)
}

var ruleRegistry = map[string]*Rule{}

func register(r *Rule) {
	if _, dup := ruleRegistry[r.ID]; dup {
		panic("duplicate rule " + r.ID)
	}
	ruleRegistry[r.ID] = r
}

// Ctx collects obligations while a rule runs.
type Ctx struct {
	P    *Program
	rule *Rule
	obs  []*Obligation
	// keep, when set, restricts the obligations recorded to those whose construct it accepts
	// (a rule that re-runs a slice of a larger rule under its own id)
	keep func(construct string) bool
}

// ob records an obligation with an initial verdict.
func (c *Ctx) ob(construct, pos string, v Verdict, detail string, witness ...string) *Obligation {
	o := &Obligation{Rule: c.rule.ID, Construct: construct, Pos: pos, Verdict: v, Detail: detail, Witness: witness}
	if c.keep != nil && !c.keep(construct) {
		return o
	}
	c.obs = append(c.obs, o)
	return o
}

func (c *Ctx) ok(construct, pos, detail string) { c.ob(construct, pos, Discharged, detail) }
func (c *Ctx) bad(construct, pos, detail string, w ...string) {
	c.ob(construct, pos, Violated, detail, w...)
}
func (c *Ctx) undecided(construct, pos, detail string, w ...string) {
	c.ob(construct, pos, Undecided, detail, w...)
}

// check is shorthand: discharged if cond, else violated.
func (c *Ctx) check(cond bool, construct, pos, okDetail, badDetail string) bool {
	if cond {
		c.ok(construct, pos, okDetail)
	} else {
		c.bad(construct, pos, badDetail)
	}
	return cond
}

// anchor reports an unresolved anchor (failed obligation, never a skip).
func (c *Ctx) anchor(what string) {
	c.ob("anchor:"+what, "-", Undecided, "unresolved-anchor: "+what+" could not be located in the current tree")
}

type RuleResult struct {
	ID          string        `json:"rule"`
	Title       string        `json:"title"`
	Floor       int           `json:"instance_floor"`
	Obligations []*Obligation `json:"-"`
	N           int           `json:"obligations"`
	NDischarged int           `json:"discharged"`
	Panic       string        `json:"panic,omitempty"`
}

func runRule(P *Program, r *Rule) (res *RuleResult) {
	c := &Ctx{P: P, rule: r}
	res = &RuleResult{ID: r.ID, Title: r.Title, Floor: r.Floor}
	func() {
		defer func() {
			if x := recover(); x != nil {
				res.Panic = fmt.Sprint(x)
				if os.Getenv("SSECHECK_PANIC_STACK") != "" {
					fmt.Fprintf(os.Stderr, "rule %s panicked: %v\n%s\n", r.ID, x, debug.Stack())
				}
				c.ob("checker-panic", "-", Undecided, "analysis panicked: "+fmt.Sprint(x)+" (the code has a shape the rule cannot handle)")
			}
		}()
		r.Run(c)
	}()
	if len(c.obs) < r.Floor {
		c.ob("instance-floor", "-", Undecided,
			fmt.Sprintf("vacuous: rule matched %d instances, fewer than the floor %d confirmed by reading", len(c.obs), r.Floor))
	}
	// de-duplicate keys by suffixing an ordinal (constructs should be unique,
	// but two sites with the same role in one function are possible).
	seen := map[string]int{}
	for _, o := range c.obs {
		k := o.Key()
		seen[k]++
		if seen[k] > 1 {
			o.Construct = fmt.Sprintf("%s#%d", o.Construct, seen[k])
		}
	}
	res.Obligations = c.obs
	res.N = len(c.obs)
	for _, o := range c.obs {
		if o.Verdict == Discharged {
			res.NDischarged++
		}
	}
	return res
}

// ---------------------------------------------------------------------------
// known findings

type knownFinding struct {
	Property string
	Key      string
	Text     string
}

func loadKnownFindings(path string) ([]knownFinding, []string, error) {
	f, err := os.Open(path)
	if err != nil {
		if os.IsNotExist(err) {
			return nil, nil, nil
		}
		return nil, nil, err
	}
	defer f.Close()
	var out []knownFinding
	var fixed []string
	sc := bufio.NewScanner(f)
	for sc.Scan() {
		line := strings.TrimSpace(sc.Text())
		if strings.HasPrefix(line, "fixed:") {
			fixed = append(fixed, line)
			continue
		}
		if !strings.HasPrefix(line, "finding:") {
			continue
		}
		rest := strings.TrimSpace(strings.TrimPrefix(line, "finding:"))
		kf := knownFinding{}
		fields := strings.Fields(rest)
		var text []string
		for _, fl := range fields {
			switch {
			case strings.HasPrefix(fl, "property=") && kf.Property == "":
				kf.Property = strings.TrimPrefix(fl, "property=")
			case strings.HasPrefix(fl, "key=") && kf.Key == "":
				kf.Key = strings.TrimPrefix(fl, "key=")
			default:
				text = append(text, fl)
			}
		}
		kf.Text = strings.Join(text, " ")
		if kf.Property != "" && kf.Key != "" {
			out = append(out, kf)
		}
	}
	return out, fixed, sc.Err()
}

// ---------------------------------------------------------------------------
// evidence

type Evidence struct {
	PropertyID  string                 `json:"property_id"`
	Tier        string                 `json:"tier"`
	Seed        int                    `json:"seed"`
	Level       string                 `json:"level"`
	Coverage    map[string]interface{} `json:"coverage"`
	Assumptions []string               `json:"assumptions"`
	WallS       float64                `json:"wall_s"`
	Violations  int                    `json:"violations"`
}

func writeJSON(path string, v interface{}) error {
	if err := os.MkdirAll(filepath.Dir(path), 0o755); err != nil {
		return err
	}
	b, err := json.MarshalIndent(v, "", " ")
	if err != nil {
		return err
	}
	tmp := path + ".tmp"
	if err := os.WriteFile(tmp, append(b, '\n'), 0o644); err != nil {
		return err
	}
	return os.Rename(tmp, path)
}

func sortedKeys[M ~map[string]V, V any](m M) []string {
	ks := make([]string, 0, len(m))
	for k := range m {
		ks = append(ks, k)
	}
	sort.Strings(ks)
	return ks
}
