package main

import (
	"go/constant"
	"go/types"
	"strings"

	"golang.org/x/tools/go/ssa"
)

// Single-line provenance (DESIGN A.1). SL(v) holds if the string value v can
// never contain CR or LF. Memoised recursion over SSA values, optimistic on
// phi cycles (greatest fixpoint).
//
// SL fields: messageField.value, chunk.content, parser.Field.Value are
// single-line by the inductive invariant that the sink obligations establish
// (every field-level store into them stores an SL value; whole-value copies
// preserve it; the fields are unexported or in an internal package).

type slEngine struct {
	P    *Program
	memo map[ssa.Value]int // 1 in progress (assumed true), 2 true, 3 false
	why  map[ssa.Value]string
	imm  map[ssa.Value]int
	immF map[string]int
}

func newSL(P *Program) *slEngine {
	return &slEngine{P: P, memo: map[ssa.Value]int{}, why: map[ssa.Value]string{}, imm: map[ssa.Value]int{}, immF: map[string]int{}}
}

// Immutable decides whether the bytes of string value v can change after the
// value was produced. Go strings are immutable unless they are views made with
// unsafe.String over memory somebody else may overwrite (a caller's []byte, a
// scanner's reused buffer). A single-line check on such a view proves nothing
// about its later contents, so sinks require immutability as well.
func (e *slEngine) Immutable(v ssa.Value) (bool, string) {
	switch e.imm[v] {
	case 1, 2:
		return true, ""
	case 3:
		return false, "derived from an unsafe.String view of mutable memory"
	}
	e.imm[v] = 1
	ok, why := e.immutable(v)
	if ok {
		e.imm[v] = 2
	} else {
		e.imm[v] = 3
	}
	return ok, why
}

func (e *slEngine) immutable(v ssa.Value) (bool, string) {
	switch x := v.(type) {
	case *ssa.Const:
		return true, ""
	case *ssa.Call:
		if b, ok := x.Call.Value.(*ssa.Builtin); ok && b.Name() == "String" {
			return false, "unsafe.String(...) at " + e.P.ipos(x) + " aliases memory that its owner may overwrite"
		}
		if callee := x.Call.StaticCallee(); callee != nil {
			if idx, ok := slicePreserving(callee); ok {
				return e.Immutable(x.Call.Args[idx])
			}
		}
		if idxs, ok := stdSubstringResults(x); ok && idxs[0] {
			return e.Immutable(x.Call.Args[0])
		}
		if g := iifeCallee(x); g != nil && g.Signature.Results().Len() == 1 {
			for _, r := range returnsOf(g) {
				if ok, why := e.Immutable(r.Results[0]); !ok {
					return false, why
				}
			}
		}
		return true, ""
	case *ssa.Extract:
		if call, ok := x.Tuple.(*ssa.Call); ok {
			if _, isNC := isModCall(call, "parser.NextChunk"); isNC && (x.Index == 0 || x.Index == 1) {
				return e.Immutable(call.Call.Args[0])
			}
			if idxs, ok := stdSubstringResults(call); ok && idxs[x.Index] {
				return e.Immutable(call.Call.Args[0])
			}
			if g := iifeCallee(call); g != nil {
				for _, r := range returnsOf(g) {
					if x.Index < len(r.Results) {
						if ok, why := e.Immutable(r.Results[x.Index]); !ok {
							return false, why
						}
					}
				}
				return true, ""
			}
		}
		return true, ""
	case *ssa.Slice:
		return e.Immutable(x.X)
	case *ssa.ChangeType:
		return e.Immutable(x.X)
	case *ssa.Phi:
		for _, ed := range x.Edges {
			if ok, why := e.Immutable(ed); !ok {
				return false, why
			}
		}
		return true, ""
	case *ssa.BinOp:
		return true, "" // concatenation allocates
	case *ssa.Field:
		if isSLFieldSel(x) {
			return true, ""
		}
		if o, n, _, ok := fieldSel(x); ok {
			return e.immutableField(o, n)
		}
		return true, ""
	case *ssa.UnOp:
		addr, ok := loadedFrom(x)
		if !ok {
			return true, ""
		}
		if isSLFieldSel(addr) {
			return true, "" // immutable by the invariant its own sink rule establishes
		}
		if o, n, _, ok := fieldSel(addr); ok {
			return e.immutableField(o, n)
		}
		root := cellRoot(addr)
		if _, isAlloc := root.(*ssa.Alloc); isAlloc {
			st, _, esc := cellStores(addr)
			if !esc {
				for _, sv := range st {
					if ok, why := e.Immutable(sv); !ok {
						return false, why
					}
				}
			}
		}
		return true, ""
	case *ssa.Parameter:
		fn := x.Parent()
		if site := iifeSiteCached(fn); site != nil {
			for i, p := range fn.Params {
				if p == x && i < len(site.Call.Args) {
					return e.Immutable(site.Call.Args[i])
				}
			}
		}
		if fn.Parent() == nil && fn.Object() != nil && fn.Object().Exported() && fn.Pkg != nil && fn.Pkg.Pkg.Path() == modPath {
			return true, "" // a caller's Go string (public API)
		}
		idx := -1
		for i, p := range fn.Params {
			if p == x {
				idx = i
			}
		}
		for _, s := range e.P.staticCallSites(fn) {
			args := s.Common().Args
			if idx >= 0 && idx < len(args) {
				if ok, why := e.Immutable(args[idx]); !ok {
					return false, "argument at " + e.P.ipos(s) + ": " + why
				}
			}
		}
		return true, ""
	}
	return true, ""
}

// immutableField: every field-level store of a string into owner.name in the module is immutable.
func (e *slEngine) immutableField(owner, name string) (bool, string) {
	key := owner + "." + name
	switch e.immF[key] {
	case 1, 2:
		return true, ""
	case 3:
		return false, "field " + key + " can hold an unsafe.String view"
	}
	e.immF[key] = 1
	for _, a := range e.P.fieldAccesses(owner, name) {
		if a.Kind != "write" {
			continue
		}
		st := a.Use.(*ssa.Store)
		if st.Val.Type().String() != "string" {
			continue
		}
		if ok, why := e.Immutable(st.Val); !ok {
			e.immF[key] = 3
			return false, "field " + key + " is stored at " + e.P.ipos(st) + ": " + why
		}
	}
	e.immF[key] = 2
	return true, ""
}

var slFields = [][2]string{{"messageField", "value"}, {"chunk", "content"}, {"parser.Field", "Value"}}

func isSLFieldSel(v ssa.Value) bool {
	o, n, _, ok := fieldSel(v)
	if !ok {
		return false
	}
	for _, f := range slFields {
		if f[0] == o && f[1] == n {
			return true
		}
	}
	return false
}

// SL decides v at program point `at` (used for dominance by isSingleLine guards).
func (e *slEngine) SL(v ssa.Value, at ssa.Instruction) (bool, string) {
	// a guard at the use site makes any value SL, independent of memoisation
	if at != nil && e.guarded(v, at) {
		return true, "dominated by the true edge of isSingleLine on the same value"
	}
	switch e.memo[v] {
	case 1, 2:
		return true, e.why[v]
	case 3:
		return false, e.why[v]
	}
	e.memo[v] = 1
	ok, why := e.compute(v, at)
	if ok {
		e.memo[v] = 2
	} else {
		e.memo[v] = 3
	}
	e.why[v] = why
	return ok, why
}

func (e *slEngine) guarded(v ssa.Value, at ssa.Instruction) bool {
	fn := at.Parent()
	same := func(x ssa.Value) bool { return x == v || sameValue(x, v) || carriesOnly(x, v) }
	// the predicate helper …
	if factGuards(fn, at.Block(), factBool(func(c ssa.Value) bool {
		call, ok := isModCall(c, "isSingleLine")
		return ok && same(call.Call.Args[0])
	}, true)) {
		return true
	}
	// … or its definition written in place: NewlineIndex(v).length == 0
	isLen := func(x ssa.Value) bool {
		ex, ok := x.(*ssa.Extract)
		if !ok || ex.Index != 1 {
			return false
		}
		call, ok := ex.Tuple.(*ssa.Call)
		if !ok {
			return false
		}
		_, isNI := isModCall(call, "parser.NewlineIndex")
		return isNI && same(call.Call.Args[0])
	}
	return intGuard(fn, at.Block(), isLen, 0, 0, 0)
}

func (e *slEngine) compute(v ssa.Value, at ssa.Instruction) (bool, string) {
	switch x := v.(type) {
	case *ssa.Const:
		if x.Value == nil {
			return true, "zero value"
		}
		if x.Value.Kind() == constant.String {
			s := constant.StringVal(x.Value)
			if strings.ContainsAny(s, "\r\n") {
				return false, "string constant contains CR/LF"
			}
			return true, "CR/LF-free constant"
		}
		return false, "non-string constant"
	case *ssa.Extract:
		if call, ok := x.Tuple.(*ssa.Call); ok {
			if _, isNC := isModCall(call, "parser.NextChunk"); isNC && x.Index == 0 {
				return true, "result 0 of parser.NextChunk (the text before the first line break)"
			}
			if idxs, ok := stdSubstringResults(call); ok && idxs[x.Index] {
				ok, why := e.SL(call.Call.Args[0], at)
				if ok {
					return true, "substring (" + calleeName(call) + ") of a single-line value"
				}
				return false, "substring of: " + why
			}
			if g := iifeCallee(call); g != nil {
				for _, r := range returnsOf(g) {
					if x.Index >= len(r.Results) {
						return false, "tuple element of " + describe(x.Tuple)
					}
					if ok, why := e.SL(r.Results[x.Index], r); !ok {
						return false, "result of an inlined helper: " + why
					}
				}
				return true, "every result of the inlined helper is single-line"
			}
		}
		return false, "tuple element of " + describe(x.Tuple)
	case *ssa.Slice:
		// s[:i] with (i, _) = NewlineIndex(s): the text before the first line break
		if x.Low == nil && x.High != nil {
			if ex, ok := x.High.(*ssa.Extract); ok && ex.Index == 0 {
				if call, ok := ex.Tuple.(*ssa.Call); ok {
					if _, isNI := isModCall(call, "parser.NewlineIndex"); isNI && (call.Call.Args[0] == x.X || sameValue(call.Call.Args[0], x.X)) {
						return true, "s[:index] with index = NewlineIndex(s).index (the text before the first line break)"
					}
				}
			}
		}
		ok, why := e.SL(x.X, at)
		if ok {
			return true, "slice of a single-line value"
		}
		return false, "slice of: " + why
	case *ssa.Phi:
		for _, ed := range x.Edges {
			if ok, why := e.SL(ed, at); !ok {
				return false, "phi operand: " + why
			}
		}
		return true, "all phi operands single-line"
	case *ssa.ChangeType:
		return e.SL(x.X, at)
	case *ssa.Call:
		callee := x.Call.StaticCallee()
		if callee != nil {
			if idx, ok := slicePreserving(callee); ok {
				ok, why := e.SL(x.Call.Args[idx], at)
				if ok {
					return true, "result of slice-preserving " + fnLabel(callee) + " on a single-line value"
				}
				return false, why
			}
			if isSLFieldGetter(callee) {
				return true, "getter of a single-line field (" + fnLabel(callee) + ")"
			}
		}
		if idxs, ok := stdSubstringResults(x); ok && idxs[0] {
			ok, why := e.SL(x.Call.Args[0], at)
			if ok {
				return true, "substring (" + calleeName(x) + ") of a single-line value"
			}
			return false, "substring of: " + why
		}
		if g := iifeCallee(x); g != nil && g.Signature.Results().Len() == 1 {
			for _, r := range returnsOf(g) {
				if ok, why := e.SL(r.Results[0], r); !ok {
					return false, "result of an inlined helper: " + why
				}
			}
			return true, "every result of the inlined helper is single-line"
		}
		return false, "result of call " + describe(x)
	case *ssa.Field:
		if isSLFieldSel(x) {
			return true, "single-line field by invariant"
		}
		return false, "field " + describe(x)
	case *ssa.UnOp:
		addr, ok := loadedFrom(x)
		if !ok {
			return false, describe(x)
		}
		if isSLFieldSel(addr) {
			return true, "load of a single-line field by invariant"
		}
		root := cellRoot(addr)
		if _, isAlloc := root.(*ssa.Alloc); isAlloc {
			if _, isFA := addr.(*ssa.FieldAddr); !isFA {
				st, _, esc := cellStores(addr)
				if !esc {
					for _, s := range st {
						if ok, why := e.SL(s, at); !ok {
							return false, "store into local: " + why
						}
					}
					return true, "all stores into the local cell are single-line"
				}
			}
		}
		return false, "load of " + describe(addr)
	case *ssa.Parameter:
		if g := x.Parent(); g != nil {
			if site := iifeSiteCached(g); site != nil {
				for i, p := range g.Params {
					if p == x && i < len(site.Call.Args) {
						return e.SL(site.Call.Args[i], site)
					}
				}
			}
		}
		fn := x.Parent()
		idx := -1
		for i, p := range fn.Params {
			if p == x {
				idx = i
			}
		}
		if fn.Object() != nil && fn.Object().Exported() && fn.Parent() == nil {
			return false, "parameter " + x.Name() + " of exported " + fnLabel(fn) + " (caller-controlled)"
		}
		if fnAddressTaken(e.P, fn) {
			return false, "parameter of a function whose address is taken"
		}
		sites := e.P.staticCallSites(fn)
		if len(sites) == 0 || idx < 0 {
			return false, "parameter " + x.Name() + " of " + fnLabel(fn) + " with no resolvable call sites"
		}
		for _, s := range sites {
			if ok, why := e.SL(s.Common().Args[idx], s); !ok {
				return false, "argument at " + e.P.ipos(s) + ": " + why
			}
		}
		return true, "every call site passes a single-line value"
	}
	return false, describe(v)
}

// slicePreserving: every return operand of f is one particular parameter or a
// slice of it (e.g. trimFirstSpace). Returns that parameter's index.
func slicePreserving(f *ssa.Function) (int, bool) {
	if f.Blocks == nil || len(f.Params) == 0 || f.Signature.Results().Len() != 1 {
		return 0, false
	}
	idx := -1
	for _, ret := range returnsOf(f) {
		for _, s := range sources(ret.Results[0]) {
			for {
				if sl, ok := s.(*ssa.Slice); ok {
					s = sl.X
					continue
				}
				break
			}
			p, ok := s.(*ssa.Parameter)
			if !ok {
				return 0, false
			}
			k := -1
			for i, q := range f.Params {
				if q == p {
					k = i
				}
			}
			if idx >= 0 && k != idx {
				return 0, false
			}
			idx = k
		}
	}
	if idx < 0 || f.Params[idx].Type().String() != "string" {
		return 0, false
	}
	return idx, true
}

// isSLFieldGetter: f returns only loads of an SL field of its receiver (messageField.String).
func isSLFieldGetter(f *ssa.Function) bool {
	if f.Blocks == nil || f.Signature.Results().Len() != 1 {
		return false
	}
	rets := returnsOf(f)
	if len(rets) == 0 {
		return false
	}
	for _, ret := range rets {
		for _, s := range sources(ret.Results[0]) {
			a, ok := loadedFrom(s)
			if ok && isSLFieldSel(a) {
				continue
			}
			if fv, ok := s.(*ssa.Field); ok && isSLFieldSel(fv) {
				continue
			}
			return false
		}
	}
	return true
}

func fnAddressTaken(P *Program, f *ssa.Function) bool {
	taken := false
	for _, g := range P.Funcs {
		eachInstr(g, func(in ssa.Instruction) {
			for _, op := range in.Operands(nil) {
				if *op == ssa.Value(f) {
					if c, ok := in.(ssa.CallInstruction); ok && c.Common().Value == ssa.Value(f) {
						// direct call: fine unless also passed as an argument
						for _, a := range c.Common().Args {
							if a == ssa.Value(f) {
								taken = true
							}
						}
						continue
					}
					taken = true
				}
			}
		})
	}
	return taken
}

// slSinks lists every field-level store into owner.name in the module.
func slSinks(P *Program, owner, name string) []*ssa.Store {
	var out []*ssa.Store
	for _, a := range P.fieldAccesses(owner, name) {
		if a.Kind == "write" {
			out = append(out, a.Use.(*ssa.Store))
		}
	}
	// `*p = T{}`: the zero value stored over the whole struct sets the field to its zero value
	for _, fn := range P.Funcs {
		eachInstr(fn, func(in ssa.Instruction) {
			st, ok := in.(*ssa.Store)
			if !ok {
				return
			}
			k, isK := st.Val.(*ssa.Const)
			if !isK || k.Value != nil {
				return
			}
			if _, isStruct := k.Type().Underlying().(*types.Struct); !isStruct {
				return
			}
			if ownerName(k.Type()) == owner {
				out = append(out, st)
			}
		})
	}
	return out
}

// slAddrEscapes lists uses where the address of an SL field escapes (passed
// to a call etc.), which would allow writes the sink rule cannot see.
func slAddrEscapes(P *Program, owner, name string) []FieldAccess {
	var out []FieldAccess
	for _, a := range P.fieldAccesses(owner, name) {
		if a.Kind == "addr" {
			out = append(out, a)
		}
	}
	return out
}

// stdSubstringResults: the call is to a standard-library function whose listed results are substrings
// of its first argument (so they are single-line / immutable whenever that argument is).
func stdSubstringResults(call *ssa.Call) (map[int]bool, bool) {
	switch calleeName(call) {
	case "strings.Cut":
		return map[int]bool{0: true, 1: true}, true
	case "strings.CutPrefix", "strings.CutSuffix":
		return map[int]bool{0: true}, true
	case "strings.TrimPrefix", "strings.TrimSuffix", "strings.TrimSpace", "strings.Trim", "strings.TrimLeft", "strings.TrimRight", "strings.TrimFunc", "strings.TrimLeftFunc", "strings.TrimRightFunc":
		return map[int]bool{0: true}, true
	}
	return nil, false
}
