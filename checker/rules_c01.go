package main

import (
	"go/constant"
	"go/token"
	"go/types"

	"golang.org/x/tools/go/ssa"
)

func init() {
	register(&Rule{ID: "R01.6", Title: "retry values are parsed digits-only (ParseUint base 10, or a digits-only test guards the parse)", Floor: 2, Run: r01_6})
}

// fieldNameEdge: the CFG edge taken when the parsed field's Name equals the
// given FieldName constant (switch case in the interpreter).
func fieldNameEdges(fn *ssa.Function, name string) []cfgEdge {
	var out []cfgEdge
	for _, ifi := range ifsIn(fn) {
		cnd := decodeIf(ifi)
		if cnd.Y == nil || cnd.Op != token.EQL {
			continue
		}
		var k string
		var other ssa.Value
		if s, ok := constString(cnd.Y); ok {
			k, other = s, cnd.X
		} else if s, ok := constString(cnd.X); ok {
			k, other = s, cnd.Y
		} else {
			continue
		}
		if k != name {
			continue
		}
		if _, ok := isFieldLoad(other, "parser.Field", "Name"); !ok {
			continue
		}
		out = append(out, cfgEdge{ifi.Block(), cnd.succWhen(true)})
	}
	return out
}

func inFieldCase(fn *ssa.Function, name string, b *ssa.BasicBlock) bool {
	for _, e := range fieldNameEdges(fn, name) {
		if edgeDominates(e.From, e.Idx, b) {
			return true
		}
	}
	return false
}

// isNotDigitPredicate: f(r rune) bool is true exactly outside '0'..'9'
// (decided by constant propagation on the four boundary values).
func isNotDigitPredicate(f *ssa.Function) bool {
	if f == nil || len(f.Params) != 1 || f.Blocks == nil {
		return false
	}
	want := map[int64]bool{47: true, 48: false, 57: false, 58: true}
	for k, w := range want {
		res := sccp(f, map[ssa.Value]constant.Value{f.Params[0]: constant.MakeInt64(k)}, nil, nil)
		if len(res.Exit) == 0 {
			return false
		}
		for ret := range res.Exit {
			if len(ret.Results) != 1 {
				return false
			}
			v := ret.Results[0]
			var l lat
			if c, ok := v.(*ssa.Const); ok && c.Value != nil {
				l = latConst(c.Value)
			} else {
				l = res.Vals[v]
			}
			if l.kind != 1 || l.val.Kind() != constant.Bool || constant.BoolVal(l.val) != w {
				return false
			}
		}
	}
	return true
}

func r01_6(c *Ctx) {
	P := c.P
	var sites []*ssa.Function
	if it := iteratorBody(P); it != nil {
		sites = append(sites, it)
	} else {
		c.anchor("event iterator body")
	}
	if um := P.Fn("(*Message).UnmarshalText"); um != nil {
		sites = append(sites, um)
	} else {
		c.anchor("(*Message).UnmarshalText")
	}
	for _, fn := range sites {
		n := 0
		fn := fn
		eachInstrDeep(fn, func(in ssa.Instruction) {
			call, ok := in.(*ssa.Call)
			if !ok {
				return
			}
			cn := calleeName(call)
			switch cn {
			case "strconv.ParseInt", "strconv.ParseUint", "strconv.Atoi", "strconv.ParseFloat":
			default:
				return
			}
			if lb, ok := liftBlock(call.Block(), fn); !ok || !inFieldCase(fn, "retry", lb) {
				return
			}
			n++
			name := fnLabel(fn) + ":retry-parse(" + cn + ")"
			arg := call.Call.Args[0]
			if _, ok := isFieldLoad(arg, "parser.Field", "Value"); !ok {
				c.undecided(name, P.ipos(call), "the parsed string is not the retry field's Value")
				return
			}
			if cn == "strconv.ParseUint" {
				base, isK := constInt(call.Call.Args[1])
				c.check(isK && base == 10, name, P.ipos(call), "ParseUint base 10 accepts exactly ASCII digit strings", "ParseUint with a base other than 10 accepts non-decimal retry values")
				if len(call.Call.Args) == 3 {
					bits, isB := constInt(call.Call.Args[2])
					c.check(isB && (bits == 0 || bits >= 63), name+":width", P.ipos(call), "the parse covers every millisecond count an int64 can hold",
						"ParseUint with a bit size below 63 fails with a range error for valid reconnection times above 2^"+itoa(int(bits))+" ms, which are then silently ignored: the server's retry value is not honoured")
				}
				return
			}
			// otherwise a digits-only test of the same value must guard the parse
			guarded := false
			var ifs []*ssa.If
			for _, fnc := range enclosingChain(call.Block(), fn) {
				ifs = append(ifs, ifsIn(fnc)...)
			}
			for _, ifi := range ifs {
				op, k, succ, ok := cmpConstEdge(ifi, func(v ssa.Value) bool {
					ic, ok := isStaticCall(v, "strings.IndexFunc")
					if !ok {
						return false
					}
					if _, isVal := isFieldLoad(ic.Call.Args[0], "parser.Field", "Value"); !isVal {
						return false
					}
					var pf *ssa.Function
					switch p := ic.Call.Args[1].(type) {
					case *ssa.MakeClosure:
						pf, _ = p.Fn.(*ssa.Function)
					case *ssa.Function:
						pf = p
					}
					return isNotDigitPredicate(pf)
				})
				if !ok {
					continue
				}
				// the result is -1 (no offending rune) or an index >= 0: the edge on which it is known to be -1
				var e int
				switch {
				case (op == token.EQL && k == -1) || (op == token.LSS && k == 0) || (op == token.LEQ && k == -1):
					e = succ
				case (op == token.NEQ && k == -1) || (op == token.GEQ && k == 0) || (op == token.GTR && k == -1):
					e = 1 - succ
				default:
					continue
				}
				if edgeDominates(ifi.Block(), e, call.Block()) {
					guarded = true
				}
			}
			if !guarded && digitsOnlyLoopGuards(fn, call) {
				guarded = true
			}
			c.check(guarded, name, P.ipos(call), "the parse is guarded by a digits-only test of the same value",
				cn+" accepts a sign prefix (\"+5\", \"-0\") and is not guarded by a digits-only test: the spec admits only ASCII digits in a retry value")
		})
		if n == 0 {
			c.bad(fnLabel(fn)+":retry-parse", P.pos(fn.Pos()), "no numeric parse of the retry field found in its switch case: the retry field is not interpreted")
		}
	}
	// the retry callback is optional (sse.Read passes none): its call is guarded by a nil test
	if x := findInterp(P); x != nil && x.onRetry != nil {
		it := x.fn
		eachInstrDeep(it, func(in ssa.Instruction) {
			if !x.isOnRetryCall(in) {
				return
			}
			isCB := func(v ssa.Value) bool { a, ok := loadedFrom(v); return ok && a == x.onRetry }
			lb, _ := liftBlock(in.Block(), it)
			g := lb != nil && (guardedByNil(it, lb, isCB, false) || factGuards(it, lb, factNil(isCB, false)))
			c.check(g, fnLabel(it)+":retry-callback-nil-guard", P.ipos(in), "the optional retry callback is called only where it was found non-nil", "the retry callback is called without a nil test: sse.Read, which passes none, panics on the first valid retry field")
		})
	}
}

// ---------------------------------------------------------------------------
// the remaining C01 rules

func init() {
	prop(&PropertySpec{
		ID: "C01", Level: "other",
		Rules: []string{"R01.1", "R01.2", "R01.3", "R01.4", "R01.5", "R01.6", "R01.7", "R01.8", "R14.4", "R02.5", "R11.5", "R11.7"},
		Explanation: "Decides the interpreter (the iterator returned by read and its yield wrapper), not the byte scanner: R01.1 field tables agree (getFieldName has one case per field-name constant and a rejecting default; both interpreters have a case for every name; maxFieldNameLength covers the longest name; encoder prefixes are name+\": \"); " +
			"R01.2 iterator protocol (every yield is an event with nil error or a zero event with an error; nothing is yielded after an error or after the consumer stopped); R01.3 dispatch resets type and data, sets dirty false and does not touch the last-event-ID buffer; R01.4 dirty becomes true exactly on paths that change interpreter state, stays unchanged otherwise, false only on dispatch; " +
			"R01.5 id values containing NUL are ignored (store dominated by the no-NUL edge; no other writer); R01.6 digits-only retry; R01.7 at the end a pending event is flushed only when dirty and the parser reports io.EOF, and the error yield happens only for a non-nil error; R01.8 field splitting shape in scanSegment (name = text before the first colon, value = rest with at most one leading space removed, blank line = end of event, comment only when the colon is first); " +
			"plus the line-break predicates (R14.4), the Field.Value provenance (R02.5) and the parser's end-of-input links (R11.5, R11.7).",
		NotDecided: "that NewlineIndex/splitFunc/scanSegment implement the WHATWG line grammar for all byte strings and read segmentations (offset arithmetic, CR at buffer end, BOM position — the BOM-after-blank-lines deviation D7 is NOT decided); UTF-8 handling; events straddling buffer sizes.",
	})
	register(&Rule{ID: "R01.1", Title: "field-table agreement between parser, interpreters and encoder", Floor: 12, Run: r01_1})
	register(&Rule{ID: "R01.2", Title: "iterator protocol: event xor error; nothing after an error or a stop", Floor: 4, Run: r01_2})
	register(&Rule{ID: "R01.3", Title: "dispatch resets type/data/dirty and keeps the last-event-ID buffer", Floor: 3, Run: r01_3})
	register(&Rule{ID: "R01.4", Title: "dirty discipline per switch path", Floor: 6, Run: r01_4})
	register(&Rule{ID: "R01.5", Title: "NUL-containing id values are ignored; no other writer of the ID buffer", Floor: 2, Run: r01_5})
	register(&Rule{ID: "R01.7", Title: "EOF flush only when dirty and clean EOF; error yield only for a non-nil error", Floor: 2, Run: r01_7})
	register(&Rule{ID: "R01.8", Title: "field splitting shape in scanSegment / trimFirstSpace", Floor: 5, Run: r01_8})
}

// fieldNameConsts returns the FieldName constants of package parser: name -> value.
func fieldNameConsts(P *Program) map[string]string {
	out := map[string]string{}
	sc := P.Parser.Pkg.Scope()
	for _, nm := range sc.Names() {
		k, ok := sc.Lookup(nm).(*types.Const)
		if !ok || !typeIs(k.Type(), "parser", "FieldName") {
			continue
		}
		if k.Val().Kind() == constant.String {
			out[nm] = constant.StringVal(k.Val())
		}
	}
	return out
}

// globalBytesInit: the constant byte content a []byte global of sse is initialised with.
func globalBytesInit(P *Program, g *ssa.Global) (string, bool) {
	init := P.SSE.Func("init")
	if init == nil {
		return "", false
	}
	var val string
	found := false
	n := 0
	eachInstrDeep(init, func(in ssa.Instruction) {
		st, ok := in.(*ssa.Store)
		if !ok || st.Addr != ssa.Value(g) {
			return
		}
		n++
		switch v := st.Val.(type) {
		case *ssa.Convert:
			if s, ok := constString(v.X); ok {
				val, found = s, true
			}
		case *ssa.Slice:
			if al, ok := v.X.(*ssa.Alloc); ok {
				arr, okA := deref(al.Type()).Underlying().(*types.Array)
				if !okA {
					return
				}
				buf := make([]byte, arr.Len())
				good := true
				for _, r := range *al.Referrers() {
					ia, ok := r.(*ssa.IndexAddr)
					if !ok {
						continue
					}
					idx, okI := constInt(ia.Index)
					for _, rr := range *ia.Referrers() {
						if s2, ok := rr.(*ssa.Store); ok && s2.Addr == ssa.Value(ia) {
							b, okB := constInt(s2.Val)
							if !okI || !okB || idx < 0 || int(idx) >= len(buf) {
								good = false
								continue
							}
							buf[idx] = byte(b)
						}
					}
				}
				if good {
					val, found = string(buf), true
				}
			}
		}
	})
	// the global must not be reassigned anywhere else
	for _, fn := range P.Funcs {
		if fn == init {
			continue
		}
		eachInstr(fn, func(in ssa.Instruction) {
			if st, ok := in.(*ssa.Store); ok && st.Addr == ssa.Value(g) {
				found = false
			}
		})
	}
	return val, found && n == 1
}

func r01_1(c *Ctx) {
	P := c.P
	consts := fieldNameConsts(P)
	K := map[string]string{} // value -> const name, without the comment sentinel
	comment := ""
	for nm, v := range consts {
		if v == ":" {
			comment = nm
			continue
		}
		K[v] = nm
	}
	if len(K) < 4 || comment == "" {
		c.undecided("parser:FieldName-constants", "-", "expected the data/event/retry/id constants and the comment sentinel in package parser")
		return
	}
	// (i) getFieldName
	gf := P.Fn("parser.getFieldName")
	if gf == nil {
		// the name decision may be written in place in scanSegment: chunk[:colonPos] compared with the names
		if ssf := P.Fn("(*parser.FieldParser).scanSegment"); ssf != nil && len(ssf.Params) == 3 {
			eq, _ := inlineFieldNameDecision(ssf, ssf.Params[1])
			if len(eq) == 0 {
				c.anchor("parser.getFieldName (or an in-place name decision in scanSegment)")
			} else {
				seen := map[string]bool{}
				for e, v := range eq {
					c.check(K[v] != "", "parser.getFieldName:case("+v+")", P.pos(e.From.Instrs[len(e.From.Instrs)-1].Pos()), "accepts "+v+" exactly when the text before the colon equals it (decided in place)", "the in-place field-name decision accepts a name that is not a field-name constant")
					seen[v] = true
				}
				for v := range K {
					if !seen[v] {
						c.bad("parser.getFieldName:case("+v+")", P.pos(ssf.Pos()), "the in-place field-name decision has no accepting case for field name "+v+": such fields are dropped by the decoder")
					}
				}
				c.ok("parser.getFieldName:default", P.pos(ssf.Pos()), "every other name falls through to the blank-line / comment / ignore branches")
			}
		} else {
			c.anchor("parser.getFieldName")
		}
	} else {
		seen := map[string]bool{}
		hasDefault := false
		for _, ret := range returnsOf(gf) {
			if len(ret.Results) != 2 {
				continue
			}
			s, okS := constString(ret.Results[0])
			b, okB := constBool(ret.Results[1])
			if !okS && okB && b && stripConvAll(ret.Results[0]) == ssa.Value(gf.Params[0]) {
				// the input itself is returned (converted), under equality with one of several constants
				// (`case A, B, C: return name, true`): every path to this return passes such an equality
				eq := map[cfgEdge]string{}
				for _, ifi := range ifsIn(gf) {
					cnd := decodeIf(ifi)
					if cnd.Y == nil || (cnd.Op != token.EQL && cnd.Op != token.NEQ) {
						continue
					}
					if k, ok := constString(cnd.Y); ok && stripConvAll(cnd.X) == ssa.Value(gf.Params[0]) {
						eq[cfgEdge{ifi.Block(), cnd.succWhen(cnd.Op == token.EQL)}] = k
					}
				}
				blocked := map[cfgEdge]bool{}
				for e := range eq {
					blocked[e] = true
				}
				guardedAll := len(eq) > 0 && !reachesAvoiding(entryPoint(gf), ret, nil, blocked)
				for e, v := range eq {
					if !reachesAvoiding(atEdge(e.From, e.Idx), ret, nil, nil) {
						continue
					}
					c.check(guardedAll && K[v] != "", "parser.getFieldName:case("+v+")", P.ipos(ret), "returns ("+v+", true) exactly when the input equals it", "getFieldName accepts a name that is not a field-name constant, or not under equality with it")
					seen[v] = true
				}
				continue
			}
			if !okS && okB && b {
				// table form: the accepted name is an element of a package-level table of names, returned
				// under equality of that element with the input
				if tbl, elem, ok := tableElement(P, ret.Results[0]); ok {
					g := false
					for _, ifi := range ifsIn(gf) {
						cnd := decodeIf(ifi)
						if cnd.Y == nil || cnd.Op != token.EQL {
							continue
						}
						x, y := stripConvAll(cnd.X), stripConvAll(cnd.Y)
						if ((x == elem && y == ssa.Value(gf.Params[0])) || (y == elem && x == ssa.Value(gf.Params[0]))) && edgeDominates(ifi.Block(), cnd.succWhen(true), ret.Block()) {
							g = true
						}
					}
					inLoop := len(loopsContaining(gf, ret.Block())) > 0 || len(loopsOf(gf)) > 0
					for _, v := range tbl {
						c.check(g && inLoop && K[v] != "", "parser.getFieldName:case("+v+")", P.ipos(ret), "returns ("+v+", true) exactly when the input equals it (table entry)", "getFieldName accepts a name that is not a field-name constant, or not under equality with it")
						seen[v] = true
					}
					continue
				}
			}
			if !okS || !okB {
				c.undecided("parser.getFieldName:return", P.ipos(ret), "non-constant return")
				continue
			}
			if b {
				// guarded by param == s
				g := false
				for _, ifi := range ifsIn(gf) {
					cnd := decodeIf(ifi)
					if cnd.Y == nil || cnd.Op != token.EQL {
						continue
					}
					if k, ok := constString(cnd.Y); ok && k == s && stripConvAll(cnd.X) == ssa.Value(gf.Params[0]) && edgeDominates(ifi.Block(), cnd.succWhen(true), ret.Block()) {
						g = true
					}
				}
				c.check(g && K[s] != "", "parser.getFieldName:case("+s+")", P.ipos(ret), "returns ("+s+", true) exactly when the input equals it", "getFieldName accepts a name that is not a field-name constant, or not under equality with it")
				seen[s] = true
			} else {
				hasDefault = s == ""
			}
		}
		for v := range K {
			if !seen[v] {
				c.bad("parser.getFieldName:case("+v+")", P.pos(gf.Pos()), "getFieldName has no accepting case for field name "+v+": such fields are dropped by the decoder")
			}
		}
		c.check(hasDefault, "parser.getFieldName:default", P.pos(gf.Pos()), "unknown names are rejected (\"\", false)", "getFieldName has no rejecting default")
	}
	// (ii) iterator switch, (iii) UnmarshalText switch
	if it := iteratorBody(P); it != nil {
		for v := range K {
			c.check(len(fieldNameEdges(it, v)) > 0, fnLabel(it)+":case("+v+")", P.pos(it.Pos()), "the interpreter has a case for "+v, "the stream interpreter has no case for field "+v)
		}
	} else {
		c.anchor("iterator body")
	}
	if um := P.Fn("(*Message).UnmarshalText"); um != nil {
		for v := range consts {
			vv := consts[v]
			c.check(len(fieldNameEdges(um, vv)) > 0, fnLabel(um)+":case("+vv+")", P.pos(um.Pos()), "UnmarshalText has a case for "+vv, "Message.UnmarshalText has no case for field "+vv)
		}
	} else {
		c.anchor("(*Message).UnmarshalText")
	}
	// (iv) maxFieldNameLength
	if mo, ok := P.Parser.Pkg.Scope().Lookup("maxFieldNameLength").(*types.Const); ok {
		m, _ := constant.Int64Val(mo.Val())
		mx := 0
		for v := range K {
			if len(v) > mx {
				mx = len(v)
			}
		}
		c.check(int(m) >= mx, "parser:maxFieldNameLength", P.pos(mo.Pos()), "maxFieldNameLength covers the longest field name", "maxFieldNameLength is smaller than the longest field name: that field is never recognised")
	} else {
		// the bound may be written as a literal in scanSegment; checked by R01.8
		c.ok("parser:maxFieldNameLength", "-", "no named bound (checked at its use in R01.8)")
	}
	// (v) encoder prefixes
	checkPrefix := func(fnName, want string, pick func(fn *ssa.Function) []ssa.Value) {
		fn := P.Fn(fnName)
		if fn == nil {
			c.anchor(fnName)
			return
		}
		vals := pick(fn)
		if len(vals) == 0 {
			c.bad(fnLabel(fn)+":prefix", P.pos(fn.Pos()), "no prefix constant found for this line writer")
			return
		}
		for _, v := range vals {
			a, ok := loadedFrom(v)
			g, isG := a.(*ssa.Global)
			if !ok || !isG {
				c.undecided(fnLabel(fn)+":prefix", P.pos(fn.Pos()), "prefix is not a package-level constant slice: "+describe(v))
				continue
			}
			s, ok := globalBytesInit(P, g)
			c.check(ok && s == want, fnLabel(fn)+":prefix("+g.Name()+")", P.pos(g.Pos()), "prefix constant is "+quote(want), "prefix constant "+g.Name()+" is "+quote(s)+", expected "+quote(want)+" (field name, colon, exactly one space): the decoder misreads or drops the field")
		}
	}
	argOfCall := func(callee string, idx int) func(fn *ssa.Function) []ssa.Value {
		return func(fn *ssa.Function) []ssa.Value {
			var out []ssa.Value
			eachInstrDeep(fn, func(in ssa.Instruction) {
				if call, ok := isModCall(in, callee); ok {
					out = append(out, call.Call.Args[idx])
				}
			})
			return out
		}
	}
	idV, evV, rtV, dtV := "", "", "", ""
	for v, nm := range K {
		switch nm {
		case "FieldNameID":
			idV = v
		case "FieldNameEvent":
			evV = v
		case "FieldNameRetry":
			rtV = v
		case "FieldNameData":
			dtV = v
		}
	}
	checkPrefix("(*Message).writeID", idV+": ", argOfCall("(*Message).writeMessageField", 3))
	checkPrefix("(*Message).writeType", evV+": ", argOfCall("(*Message).writeMessageField", 3))
	firstWrite := func(fn *ssa.Function) []ssa.Value {
		var out []ssa.Value
		eachInstrDeep(fn, func(in ssa.Instruction) {
			if ci, ok := isInvoke(in, "", "", "Write"); ok && len(out) == 0 {
				out = append(out, ci.Common().Args[0])
			}
		})
		return out
	}
	checkPrefix("(*Message).writeRetry", rtV+": ", firstWrite)
	// chunk.WriteTo: phi(data, comment) selected by isComment
	if cw := P.Fn("(*chunk).WriteTo"); cw != nil {
		// path-wise: the first write of every path is ": " on a path that established isComment and
		// "data: " on a path that established !isComment
		okSel := true
		seen := map[string]bool{}
		isCmV := func(v ssa.Value) bool { _, ok := isFieldLoad(v, "chunk", "isComment"); return ok }
		paths, okP := abstractPaths(cw, 4096, func(ssa.Value) (bool, bool) { return false, false })
		if !okP {
			okSel = false
		}
		for _, p := range paths {
			var first ssa.Value
			for _, in := range p.Instrs {
				if ci, ok := isInvoke(in, "", "", "Write"); ok {
					first = p.St.resolve(ci.Common().Args[0])
					break
				}
			}
			if first == nil {
				continue
			}
			a, ok := loadedFrom(first)
			g, isG := a.(*ssa.Global)
			if !ok || !isG {
				okSel = false
				break
			}
			s, ok := globalBytesInit(P, g)
			switch {
			case ok && s == ": " && pathEstablishes(p.St, factBool(isCmV, true)):
				seen["comment"] = true
			case ok && s == dtV+": " && pathEstablishes(p.St, factBool(isCmV, false)):
				seen["data"] = true
			default:
				okSel = false
			}
		}
		okSel = okSel && seen["comment"] && seen["data"]
		c.check(okSel, fnLabel(cw)+":prefix", P.pos(cw.Pos()), "chunks are written with \"data: \" and comments with \": \"", "chunk.WriteTo does not select \"data: \" for data and \": \" for comments")
	} else {
		c.anchor("(*chunk).WriteTo")
	}
}

func quote(s string) string {
	out := "\""
	for _, r := range s {
		switch r {
		case '\n':
			out += "\\n"
		case '\r':
			out += "\\r"
		default:
			out += string(r)
		}
	}
	return out + "\""
}

func r01_2(c *Ctx) {
	P := c.P
	ip := findIterParts(P)
	if ip == nil {
		c.anchor("iterator body")
		return
	}
	it := ip.fn
	fns := []*ssa.Function{it}
	if ip.doYield != nil {
		fns = append(fns, ip.doYield)
	}
	isZeroEvent := func(v ssa.Value) bool {
		k, ok := v.(*ssa.Const)
		return ok && k.Value == nil
	}
	type ycall struct {
		call  *ssa.Call
		isErr bool
	}
	var direct []ycall
	for _, fn := range fns {
		eachInstrDeep(fn, func(in ssa.Instruction) {
			call, ok := isYieldCall(in)
			if !ok {
				return
			}
			name := fnLabel(fn) + ":yield"
			if len(call.Call.Args) != 2 {
				c.undecided(name, P.ipos(call), "arity")
				return
			}
			ev, er := call.Call.Args[0], call.Call.Args[1]
			switch {
			case isNilConst(er):
				c.ok(name+"(event)", P.ipos(call), "event yield carries a nil error")
				if fn == it {
					direct = append(direct, ycall{call, false})
				}
			case isZeroEvent(ev):
				c.ok(name+"(error)", P.ipos(call), "error yield carries the zero Event")
				if fn == it {
					direct = append(direct, ycall{call, true})
				}
			default:
				c.bad(name, P.ipos(call), "a yield carries both a non-zero Event and a possibly non-nil error: an event is yielded together with an error")
			}
		})
	}
	// doYield returns the yield's result
	if ip.doYield != nil {
		good := true
		for _, ret := range returnsOf(ip.doYield) {
			for _, s := range sources(ret.Results[0]) {
				if _, ok := isYieldCall(asInstr(s)); !ok {
					good = false
				}
			}
		}
		c.check(good, fnLabel(ip.doYield)+":returns-yield-result", P.pos(ip.doYield.Pos()), "the wrapper returns the consumer's answer", "the yield wrapper does not return the consumer's answer: stopping the iteration is not honoured")
	}
	isAnyYield := func(in ssa.Instruction) bool {
		if _, ok := isYieldCall(in); ok {
			return true
		}
		if call, ok := in.(*ssa.Call); ok && ip.doYieldMC != nil && call.Call.Value == ssa.Value(ip.doYieldMC) {
			return true
		}
		return false
	}
	// event yields in the iterator (direct or through the wrapper): false edge => no more yields
	eachInstrDeep(it, func(in ssa.Instruction) {
		call, ok := in.(*ssa.Call)
		if !ok || !isAnyYield(in) {
			return
		}
		isErr := false
		for _, d := range direct {
			if d.call == call && d.isErr {
				isErr = true
			}
		}
		name := fnLabel(it) + ":after-yield"
		if isErr {
			again := false
			forward([]startPoint{afterInstr(call)}, func(x ssa.Instruction) searchAction {
				if isAnyYield(x) {
					again = true
				}
				return cont
			})
			c.check(!again, name+"(error)", P.ipos(call), "nothing is yielded after the error", "something can be yielded after an error was yielded")
			return
		}
		var fe *cfgEdge
		for _, ifi := range ifsIn(it) {
			if s, ok := boolEdge(ifi, func(v ssa.Value) bool { return v == ssa.Value(call) }); ok {
				fe = &cfgEdge{ifi.Block(), 1 - s}
			}
		}
		if fe == nil {
			c.bad(name+"(event)", P.ipos(call), "the consumer's answer to an event yield is ignored: stopping early does not yield a prefix")
			return
		}
		again := false
		_, exit := forward([]startPoint{atEdge(fe.From, fe.Idx)}, func(x ssa.Instruction) searchAction {
			if isAnyYield(x) {
				again = true
			}
			return cont
		})
		c.check(!again && exit, name+"(event)", P.ipos(call), "a false answer leads to return without further yields", "after the consumer stopped, another event or error can still be yielded")
	})
}

func asInstr(v ssa.Value) ssa.Instruction {
	in, _ := v.(ssa.Instruction)
	return in
}

// interpParts: cells of the interpreter inside the iterator.
type interpParts struct {
	*iterParts
	typCell   *ssa.Alloc
	sb        *ssa.Alloc
	idCell    ssa.Value // free variable holding lastEventID
	onRetry   ssa.Value // free variable holding the retry callback
	loopYield *ssa.Call // the doYield call inside the loop
	tailYield *ssa.Call // the doYield call after the loop
	dirtyHead ssa.Value
}

func findInterp(P *Program) *interpParts {
	ip := findIterParts(P)
	if ip == nil || ip.next == nil || ip.doYieldMC == nil {
		return nil
	}
	x := &interpParts{iterParts: ip}
	it := ip.fn
	// doYield's bindings: yield cell, lastEventID freevar, typ cell
	for i, b := range ip.doYieldMC.Bindings {
		fv := ip.doYield.FreeVars[i]
		if deref(fv.Type()).String() != "string" {
			continue
		}
		if al, ok := b.(*ssa.Alloc); ok {
			x.typCell = al
		} else if f2, ok := b.(*ssa.FreeVar); ok {
			x.idCell = f2
		}
	}
	eachInstrDeep(it, func(in ssa.Instruction) {
		if al, ok := in.(*ssa.Alloc); ok && deref(al.Type()).String() == "strings.Builder" {
			x.sb = al
		}
		if call, ok := in.(*ssa.Call); ok && call.Call.Value == ssa.Value(ip.doYieldMC) {
			if len(loopsContaining(it, call.Block())) > 0 {
				x.loopYield = call
			} else {
				x.tailYield = call
			}
		}
	})
	for _, fv := range it.FreeVars {
		if deref(fv.Type()).String() == "func(int64)" {
			x.onRetry = fv
		}
	}
	if x.loopYield != nil {
		for _, ifi := range ifsIn(it) {
			if _, isPhi := ifi.Cond.(*ssa.Phi); isPhi && edgeDominates(ifi.Block(), 0, x.loopYield.Block()) {
				x.dirtyHead = ifi.Cond
			}
		}
	}
	return x
}

func (x *interpParts) isTypStore(in ssa.Instruction) (*ssa.Store, bool) {
	st, ok := in.(*ssa.Store)
	return st, ok && x.typCell != nil && st.Addr == ssa.Value(x.typCell)
}
func (x *interpParts) isIDStore(in ssa.Instruction) (*ssa.Store, bool) {
	st, ok := in.(*ssa.Store)
	return st, ok && x.idCell != nil && st.Addr == x.idCell
}
func (x *interpParts) isSBCall(in ssa.Instruction, method string) bool {
	call, ok := isStaticCall(in, "(*strings.Builder)."+method)
	return ok && x.sb != nil && call.Call.Args[0] == ssa.Value(x.sb)
}
func (x *interpParts) isOnRetryCall(in ssa.Instruction) bool {
	call, ok := in.(*ssa.Call)
	if !ok || x.onRetry == nil || call.Call.StaticCallee() != nil || call.Call.IsInvoke() {
		return false
	}
	a, ok := loadedFrom(call.Call.Value)
	return ok && a == x.onRetry
}

func r01_3(c *Ctx) {
	P := c.P
	x := findInterp(P)
	if x == nil || x.loopYield == nil || x.typCell == nil || x.sb == nil {
		c.anchor("interpreter cells (type, data builder, in-loop dispatch)")
		return
	}
	it := x.fn
	var te *cfgEdge
	for _, ifi := range ifsIn(it) {
		if s, ok := boolEdge(ifi, func(v ssa.Value) bool { return v == ssa.Value(x.loopYield) }); ok {
			te = &cfgEdge{ifi.Block(), s}
		}
	}
	if te == nil {
		c.bad(fnLabel(it)+":dispatch", P.ipos(x.loopYield), "the in-loop dispatch does not test the consumer's answer")
		return
	}
	start := atEdge(te.From, te.Idx)
	missTyp := reachesAvoiding(start, x.next, func(in ssa.Instruction) bool {
		st, ok := x.isTypStore(in)
		if !ok {
			return false
		}
		s, isS := constString(st.Val)
		return isS && s == ""
	}, nil)
	c.check(!missTyp, fnLabel(it)+":dispatch-resets-type", P.ipos(x.loopYield), "after a dispatch the type buffer is reset to \"\" before the next field", "after a dispatch a path reaches the next field without resetting the event type: the type leaks into the next event")
	missSB := reachesAvoiding(start, x.next, func(in ssa.Instruction) bool { return x.isSBCall(in, "Reset") }, nil)
	c.check(!missSB, fnLabel(it)+":dispatch-resets-data", P.ipos(x.loopYield), "after a dispatch the data buffer is reset", "after a dispatch a path reaches the next field without resetting the data buffer: data leaks into the next event")
	// the ID buffer is not stored on the dispatch path
	touched := false
	forward([]startPoint{start}, func(in ssa.Instruction) searchAction {
		if in == ssa.Instruction(x.next) {
			return stopPath
		}
		if _, ok := x.isIDStore(in); ok {
			touched = true
		}
		return cont
	})
	c.check(!touched, fnLabel(it)+":dispatch-keeps-id", P.ipos(x.loopYield), "the last-event-ID buffer persists across dispatches", "the last-event-ID buffer is overwritten on dispatch: it must persist until another id field is received")
}

func r01_4(c *Ctx) {
	P := c.P
	x := findInterp(P)
	if x == nil || x.loopYield == nil || x.dirtyHead == nil {
		c.anchor("interpreter loop / dirty flag")
		return
	}
	it := x.fn
	head, ok := x.dirtyHead.(*ssa.Phi)
	if !ok {
		c.undecided(fnLabel(it)+":dirty", P.pos(it.Pos()), "dirty is not a loop-carried phi")
		return
	}
	// initial value false
	initOK := false
	var latchVal ssa.Value
	for i, e := range head.Edges {
		pred := head.Block().Preds[i]
		if !head.Block().Dominates(pred) {
			if b, isC := constBool(e); isC && !b {
				initOK = true
			}
		} else {
			latchVal = e
		}
	}
	c.check(initOK, fnLabel(it)+":dirty-initial", P.pos(it.Pos()), "dirty starts false", "dirty does not start false: an empty stream would dispatch an event")
	merge, ok := latchVal.(*ssa.Phi)
	nLatch := 0
	for i := range head.Edges {
		if head.Block().Dominates(head.Block().Preds[i]) {
			nLatch++
		}
	}
	if nLatch > 1 {
		// every path of the body jumps straight back to the loop header (no separate merge block): the header's
		// own phi carries one value per path
		merge, ok = head, true
	}
	if !ok {
		c.undecided(fnLabel(it)+":dirty-merge", P.pos(it.Pos()), "the per-iteration dirty value is not a phi over the switch paths")
		return
	}
	// body entry: true edge of Parser.Next
	var bodyE *cfgEdge
	for _, ifi := range ifsIn(it) {
		if s, ok := boolEdge(ifi, func(v ssa.Value) bool { return v == ssa.Value(x.next) }); ok {
			bodyE = &cfgEdge{ifi.Block(), s}
		}
	}
	if bodyE == nil {
		c.anchor("loop body entry")
		return
	}
	// enumerate acyclic paths from the body entry to the merge block
	type path struct {
		blocks []*ssa.BasicBlock
	}
	var paths [][]*ssa.BasicBlock
	var dfs func(b *ssa.BasicBlock, cur []*ssa.BasicBlock, seen map[*ssa.BasicBlock]bool)
	dfs = func(b *ssa.BasicBlock, cur []*ssa.BasicBlock, seen map[*ssa.BasicBlock]bool) {
		if len(paths) > 4096 {
			return
		}
		cur = append(cur, b)
		if b == merge.Block() {
			paths = append(paths, append([]*ssa.BasicBlock(nil), cur...))
			return
		}
		if seen[b] {
			return
		}
		seen[b] = true
		for _, s := range b.Succs {
			dfs(s, cur, seen)
		}
		delete(seen, b)
	}
	dfs(bodyE.From.Succs[bodyE.Idx], nil, map[*ssa.BasicBlock]bool{})
	if len(paths) == 0 {
		c.undecided(fnLabel(it)+":dirty-paths", P.pos(it.Pos()), "no path from the loop body to the dirty merge")
		return
	}
	for _, p := range paths {
		effects := ""
		dispatch := false
		for _, b := range p[:len(p)-1] {
			for _, in := range b.Instrs {
				if x.isSBCall(in, "WriteString") || x.isSBCall(in, "WriteByte") || x.isSBCall(in, "Write") || x.isSBCall(in, "WriteRune") {
					effects += "data "
				}
				if _, ok := x.isTypStore(in); ok {
					effects += "type "
				}
				if _, ok := x.isIDStore(in); ok {
					effects += "id "
				}
				if x.isOnRetryCall(in) {
					effects += "retry "
				}
				if in == ssa.Instruction(x.loopYield) {
					dispatch = true
				}
			}
		}
		last := p[len(p)-2]
		var val ssa.Value
		for i, pr := range merge.Block().Preds {
			if pr == last {
				val = merge.Edges[i]
			}
		}
		name := fnLabel(it) + ":dirty-path(" + pathLabel(p) + ")"
		pos := P.pos(last.Instrs[0].Pos())
		if !last.Instrs[0].Pos().IsValid() {
			pos = P.ipos(last.Instrs[len(last.Instrs)-1])
		}
		b, isC := constBool(val)
		switch {
		case dispatch:
			c.check(isC && !b, name, pos, "dispatch path leaves dirty false", "after a dispatch dirty is not false: the same event is dispatched again")
		case effects != "":
			c.check(isC && b, name, pos, "path changing "+effects+"marks dirty", "a path that changes interpreter state ("+effects+") does not set dirty: the event is lost (not dispatched)")
		default:
			// a path without effect must be one on which the field really is ignored: an accepted data, event
			// or id field (id: one without NUL) is "seen" and makes the event dispatchable even when it changes
			// nothing (`id: 5` twice)
			accepted := ""
			isVal := func(v ssa.Value) bool { _, ok := isFieldLoad(v, "parser.Field", "Value"); return ok }
			tookHasNUL := false
			for _, e := range noNULEdges(it, isVal) {
				for i := 0; i+1 < len(p); i++ {
					if p[i] == e.From && len(e.From.Succs) == 2 && e.From.Succs[1-e.Idx] == p[i+1] && e.From.Succs[0] != e.From.Succs[1] {
						tookHasNUL = true
					}
				}
			}
			for _, b := range p[:len(p)-1] {
				switch {
				case inFieldCase(it, "data", b):
					accepted = "data"
				case inFieldCase(it, "event", b):
					accepted = "event"
				case inFieldCase(it, "id", b) && !tookHasNUL:
					accepted = "id"
				}
			}
			if accepted != "" {
				c.bad(name, pos, "a path through the "+accepted+" case on which the field was accepted (for id: not found to hold a NUL) neither records it nor sets dirty: a field that was seen must make the event dispatchable even when it changes nothing (an id equal to the current one, an empty id, …)")
				continue
			}
			c.check(val == ssa.Value(head), name, pos, "path without state change leaves dirty unchanged", "a path that changes nothing (ignored field) alters dirty: an ignored field (NUL id, invalid retry, unknown) produces or suppresses an event")
		}
	}
}

func pathLabel(p []*ssa.BasicBlock) string {
	s := ""
	for i, b := range p {
		if i > 0 {
			s += ">"
		}
		s += itoa(b.Index)
	}
	return s
}

// noNULGuard: target block is dominated by the edge on which value v has no NUL byte.
func noNULGuard(fn *ssa.Function, target *ssa.BasicBlock, isV func(ssa.Value) bool) bool {
	for _, e := range noNULEdges(fn, isV) {
		if edgeDominates(e.From, e.Idx, target) {
			return true
		}
	}
	return false
}

// noNULEdges: the branch edges on which value v is known to hold no NUL byte (the other successor of the
// same branch is the edge on which it holds one).
func noNULEdges(fn *ssa.Function, isV func(ssa.Value) bool) []cfgEdge {
	var out []cfgEdge
	for _, ifi := range ifsIn(fn) {
		// strings.IndexByte(v, 0) compared with -1 / 0
		op, k, succ, ok := cmpConstEdge(ifi, func(x ssa.Value) bool {
			call, ok := isStaticCall(x, "strings.IndexByte")
			if !ok || !isV(call.Call.Args[0]) {
				return false
			}
			b, isK := constInt(call.Call.Args[1])
			return isK && b == 0
		})
		if ok {
			switch {
			case op == token.NEQ && k == -1:
				out = append(out, cfgEdge{ifi.Block(), 1 - succ})
			case op == token.EQL && k == -1:
				out = append(out, cfgEdge{ifi.Block(), succ})
			case op == token.GEQ && k == 0:
				out = append(out, cfgEdge{ifi.Block(), 1 - succ})
			case op == token.LSS && k == 0:
				out = append(out, cfgEdge{ifi.Block(), succ})
			}
			continue
		}
		if s, ok := boolEdge(ifi, func(x ssa.Value) bool {
			if call, ok := isStaticCall(x, "strings.Contains"); ok {
				k, isK := constString(call.Call.Args[1])
				return isV(call.Call.Args[0]) && isK && k == "\x00"
			}
			if call, ok := isStaticCall(x, "strings.ContainsRune"); ok {
				k, isK := constInt(call.Call.Args[1])
				return isV(call.Call.Args[0]) && isK && k == 0
			}
			return false
		}); ok {
			out = append(out, cfgEdge{ifi.Block(), 1 - s})
		}
	}
	return out
}

func r01_5(c *Ctx) {
	P := c.P
	x := findInterp(P)
	if x == nil || x.idCell == nil {
		c.anchor("interpreter's last-event-ID cell")
		return
	}
	it := x.fn
	isVal := func(v ssa.Value) bool { _, ok := isFieldLoad(v, "parser.Field", "Value"); return ok }
	n := 0
	// every store to the cell (anywhere: the cell is read()'s parameter cell)
	root := cellRoot(x.idCell)
	_, stores, esc := cellStores(root)
	if esc {
		c.bad(fnLabel(it)+":id-cell-escapes", P.pos(it.Pos()), "the last-event-ID buffer's address escapes")
	}
	for _, st := range stores {
		if _, isParam := st.Val.(*ssa.Parameter); isParam && st.Parent() != it {
			continue // seeding by read()'s parameter
		}
		n++
		name := fnLabel(st.Parent()) + ":store(last-event-id)"
		if st.Parent() != it {
			c.bad(name, P.ipos(st), "the last-event-ID buffer is written outside the interpreter")
			continue
		}
		c.check(isVal(st.Val) && inFieldCase(it, "id", st.Block()) && noNULGuard(it, st.Block(), isVal), name, P.ipos(st),
			"the buffer is set to the id field's value only when it contains no NUL", "the last-event-ID buffer is stored without the NUL check (or outside the id case / not from the field value): an id containing NUL must be ignored")
	}
	if n == 0 {
		c.bad(fnLabel(it)+":store(last-event-id)", P.pos(it.Pos()), "the id field never updates the last-event-ID buffer")
	}
	// Message.UnmarshalText: ID.value store under the NUL guard
	um := P.Fn("(*Message).UnmarshalText")
	if um == nil {
		c.anchor("(*Message).UnmarshalText")
		return
	}
	m := 0
	eachInstrDeep(um, func(in ssa.Instruction) {
		st, ok := in.(*ssa.Store)
		if !ok {
			return
		}
		base, ok := isFieldSel(st.Addr, "messageField", "value")
		if !ok {
			return
		}
		guardBlock := st.Block()
		if _, ok := isFieldSel(rootParentField(base), "Message", "ID"); !ok {
			// a local composite (EventID{messageField{value: v, set: true}}, possibly nested) that is then
			// copied into e.ID
			root, isAl := rootAddr(base).(*ssa.Alloc)
			if !isAl {
				return
			}
			copied := false
			cur := ssa.Value(root)
			for depth := 0; depth < 4 && !copied; depth++ {
				var next ssa.Value
				eachInstrDeep(um, func(x ssa.Instruction) {
					cp, ok := x.(*ssa.Store)
					if !ok {
						return
					}
					u, ok := cp.Val.(*ssa.UnOp)
					if !ok || u.Op != token.MUL || rootAddr(u.X) != cur {
						return
					}
					if _, ok := isFieldSel(cp.Addr, "Message", "ID"); ok {
						copied = true
						guardBlock = cp.Block()
						return
					}
					if al, ok := rootAddr(cp.Addr).(*ssa.Alloc); ok && ssa.Value(al) != cur {
						next = al
					}
				})
				if next == nil {
					break
				}
				cur = next
			}
			if !copied {
				return
			}
		}
		m++
		c.check(isVal(st.Val) && noNULGuard(um, guardBlock, isVal), fnLabel(um)+":store(ID)", P.ipos(st), "Message.ID is set only from an id value without NUL", "Message.UnmarshalText stores an id value without the NUL check")
	})
	if m == 0 {
		c.bad(fnLabel(um)+":store(ID)", P.pos(um.Pos()), "UnmarshalText never sets the ID")
	}
}

// rootParentField: for &x.ID.messageField returns &x.ID
func rootParentField(v ssa.Value) ssa.Value {
	if fa, ok := v.(*ssa.FieldAddr); ok {
		if _, n, _, _ := fieldSel(fa); n == "messageField" {
			return fa.X
		}
	}
	return v
}

func r01_7(c *Ctx) {
	P := c.P
	x := findInterp(P)
	if x == nil || x.perr == nil {
		c.anchor("interpreter tail (Parser.Err after the loop)")
		return
	}
	it := x.fn
	isPerr := func(v ssa.Value) bool { return v == ssa.Value(x.perr) }
	isEOFCmp := func(v ssa.Value) bool {
		b, ok := v.(*ssa.BinOp)
		if !ok || b.Op != token.EQL {
			return false
		}
		isEOF := func(y ssa.Value) bool {
			a, ok := loadedFrom(y)
			if !ok {
				return false
			}
			g, ok := a.(*ssa.Global)
			return ok && g.Name() == "EOF" && g.Pkg.Pkg.Path() == "io"
		}
		return (isPerr(b.X) && isEOF(b.Y)) || (isPerr(b.Y) && isEOF(b.X))
	}
	if x.tailYield == nil {
		c.bad(fnLabel(it)+":eof-flush", P.pos(it.Pos()), "no pending-event flush after the loop: a terminated last event is lost at a clean end of stream")
	} else {
		dirtyOK := x.dirtyHead != nil && guardedByBool(it, x.tailYield.Block(), func(v ssa.Value) bool { return v == x.dirtyHead }, true)
		eofOK := guardedByBool(it, x.tailYield.Block(), isEOFCmp, true)
		c.check(dirtyOK && eofOK && instrDominates(x.perr, x.tailYield), fnLabel(it)+":eof-flush", P.ipos(x.tailYield),
			"the pending event is flushed only when dirty and the parser reports io.EOF (clean end)", "the pending event is flushed without (dirty && err == io.EOF): a cut-off event is dispatched, or an empty one")
		// ... and always then: no further condition stands between (dirty && EOF) and the flush
		if dirtyOK && eofOK && x.tailYield.Parent() == it {
			skipped := false
			nEdges := 0
			for _, g := range edgesWhereAll(it, factBool(func(v ssa.Value) bool { return v == x.dirtyHead }, true), factBool(isEOFCmp, true)) {
				nEdges++
				for _, ret := range returnsOf(it) {
					if reachesAvoiding(atEdge(g.From, g.Idx), ret, func(in ssa.Instruction) bool { return in == ssa.Instruction(x.tailYield) }, nil) {
						skipped = true
					}
				}
			}
			if nEdges > 0 {
				c.check(!skipped, fnLabel(it)+":eof-flush-always", P.ipos(x.tailYield), "a dirty event is always flushed at a clean end of stream",
					"a further condition stands between (dirty && err == io.EOF) and the flush: a pending event that lacks what it asks for (data, a type) is dropped at a clean end of stream, although an id-only or retry-only event is dispatched everywhere else; the client's last event ID then stays behind")
			}
		}
	}
	n := 0
	eachInstrDeep(it, func(in ssa.Instruction) {
		call, ok := isYieldCall(in)
		if !ok || len(call.Call.Args) != 2 || isNilConst(call.Call.Args[1]) {
			return
		}
		n++
		src := sources(call.Call.Args[1])
		good := len(src) == 1 && isPerr(src[0]) && guardedByNil(it, call.Block(), isPerr, false)
		c.check(good, fnLabel(it)+":error-yield", P.ipos(call), "the error yield passes the parser's error, only when it is non-nil", "the error yield is not (the parser's error, under err != nil)")
	})
	if n == 0 {
		c.bad(fnLabel(it)+":error-yield", P.pos(it.Pos()), "the iterator never yields an error")
	}
}

func r01_8(c *Ctx) {
	P := c.P
	ss := P.Fn("(*parser.FieldParser).scanSegment")
	tf := P.Fn("parser.trimFirstSpace")
	if ss == nil || len(ss.Params) != 3 {
		c.anchor("parser.scanSegment")
		return
	}
	chunk := ss.Params[1]
	isChunkV := func(x ssa.Value) bool { return x == ssa.Value(chunk) || carriesOnly(x, chunk) }
	// trimFirstSpace: removes exactly one leading ' ' (path-wise, both directions); when the helper does
	// not exist the values must be trimmed with strings.TrimPrefix(x, " ") (checked at the value stores)
	if tf == nil {
		c.ok("parser.trimFirstSpace", "-", "no trimFirstSpace helper: values are required to be trimmed with strings.TrimPrefix(x, \" \")")
	} else {
		good := len(tf.Params) == 1
		why := ""
		var sliceRet, sameRet bool
		if good {
			p0 := tf.Params[0]
			isLen := isLenCallOf(func(v ssa.Value) bool { return v == ssa.Value(p0) })
			paths, okP := abstractPaths(tf, 256, nil)
			if !okP || len(paths) == 0 {
				good = false
				why = "too many paths"
			}
			for _, p := range paths {
				firstIsSpace, firstNotSpace, empty := false, false, false
				for e := range p.St.Edges {
					if len(e.From.Instrs) == 0 {
						continue
					}
					ifi, isIf := e.From.Instrs[len(e.From.Instrs)-1].(*ssa.If)
					if !isIf {
						continue
					}
					cnd := decodeIf(ifi)
					if cnd.Y == nil {
						// strings.HasPrefix(c, " "): true = starts with a space, false = empty or another first byte
						if hp, isHP := isStaticCall(cnd.X, "strings.HasPrefix"); isHP && hp.Call.Args[0] == ssa.Value(p0) {
							if k, isK := constString(hp.Call.Args[1]); isK && k == " " {
								if e.Idx == cnd.succWhen(true) {
									firstIsSpace = true
								} else {
									firstNotSpace = true
								}
							}
						}
					}
					if cnd.Y != nil && (cnd.Op == token.EQL || cnd.Op == token.NEQ) {
						if k, isK := constInt(cnd.Y); isK && k == ' ' {
							var x, ix ssa.Value
							switch q := cnd.X.(type) {
							case *ssa.Index:
								x, ix = q.X, q.Index
							case *ssa.Lookup:
								x, ix = q.X, q.Index
							}
							if i0, ok := constInt(ix); ok && i0 == 0 && x == ssa.Value(p0) {
								if e.Idx == cnd.succWhen(cnd.Op == token.EQL) {
									firstIsSpace = true
								} else {
									firstNotSpace = true
								}
							}
						}
						if k, isK := constString(cnd.Y); isK && k == "" && cnd.X == ssa.Value(p0) {
							if e.Idx == cnd.succWhen(cnd.Op == token.EQL) {
								empty = true
							}
						}
					}
					if l, h, okE, ok := intEdgeSets(ifi, isLen, 0); ok && okE[e.Idx] && l[e.Idx] == 0 && h[e.Idx] == 0 {
						empty = true
					}
				}
				switch v := p.St.resolve(p.Ret.Results[0]).(type) {
				case *ssa.Slice:
					lo, isK := constInt(v.Low)
					if v.X == ssa.Value(p0) && isK && lo == 1 && v.High == nil && firstIsSpace {
						sliceRet = true
					} else {
						good = false
						why = "a path returns something other than c[1:] under c[0] == ' '"
					}
				case *ssa.Parameter:
					if v == p0 && (empty || firstNotSpace) {
						sameRet = true
					} else {
						good = false
						why = "a path returns the value unchanged without having established that it is empty or does not start with a space (e.g. a value that is exactly one space keeps it)"
					}
				default:
					good = false
					why = "an unrecognised result"
				}
			}
		}
		c.check(good && sliceRet && sameRet, "parser.trimFirstSpace", P.pos(tf.Pos()), "removes exactly one leading space when present, nothing otherwise", "trimFirstSpace does not remove exactly one leading U+0020 (when present): field values gain or lose spaces ("+why+")")
	}
	// every accepted line sets both parts of the result: the caller reuses one Field for the whole stream, so a
	// path that reports a field without storing its value (or name) hands out the previous line's
	if len(ss.Params) == 3 {
		out := ss.Params[2]
		paths, okP := abstractPaths(ss, 4096, nil)
		if !okP || len(paths) == 0 {
			c.undecided(fnLabel(ss)+":accepted-sets-name-and-value", P.pos(ss.Pos()), "too many paths")
		} else {
			badAt := ""
			for _, p := range paths {
				if p.Ret == nil || len(p.Ret.Results) != 1 {
					continue
				}
				if b, isC := constBool(p.St.resolve(p.Ret.Results[0])); isC && !b {
					continue
				}
				setN, setV := false, false
				for _, in := range p.Instrs {
					st, ok := in.(*ssa.Store)
					if !ok {
						continue
					}
					if st.Addr == ssa.Value(out) {
						setN, setV = true, true
					}
					if fa, ok := st.Addr.(*ssa.FieldAddr); ok && fa.X == ssa.Value(out) {
						switch fa.Field {
						case 0:
							setN = true
						case 1:
							setV = true
						}
					}
				}
				if !setN || !setV {
					badAt = P.ipos(p.Ret)
				}
			}
			c.check(badAt == "", fnLabel(ss)+":accepted-sets-name-and-value", P.pos(ss.Pos()), "every path that accepts a line stores both Field.Name and Field.Value",
				"a path that accepts a line (return at "+badAt+") does not store both Field.Name and Field.Value: the Field is reused by the caller, so the previous line's name or value is delivered with this one (a line without a colon, e.g. `data`, repeats the last value)")
		}
	}
	// colon position: strings.IndexByte(chunk, ':')
	var colon *ssa.Call
	eachInstrDeep(ss, func(in ssa.Instruction) {
		if call, ok := isStaticCall(in, "strings.IndexByte"); ok && isChunkV(call.Call.Args[0]) {
			if k, ok := constInt(call.Call.Args[1]); ok && k == ':' {
				colon = call
			}
		}
	})
	if colon == nil {
		c.bad("parser.scanSegment:colon", P.pos(ss.Pos()), "the field name is not split at the first colon (strings.IndexByte(chunk, ':'))")
		return
	}
	// the "colon position or end of line" value: a phi (or a captured local) that holds the IndexByte
	// result, or len(chunk) where that was -1
	isColonPos := func(x ssa.Value) bool {
		src := sources(x)
		hasColon := false
		for _, sv := range src {
			switch {
			case sv == ssa.Value(colon):
				hasColon = true
			case isLenOf(sv, chunk):
			default:
				return false
			}
		}
		return hasColon && len(src) >= 2
	}
	found := false
	eachInstrDeep(ss, func(in ssa.Instruction) {
		if v, ok := in.(ssa.Value); ok && isColonPos(v) {
			found = true
		}
	})
	if !found {
		c.undecided("parser.scanSegment:colon-or-end", P.ipos(colon), "no `colon position or end of line` value found")
		return
	}
	// name lookup: getFieldName(chunk[:colonPos])
	var gfn *ssa.Call
	eachInstrDeep(ss, func(in ssa.Instruction) {
		if call, ok := isModCall(in, "parser.getFieldName"); ok {
			if sl, ok := call.Call.Args[0].(*ssa.Slice); ok && isChunkV(sl.X) && sl.Low == nil && sl.High != nil && isColonPos(sl.High) {
				gfn = call
			}
		}
	})
	inlineEq, inlineName := map[cfgEdge]string{}, ssa.Value(nil)
	if gfn == nil {
		inlineEq, inlineName = inlineFieldNameDecision(ss, chunk)
		if inlineName != nil {
			if sl, ok := stripConvAll(inlineName).(*ssa.Slice); !ok || !isColonPos(sl.High) {
				inlineEq = map[cfgEdge]string{}
			}
		}
	}
	c.check(gfn != nil || len(inlineEq) > 0, "parser.scanSegment:name", P.ipos(colon), "the field name is the text before the first colon (or the whole line)", "the field name is not chunk[:colonPos]")
	// the too-long-name early exit must not reject valid names: bound >= max name length
	for _, ifi := range ifsIn(ss) {
		// the colon position, or the length of the line (a line without a colon is a name as a whole)
		isLineLen := isLenCallOf(isChunkV)
		op, k, succ, ok := cmpConstEdge(ifi, func(v ssa.Value) bool { return v == ssa.Value(colon) || isLineLen(v) })
		if !ok || (op != token.GTR && op != token.GEQ) {
			continue
		}
		mx := 0
		for _, v := range fieldNameConsts(P) {
			if v != ":" && len(v) > mx {
				mx = len(v)
			}
		}
		bound := int(k)
		if op == token.GEQ {
			bound--
		}
		_ = succ
		c.check(bound >= mx, "parser.scanSegment:name-length-bound", P.pos(ifi.Pos()), "the early rejection of long names keeps every valid field name", "the name-length shortcut rejects colon positions of valid field names (bound "+itoa(bound)+" < "+itoa(mx)+")")
	}
	// value stores
	isOKext := func(v ssa.Value) bool {
		e, ok := v.(*ssa.Extract)
		return ok && gfn != nil && e.Tuple == ssa.Value(gfn) && e.Index == 1
	}
	nVal := 0
	for _, st := range slSinks(P, "parser.Field", "Value") {
		if st.Parent() != ss {
			continue
		}
		nVal++
		name := "parser.scanSegment:value"
		switch v := st.Val.(type) {
		case *ssa.Const:
			s, _ := constString(v)
			// blank line: chunk == ""
			g := false
			for _, ifi := range ifsIn(ss) {
				cnd := decodeIf(ifi)
				if cnd.Y == nil || cnd.Op != token.EQL || !isChunkV(cnd.X) {
					continue
				}
				if k, ok := constString(cnd.Y); ok && k == "" && edgeDominates(ifi.Block(), cnd.succWhen(true), st.Block()) {
					g = true
				}
			}
			if !g {
				// the same test written on the length: len(chunk) == 0
				g = intGuard(ss, st.Block(), func(v ssa.Value) bool { return isLenOf(v, chunk) }, 0, 0, 0)
			}
			c.check(s == "" && g, name+"(end-of-event)", P.ipos(st), "an empty field (end of event) is produced only for a blank line", "the end-of-event marker is produced for a non-blank line")
		case *ssa.Call:
			colonZero := func(at *ssa.BasicBlock) bool {
				// the merged `colon position or end of line` value is never negative when the raw IndexByte
				// result reaches the merge only where it was found non-negative
				domMin := int64(0)
				eachInstrDeep(ss, func(in ssa.Instruction) {
					phi, ok := in.(*ssa.Phi)
					if !ok || !isColonPos(phi) {
						return
					}
					for i, e := range phi.Edges {
						if e != ssa.Value(colon) {
							continue
						}
						isRaw := func(v ssa.Value) bool { return v == ssa.Value(colon) }
						if !predEstablishes(phi.Block().Preds[i], phi.Block(), factInt(isRaw, -1, 0, posInf), phi.Parent()) {
							domMin = -1
						}
					}
				})
				return intGuard(ss, at, isColonPos, domMin, 0, 0)
			}
			kind, why := restTrimmedKind(P, v, tf, chunk, isColonPos, 0)
			if kind == "" {
				c.bad(name, P.ipos(st), "the value is not the rest of the line after the colon with one leading space removed ("+why+")")
				continue
			}
			namedInline := false
			if len(inlineEq) > 0 && len(st.Block().Instrs) > 0 {
				blockedEq := map[cfgEdge]bool{}
				for e := range inlineEq {
					blockedEq[e] = true
				}
				namedInline = !reachesAvoiding(entryPoint(ss), st, nil, blockedEq)
			}
			if guardedByBool(ss, st.Block(), isOKext, true) || namedInline {
				c.check(kind == "colon+1", name+"(field)", P.ipos(st), "value = the text one past the colon, one leading space removed", "a named field's value does not start one past the colon")
			} else {
				g := colonZero(st.Block())
				c.check(g && (kind == "one" || kind == "colon+1"), name+"(comment)", P.ipos(st), "a comment is a line whose first character is the colon; its text starts after it", "a comment is produced for a line not starting with a colon, or its text offset is wrong")
			}
		default:
			c.undecided(name, P.ipos(st), "unrecognised value source "+describe(st.Val))
		}
	}
	if nVal < 3 {
		c.undecided("parser.scanSegment:value", P.pos(ss.Pos()), "expected value stores for field, end-of-event and comment")
	}
	// with comments kept, every line whose first character is the colon is accepted as a comment, whatever
	// its text (the encoder writes an empty comment line as ":" + line break and expects it back)
	isKeep := func(v ssa.Value) bool {
		_, ok := isFieldLoad(v, "parser.FieldParser", "keepComments")
		return ok
	}
	kept := edgesWhereAll(ss, factBool(isKeep, true), factInt(isColonPos, 0, 0, 0))
	if len(kept) == 0 {
		c.undecided("parser.scanSegment:comment-always-kept", P.pos(ss.Pos()), "no branch found on which comments are kept and the colon is the first character")
	} else {
		var rejects ssa.Instruction
		for _, g := range kept {
			forward([]startPoint{atEdge(g.From, g.Idx)}, func(in ssa.Instruction) searchAction {
				if r, ok := in.(*ssa.Return); ok && len(r.Results) == 1 {
					for _, sv := range sources(r.Results[0]) {
						if b, isB := constBool(sv); !isB || !b {
							rejects = r
						}
					}
				}
				return cont
			})
		}
		pos := P.pos(ss.Pos())
		if rejects != nil {
			pos = P.ipos(rejects)
		}
		c.check(rejects == nil, "parser.scanSegment:comment-always-kept", pos, "with comments kept, every line starting with a colon is accepted as a comment",
			"with comments kept, a line starting with a colon can still be rejected (e.g. when its text is empty): UnmarshalText drops comment lines that MarshalText wrote, so the round trip loses them")
	}
}

// ---------------------------------------------------------------------------
// R01.9: line-level scanning shape (FieldParser.Next, BOM, CRLF)

func init() {
	register(&Rule{ID: "R01.9", Title: "FieldParser.Next consumes exactly one terminated line per step", Floor: 5, Run: func(c *Ctx) { r01_9(c, "next") }})
	register(&Rule{ID: "R01.10", Title: "the BOM is stripped at most once, only at the start of the first token", Floor: 3, Run: func(c *Ctx) { r01_9(c, "bom") }})
	register(&Rule{ID: "R01.11", Title: "CR LF counts as one line terminator", Floor: 1, Run: func(c *Ctx) { r01_9(c, "crlf") }})
	p := properties["C01"]
	p.Rules = append(p.Rules, "R01.9", "R01.10", "R01.11")
	p.Explanation += " R01.9 line-level shape: FieldParser.Next consumes exactly the line NextChunk returned and hands that line to scanSegment, reports ErrUnexpectedEOF (without consuming) exactly when the remaining data has no line break, returns true only when scanSegment accepted a field and false only when the data is exhausted; the BOM (EF BB BF) is stripped only under removeBOM && !started && HasPrefix, marking the parser started, and the stream parser disables the strip once a token was started; NewlineIndex reports length 2 exactly for CR immediately followed by LF inside the string."
}

func r01_9(c *Ctx, part string) {
	P := c.P
	// (a) FieldParser.Next
	fn := P.Fn("(*parser.FieldParser).Next")
	if part != "next" {
		// handled below
	} else if fn == nil || len(fn.Params) != 2 {
		c.anchor("(*parser.FieldParser).Next")
	} else {
		recv, out := fn.Params[0], fn.Params[1]
		name := fnLabel(fn)
		var nc, ni, ss *ssa.Call
		isData := func(v ssa.Value) bool {
			b, ok := isFieldLoad(v, "parser.FieldParser", "data")
			return ok && (b == ssa.Value(recv) || carriesOnly(b, recv) || typeIs(b.Type(), "parser", "FieldParser"))
		}
		eachInstrDeep(fn, func(in ssa.Instruction) {
			if call, ok := isModCall(in, "parser.NextChunk"); ok && isData(call.Call.Args[0]) {
				nc = call
			}
			if call, ok := isModCall(in, "parser.NewlineIndex"); ok && isData(call.Call.Args[0]) {
				ni = call
			}
			if call, ok := isModCall(in, "(*parser.FieldParser).scanSegment"); ok {
				ss = call
			}
		})
		if (nc == nil && ni == nil) || ss == nil {
			c.bad(name+":shape", P.pos(fn.Pos()), "FieldParser.Next does not (split f.data at the first line break with NextChunk / NewlineIndex, hand the line to scanSegment)")
		} else {
			// the line source: NextChunk(f.data) → (line, rest, terminated), or NewlineIndex(f.data) → (i, n)
			// with line = f.data[:i], rest = f.data[i+n:], terminated = n != 0
			isExt := func(call *ssa.Call, i int) func(ssa.Value) bool {
				return func(v ssa.Value) bool { return carriesExtract(v, call, i) }
			}
			var isLine, isRest func(ssa.Value) bool
			var termT, termF fact
			if nc != nil {
				isRest = isExt(nc, 1)
				termT, termF = factBool(isExt(nc, 2), true), factBool(isExt(nc, 2), false)
				isLine = isExt(nc, 0)
			} else {
				isLen := isExt(ni, 1)
				termT, termF = factInt(isLen, 0, 1, posInf), factInt(isLen, 0, 0, 0)
				isLine = func(v ssa.Value) bool {
					sl, ok := v.(*ssa.Slice)
					return ok && isData(sl.X) && sl.Low == nil && sl.High != nil && isExt(ni, 0)(sl.High)
				}
				isRest = func(v ssa.Value) bool {
					sl, ok := v.(*ssa.Slice)
					if !ok || !isData(sl.X) || sl.High != nil || sl.Low == nil {
						return false
					}
					add, ok := sl.Low.(*ssa.BinOp)
					return ok && add.Op == token.ADD && ((isExt(ni, 0)(add.X) && isExt(ni, 1)(add.Y)) || (isExt(ni, 1)(add.X) && isExt(ni, 0)(add.Y)))
				}
			}
			// a value that reaches scanSegment through an inlined helper's result: every result is the
			// line, or "" together with a constant false beside it (the "no line" answer)
			var lineVal func(v ssa.Value, d int) bool
			lineVal = func(v ssa.Value, d int) bool {
				if d > 4 {
					return false
				}
				if isLine(v) {
					return true
				}
				if e, ok := v.(*ssa.Extract); ok {
					if call, ok := e.Tuple.(*ssa.Call); ok {
						if g := iifeCallee(call); g != nil {
							for _, r := range returnsOf(g) {
								if e.Index >= len(r.Results) {
									return false
								}
								rv := r.Results[e.Index]
								if sv, isS := constString(rv); isS && sv == "" {
									okFalse := false
									for _, other := range r.Results {
										if bv, isC := constBool(other); isC && !bv {
											okFalse = true
										}
									}
									if !okFalse {
										return false
									}
									continue
								}
								if !lineVal(rv, d+1) {
									return false
								}
							}
							return true
						}
					}
				}
				src := sources(v)
				if len(src) == 1 && src[0] != v {
					return lineVal(src[0], d+1)
				}
				return false
			}
			ext := func(i int) func(ssa.Value) bool {
				switch i {
				case 1:
					return isRest
				}
				return func(ssa.Value) bool { return false }
			}
			guardTerm := func(b *ssa.BasicBlock, want bool) bool {
				if want {
					return factGuards(fn, b, termT)
				}
				return factGuards(fn, b, termF)
			}
			outOK := ss.Call.Args[2] == ssa.Value(out) || carriesOnly(ss.Call.Args[2], out)
			c.check(len(ss.Call.Args) == 3 && lineVal(ss.Call.Args[1], 0) && outOK && guardTerm(ss.Block(), true),
				name+":line-to-scanSegment", P.ipos(ss), "the text before the first line break is scanned into the caller's Field, only when it was terminated", "scanSegment does not receive the terminated line returned by NextChunk (and the caller's Field)")
			// consumption
			nData := 0
			eachInstrDeep(fn, func(in ssa.Instruction) {
				st, ok := in.(*ssa.Store)
				if !ok {
					return
				}
				if b, ok := isFieldSel(st.Addr, "parser.FieldParser", "data"); ok && (b == ssa.Value(recv) || carriesOnly(b, recv) || st.Parent() != fn) {
					nData++
					before := instrDominates(st, ss) || !reachesAvoiding(entryPoint(fn), ss, func(x ssa.Instruction) bool { return x == ssa.Instruction(st) }, nil)
					c.check(ext(1)(st.Val) && guardTerm(st.Block(), true) && before, name+":consume", P.ipos(st),
						"f.data advances to NextChunk's remainder, only for a terminated line, before the line is scanned", "f.data is not advanced exactly to the remainder after a terminated line: a line is parsed twice or skipped")
				}
				if b, ok := isFieldSel(st.Addr, "parser.FieldParser", "err"); ok && (b == ssa.Value(recv) || carriesOnly(b, recv) || st.Parent() != fn) {
					c.check(isGlobalLoadPkg(st.Val, parserPath, "ErrUnexpectedEOF") && guardTerm(st.Block(), false), name+":unexpected-eof", P.ipos(st),
						"ErrUnexpectedEOF is recorded exactly when the remaining data has no line break", "the unterminated-last-line error is recorded under another condition")
				}
			})
			if nData == 0 {
				c.bad(name+":consume", P.pos(fn.Pos()), "FieldParser.Next never advances f.data")
			}
			for i, ret := range returnsOf(fn) {
				rn := name + ":return#" + itoa(i)
				b, isC := constBool(ret.Results[0])
				if !isC {
					c.undecided(rn, P.ipos(ret), "non-constant result")
					continue
				}
				if b {
					c.check(guardedByBool(fn, ret.Block(), func(v ssa.Value) bool { return v == ssa.Value(ss) }, true), rn, P.ipos(ret), "true only when scanSegment accepted the line", "Next reports a field although scanSegment rejected the line")
					continue
				}
				// false: unterminated line (err set) or data exhausted
				eof := guardTerm(ret.Block(), false)
				exhausted := false
				for _, ifi := range ifsIn(fn) {
					cnd := decodeIf(ifi)
					if cnd.Y == nil {
						continue
					}
					s, isS := constString(cnd.Y)
					if !isS || s != "" {
						continue
					}
					if isData(cnd.X) && (cnd.Op == token.NEQ || cnd.Op == token.EQL) {
						if edgeDominates(ifi.Block(), cnd.succWhen(cnd.Op == token.EQL), ret.Block()) {
							exhausted = true
						}
					}
				}
				if !eof && !exhausted {
					// the two reasons may share one return (`break` to a trailing `return false`): every path to it
					// crosses an edge on which the line is unterminated or the data is exhausted
					good := map[cfgEdge]bool{}
					for _, ifi := range ifsIn(fn) {
						for e := 0; e < 2; e++ {
							if edgeEstablishes(ifi, e, termF) {
								good[cfgEdge{ifi.Block(), e}] = true
							}
						}
						cnd := decodeIf(ifi)
						if cnd.Y != nil && isData(cnd.X) && (cnd.Op == token.NEQ || cnd.Op == token.EQL) {
							if sv, isS := constString(cnd.Y); isS && sv == "" {
								good[cfgEdge{ifi.Block(), cnd.succWhen(cnd.Op == token.EQL)}] = true
							}
						}
					}
					if len(good) > 0 && !reachesAvoiding(entryPoint(fn), ret, nil, good) {
						exhausted = true
					}
				}
				c.check(eof || exhausted, rn, P.ipos(ret), "false only for an unterminated last line or exhausted data", "Next returns false although terminated lines remain: the rest of the event is dropped")
			}
			// a rejected line continues the loop: from scanSegment's false edge no return is reachable before the data test
			for _, ifi := range ifsIn(fn) {
				if s, ok := boolEdge(ifi, func(v ssa.Value) bool { return v == ssa.Value(ss) }); ok {
					early := false
					forward([]startPoint{atEdge(ifi.Block(), 1-s)}, func(in ssa.Instruction) searchAction {
						if _, ok := in.(*ssa.Return); ok {
							early = true
						}
						if u, ok := in.(*ssa.UnOp); ok {
							if _, ok := isFieldLoad(u, "parser.FieldParser", "data"); ok {
								return stopPath
							}
						}
						return cont
					})
					c.check(!early, name+":rejected-line-continues", P.pos(ifi.Pos()), "an ignored line (unknown field, comment) moves on to the next line", "an ignored line ends the scan instead of moving on to the next line")
				}
			}
		}
	}
	if part == "next" {
		return
	}
	if part == "crlf" {
		r01_9crlf(c)
		return
	}
	// (b) BOM
	bomFns := 0
	for _, f := range P.Funcs {
		if f.Pkg == nil || f.Pkg.Pkg.Path() != parserPath {
			continue
		}
		eachInstr(f, func(in ssa.Instruction) {
			call, ok := isStaticCall(in, "strings.HasPrefix", "strings.TrimPrefix", "strings.CutPrefix")
			if !ok {
				return
			}
			k, isK := constString(call.Call.Args[1])
			if !isK || k != "\xEF\xBB\xBF" {
				if isK && (len(k) == 3) && k != "\xEF\xBB\xBF" {
					c.bad(fnLabel(f)+":bom-constant", P.ipos(call), "the BOM constant is not EF BB BF")
				}
				return
			}
			bomFns++
			name := fnLabel(f) + ":bom-strip"
			recv := f.Params[0]
			isFld := func(field string) func(ssa.Value) bool {
				return func(v ssa.Value) bool {
					b, ok := isFieldLoad(v, "parser.FieldParser", field)
					return ok && b == ssa.Value(recv)
				}
			}
			// the strip: store to f.data of data[len(bom):] guarded by removeBOM, !started, HasPrefix
			var strip *ssa.Store
			eachInstr(f, func(x ssa.Instruction) {
				st, ok := x.(*ssa.Store)
				if !ok {
					return
				}
				if b, ok := isFieldSel(st.Addr, "parser.FieldParser", "data"); ok && b == ssa.Value(recv) {
					strip = st
				}
			})
			if strip == nil {
				c.bad(name, P.ipos(call), "the BOM is tested for but never removed")
				return
			}
			if calleeName(call) == "strings.TrimPrefix" {
				// the removal itself, written with TrimPrefix: judged at the HasPrefix / CutPrefix test that guards it
				guardedElsewhere := false
				eachInstr(f, func(x ssa.Instruction) {
					if g2, ok := isStaticCall(x, "strings.HasPrefix", "strings.CutPrefix"); ok && g2 != call {
						if k2, isK2 := constString(g2.Call.Args[1]); isK2 && k2 == "\xEF\xBB\xBF" {
							guardedElsewhere = true
						}
					}
				})
				if guardedElsewhere {
					bomFns--
					return
				}
			}
			sl, isSl := strip.Val.(*ssa.Slice)
			lenOK := false
			if tp, ok := isStaticCall(strip.Val, "strings.TrimPrefix"); ok && isFld("data")(tp.Call.Args[0]) {
				if k2, isK2 := constString(tp.Call.Args[1]); isK2 && k2 == "\xEF\xBB\xBF" {
					lenOK = true // removes exactly the BOM when the data starts with it (which the guard established)
				}
			}
			if isSl && isFld("data")(sl.X) && sl.High == nil {
				if k, ok := constInt(sl.Low); ok && k == 3 {
					lenOK = true
				}
			}
			// strings.CutPrefix(data, BOM): the stored value is its first result, the guard its second
			cutForm := false
			if ex, ok := strip.Val.(*ssa.Extract); ok && ex.Index == 0 && ex.Tuple == ssa.Value(call) && calleeName(call) == "strings.CutPrefix" {
				lenOK, cutForm = true, true
			}
			g := guardedByBool(f, strip.Block(), isFld("removeBOM"), true) && guardedByBool(f, strip.Block(), isFld("started"), false) &&
				guardedByBool(f, strip.Block(), func(v ssa.Value) bool {
					if cutForm {
						e, ok := v.(*ssa.Extract)
						return ok && e.Index == 1 && e.Tuple == ssa.Value(call)
					}
					return v == ssa.Value(call) && calleeName(call) == "strings.HasPrefix"
				}, true) && isFld("data")(call.Call.Args[0])
			c.check(lenOK && g, name, P.ipos(strip), "exactly the three BOM bytes are removed, only when enabled, not yet started and the data starts with the BOM", "the BOM strip is not (data[3:] under removeBOM && !started && HasPrefix(data, BOM)): a BOM inside the stream is stripped or a leading one is kept")
			// started is set with the strip
			setStarted := false
			eachInstr(f, func(x ssa.Instruction) {
				if st, ok := x.(*ssa.Store); ok {
					if b, ok := isFieldSel(st.Addr, "parser.FieldParser", "started"); ok && b == ssa.Value(recv) {
						if bv, isC := constBool(st.Val); isC && bv && st.Block() == strip.Block() {
							setStarted = true
						}
					}
				}
			})
			c.check(setStarted, name+":marks-started", P.ipos(strip), "stripping the BOM marks the parser started (it is stripped at most once)", "stripping the BOM does not mark the parser as started: a second BOM would be stripped too")
		})
	}
	if bomFns == 0 {
		c.bad("parser:bom-strip", "-", "no BOM handling found in package parser")
	}
	// stream parser: RemoveBOM(true) at construction, RemoveBOM(false) once started, before Reset
	if nw := P.Fn("parser.New"); nw != nil {
		on := false
		eachInstrDeep(nw, func(in ssa.Instruction) {
			if call, ok := isModCall(in, "(*parser.FieldParser).RemoveBOM"); ok {
				if b, isC := constBool(call.Call.Args[1]); isC && b {
					on = true
				}
			}
			// or the field parser is built with the option already set
			if st, ok := in.(*ssa.Store); ok {
				if _, ok := isFieldSel(st.Addr, "parser.FieldParser", "removeBOM"); ok {
					if b, isC := constBool(st.Val); isC && b {
						on = true
					}
				}
			}
		})
		c.check(on, fnLabel(nw)+":bom-enabled", P.pos(nw.Pos()), "the stream parser enables BOM removal for the first token", "parser.New does not enable BOM removal")
	}
	if nx := P.Fn("(*parser.Parser).Next"); nx != nil {
		var off, reset *ssa.Call
		eachInstrDeep(nx, func(in ssa.Instruction) {
			if call, ok := isModCall(in, "(*parser.FieldParser).RemoveBOM"); ok {
				if b, isC := constBool(call.Call.Args[1]); isC && !b {
					off = call
				}
			}
			if call, ok := isModCall(in, "(*parser.FieldParser).Reset"); ok {
				reset = call
			}
		})
		good := off != nil && reset != nil
		if good {
			isStarted := func(v ssa.Value) bool { _, ok := isModCall(v, "(*parser.FieldParser).Started"); return ok }
			// every path to Reset on which Started() was true passes RemoveBOM(false)
			blocked := map[cfgEdge]bool{}
			for _, ifi := range ifsIn(nx) {
				if s, ok := boolEdge(ifi, isStarted); ok {
					blocked[cfgEdge{ifi.Block(), 1 - s}] = true
				}
			}
			var started ssa.Instruction
			eachInstrDeep(nx, func(in ssa.Instruction) {
				if call, ok := isModCall(in, "(*parser.FieldParser).Started"); ok {
					started = call
				}
			})
			good = started != nil && instrDominates(started, reset) && instrDominates(started, off) && !reachesAvoiding(afterInstr(started), reset, func(in ssa.Instruction) bool { return in == ssa.Instruction(off) }, blocked)
			// Reset receives the scanner's token text
			if good {
				_, isText := isStaticCall(reset.Call.Args[1], "(*bufio.Scanner).Text")
				good = isText
			}
		}
		c.check(good, fnLabel(nx)+":bom-once", P.pos(nx.Pos()), "once a token was started BOM removal is disabled before the next token is installed; Reset receives the scanner's token", "the stream parser does not disable BOM removal after the first token (or Reset does not get the scanner's token): a BOM at the start of a later event is stripped")
	}
	bomOnlyAtStreamStart(c)
}

// bomOnlyAtStreamStart: the BOM is stripped from the first token. When splitFunc can hand out a token that
// does not begin where the consumed input begins (it skips blank lines in front of an event), the first
// token is not necessarily the start of the stream, so the scanner's split function must switch BOM
// removal off whenever bytes were skipped (len(token) < advance).
func bomOnlyAtStreamStart(c *Ctx) {
	P := c.P
	sf := P.Fn("parser.splitFunc")
	nw := P.Fn("parser.New")
	if sf == nil || nw == nil {
		return // the anchors are reported by the obligations above / R20.1
	}
	name := "parser:bom-only-at-stream-start"
	late := false
	for _, r := range returnsOf(sf) {
		if len(r.Results) != 3 {
			continue
		}
		for _, src := range sources(r.Results[1]) {
			switch t := src.(type) {
			case *ssa.Const:
			case *ssa.Slice:
				if t.Low != nil {
					if k, isK := constInt(t.Low); !isK || k != 0 {
						late = true
					}
				}
			case *ssa.Parameter:
			default:
				late = true
			}
		}
	}
	if !late {
		c.ok(name, P.pos(sf.Pos()), "every token begins where the consumed input begins, so the first token is the start of the stream")
		return
	}
	// the split function installed by New
	var installed ssa.Value
	eachInstrDeep(nw, func(in ssa.Instruction) {
		if call, ok := isStaticCall(in, "(*bufio.Scanner).Split"); ok {
			installed = call.Call.Args[1]
		}
	})
	var w *ssa.Function
	if installed != nil {
		v := stripConvAll(installed)
		if mc, ok := v.(*ssa.MakeClosure); ok {
			v = mc.Fn
		}
		w, _ = v.(*ssa.Function)
		if t := boundMethodTarget(w); t != nil {
			w = t // `p.split` passed as a method value
		}
	}
	det := "splitFunc skips blank lines in front of an event, so the first token need not be the start of the stream, and nothing switches BOM removal off when bytes were skipped: a BOM that follows leading blank lines is stripped although it is not at the start of the stream"
	hist := "failing input: \"\\n\\n\\uFEFFdata: x\\n\\n\" yields the event {Data: x}; the WHATWG algorithm treats \\uFEFFdata as an unknown field and dispatches nothing"
	if w == nil || w == sf {
		c.bad(name, P.pos(nw.Pos()), det, hist)
		return
	}
	call := splitForwardCall(P, w)
	if call == nil {
		c.undecided(name, P.pos(w.Pos()), "the installed split function is neither splitFunc nor a wrapper that forwards its results")
		return
	}
	isTokLen := func(v ssa.Value) bool {
		lc, ok := v.(*ssa.Call)
		if !ok {
			return false
		}
		b, ok := lc.Call.Value.(*ssa.Builtin)
		if !ok || b.Name() != "len" {
			return false
		}
		e, ok := lc.Call.Args[0].(*ssa.Extract)
		return ok && e.Tuple == ssa.Value(call) && e.Index == 1
	}
	isAdv := func(v ssa.Value) bool {
		e, ok := v.(*ssa.Extract)
		return ok && e.Tuple == ssa.Value(call) && e.Index == 0
	}
	good := false
	eachInstr(w, func(in ssa.Instruction) {
		off := false
		if rb, ok := isModCall(in, "(*parser.FieldParser).RemoveBOM"); ok {
			if b, isC := constBool(rb.Call.Args[1]); isC && !b {
				off = true
			}
		}
		if st, ok := in.(*ssa.Store); ok {
			if _, ok := isFieldSel(st.Addr, "parser.FieldParser", "removeBOM"); ok {
				if b, isC := constBool(st.Val); isC && !b {
					off = true
				}
			}
		}
		if !off {
			return
		}
		for _, ifi := range ifsInOnly(w) {
			// the number of skipped bytes computed first: `skipped := advance - len(token); skipped > 0`
			if dop, k, succ, ok := cmpConstEdge(ifi, func(v ssa.Value) bool {
				b, ok := v.(*ssa.BinOp)
				return ok && b.Op == token.SUB && isAdv(b.X) && isTokLen(b.Y)
			}); ok {
				e := -1
				switch {
				case (dop == token.GTR && k == 0) || (dop == token.GEQ && k == 1) || (dop == token.NEQ && k == 0):
					e = succ
				case (dop == token.LEQ && k == 0) || (dop == token.LSS && k == 1) || (dop == token.EQL && k == 0):
					e = 1 - succ
				}
				if e >= 0 && edgeDominates(ifi.Block(), e, in.Block()) {
					good = true
				}
			}
			cnd := decodeIf(ifi)
			if cnd.Y == nil {
				continue
			}
			op, x, y := cnd.Op, cnd.X, cnd.Y
			if isAdv(x) && isTokLen(y) {
				op, x, y = flipOp(op), y, x
			}
			if !isTokLen(x) || !isAdv(y) {
				continue
			}
			// len(token) <= advance always: "bytes were skipped" is len < advance, i.e. len != advance
			var e int
			switch op {
			case token.LSS, token.NEQ:
				e = cnd.succWhen(true)
			case token.GEQ, token.EQL:
				e = cnd.succWhen(false)
			default:
				continue
			}
			// switched off exactly when bytes were skipped: on that edge, and not reachable from the other one
			if edgeDominates(ifi.Block(), e, in.Block()) {
				good = true
			}
		}
	})
	if good {
		c.ok(name, P.pos(w.Pos()), "the installed split function switches BOM removal off whenever splitFunc skipped bytes in front of the token (len(token) < advance)")
	} else {
		c.bad(name, P.pos(w.Pos()), det, hist)
	}
}

// byteClassPredicate: f(b byte) bool holds exactly for the bytes in want among the probed values
// (decided by constant propagation over every byte value 0..255).
func byteClassPredicate(f *ssa.Function, want map[int64]bool) (bool, int64) {
	if f == nil || len(f.Params) != 1 || f.Blocks == nil {
		return false, -1
	}
	for k := int64(0); k < 256; k++ {
		res := sccp(f, map[ssa.Value]constant.Value{f.Params[0]: constant.MakeInt64(k)}, nil, nil)
		if len(res.Exit) == 0 {
			return false, k
		}
		for ret := range res.Exit {
			if len(ret.Results) != 1 {
				return false, k
			}
			v := ret.Results[0]
			var l lat
			if cv, ok := v.(*ssa.Const); ok && cv.Value != nil {
				l = latConst(cv.Value)
			} else {
				l = res.Vals[v]
			}
			if l.kind != 1 || l.val.Kind() != constant.Bool || constant.BoolVal(l.val) != want[k] {
				return false, k
			}
		}
	}
	return true, -1
}

func r01_9crlf(c *Ctx) {
	P := c.P
	// the line-break predicate shared by the splitter, the line scanner and the encoder: LF and CR only
	if nl := P.Fn("parser.isNewlineChar"); nl != nil {
		ok, at := byteClassPredicate(nl, map[int64]bool{10: true, 13: true})
		if ok {
			c.ok(fnLabel(nl)+":class", P.pos(nl.Pos()), "isNewlineChar holds exactly for LF (10) and CR (13), decided for all 256 byte values")
		} else {
			c.bad(fnLabel(nl)+":class", P.pos(nl.Pos()), "isNewlineChar is not exactly {LF, CR} (differs, or is not decided, for byte "+itoa(int(at))+"): another byte (VT, FF, …) ends lines and events, or a line break is missed")
		}
	}
	// (c) CRLF
	ni := P.Fn("parser.NewlineIndex")
	if ni == nil || len(ni.Params) != 1 {
		c.anchor("parser.NewlineIndex")
		return
	}
	if newlineIndexLib(c, ni, "crlf") {
		return
	}
	if newlineIndexLoop(c, ni, "crlf") {
		return
	}
	rets := returnsOf(ni)
	if len(rets) != 1 {
		return
	}
	ln, ok := rets[0].Results[1].(*ssa.Phi)
	idx, ok2 := rets[0].Results[0].(*ssa.Phi)
	if !ok || !ok2 {
		c.undecided("parser.NewlineIndex:crlf", P.pos(ni.Pos()), "length/index are not phis")
		return
	}
	s := ni.Params[0]
	charAt := func(v ssa.Value, off int64) bool {
		ix, ok := v.(*ssa.Index)
		if !ok || ix.X != ssa.Value(s) {
			return false
		}
		if off == 0 {
			return ix.Index == ssa.Value(idx)
		}
		b, ok := ix.Index.(*ssa.BinOp)
		if !ok || b.Op != token.ADD || b.X != ssa.Value(idx) {
			return false
		}
		k, isK := constInt(b.Y)
		return isK && k == off
	}
	isCR := func(ifi *ssa.If) (int, bool) {
		cnd := decodeIf(ifi)
		if cnd.Y == nil || cnd.Op != token.EQL {
			return 0, false
		}
		k, isK := constInt(cnd.Y)
		if isK && k == 13 && charAt(cnd.X, 0) {
			return cnd.succWhen(true), true
		}
		return 0, false
	}
	isLFnext := func(ifi *ssa.If) (int, bool) {
		cnd := decodeIf(ifi)
		if cnd.Y == nil || cnd.Op != token.EQL {
			return 0, false
		}
		k, isK := constInt(cnd.Y)
		if isK && k == 10 && charAt(cnd.X, 1) {
			return cnd.succWhen(true), true
		}
		return 0, false
	}
	inBounds := func(ifi *ssa.If) (int, bool) {
		cnd := decodeIf(ifi)
		if cnd.Y == nil || cnd.Op != token.LSS || cnd.X != ssa.Value(idx) {
			return 0, false
		}
		// index < len(s)-1
		b, ok := cnd.Y.(*ssa.BinOp)
		if !ok || b.Op != token.SUB || !isLenOf(b.X, s) {
			return 0, false
		}
		k, isK := constInt(b.Y)
		if isK && k == 1 {
			return cnd.succWhen(true), true
		}
		return 0, false
	}
	two := false
	badOne := false
	for i, e := range ln.Edges {
		k, isK := evalInt(e)
		if !isK {
			continue
		}
		pred := ln.Block().Preds[i]
		dom := func(pick func(*ssa.If) (int, bool)) bool {
			for _, ifi := range ifsIn(ni) {
				if sidx, ok := pick(ifi); ok && (edgeDominates(ifi.Block(), sidx, pred) || (ifi.Block() == pred && false)) {
					return true
				}
			}
			return false
		}
		switch k {
		case 2:
			if dom(isCR) && dom(isLFnext) && dom(inBounds) {
				two = true
			} else {
				badOne = true
			}
		case 1:
			// must come from the false edge of one of the three tests (pred is the test's own block)
			okk := false
			if ifi, isIf := pred.Instrs[len(pred.Instrs)-1].(*ssa.If); isIf {
				for _, pick := range []func(*ssa.If) (int, bool){isCR, isLFnext, inBounds} {
					if sidx, ok := pick(ifi); ok && pred.Succs[1-sidx] == ln.Block() {
						okk = true
					}
				}
			}
			if !okk {
				badOne = true
			}
		}
	}
	c.check(two && !badOne, "parser.NewlineIndex:crlf", P.pos(ni.Pos()), "length is 2 exactly for CR followed by LF inside the string, 1 for every other line break", "NewlineIndex does not report length 2 exactly for CR immediately followed by LF (within bounds): CRLF counts as two line breaks (a spurious blank line ends the event early) or a lone CR swallows the next byte")
}

func isGlobalLoadPkg(v ssa.Value, pkg, name string) bool {
	a, ok := loadedFrom(v)
	if !ok {
		return false
	}
	g, ok := a.(*ssa.Global)
	return ok && g.Name() == name && g.Pkg != nil && g.Pkg.Pkg.Path() == pkg
}

// ---------------------------------------------------------------------------
// R01.12: the split function's scan loop stops exactly at an event boundary

func init() {
	register(&Rule{ID: "R01.12", Title: "the scan loop of the split function stops exactly at the end of the data or at a line break that follows a non-blank line", Floor: 2, Run: r01_12})
	p := properties["C01"]
	p.Rules = append(p.Rules, "R01.12")
	p.Explanation += " R01.12 event boundary: every path through one iteration of splitFunc's scan loop leaves the loop exactly when (advance == len(data)) or (the byte at advance is a line break and the line just scanned is non-empty: index >= 1), and stays otherwise (path-wise, with the interval of `index` intersected along the path, so `index > 1` or `>= 0` are both reported)."
}

func r01_12(c *Ctx) {
	P := c.P
	fn := P.Fn("parser.splitFunc")
	if fn == nil || len(fn.Params) != 2 {
		c.anchor("parser.splitFunc")
		return
	}
	data := fn.Params[0]
	name := fnLabel(fn)
	var ni *ssa.Call
	eachInstrDeep(fn, func(in ssa.Instruction) {
		if call, ok := isModCall(in, "parser.NewlineIndex"); ok && len(loopsContaining(fn, call.Block())) > 0 {
			ni = call
		}
	})
	if ni == nil {
		c.undecided(name+":scan-loop-exit", P.pos(fn.Pos()), "no NewlineIndex call inside a loop of the split function")
		return
	}
	loops := loopsContaining(fn, ni.Block())
	L := loops[0]
	for _, l := range loops {
		if len(l.Blocks) < len(L.Blocks) {
			L = l
		}
	}
	isIndex := func(v ssa.Value) bool {
		e, ok := v.(*ssa.Extract)
		return ok && e.Tuple == ssa.Value(ni) && e.Index == 0
	}
	isNLC := func(v ssa.Value) bool {
		call, ok := isModCall(v, "parser.isNewlineChar")
		if !ok {
			return false
		}
		switch ix := call.Call.Args[0].(type) {
		case *ssa.Index:
			return true
		case *ssa.Lookup:
			return true
		case *ssa.UnOp:
			// data[advance] on a slice: load of IndexAddr
			if ia, ok := ix.X.(*ssa.IndexAddr); ok && ix.Op == token.MUL {
				return carriesOnly(ia.X, data) || ia.X == ssa.Value(data)
			}
		}
		return false
	}
	// facts of one edge
	atEnd := func(ifi *ssa.If, e int) (val, ok bool) {
		cnd := decodeIf(ifi)
		if cnd.Y == nil || (cnd.Op != token.EQL && cnd.Op != token.NEQ) {
			return false, false
		}
		if !(isLenOf(cnd.Y, data) || isLenOf(cnd.X, data)) {
			return false, false
		}
		return e == cnd.succWhen(cnd.Op == token.EQL), true
	}
	stopEdge := func(e cfgEdge) bool {
		s := e.From.Succs[e.Idx]
		return !L.Blocks[s] || s == L.Head
	}
	paths, okP := walkPaths(ni.Block(), instrIndex(ni)+1, 4096, nil, nil, stopEdge)
	if !okP || len(paths) == 0 {
		c.undecided(name+":scan-loop-exit", P.ipos(ni), "too many (or no) paths through one iteration of the scan loop")
		return
	}
	nExit, nStay := 0, 0
	why := ""
	for _, p := range paths {
		if p.EndEdge == nil && p.Ret == nil {
			continue
		}
		f1T, f1F, f2T, f2F := false, false, false, false
		lo, hi := int64(0), posInf
		for e := range p.St.Edges {
			if len(e.From.Instrs) == 0 {
				continue
			}
			ifi, isIf := e.From.Instrs[len(e.From.Instrs)-1].(*ssa.If)
			if !isIf {
				continue
			}
			if v, ok := atEnd(ifi, e.Idx); ok {
				if v {
					f1T = true
				} else {
					f1F = true
				}
			}
			if s, ok := boolEdge(ifi, isNLC); ok {
				if s == e.Idx {
					f2T = true
				} else {
					f2F = true
				}
			}
			if l, h, okE, ok := intEdgeSets(ifi, isIndex, 0); ok && okE[e.Idx] {
				if l[e.Idx] > lo {
					lo = l[e.Idx]
				}
				if h[e.Idx] < hi {
					hi = h[e.Idx]
				}
			}
		}
		if lo > hi || (f1T && f1F) || (f2T && f2F) {
			continue // infeasible
		}
		// leaving the loop: through an exit edge, or by returning from inside it (a scan loop that lives
		// in a helper returns its result directly)
		leaves := p.Ret != nil || !L.Blocks[p.EndEdge.From.Succs[p.EndEdge.Idx]]
		if leaves {
			nExit++
			if !(f1T || (f2T && lo >= 1)) {
				why = "the loop can stop where neither the data ended nor a line break follows a non-empty line (index in [" + itoa(int(lo)) + ",…])"
			}
		} else {
			nStay++
			if !(f1F && (f2F || hi <= 0)) {
				why = "the loop continues although the data ended or a line break follows a non-empty line"
				if f1F && f2T {
					why = "the loop continues although a line break follows a non-empty line (index up to " + itoa(int(hi)) + " stays): the end of that event is missed and it merges with the next one"
				}
			}
		}
	}
	c.check(why == "" && nExit > 0 && nStay > 0, name+":scan-loop-exit", P.ipos(ni), "one iteration leaves the loop exactly at the end of the data or at a line break after a non-empty line ("+itoa(nExit)+" exit / "+itoa(nStay)+" continue paths)",
		"the scan loop does not stop exactly at an event boundary: "+why)
	c.ok(name+":scan-loop-paths", P.ipos(ni), itoa(len(paths))+" paths through one iteration enumerated")
}

// digitsOnlyLoopGuards: the parse is reached only after a `for _, r := range <the parsed string>` loop
// ran to completion, every iteration of which either established '0' <= r <= '9' or left the function
// without reaching the parse (the hand-written form of a digits-only test).
func digitsOnlyLoopGuards(top *ssa.Function, parse *ssa.Call) bool {
	fn := parse.Parent()
	arg := parse.Call.Args[0]
	for _, b := range fn.Blocks {
		for _, in := range b.Instrs {
			rng, ok := in.(*ssa.Range)
			if !ok || !(rng.X == arg || sameValue(rng.X, arg) || exprShape(rng.X, 0) == exprShape(arg, 0)) {
				continue
			}
			var next *ssa.Next
			for _, r := range *rng.Referrers() {
				if n, ok := r.(*ssa.Next); ok {
					next = n
				}
			}
			if next == nil {
				continue
			}
			var L *Loop
			for _, l := range loopsContaining(fn, next.Block()) {
				if L == nil || len(l.Blocks) < len(L.Blocks) {
					L = l
				}
			}
			if L == nil {
				continue
			}
			isOK := func(v ssa.Value) bool {
				e, ok := v.(*ssa.Extract)
				return ok && e.Tuple == ssa.Value(next) && e.Index == 0
			}
			isRune := func(v ssa.Value) bool {
				for _, sv := range sources(v) {
					e, ok := stripConvAll(sv).(*ssa.Extract)
					if !ok || e.Tuple != ssa.Value(next) || e.Index != 2 {
						return false
					}
				}
				return true
			}
			stopEdge := func(e cfgEdge) bool {
				t := e.From.Succs[e.Idx]
				return !L.Blocks[t] || t == L.Head
			}
			paths, okP := walkPaths(next.Block(), instrIndex(next)+1, 1024, nil, nil, stopEdge)
			if !okP || len(paths) == 0 {
				continue
			}
			good, sawDone := true, false
			for _, p := range paths {
				if p.EndEdge == nil {
					continue // returns from inside the loop never reach the parse
				}
				lo, hi := negInf, posInf
				done := false
				for e := range p.St.Edges {
					if len(e.From.Instrs) == 0 {
						continue
					}
					ifi, isIf := e.From.Instrs[len(e.From.Instrs)-1].(*ssa.If)
					if !isIf {
						continue
					}
					if sT, ok := boolEdge(ifi, isOK); ok && e.Idx != sT {
						done = true
					}
					if l, h, okE, ok := intEdgeSets(ifi, isRune, negInf); ok && okE[e.Idx] {
						if l[e.Idx] > lo {
							lo = l[e.Idx]
						}
						if h[e.Idx] < hi {
							hi = h[e.Idx]
						}
					}
				}
				// leaving the loop: through an exit edge, or by returning from inside it (a scan loop that lives
				// in a helper returns its result directly)
				leaves := p.Ret != nil || !L.Blocks[p.EndEdge.From.Succs[p.EndEdge.Idx]]
				switch {
				case leaves && done:
					sawDone = true
					if !edgeDominates(p.EndEdge.From, p.EndEdge.Idx, parse.Block()) {
						good = false
					}
				case leaves:
					// an early exit: it must not reach the parse
					if reachesAvoiding(atEdge(p.EndEdge.From, p.EndEdge.Idx), parse, nil, nil) {
						good = false
					}
				default:
					// next iteration: this rune was a digit
					if lo > hi {
						continue
					}
					if !(lo >= '0' && hi <= '9') {
						good = false
					}
				}
			}
			if good && sawDone {
				return true
			}
		}
	}
	_ = top
	return false
}

// tableElement: v is an element of a package-level array/slice of strings (loaded through an index or a
// range); returns the table's contents as initialised in the package initialiser.
func tableElement(P *Program, v ssa.Value) (table []string, elem ssa.Value, ok bool) {
	elem = stripConvAll(v)
	var g *ssa.Global
	switch x := elem.(type) {
	case *ssa.UnOp:
		if ia, isIA := x.X.(*ssa.IndexAddr); isIA && x.Op == token.MUL {
			switch base := ia.X.(type) {
			case *ssa.Global:
				g = base
			case *ssa.UnOp:
				g, _ = base.X.(*ssa.Global)
			}
		}
	case *ssa.Index:
		if u, isU := x.X.(*ssa.UnOp); isU {
			g, _ = u.X.(*ssa.Global)
		}
	case *ssa.Extract:
		// value of `for _, e := range table`
		if nx, isN := x.Tuple.(*ssa.Next); isN {
			if rg, isR := nx.Iter.(*ssa.Range); isR {
				if u, isU := rg.X.(*ssa.UnOp); isU {
					g, _ = u.X.(*ssa.Global)
				}
			}
		}
	}
	if g == nil || g.Pkg == nil {
		return nil, nil, false
	}
	init := g.Pkg.Func("init")
	if init == nil {
		return nil, nil, false
	}
	vals := map[int64]string{}
	good := true
	eachInstrDeep(init, func(in ssa.Instruction) {
		st, isSt := in.(*ssa.Store)
		if !isSt {
			return
		}
		ia, isIA := st.Addr.(*ssa.IndexAddr)
		if !isIA {
			if st.Addr == ssa.Value(g) {
				// slice global: = arr[:] with arr filled element-wise
				if sl, isSl := st.Val.(*ssa.Slice); isSl {
					if al, isAl := sl.X.(*ssa.Alloc); isAl {
						for _, r := range *al.Referrers() {
							if ia2, ok := r.(*ssa.IndexAddr); ok {
								idx, okI := constInt(ia2.Index)
								for _, rr := range *ia2.Referrers() {
									if s2, ok := rr.(*ssa.Store); ok && s2.Addr == ssa.Value(ia2) {
										sv, okS := constString(s2.Val)
										if !okI || !okS {
											good = false
											continue
										}
										vals[idx] = sv
									}
								}
							}
						}
					}
				}
			}
			return
		}
		if ia.X != ssa.Value(g) {
			return
		}
		idx, okI := constInt(ia.Index)
		sv, okS := constString(st.Val)
		if !okI || !okS {
			good = false
			return
		}
		vals[idx] = sv
	})
	// the table must not be written anywhere else
	for _, fn := range P.Funcs {
		if fn == init {
			continue
		}
		eachInstr(fn, func(in ssa.Instruction) {
			if st, ok := in.(*ssa.Store); ok {
				if st.Addr == ssa.Value(g) {
					good = false
				}
				if ia, ok := st.Addr.(*ssa.IndexAddr); ok && (ia.X == ssa.Value(g)) {
					good = false
				}
			}
		})
	}
	if !good || len(vals) == 0 {
		return nil, nil, false
	}
	for i := int64(0); i < int64(len(vals)); i++ {
		sv, ok := vals[i]
		if !ok {
			return nil, nil, false
		}
		table = append(table, sv)
	}
	return table, elem, true
}

// restTrimmedKind matches "the rest of the line after an offset, with exactly one leading space removed":
// trimFirstSpace(x) / strings.TrimPrefix(x, " ") of chunk[off:], or an inlined helper all of whose results are
// that (or "" where the offset is at or past the end of the line). It returns the offset kind: "colon+1"
// (min(colonPos+1, len) or colonPos+1) or "one" (min(1, len) or 1); "" with a reason if v is something else.
func restTrimmedKind(P *Program, v ssa.Value, tf *ssa.Function, chunk ssa.Value, isColon func(ssa.Value) bool, depth int) (string, string) {
	if depth > 3 {
		return "", "too deep"
	}
	isChunk := func(x ssa.Value) bool { return x == chunk || carriesOnly(x, chunk) }
	call, ok := v.(*ssa.Call)
	if !ok {
		return "", "not a call: " + describe(v)
	}
	if g := iifeCallee(call); g != nil && g.Signature.Results().Len() == 1 {
		kind := ""
		for _, r := range returnsOf(g) {
			rv := r.Results[0]
			if sv, isS := constString(rv); isS && sv == "" {
				// empty value: only where the offset is at/past the end of the line
				okG := false
				for _, ifi := range ifsInOnly(g) {
					cnd := decodeIf(ifi)
					if cnd.Y == nil {
						continue
					}
					x, y, op := cnd.X, cnd.Y, cnd.Op
					if isLenOf(x, chunk) {
						x, y, op = y, x, flipOp(op)
					}
					if !isLenOf(y, chunk) || !isColon(x) {
						continue
					}
					var e int
					switch op {
					case token.GEQ, token.EQL:
						e = cnd.succWhen(true)
					case token.LSS, token.NEQ:
						e = cnd.succWhen(false)
					default:
						continue
					}
					if edgeDominates(ifi.Block(), e, r.Block()) {
						okG = true
					}
				}
				if !okG {
					return "", "an empty value is produced without the colon being at the end of the line"
				}
				continue
			}
			k, why := restTrimmedKind(P, rv, tf, chunk, isColon, depth+1)
			if k == "" {
				return "", why
			}
			if kind != "" && kind != k {
				return "", "results disagree on the offset"
			}
			kind = k
		}
		if kind == "" {
			return "", "the helper never produces the rest of the line"
		}
		return kind, ""
	}
	var x ssa.Value
	switch {
	case tf != nil && call.Call.StaticCallee() == tf:
		x = call.Call.Args[0]
	case calleeName(call) == "strings.TrimPrefix":
		if sp, isS := constString(call.Call.Args[1]); !isS || sp != " " {
			return "", "TrimPrefix with something other than one space"
		}
		x = call.Call.Args[0]
	default:
		return "", "not trimFirstSpace / strings.TrimPrefix(x, \" \")"
	}
	sl, ok := x.(*ssa.Slice)
	if !ok || !isChunk(sl.X) || sl.High != nil || sl.Low == nil {
		return "", "the trimmed text is not the rest of the line"
	}
	low := sl.Low
	if mn, ok := low.(*ssa.Call); ok {
		if b, okB := mn.Call.Value.(*ssa.Builtin); okB && b.Name() == "min" && len(mn.Call.Args) == 2 {
			switch {
			case isLenOf(mn.Call.Args[1], chunk):
				low = mn.Call.Args[0]
			case isLenOf(mn.Call.Args[0], chunk):
				low = mn.Call.Args[1]
			}
		}
	}
	if k, isK := constInt(low); isK && k == 1 {
		return "one", ""
	}
	if add, ok := low.(*ssa.BinOp); ok && add.Op == token.ADD {
		a, b := add.X, add.Y
		if _, aK := a.(*ssa.Const); aK {
			a, b = b, a
		}
		if k, isK := constInt(b); isK && k == 1 && isColon(a) {
			return "colon+1", ""
		}
	}
	return "", "the rest of the line does not start one past the colon"
}

// inlineFieldNameDecision: scanSegment decides the field name in place: it compares (the conversion of)
// chunk[:…] with string constants; returns the equality edges with their constants and the compared value.
func inlineFieldNameDecision(ss *ssa.Function, chunk ssa.Value) (map[cfgEdge]string, ssa.Value) {
	eq := map[cfgEdge]string{}
	var name ssa.Value
	for _, ifi := range ifsIn(ss) {
		cnd := decodeIf(ifi)
		if cnd.Y == nil || (cnd.Op != token.EQL && cnd.Op != token.NEQ) {
			continue
		}
		k, ok := constString(cnd.Y)
		if !ok || k == "" {
			continue
		}
		sl, isSl := stripConvAll(cnd.X).(*ssa.Slice)
		if !isSl || !(sl.X == chunk || carriesOnly(sl.X, chunk)) || sl.Low != nil || sl.High == nil {
			continue
		}
		if name != nil && stripConvAll(name) != stripConvAll(cnd.X) {
			continue
		}
		name = cnd.X
		eq[cfgEdge{ifi.Block(), cnd.succWhen(cnd.Op == token.EQL)}] = k
	}
	return eq, name
}

// ---------------------------------------------------------------------------
// R01.13: data assembly in the stream interpreter

func init() {
	register(&Rule{ID: "R01.13", Title: "the interpreter appends every data value followed by one LF, unconditionally (the spec's data buffer)", Floor: 1, Run: r01_13})
	for _, id := range []string{"C01", "C02"} {
		if p := properties[id]; p != nil {
			p.Rules = append(p.Rules, "R01.13")
			p.Explanation += " R01.13 (opportunistic, when the interpreter collects data in a strings.Builder): in the data case the field's value and then a single LF are written to the builder on every path — no write in that case depends on the builder's current length — so an empty data line contributes its line break (a separator written *before* a value only when the buffer is non-empty drops leading empty lines)."
		}
	}
}

func r01_13(c *Ctx) {
	P := c.P
	it := iteratorBody(P)
	if it == nil {
		c.anchor("iterator body")
		return
	}
	name := fnLabel(it) + ":data-buffer"
	type w struct {
		call *ssa.Call
		lf   bool
		val  bool
	}
	var ws []w
	eachInstrDeep(it, func(in ssa.Instruction) {
		call, ok := isStaticCall(in, "(*strings.Builder).WriteString", "(*strings.Builder).WriteByte", "(*strings.Builder).WriteRune")
		if !ok {
			return
		}
		lb, okL := liftBlock(call.Block(), it)
		if !okL || !inFieldCase(it, "data", lb) {
			return
		}
		x := w{call: call}
		arg := call.Call.Args[1]
		if k, isK := constInt(arg); isK && k == '\n' {
			x.lf = true
		}
		if sv, isS := constString(arg); isS && sv == "\n" {
			x.lf = true
		}
		if _, isV := isFieldLoad(arg, "parser.Field", "Value"); isV {
			x.val = true
		}
		ws = append(ws, x)
	})
	if len(ws) == 0 {
		c.ok(name, P.pos(it.Pos()), "not decided: the data case does not write to a strings.Builder (another representation of the data buffer)")
		return
	}
	var val, lf *w
	for i := range ws {
		if ws[i].val {
			val = &ws[i]
		}
		if ws[i].lf {
			lf = &ws[i]
		}
	}
	if val == nil || lf == nil || len(ws) != 2 {
		c.bad(name, P.pos(it.Pos()), "the data case does not write exactly the field's value and one LF to the data buffer")
		return
	}
	lenDep := false
	for _, x := range ws {
		isLen := func(v ssa.Value) bool { _, ok := isStaticCall(v, "(*strings.Builder).Len"); return ok }
		if intGuard(it, x.call.Block(), isLen, 0, 1, posInf) || intGuard(it, x.call.Block(), isLen, 0, 0, 0) {
			lenDep = true
		}
	}
	if lenDep {
		c.bad(name, P.ipos(lf.call), "a write of the data case depends on the buffer's length: leading empty data lines are dropped, so `data:` + `data: x` yields \"x\" instead of \"\\nx\"")
		return
	}
	// form (A): value first, then LF, both unconditional within the case; the dispatched string drops exactly
	// the final LF
	if instrDominates(val.call, lf.call) {
		c.check(val.call.Block() == lf.call.Block(), name, P.ipos(lf.call), "value, then one LF, on every path of the data case",
			"the data case does not append (value, LF) unconditionally: a data line loses its line break")
		dataTrim(c, it, true)
		return
	}
	// form (B): a separator written before the value, under a flag that says "this event already has a
	// data line"; the dispatched string is the buffer as it is
	if lf.call.Parent() != it || val.call.Parent() != it {
		c.ok(name, P.ipos(lf.call), "not decided: the separator form of the data buffer is spread over nested function literals")
		return
	}
	var ifF *ssa.If
	var flag *ssa.Phi
	trueSucc := 0
	for _, ifi := range ifsInOnly(it) {
		cv := ifi.Cond
		ts := 0
		for {
			if u, isU := cv.(*ssa.UnOp); isU && u.Op == token.NOT {
				cv, ts = u.X, 1-ts
				continue
			}
			break
		}
		ph, isPhi := cv.(*ssa.Phi)
		if !isPhi || !(edgeDominates(ifi.Block(), 0, lf.call.Block()) || edgeDominates(ifi.Block(), 1, lf.call.Block())) || edgeDominates(ifi.Block(), 0, val.call.Block()) || edgeDominates(ifi.Block(), 1, val.call.Block()) {
			continue
		}
		if ifF == nil || ifF.Block().Dominates(ifi.Block()) {
			ifF, flag, trueSucc = ifi, ph, ts
		}
	}
	if ifF == nil {
		c.ok(name, P.ipos(lf.call), "not decided: the LF is written before the value under a condition that is not a boolean loop variable (another representation of `this event already has a data line`)")
		return
	}
	H := flag.Block()
	good, why := true, ""
	fail := func(s string) {
		if good {
			good, why = false, s
		}
	}
	// entry edges carry false, and every trip round the loop keeps the flag equal to "a value was written since the
	// buffer was last reset"
	inLoop := func(b *ssa.BasicBlock) bool { return H.Dominates(b) && reach([]*ssa.BasicBlock{b}, nil, nil)[H] }
	for i, pr := range H.Preds {
		if inLoop(pr) {
			continue
		}
		for _, sv := range sources(flag.Edges[i]) {
			if b, isC := constBool(sv); !isC || b {
				fail("the flag is not false when the loop is entered")
			}
		}
	}
	first := 0
	for first < len(H.Instrs) {
		if _, isPhi := H.Instrs[first].(*ssa.Phi); !isPhi {
			break
		}
		first++
	}
	paths, okP := walkPaths(H, first, 4096, nil, nil, func(e cfgEdge) bool { return e.From.Succs[e.Idx] == H })
	if !okP {
		c.undecided(name, P.ipos(lf.call), "too many paths through the interpreter loop")
		return
	}
	back := 0
	for _, p := range paths {
		var last ssa.Instruction
		hasLF, hasVal, lfFirst := false, false, false
		for _, in := range p.Instrs {
			switch {
			case in == ssa.Instruction(val.call):
				last, hasVal = in, true
			case in == ssa.Instruction(lf.call):
				hasLF = true
				lfFirst = !hasVal
			default:
				if call, ok := in.(*ssa.Call); ok {
					if _, isR := isStaticCall(call, "(*strings.Builder).Reset"); isR {
						last = in
					} else if g := iifeCallee(call); g != nil {
						eachInstrDeep(g, func(x ssa.Instruction) {
							if _, isR := isStaticCall(x, "(*strings.Builder).Reset"); isR {
								last = in
							}
						})
					}
				}
			}
		}
		tookTrue := p.St.Edges[cfgEdge{ifF.Block(), trueSucc}]
		if hasLF != (hasVal && tookTrue) || (hasLF && !lfFirst) {
			fail("the separator is not written exactly when the flag is set, before the value")
		}
		if p.EndEdge == nil {
			continue
		}
		back++
		var nv ssa.Value
		for i, pr := range H.Preds {
			if pr == p.EndEdge.From {
				nv = p.St.resolve(flag.Edges[i])
			}
		}
		switch {
		case last == nil:
			if nv != ssa.Value(flag) {
				fail("the flag changes on a trip that neither wrote a value nor reset the buffer")
			}
		case last == ssa.Instruction(val.call):
			if b, isC := constBool(nv); !isC || !b {
				fail("the flag is not set after a data value was written")
			}
		default:
			if b, isC := constBool(nv); !isC || b {
				fail("the flag is not cleared where the buffer is reset")
			}
		}
	}
	if back == 0 {
		fail("no trip round the loop found")
	}
	c.check(good, name, P.ipos(lf.call), "separator form: one LF before every data value but the first of an event (flag false at entry, set by the value write, cleared with the buffer's Reset, unchanged otherwise)",
		"the data case does not keep the spec's data buffer in its separator form ("+why+"): a line break between data lines is lost or added")
	dataTrim(c, it, false)
}

// dataTrim: the Data of a dispatched event is the buffer's String() minus exactly one final byte when it is
// non-empty (terminator form, wantTrim) or the buffer's String() itself (separator form).
func dataTrim(c *Ctx, it *ssa.Function, wantTrim bool) {
	P := c.P
	name := fnLabel(it) + ":data-dispatch"
	var fns []*ssa.Function
	var collect func(f *ssa.Function)
	collect = func(f *ssa.Function) {
		fns = append(fns, f)
		for _, a := range f.AnonFuncs {
			collect(a)
		}
	}
	collect(it)
	// param of a function literal -> the arguments at its calls
	var argsOf func(p *ssa.Parameter) []ssa.Value
	argsOf = func(p *ssa.Parameter) []ssa.Value {
		g := p.Parent()
		idx := -1
		for i, q := range g.Params {
			if q == p {
				idx = i
			}
		}
		var out []ssa.Value
		for _, f := range fns {
			eachInstr(f, func(in ssa.Instruction) {
				call, ok := in.(*ssa.Call)
				if !ok || idx < 0 || idx >= len(call.Call.Args) {
					return
				}
				for _, sv := range append(sources(call.Call.Value), call.Call.Value) {
					if mc, isMC := sv.(*ssa.MakeClosure); isMC && mc.Fn == ssa.Value(g) {
						out = append(out, call.Call.Args[idx])
						return
					}
					if fv, isF := sv.(*ssa.Function); isF && fv == g {
						out = append(out, call.Call.Args[idx])
						return
					}
				}
			})
		}
		return out
	}
	var isBuf func(v ssa.Value, depth int) bool
	isBuf = func(v ssa.Value, depth int) bool {
		if depth > 4 {
			return false
		}
		src := sources(v)
		if len(src) == 0 {
			src = []ssa.Value{v}
		}
		for _, sv := range src {
			if _, ok := isStaticCall(sv, "(*strings.Builder).String"); ok {
				continue
			}
			if p, isP := sv.(*ssa.Parameter); isP && p.Parent() != it && p.Parent().Parent() != nil {
				as := argsOf(p)
				if len(as) == 0 {
					return false
				}
				for _, a := range as {
					if !isBuf(a, depth+1) {
						return false
					}
				}
				continue
			}
			return false
		}
		return true
	}
	stores := 0
	good, why := true, ""
	unknown := false
	var at ssa.Instruction
	fail := func(in ssa.Instruction, s string) {
		if good {
			good, why, at = false, s, in
		}
	}
	for _, f := range fns {
		var sts []*ssa.Store
		eachInstr(f, func(in ssa.Instruction) {
			if st, ok := in.(*ssa.Store); ok {
				if _, isD := isFieldSel(st.Addr, "Event", "Data"); isD {
					if k, isK := constString(st.Val); isK && k == "" {
						return
					}
					sts = append(sts, st)
				}
			}
		})
		for _, st := range sts {
			stores++
			st := st
			paths, okP := walkPaths(f.Blocks[0], 0, 4096, nil, func(in ssa.Instruction) bool { return in == ssa.Instruction(st) }, nil)
			if !okP {
				c.undecided(name, P.ipos(st), "too many paths to the Event.Data store")
				return
			}
			for _, p := range paths {
				if p.End != ssa.Instruction(st) {
					continue
				}
				v := p.St.resolve(st.Val)
				if call, isTR := isStaticCall(v, "strings.TrimRight", "strings.Trim", "strings.TrimSpace", "strings.TrimRightFunc", "strings.TrimFunc", "strings.TrimLeft"); isTR && isBuf(call.Call.Args[0], 0) {
					fail(st, "the dispatched Data is the buffer with a whole run of characters trimmed ("+calleeName(call)+"): trailing empty data lines are lost, exactly one final LF must go")
					continue
				}
				if call, isTS := isStaticCall(v, "strings.TrimSuffix"); isTS {
					if k, isK := constString(call.Call.Args[1]); isK && k == "\n" && isBuf(call.Call.Args[0], 0) {
						// drops the final LF when there is one: the terminator form's buffer always ends in LF
						if !wantTrim {
							fail(st, "the separator form has no final LF, yet the dispatched Data drops a trailing LF (an empty last data line is lost)")
						}
						continue
					}
					unknown = true
					continue
				}
				if sl, isSl := v.(*ssa.Slice); isSl {
					x := p.St.resolve(sl.X)
					hi, isB := sl.High.(*ssa.BinOp)
					okHi := false
					if isB && hi.Op == token.SUB && sl.Low == nil {
						if k, isK := constInt(hi.Y); isK && k == 1 && isLenOf(hi.X, x) {
							okHi = true
						}
					}
					if !isBuf(x, 0) {
						unknown = true
					} else if !okHi {
						fail(st, "Data is a slice of the buffer other than `all but the last byte`")
					} else if !wantTrim {
						fail(st, "the separator form has no final LF, yet the dispatched Data drops the last byte")
					}
					continue
				}
				if !isBuf(v, 0) {
					unknown = true
					continue
				}
				if !wantTrim {
					continue
				}
				// untrimmed on this path: only when the string is known to be empty
				empty := false
				for e := range p.St.Edges {
					if len(e.From.Instrs) == 0 {
						continue
					}
					ifi, isIf := e.From.Instrs[len(e.From.Instrs)-1].(*ssa.If)
					if !isIf {
						continue
					}
					cnd := decodeIf(ifi)
					if cnd.Y == nil {
						continue
					}
					if k, isK := constString(cnd.Y); isK && k == "" && p.St.resolve(cnd.X) == v {
						if (cnd.Op == token.EQL && e.Idx == cnd.succWhen(true)) || (cnd.Op == token.NEQ && e.Idx == cnd.succWhen(false)) {
							empty = true
						}
					}
				}
				if !empty && pathEstablishes(p.St, factInt(func(l ssa.Value) bool { return isLenOf(l, v) }, 0, 0, 0)) {
					empty = true
				}
				if !empty {
					fail(st, "the terminator form ends every data line with LF, yet a non-empty buffer is dispatched without dropping the final LF")
				}
			}
		}
	}
	if stores == 0 {
		c.ok(name, P.pos(it.Pos()), "not decided: no store to Event.Data found in the iterator")
		return
	}
	if good && unknown {
		c.ok(name, P.pos(it.Pos()), "not decided: a dispatched Data value is derived from the buffer in a way this rule does not model")
		return
	}
	pos := P.pos(it.Pos())
	if at != nil {
		pos = P.ipos(at)
	}
	okMsg := "dispatched Data = buffer minus its final LF (untrimmed only when empty)"
	if !wantTrim {
		okMsg = "dispatched Data = the buffer as it is (separator form)"
	}
	c.check(good, name, pos, okMsg, "the dispatched Data is not the LF-join of the data lines ("+why+")")
}
