package main

import (
	"go/constant"
	"go/token"

	"golang.org/x/tools/go/ssa"
)

func init() {
	register(&Rule{ID: "R01.6", Title: "retry values are parsed digits-only (ParseUint base 10, or a digits-only test guards the parse)", Floor: 2, Run: r01_6})
}

// fieldNameEdge: the CFG edge taken when the parsed field's Name equals the
// given FieldName constant (switch case in the interpreter).
func fieldNameEdges(fn *ssa.Function, name string) []cfgEdge {
	var out []cfgEdge
	for _, ifi := range ifsIn(fn) {
		cnd := decodeIf(ifi)
		if cnd.Y == nil || cnd.Op != token.EQL {
			continue
		}
		var k string
		var other ssa.Value
		if s, ok := constString(cnd.Y); ok {
			k, other = s, cnd.X
		} else if s, ok := constString(cnd.X); ok {
			k, other = s, cnd.Y
		} else {
			continue
		}
		if k != name {
			continue
		}
		if _, ok := isFieldLoad(other, "parser.Field", "Name"); !ok {
			continue
		}
		out = append(out, cfgEdge{ifi.Block(), cnd.succWhen(true)})
	}
	return out
}

func inFieldCase(fn *ssa.Function, name string, b *ssa.BasicBlock) bool {
	for _, e := range fieldNameEdges(fn, name) {
		if edgeDominates(e.From, e.Idx, b) {
			return true
		}
	}
	return false
}

// isNotDigitPredicate: f(r rune) bool is true exactly outside '0'..'9'
// (decided by constant propagation on the four boundary values).
func isNotDigitPredicate(f *ssa.Function) bool {
	if f == nil || len(f.Params) != 1 || f.Blocks == nil {
		return false
	}
	want := map[int64]bool{47: true, 48: false, 57: false, 58: true}
	for k, w := range want {
		res := sccp(f, map[ssa.Value]constant.Value{f.Params[0]: constant.MakeInt64(k)}, nil, nil)
		if len(res.Exit) == 0 {
			return false
		}
		for ret := range res.Exit {
			if len(ret.Results) != 1 {
				return false
			}
			v := ret.Results[0]
			var l lat
			if c, ok := v.(*ssa.Const); ok && c.Value != nil {
				l = latConst(c.Value)
			} else {
				l = res.Vals[v]
			}
			if l.kind != 1 || l.val.Kind() != constant.Bool || constant.BoolVal(l.val) != w {
				return false
			}
		}
	}
	return true
}

func r01_6(c *Ctx) {
	P := c.P
	var sites []*ssa.Function
	if it := iteratorBody(P); it != nil {
		sites = append(sites, it)
	} else {
		c.anchor("event iterator body")
	}
	if um := P.Fn("(*Message).UnmarshalText"); um != nil {
		sites = append(sites, um)
	} else {
		c.anchor("(*Message).UnmarshalText")
	}
	for _, fn := range sites {
		n := 0
		eachInstr(fn, func(in ssa.Instruction) {
			call, ok := in.(*ssa.Call)
			if !ok {
				return
			}
			cn := calleeName(call)
			switch cn {
			case "strconv.ParseInt", "strconv.ParseUint", "strconv.Atoi", "strconv.ParseFloat":
			default:
				return
			}
			if !inFieldCase(fn, "retry", call.Block()) {
				return
			}
			n++
			name := fnLabel(fn) + ":retry-parse(" + cn + ")"
			arg := call.Call.Args[0]
			if _, ok := isFieldLoad(arg, "parser.Field", "Value"); !ok {
				c.undecided(name, P.ipos(call), "the parsed string is not the retry field's Value")
				return
			}
			if cn == "strconv.ParseUint" {
				base, isK := constInt(call.Call.Args[1])
				c.check(isK && base == 10, name, P.ipos(call), "ParseUint base 10 accepts exactly ASCII digit strings", "ParseUint with a base other than 10 accepts non-decimal retry values")
				return
			}
			// otherwise a digits-only test of the same value must guard the parse
			guarded := false
			for _, ifi := range ifsIn(fn) {
				op, k, succ, ok := cmpConstEdge(ifi, func(v ssa.Value) bool {
					ic, ok := isStaticCall(v, "strings.IndexFunc")
					if !ok {
						return false
					}
					if _, isVal := isFieldLoad(ic.Call.Args[0], "parser.Field", "Value"); !isVal {
						return false
					}
					var pf *ssa.Function
					switch p := ic.Call.Args[1].(type) {
					case *ssa.MakeClosure:
						pf, _ = p.Fn.(*ssa.Function)
					case *ssa.Function:
						pf = p
					}
					return isNotDigitPredicate(pf)
				})
				if !ok || k != -1 {
					continue
				}
				var e int
				switch op {
				case token.EQL:
					e = succ
				case token.NEQ:
					e = 1 - succ
				default:
					continue
				}
				if edgeDominates(ifi.Block(), e, call.Block()) {
					guarded = true
				}
			}
			c.check(guarded, name, P.ipos(call), "the parse is guarded by a digits-only test of the same value",
				cn+" accepts a sign prefix (\"+5\", \"-0\") and is not guarded by a digits-only test: the spec admits only ASCII digits in a retry value")
		})
		if n == 0 {
			c.bad(fnLabel(fn)+":retry-parse", P.pos(fn.Pos()), "no numeric parse of the retry field found in its switch case: the retry field is not interpreted")
		}
	}
}
