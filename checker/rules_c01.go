package main

import (
	"go/constant"
	"go/token"
	"go/types"

	"golang.org/x/tools/go/ssa"
)

func init() {
	register(&Rule{ID: "R01.6", Title: "retry values are parsed digits-only (ParseUint base 10, or a digits-only test guards the parse)", Floor: 2, Run: r01_6})
}

// fieldNameEdge: the CFG edge taken when the parsed field's Name equals the
// given FieldName constant (switch case in the interpreter).
func fieldNameEdges(fn *ssa.Function, name string) []cfgEdge {
	var out []cfgEdge
	for _, ifi := range ifsIn(fn) {
		cnd := decodeIf(ifi)
		if cnd.Y == nil || cnd.Op != token.EQL {
			continue
		}
		var k string
		var other ssa.Value
		if s, ok := constString(cnd.Y); ok {
			k, other = s, cnd.X
		} else if s, ok := constString(cnd.X); ok {
			k, other = s, cnd.Y
		} else {
			continue
		}
		if k != name {
			continue
		}
		if _, ok := isFieldLoad(other, "parser.Field", "Name"); !ok {
			continue
		}
		out = append(out, cfgEdge{ifi.Block(), cnd.succWhen(true)})
	}
	return out
}

func inFieldCase(fn *ssa.Function, name string, b *ssa.BasicBlock) bool {
	for _, e := range fieldNameEdges(fn, name) {
		if edgeDominates(e.From, e.Idx, b) {
			return true
		}
	}
	return false
}

// isNotDigitPredicate: f(r rune) bool is true exactly outside '0'..'9'
// (decided by constant propagation on the four boundary values).
func isNotDigitPredicate(f *ssa.Function) bool {
	if f == nil || len(f.Params) != 1 || f.Blocks == nil {
		return false
	}
	want := map[int64]bool{47: true, 48: false, 57: false, 58: true}
	for k, w := range want {
		res := sccp(f, map[ssa.Value]constant.Value{f.Params[0]: constant.MakeInt64(k)}, nil, nil)
		if len(res.Exit) == 0 {
			return false
		}
		for ret := range res.Exit {
			if len(ret.Results) != 1 {
				return false
			}
			v := ret.Results[0]
			var l lat
			if c, ok := v.(*ssa.Const); ok && c.Value != nil {
				l = latConst(c.Value)
			} else {
				l = res.Vals[v]
			}
			if l.kind != 1 || l.val.Kind() != constant.Bool || constant.BoolVal(l.val) != w {
				return false
			}
		}
	}
	return true
}

func r01_6(c *Ctx) {
	P := c.P
	var sites []*ssa.Function
	if it := iteratorBody(P); it != nil {
		sites = append(sites, it)
	} else {
		c.anchor("event iterator body")
	}
	if um := P.Fn("(*Message).UnmarshalText"); um != nil {
		sites = append(sites, um)
	} else {
		c.anchor("(*Message).UnmarshalText")
	}
	for _, fn := range sites {
		n := 0
		fn := fn
		eachInstrDeep(fn, func(in ssa.Instruction) {
			call, ok := in.(*ssa.Call)
			if !ok {
				return
			}
			cn := calleeName(call)
			switch cn {
			case "strconv.ParseInt", "strconv.ParseUint", "strconv.Atoi", "strconv.ParseFloat":
			default:
				return
			}
			if lb, ok := liftBlock(call.Block(), fn); !ok || !inFieldCase(fn, "retry", lb) {
				return
			}
			n++
			name := fnLabel(fn) + ":retry-parse(" + cn + ")"
			arg := call.Call.Args[0]
			if _, ok := isFieldLoad(arg, "parser.Field", "Value"); !ok {
				c.undecided(name, P.ipos(call), "the parsed string is not the retry field's Value")
				return
			}
			if cn == "strconv.ParseUint" {
				base, isK := constInt(call.Call.Args[1])
				c.check(isK && base == 10, name, P.ipos(call), "ParseUint base 10 accepts exactly ASCII digit strings", "ParseUint with a base other than 10 accepts non-decimal retry values")
				return
			}
			// otherwise a digits-only test of the same value must guard the parse
			guarded := false
			var ifs []*ssa.If
			for _, fnc := range enclosingChain(call.Block(), fn) {
				ifs = append(ifs, ifsIn(fnc)...)
			}
			for _, ifi := range ifs {
				op, k, succ, ok := cmpConstEdge(ifi, func(v ssa.Value) bool {
					ic, ok := isStaticCall(v, "strings.IndexFunc")
					if !ok {
						return false
					}
					if _, isVal := isFieldLoad(ic.Call.Args[0], "parser.Field", "Value"); !isVal {
						return false
					}
					var pf *ssa.Function
					switch p := ic.Call.Args[1].(type) {
					case *ssa.MakeClosure:
						pf, _ = p.Fn.(*ssa.Function)
					case *ssa.Function:
						pf = p
					}
					return isNotDigitPredicate(pf)
				})
				if !ok || k != -1 {
					continue
				}
				var e int
				switch op {
				case token.EQL:
					e = succ
				case token.NEQ:
					e = 1 - succ
				default:
					continue
				}
				if edgeDominates(ifi.Block(), e, call.Block()) {
					guarded = true
				}
			}
			if !guarded && digitsOnlyLoopGuards(fn, call) {
				guarded = true
			}
			c.check(guarded, name, P.ipos(call), "the parse is guarded by a digits-only test of the same value",
				cn+" accepts a sign prefix (\"+5\", \"-0\") and is not guarded by a digits-only test: the spec admits only ASCII digits in a retry value")
		})
		if n == 0 {
			c.bad(fnLabel(fn)+":retry-parse", P.pos(fn.Pos()), "no numeric parse of the retry field found in its switch case: the retry field is not interpreted")
		}
	}
}

// ---------------------------------------------------------------------------
// the remaining C01 rules

func init() {
	prop(&PropertySpec{
		ID: "C01", Level: "other",
		Rules: []string{"R01.1", "R01.2", "R01.3", "R01.4", "R01.5", "R01.6", "R01.7", "R01.8", "R14.4", "R02.5", "R11.5", "R11.7"},
		Explanation: "Decides the interpreter (the iterator returned by read and its yield wrapper), not the byte scanner: R01.1 field tables agree (getFieldName has one case per field-name constant and a rejecting default; both interpreters have a case for every name; maxFieldNameLength covers the longest name; encoder prefixes are name+\": \"); " +
			"R01.2 iterator protocol (every yield is an event with nil error or a zero event with an error; nothing is yielded after an error or after the consumer stopped); R01.3 dispatch resets type and data, sets dirty false and does not touch the last-event-ID buffer; R01.4 dirty becomes true exactly on paths that change interpreter state, stays unchanged otherwise, false only on dispatch; " +
			"R01.5 id values containing NUL are ignored (store dominated by the no-NUL edge; no other writer); R01.6 digits-only retry; R01.7 at the end a pending event is flushed only when dirty and the parser reports io.EOF, and the error yield happens only for a non-nil error; R01.8 field splitting shape in scanSegment (name = text before the first colon, value = rest with at most one leading space removed, blank line = end of event, comment only when the colon is first); " +
			"plus the line-break predicates (R14.4), the Field.Value provenance (R02.5) and the parser's end-of-input links (R11.5, R11.7).",
		NotDecided: "that NewlineIndex/splitFunc/scanSegment implement the WHATWG line grammar for all byte strings and read segmentations (offset arithmetic, CR at buffer end, BOM position — the BOM-after-blank-lines deviation D7 is NOT decided); UTF-8 handling; events straddling buffer sizes.",
	})
	register(&Rule{ID: "R01.1", Title: "field-table agreement between parser, interpreters and encoder", Floor: 12, Run: r01_1})
	register(&Rule{ID: "R01.2", Title: "iterator protocol: event xor error; nothing after an error or a stop", Floor: 4, Run: r01_2})
	register(&Rule{ID: "R01.3", Title: "dispatch resets type/data/dirty and keeps the last-event-ID buffer", Floor: 3, Run: r01_3})
	register(&Rule{ID: "R01.4", Title: "dirty discipline per switch path", Floor: 6, Run: r01_4})
	register(&Rule{ID: "R01.5", Title: "NUL-containing id values are ignored; no other writer of the ID buffer", Floor: 2, Run: r01_5})
	register(&Rule{ID: "R01.7", Title: "EOF flush only when dirty and clean EOF; error yield only for a non-nil error", Floor: 2, Run: r01_7})
	register(&Rule{ID: "R01.8", Title: "field splitting shape in scanSegment / trimFirstSpace", Floor: 5, Run: r01_8})
}

// fieldNameConsts returns the FieldName constants of package parser: name -> value.
func fieldNameConsts(P *Program) map[string]string {
	out := map[string]string{}
	sc := P.Parser.Pkg.Scope()
	for _, nm := range sc.Names() {
		k, ok := sc.Lookup(nm).(*types.Const)
		if !ok || !typeIs(k.Type(), "parser", "FieldName") {
			continue
		}
		if k.Val().Kind() == constant.String {
			out[nm] = constant.StringVal(k.Val())
		}
	}
	return out
}

// globalBytesInit: the constant byte content a []byte global of sse is initialised with.
func globalBytesInit(P *Program, g *ssa.Global) (string, bool) {
	init := P.SSE.Func("init")
	if init == nil {
		return "", false
	}
	var val string
	found := false
	n := 0
	eachInstrDeep(init, func(in ssa.Instruction) {
		st, ok := in.(*ssa.Store)
		if !ok || st.Addr != ssa.Value(g) {
			return
		}
		n++
		switch v := st.Val.(type) {
		case *ssa.Convert:
			if s, ok := constString(v.X); ok {
				val, found = s, true
			}
		case *ssa.Slice:
			if al, ok := v.X.(*ssa.Alloc); ok {
				arr, okA := deref(al.Type()).Underlying().(*types.Array)
				if !okA {
					return
				}
				buf := make([]byte, arr.Len())
				good := true
				for _, r := range *al.Referrers() {
					ia, ok := r.(*ssa.IndexAddr)
					if !ok {
						continue
					}
					idx, okI := constInt(ia.Index)
					for _, rr := range *ia.Referrers() {
						if s2, ok := rr.(*ssa.Store); ok && s2.Addr == ssa.Value(ia) {
							b, okB := constInt(s2.Val)
							if !okI || !okB || idx < 0 || int(idx) >= len(buf) {
								good = false
								continue
							}
							buf[idx] = byte(b)
						}
					}
				}
				if good {
					val, found = string(buf), true
				}
			}
		}
	})
	// the global must not be reassigned anywhere else
	for _, fn := range P.Funcs {
		if fn == init {
			continue
		}
		eachInstrDeep(fn, func(in ssa.Instruction) {
			if st, ok := in.(*ssa.Store); ok && st.Addr == ssa.Value(g) {
				found = false
			}
		})
	}
	return val, found && n == 1
}

func r01_1(c *Ctx) {
	P := c.P
	consts := fieldNameConsts(P)
	K := map[string]string{} // value -> const name, without the comment sentinel
	comment := ""
	for nm, v := range consts {
		if v == ":" {
			comment = nm
			continue
		}
		K[v] = nm
	}
	if len(K) < 4 || comment == "" {
		c.undecided("parser:FieldName-constants", "-", "expected the data/event/retry/id constants and the comment sentinel in package parser")
		return
	}
	// (i) getFieldName
	gf := P.Fn("parser.getFieldName")
	if gf == nil {
		c.anchor("parser.getFieldName")
	} else {
		seen := map[string]bool{}
		hasDefault := false
		for _, ret := range returnsOf(gf) {
			if len(ret.Results) != 2 {
				continue
			}
			s, okS := constString(ret.Results[0])
			b, okB := constBool(ret.Results[1])
			if !okS && okB && b {
				// table form: the accepted name is an element of a package-level table of names, returned
				// under equality of that element with the input
				if tbl, elem, ok := tableElement(P, ret.Results[0]); ok {
					g := false
					for _, ifi := range ifsIn(gf) {
						cnd := decodeIf(ifi)
						if cnd.Y == nil || cnd.Op != token.EQL {
							continue
						}
						x, y := stripConvAll(cnd.X), stripConvAll(cnd.Y)
						if ((x == elem && y == ssa.Value(gf.Params[0])) || (y == elem && x == ssa.Value(gf.Params[0]))) && edgeDominates(ifi.Block(), cnd.succWhen(true), ret.Block()) {
							g = true
						}
					}
					inLoop := len(loopsContaining(gf, ret.Block())) > 0 || len(loopsOf(gf)) > 0
					for _, v := range tbl {
						c.check(g && inLoop && K[v] != "", "parser.getFieldName:case("+v+")", P.ipos(ret), "returns ("+v+", true) exactly when the input equals it (table entry)", "getFieldName accepts a name that is not a field-name constant, or not under equality with it")
						seen[v] = true
					}
					continue
				}
			}
			if !okS || !okB {
				c.undecided("parser.getFieldName:return", P.ipos(ret), "non-constant return")
				continue
			}
			if b {
				// guarded by param == s
				g := false
				for _, ifi := range ifsIn(gf) {
					cnd := decodeIf(ifi)
					if cnd.Y == nil || cnd.Op != token.EQL {
						continue
					}
					if k, ok := constString(cnd.Y); ok && k == s && stripConvAll(cnd.X) == ssa.Value(gf.Params[0]) && edgeDominates(ifi.Block(), cnd.succWhen(true), ret.Block()) {
						g = true
					}
				}
				c.check(g && K[s] != "", "parser.getFieldName:case("+s+")", P.ipos(ret), "returns ("+s+", true) exactly when the input equals it", "getFieldName accepts a name that is not a field-name constant, or not under equality with it")
				seen[s] = true
			} else {
				hasDefault = s == ""
			}
		}
		for v := range K {
			if !seen[v] {
				c.bad("parser.getFieldName:case("+v+")", P.pos(gf.Pos()), "getFieldName has no accepting case for field name "+v+": such fields are dropped by the decoder")
			}
		}
		c.check(hasDefault, "parser.getFieldName:default", P.pos(gf.Pos()), "unknown names are rejected (\"\", false)", "getFieldName has no rejecting default")
	}
	// (ii) iterator switch, (iii) UnmarshalText switch
	if it := iteratorBody(P); it != nil {
		for v := range K {
			c.check(len(fieldNameEdges(it, v)) > 0, fnLabel(it)+":case("+v+")", P.pos(it.Pos()), "the interpreter has a case for "+v, "the stream interpreter has no case for field "+v)
		}
	} else {
		c.anchor("iterator body")
	}
	if um := P.Fn("(*Message).UnmarshalText"); um != nil {
		for v := range consts {
			vv := consts[v]
			c.check(len(fieldNameEdges(um, vv)) > 0, fnLabel(um)+":case("+vv+")", P.pos(um.Pos()), "UnmarshalText has a case for "+vv, "Message.UnmarshalText has no case for field "+vv)
		}
	} else {
		c.anchor("(*Message).UnmarshalText")
	}
	// (iv) maxFieldNameLength
	if mo, ok := P.Parser.Pkg.Scope().Lookup("maxFieldNameLength").(*types.Const); ok {
		m, _ := constant.Int64Val(mo.Val())
		mx := 0
		for v := range K {
			if len(v) > mx {
				mx = len(v)
			}
		}
		c.check(int(m) >= mx, "parser:maxFieldNameLength", P.pos(mo.Pos()), "maxFieldNameLength covers the longest field name", "maxFieldNameLength is smaller than the longest field name: that field is never recognised")
	} else {
		// the bound may be written as a literal in scanSegment; checked by R01.8
		c.ok("parser:maxFieldNameLength", "-", "no named bound (checked at its use in R01.8)")
	}
	// (v) encoder prefixes
	checkPrefix := func(fnName, want string, pick func(fn *ssa.Function) []ssa.Value) {
		fn := P.Fn(fnName)
		if fn == nil {
			c.anchor(fnName)
			return
		}
		vals := pick(fn)
		if len(vals) == 0 {
			c.bad(fnLabel(fn)+":prefix", P.pos(fn.Pos()), "no prefix constant found for this line writer")
			return
		}
		for _, v := range vals {
			a, ok := loadedFrom(v)
			g, isG := a.(*ssa.Global)
			if !ok || !isG {
				c.undecided(fnLabel(fn)+":prefix", P.pos(fn.Pos()), "prefix is not a package-level constant slice: "+describe(v))
				continue
			}
			s, ok := globalBytesInit(P, g)
			c.check(ok && s == want, fnLabel(fn)+":prefix("+g.Name()+")", P.pos(g.Pos()), "prefix constant is "+quote(want), "prefix constant "+g.Name()+" is "+quote(s)+", expected "+quote(want)+" (field name, colon, exactly one space): the decoder misreads or drops the field")
		}
	}
	argOfCall := func(callee string, idx int) func(fn *ssa.Function) []ssa.Value {
		return func(fn *ssa.Function) []ssa.Value {
			var out []ssa.Value
			eachInstrDeep(fn, func(in ssa.Instruction) {
				if call, ok := isModCall(in, callee); ok {
					out = append(out, call.Call.Args[idx])
				}
			})
			return out
		}
	}
	idV, evV, rtV, dtV := "", "", "", ""
	for v, nm := range K {
		switch nm {
		case "FieldNameID":
			idV = v
		case "FieldNameEvent":
			evV = v
		case "FieldNameRetry":
			rtV = v
		case "FieldNameData":
			dtV = v
		}
	}
	checkPrefix("(*Message).writeID", idV+": ", argOfCall("(*Message).writeMessageField", 3))
	checkPrefix("(*Message).writeType", evV+": ", argOfCall("(*Message).writeMessageField", 3))
	firstWrite := func(fn *ssa.Function) []ssa.Value {
		var out []ssa.Value
		eachInstrDeep(fn, func(in ssa.Instruction) {
			if ci, ok := isInvoke(in, "", "", "Write"); ok && len(out) == 0 {
				out = append(out, ci.Common().Args[0])
			}
		})
		return out
	}
	checkPrefix("(*Message).writeRetry", rtV+": ", firstWrite)
	// chunk.WriteTo: phi(data, comment) selected by isComment
	if cw := P.Fn("(*chunk).WriteTo"); cw != nil {
		// path-wise: the first write of every path is ": " on a path that established isComment and
		// "data: " on a path that established !isComment
		okSel := true
		seen := map[string]bool{}
		isCmV := func(v ssa.Value) bool { _, ok := isFieldLoad(v, "chunk", "isComment"); return ok }
		paths, okP := abstractPaths(cw, 4096, func(ssa.Value) (bool, bool) { return false, false })
		if !okP {
			okSel = false
		}
		for _, p := range paths {
			var first ssa.Value
			for _, in := range p.Instrs {
				if ci, ok := isInvoke(in, "", "", "Write"); ok {
					first = p.St.resolve(ci.Common().Args[0])
					break
				}
			}
			if first == nil {
				continue
			}
			a, ok := loadedFrom(first)
			g, isG := a.(*ssa.Global)
			if !ok || !isG {
				okSel = false
				break
			}
			s, ok := globalBytesInit(P, g)
			switch {
			case ok && s == ": " && pathEstablishes(p.St, factBool(isCmV, true)):
				seen["comment"] = true
			case ok && s == dtV+": " && pathEstablishes(p.St, factBool(isCmV, false)):
				seen["data"] = true
			default:
				okSel = false
			}
		}
		okSel = okSel && seen["comment"] && seen["data"]
		c.check(okSel, fnLabel(cw)+":prefix", P.pos(cw.Pos()), "chunks are written with \"data: \" and comments with \": \"", "chunk.WriteTo does not select \"data: \" for data and \": \" for comments")
	} else {
		c.anchor("(*chunk).WriteTo")
	}
}

func quote(s string) string {
	out := "\""
	for _, r := range s {
		switch r {
		case '\n':
			out += "\\n"
		case '\r':
			out += "\\r"
		default:
			out += string(r)
		}
	}
	return out + "\""
}

func r01_2(c *Ctx) {
	P := c.P
	ip := findIterParts(P)
	if ip == nil {
		c.anchor("iterator body")
		return
	}
	it := ip.fn
	fns := []*ssa.Function{it}
	if ip.doYield != nil {
		fns = append(fns, ip.doYield)
	}
	isZeroEvent := func(v ssa.Value) bool {
		k, ok := v.(*ssa.Const)
		return ok && k.Value == nil
	}
	type ycall struct {
		call  *ssa.Call
		isErr bool
	}
	var direct []ycall
	for _, fn := range fns {
		eachInstrDeep(fn, func(in ssa.Instruction) {
			call, ok := isYieldCall(in)
			if !ok {
				return
			}
			name := fnLabel(fn) + ":yield"
			if len(call.Call.Args) != 2 {
				c.undecided(name, P.ipos(call), "arity")
				return
			}
			ev, er := call.Call.Args[0], call.Call.Args[1]
			switch {
			case isNilConst(er):
				c.ok(name+"(event)", P.ipos(call), "event yield carries a nil error")
				if fn == it {
					direct = append(direct, ycall{call, false})
				}
			case isZeroEvent(ev):
				c.ok(name+"(error)", P.ipos(call), "error yield carries the zero Event")
				if fn == it {
					direct = append(direct, ycall{call, true})
				}
			default:
				c.bad(name, P.ipos(call), "a yield carries both a non-zero Event and a possibly non-nil error: an event is yielded together with an error")
			}
		})
	}
	// doYield returns the yield's result
	if ip.doYield != nil {
		good := true
		for _, ret := range returnsOf(ip.doYield) {
			for _, s := range sources(ret.Results[0]) {
				if _, ok := isYieldCall(asInstr(s)); !ok {
					good = false
				}
			}
		}
		c.check(good, fnLabel(ip.doYield)+":returns-yield-result", P.pos(ip.doYield.Pos()), "the wrapper returns the consumer's answer", "the yield wrapper does not return the consumer's answer: stopping the iteration is not honoured")
	}
	isAnyYield := func(in ssa.Instruction) bool {
		if _, ok := isYieldCall(in); ok {
			return true
		}
		if call, ok := in.(*ssa.Call); ok && ip.doYieldMC != nil && call.Call.Value == ssa.Value(ip.doYieldMC) {
			return true
		}
		return false
	}
	// event yields in the iterator (direct or through the wrapper): false edge => no more yields
	eachInstrDeep(it, func(in ssa.Instruction) {
		call, ok := in.(*ssa.Call)
		if !ok || !isAnyYield(in) {
			return
		}
		isErr := false
		for _, d := range direct {
			if d.call == call && d.isErr {
				isErr = true
			}
		}
		name := fnLabel(it) + ":after-yield"
		if isErr {
			again := false
			forward([]startPoint{afterInstr(call)}, func(x ssa.Instruction) searchAction {
				if isAnyYield(x) {
					again = true
				}
				return cont
			})
			c.check(!again, name+"(error)", P.ipos(call), "nothing is yielded after the error", "something can be yielded after an error was yielded")
			return
		}
		var fe *cfgEdge
		for _, ifi := range ifsIn(it) {
			if s, ok := boolEdge(ifi, func(v ssa.Value) bool { return v == ssa.Value(call) }); ok {
				fe = &cfgEdge{ifi.Block(), 1 - s}
			}
		}
		if fe == nil {
			c.bad(name+"(event)", P.ipos(call), "the consumer's answer to an event yield is ignored: stopping early does not yield a prefix")
			return
		}
		again := false
		_, exit := forward([]startPoint{atEdge(fe.From, fe.Idx)}, func(x ssa.Instruction) searchAction {
			if isAnyYield(x) {
				again = true
			}
			return cont
		})
		c.check(!again && exit, name+"(event)", P.ipos(call), "a false answer leads to return without further yields", "after the consumer stopped, another event or error can still be yielded")
	})
}

func asInstr(v ssa.Value) ssa.Instruction {
	in, _ := v.(ssa.Instruction)
	return in
}

// interpParts: cells of the interpreter inside the iterator.
type interpParts struct {
	*iterParts
	typCell   *ssa.Alloc
	sb        *ssa.Alloc
	idCell    ssa.Value // free variable holding lastEventID
	onRetry   ssa.Value // free variable holding the retry callback
	loopYield *ssa.Call // the doYield call inside the loop
	tailYield *ssa.Call // the doYield call after the loop
	dirtyHead ssa.Value
}

func findInterp(P *Program) *interpParts {
	ip := findIterParts(P)
	if ip == nil || ip.next == nil || ip.doYieldMC == nil {
		return nil
	}
	x := &interpParts{iterParts: ip}
	it := ip.fn
	// doYield's bindings: yield cell, lastEventID freevar, typ cell
	for i, b := range ip.doYieldMC.Bindings {
		fv := ip.doYield.FreeVars[i]
		if deref(fv.Type()).String() != "string" {
			continue
		}
		if al, ok := b.(*ssa.Alloc); ok {
			x.typCell = al
		} else if f2, ok := b.(*ssa.FreeVar); ok {
			x.idCell = f2
		}
	}
	eachInstrDeep(it, func(in ssa.Instruction) {
		if al, ok := in.(*ssa.Alloc); ok && deref(al.Type()).String() == "strings.Builder" {
			x.sb = al
		}
		if call, ok := in.(*ssa.Call); ok && call.Call.Value == ssa.Value(ip.doYieldMC) {
			if len(loopsContaining(it, call.Block())) > 0 {
				x.loopYield = call
			} else {
				x.tailYield = call
			}
		}
	})
	for _, fv := range it.FreeVars {
		if deref(fv.Type()).String() == "func(int64)" {
			x.onRetry = fv
		}
	}
	if x.loopYield != nil {
		for _, ifi := range ifsIn(it) {
			if _, isPhi := ifi.Cond.(*ssa.Phi); isPhi && edgeDominates(ifi.Block(), 0, x.loopYield.Block()) {
				x.dirtyHead = ifi.Cond
			}
		}
	}
	return x
}

func (x *interpParts) isTypStore(in ssa.Instruction) (*ssa.Store, bool) {
	st, ok := in.(*ssa.Store)
	return st, ok && x.typCell != nil && st.Addr == ssa.Value(x.typCell)
}
func (x *interpParts) isIDStore(in ssa.Instruction) (*ssa.Store, bool) {
	st, ok := in.(*ssa.Store)
	return st, ok && x.idCell != nil && st.Addr == x.idCell
}
func (x *interpParts) isSBCall(in ssa.Instruction, method string) bool {
	call, ok := isStaticCall(in, "(*strings.Builder)."+method)
	return ok && x.sb != nil && call.Call.Args[0] == ssa.Value(x.sb)
}
func (x *interpParts) isOnRetryCall(in ssa.Instruction) bool {
	call, ok := in.(*ssa.Call)
	if !ok || x.onRetry == nil || call.Call.StaticCallee() != nil || call.Call.IsInvoke() {
		return false
	}
	a, ok := loadedFrom(call.Call.Value)
	return ok && a == x.onRetry
}

func r01_3(c *Ctx) {
	P := c.P
	x := findInterp(P)
	if x == nil || x.loopYield == nil || x.typCell == nil || x.sb == nil {
		c.anchor("interpreter cells (type, data builder, in-loop dispatch)")
		return
	}
	it := x.fn
	var te *cfgEdge
	for _, ifi := range ifsIn(it) {
		if s, ok := boolEdge(ifi, func(v ssa.Value) bool { return v == ssa.Value(x.loopYield) }); ok {
			te = &cfgEdge{ifi.Block(), s}
		}
	}
	if te == nil {
		c.bad(fnLabel(it)+":dispatch", P.ipos(x.loopYield), "the in-loop dispatch does not test the consumer's answer")
		return
	}
	start := atEdge(te.From, te.Idx)
	missTyp := reachesAvoiding(start, x.next, func(in ssa.Instruction) bool {
		st, ok := x.isTypStore(in)
		if !ok {
			return false
		}
		s, isS := constString(st.Val)
		return isS && s == ""
	}, nil)
	c.check(!missTyp, fnLabel(it)+":dispatch-resets-type", P.ipos(x.loopYield), "after a dispatch the type buffer is reset to \"\" before the next field", "after a dispatch a path reaches the next field without resetting the event type: the type leaks into the next event")
	missSB := reachesAvoiding(start, x.next, func(in ssa.Instruction) bool { return x.isSBCall(in, "Reset") }, nil)
	c.check(!missSB, fnLabel(it)+":dispatch-resets-data", P.ipos(x.loopYield), "after a dispatch the data buffer is reset", "after a dispatch a path reaches the next field without resetting the data buffer: data leaks into the next event")
	// the ID buffer is not stored on the dispatch path
	touched := false
	forward([]startPoint{start}, func(in ssa.Instruction) searchAction {
		if in == ssa.Instruction(x.next) {
			return stopPath
		}
		if _, ok := x.isIDStore(in); ok {
			touched = true
		}
		return cont
	})
	c.check(!touched, fnLabel(it)+":dispatch-keeps-id", P.ipos(x.loopYield), "the last-event-ID buffer persists across dispatches", "the last-event-ID buffer is overwritten on dispatch: it must persist until another id field is received")
}

func r01_4(c *Ctx) {
	P := c.P
	x := findInterp(P)
	if x == nil || x.loopYield == nil || x.dirtyHead == nil {
		c.anchor("interpreter loop / dirty flag")
		return
	}
	it := x.fn
	head, ok := x.dirtyHead.(*ssa.Phi)
	if !ok {
		c.undecided(fnLabel(it)+":dirty", P.pos(it.Pos()), "dirty is not a loop-carried phi")
		return
	}
	// initial value false
	initOK := false
	var latchVal ssa.Value
	for i, e := range head.Edges {
		pred := head.Block().Preds[i]
		if !head.Block().Dominates(pred) {
			if b, isC := constBool(e); isC && !b {
				initOK = true
			}
		} else {
			latchVal = e
		}
	}
	c.check(initOK, fnLabel(it)+":dirty-initial", P.pos(it.Pos()), "dirty starts false", "dirty does not start false: an empty stream would dispatch an event")
	merge, ok := latchVal.(*ssa.Phi)
	if !ok {
		c.undecided(fnLabel(it)+":dirty-merge", P.pos(it.Pos()), "the per-iteration dirty value is not a phi over the switch paths")
		return
	}
	// body entry: true edge of Parser.Next
	var bodyE *cfgEdge
	for _, ifi := range ifsIn(it) {
		if s, ok := boolEdge(ifi, func(v ssa.Value) bool { return v == ssa.Value(x.next) }); ok {
			bodyE = &cfgEdge{ifi.Block(), s}
		}
	}
	if bodyE == nil {
		c.anchor("loop body entry")
		return
	}
	// enumerate acyclic paths from the body entry to the merge block
	type path struct {
		blocks []*ssa.BasicBlock
	}
	var paths [][]*ssa.BasicBlock
	var dfs func(b *ssa.BasicBlock, cur []*ssa.BasicBlock, seen map[*ssa.BasicBlock]bool)
	dfs = func(b *ssa.BasicBlock, cur []*ssa.BasicBlock, seen map[*ssa.BasicBlock]bool) {
		if len(paths) > 4096 {
			return
		}
		cur = append(cur, b)
		if b == merge.Block() {
			paths = append(paths, append([]*ssa.BasicBlock(nil), cur...))
			return
		}
		if seen[b] {
			return
		}
		seen[b] = true
		for _, s := range b.Succs {
			dfs(s, cur, seen)
		}
		delete(seen, b)
	}
	dfs(bodyE.From.Succs[bodyE.Idx], nil, map[*ssa.BasicBlock]bool{})
	if len(paths) == 0 {
		c.undecided(fnLabel(it)+":dirty-paths", P.pos(it.Pos()), "no path from the loop body to the dirty merge")
		return
	}
	for _, p := range paths {
		effects := ""
		dispatch := false
		for _, b := range p[:len(p)-1] {
			for _, in := range b.Instrs {
				if x.isSBCall(in, "WriteString") || x.isSBCall(in, "WriteByte") || x.isSBCall(in, "Write") || x.isSBCall(in, "WriteRune") {
					effects += "data "
				}
				if _, ok := x.isTypStore(in); ok {
					effects += "type "
				}
				if _, ok := x.isIDStore(in); ok {
					effects += "id "
				}
				if x.isOnRetryCall(in) {
					effects += "retry "
				}
				if in == ssa.Instruction(x.loopYield) {
					dispatch = true
				}
			}
		}
		last := p[len(p)-2]
		var val ssa.Value
		for i, pr := range merge.Block().Preds {
			if pr == last {
				val = merge.Edges[i]
			}
		}
		name := fnLabel(it) + ":dirty-path(" + pathLabel(p) + ")"
		pos := P.pos(last.Instrs[0].Pos())
		if !last.Instrs[0].Pos().IsValid() {
			pos = P.ipos(last.Instrs[len(last.Instrs)-1])
		}
		b, isC := constBool(val)
		switch {
		case dispatch:
			c.check(isC && !b, name, pos, "dispatch path leaves dirty false", "after a dispatch dirty is not false: the same event is dispatched again")
		case effects != "":
			c.check(isC && b, name, pos, "path changing "+effects+"marks dirty", "a path that changes interpreter state ("+effects+") does not set dirty: the event is lost (not dispatched)")
		default:
			c.check(val == ssa.Value(head), name, pos, "path without state change leaves dirty unchanged", "a path that changes nothing (ignored field) alters dirty: an ignored field (NUL id, invalid retry, unknown) produces or suppresses an event")
		}
	}
}

func pathLabel(p []*ssa.BasicBlock) string {
	s := ""
	for i, b := range p {
		if i > 0 {
			s += ">"
		}
		s += itoa(b.Index)
	}
	return s
}

// noNULGuard: target block is dominated by the edge on which value v has no NUL byte.
func noNULGuard(fn *ssa.Function, target *ssa.BasicBlock, isV func(ssa.Value) bool) bool {
	for _, ifi := range ifsIn(fn) {
		// strings.IndexByte(v, 0) compared with -1 / 0
		op, k, succ, ok := cmpConstEdge(ifi, func(x ssa.Value) bool {
			call, ok := isStaticCall(x, "strings.IndexByte")
			if !ok || !isV(call.Call.Args[0]) {
				return false
			}
			b, isK := constInt(call.Call.Args[1])
			return isK && b == 0
		})
		if ok {
			var e int
			switch {
			case op == token.NEQ && k == -1:
				e = 1 - succ
			case op == token.EQL && k == -1:
				e = succ
			case op == token.GEQ && k == 0:
				e = 1 - succ
			case op == token.LSS && k == 0:
				e = succ
			default:
				continue
			}
			if edgeDominates(ifi.Block(), e, target) {
				return true
			}
		}
		// strings.Contains(v, "\x00") / ContainsRune(v, 0)
		if s, ok := boolEdge(ifi, func(x ssa.Value) bool {
			if call, ok := isStaticCall(x, "strings.Contains"); ok {
				k, isK := constString(call.Call.Args[1])
				return isV(call.Call.Args[0]) && isK && k == "\x00"
			}
			if call, ok := isStaticCall(x, "strings.ContainsRune"); ok {
				k, isK := constInt(call.Call.Args[1])
				return isV(call.Call.Args[0]) && isK && k == 0
			}
			return false
		}); ok && edgeDominates(ifi.Block(), 1-s, target) {
			return true
		}
	}
	return false
}

func r01_5(c *Ctx) {
	P := c.P
	x := findInterp(P)
	if x == nil || x.idCell == nil {
		c.anchor("interpreter's last-event-ID cell")
		return
	}
	it := x.fn
	isVal := func(v ssa.Value) bool { _, ok := isFieldLoad(v, "parser.Field", "Value"); return ok }
	n := 0
	// every store to the cell (anywhere: the cell is read()'s parameter cell)
	root := cellRoot(x.idCell)
	_, stores, esc := cellStores(root)
	if esc {
		c.bad(fnLabel(it)+":id-cell-escapes", P.pos(it.Pos()), "the last-event-ID buffer's address escapes")
	}
	for _, st := range stores {
		if _, isParam := st.Val.(*ssa.Parameter); isParam && st.Parent() != it {
			continue // seeding by read()'s parameter
		}
		n++
		name := fnLabel(st.Parent()) + ":store(last-event-id)"
		if st.Parent() != it {
			c.bad(name, P.ipos(st), "the last-event-ID buffer is written outside the interpreter")
			continue
		}
		c.check(isVal(st.Val) && inFieldCase(it, "id", st.Block()) && noNULGuard(it, st.Block(), isVal), name, P.ipos(st),
			"the buffer is set to the id field's value only when it contains no NUL", "the last-event-ID buffer is stored without the NUL check (or outside the id case / not from the field value): an id containing NUL must be ignored")
	}
	if n == 0 {
		c.bad(fnLabel(it)+":store(last-event-id)", P.pos(it.Pos()), "the id field never updates the last-event-ID buffer")
	}
	// Message.UnmarshalText: ID.value store under the NUL guard
	um := P.Fn("(*Message).UnmarshalText")
	if um == nil {
		c.anchor("(*Message).UnmarshalText")
		return
	}
	m := 0
	eachInstrDeep(um, func(in ssa.Instruction) {
		st, ok := in.(*ssa.Store)
		if !ok {
			return
		}
		base, ok := isFieldSel(st.Addr, "messageField", "value")
		if !ok {
			return
		}
		guardBlock := st.Block()
		if _, ok := isFieldSel(rootParentField(base), "Message", "ID"); !ok {
			// a local composite (EventID{messageField{value: v, set: true}}, possibly nested) that is then
			// copied into e.ID
			root, isAl := rootAddr(base).(*ssa.Alloc)
			if !isAl {
				return
			}
			copied := false
			cur := ssa.Value(root)
			for depth := 0; depth < 4 && !copied; depth++ {
				var next ssa.Value
				eachInstrDeep(um, func(x ssa.Instruction) {
					cp, ok := x.(*ssa.Store)
					if !ok {
						return
					}
					u, ok := cp.Val.(*ssa.UnOp)
					if !ok || u.Op != token.MUL || rootAddr(u.X) != cur {
						return
					}
					if _, ok := isFieldSel(cp.Addr, "Message", "ID"); ok {
						copied = true
						guardBlock = cp.Block()
						return
					}
					if al, ok := rootAddr(cp.Addr).(*ssa.Alloc); ok && ssa.Value(al) != cur {
						next = al
					}
				})
				if next == nil {
					break
				}
				cur = next
			}
			if !copied {
				return
			}
		}
		m++
		c.check(isVal(st.Val) && noNULGuard(um, guardBlock, isVal), fnLabel(um)+":store(ID)", P.ipos(st), "Message.ID is set only from an id value without NUL", "Message.UnmarshalText stores an id value without the NUL check")
	})
	if m == 0 {
		c.bad(fnLabel(um)+":store(ID)", P.pos(um.Pos()), "UnmarshalText never sets the ID")
	}
}

// rootParentField: for &x.ID.messageField returns &x.ID
func rootParentField(v ssa.Value) ssa.Value {
	if fa, ok := v.(*ssa.FieldAddr); ok {
		if _, n, _, _ := fieldSel(fa); n == "messageField" {
			return fa.X
		}
	}
	return v
}

func r01_7(c *Ctx) {
	P := c.P
	x := findInterp(P)
	if x == nil || x.perr == nil {
		c.anchor("interpreter tail (Parser.Err after the loop)")
		return
	}
	it := x.fn
	isPerr := func(v ssa.Value) bool { return v == ssa.Value(x.perr) }
	isEOFCmp := func(v ssa.Value) bool {
		b, ok := v.(*ssa.BinOp)
		if !ok || b.Op != token.EQL {
			return false
		}
		isEOF := func(y ssa.Value) bool {
			a, ok := loadedFrom(y)
			if !ok {
				return false
			}
			g, ok := a.(*ssa.Global)
			return ok && g.Name() == "EOF" && g.Pkg.Pkg.Path() == "io"
		}
		return (isPerr(b.X) && isEOF(b.Y)) || (isPerr(b.Y) && isEOF(b.X))
	}
	if x.tailYield == nil {
		c.bad(fnLabel(it)+":eof-flush", P.pos(it.Pos()), "no pending-event flush after the loop: a terminated last event is lost at a clean end of stream")
	} else {
		dirtyOK := x.dirtyHead != nil && guardedByBool(it, x.tailYield.Block(), func(v ssa.Value) bool { return v == x.dirtyHead }, true)
		eofOK := guardedByBool(it, x.tailYield.Block(), isEOFCmp, true)
		c.check(dirtyOK && eofOK && instrDominates(x.perr, x.tailYield), fnLabel(it)+":eof-flush", P.ipos(x.tailYield),
			"the pending event is flushed only when dirty and the parser reports io.EOF (clean end)", "the pending event is flushed without (dirty && err == io.EOF): a cut-off event is dispatched, or an empty one")
	}
	n := 0
	eachInstrDeep(it, func(in ssa.Instruction) {
		call, ok := isYieldCall(in)
		if !ok || len(call.Call.Args) != 2 || isNilConst(call.Call.Args[1]) {
			return
		}
		n++
		src := sources(call.Call.Args[1])
		good := len(src) == 1 && isPerr(src[0]) && guardedByNil(it, call.Block(), isPerr, false)
		c.check(good, fnLabel(it)+":error-yield", P.ipos(call), "the error yield passes the parser's error, only when it is non-nil", "the error yield is not (the parser's error, under err != nil)")
	})
	if n == 0 {
		c.bad(fnLabel(it)+":error-yield", P.pos(it.Pos()), "the iterator never yields an error")
	}
}

func r01_8(c *Ctx) {
	P := c.P
	ss := P.Fn("(*parser.FieldParser).scanSegment")
	tf := P.Fn("parser.trimFirstSpace")
	if ss == nil || tf == nil || len(ss.Params) != 3 {
		c.anchor("parser.scanSegment / trimFirstSpace")
		return
	}
	chunk := ss.Params[1]
	// trimFirstSpace: removes exactly one leading ' ' (path-wise, both directions)
	{
		good := len(tf.Params) == 1
		why := ""
		var sliceRet, sameRet bool
		if good {
			p0 := tf.Params[0]
			isLen := isLenCallOf(func(v ssa.Value) bool { return v == ssa.Value(p0) })
			paths, okP := abstractPaths(tf, 256, nil)
			if !okP || len(paths) == 0 {
				good = false
				why = "too many paths"
			}
			for _, p := range paths {
				firstIsSpace, firstNotSpace, empty := false, false, false
				for e := range p.St.Edges {
					if len(e.From.Instrs) == 0 {
						continue
					}
					ifi, isIf := e.From.Instrs[len(e.From.Instrs)-1].(*ssa.If)
					if !isIf {
						continue
					}
					cnd := decodeIf(ifi)
					if cnd.Y != nil && (cnd.Op == token.EQL || cnd.Op == token.NEQ) {
						if k, isK := constInt(cnd.Y); isK && k == ' ' {
							var x, ix ssa.Value
							switch q := cnd.X.(type) {
							case *ssa.Index:
								x, ix = q.X, q.Index
							case *ssa.Lookup:
								x, ix = q.X, q.Index
							}
							if i0, ok := constInt(ix); ok && i0 == 0 && x == ssa.Value(p0) {
								if e.Idx == cnd.succWhen(cnd.Op == token.EQL) {
									firstIsSpace = true
								} else {
									firstNotSpace = true
								}
							}
						}
						if k, isK := constString(cnd.Y); isK && k == "" && cnd.X == ssa.Value(p0) {
							if e.Idx == cnd.succWhen(cnd.Op == token.EQL) {
								empty = true
							}
						}
					}
					if l, h, okE, ok := intEdgeSets(ifi, isLen, 0); ok && okE[e.Idx] && l[e.Idx] == 0 && h[e.Idx] == 0 {
						empty = true
					}
				}
				switch v := p.St.resolve(p.Ret.Results[0]).(type) {
				case *ssa.Slice:
					lo, isK := constInt(v.Low)
					if v.X == ssa.Value(p0) && isK && lo == 1 && v.High == nil && firstIsSpace {
						sliceRet = true
					} else {
						good = false
						why = "a path returns something other than c[1:] under c[0] == ' '"
					}
				case *ssa.Parameter:
					if v == p0 && (empty || firstNotSpace) {
						sameRet = true
					} else {
						good = false
						why = "a path returns the value unchanged without having established that it is empty or does not start with a space (e.g. a value that is exactly one space keeps it)"
					}
				default:
					good = false
					why = "an unrecognised result"
				}
			}
		}
		c.check(good && sliceRet && sameRet, "parser.trimFirstSpace", P.pos(tf.Pos()), "removes exactly one leading space when present, nothing otherwise", "trimFirstSpace does not remove exactly one leading U+0020 (when present): field values gain or lose spaces ("+why+")")
	}
	// colon position: strings.IndexByte(chunk, ':')
	var colon *ssa.Call
	eachInstrDeep(ss, func(in ssa.Instruction) {
		if call, ok := isStaticCall(in, "strings.IndexByte"); ok && call.Call.Args[0] == ssa.Value(chunk) {
			if k, ok := constInt(call.Call.Args[1]); ok && k == ':' {
				colon = call
			}
		}
	})
	if colon == nil {
		c.bad("parser.scanSegment:colon", P.pos(ss.Pos()), "the field name is not split at the first colon (strings.IndexByte(chunk, ':'))")
		return
	}
	// colonPos phi: colon, or len(chunk) when -1
	var colonPos ssa.Value
	eachInstrDeep(ss, func(in ssa.Instruction) {
		if phi, ok := in.(*ssa.Phi); ok {
			hasColon, hasLen := false, false
			for _, e := range phi.Edges {
				if e == ssa.Value(colon) {
					hasColon = true
				}
				if isLenOf(e, chunk) {
					hasLen = true
				}
			}
			if hasColon && hasLen {
				colonPos = phi
			}
		}
	})
	if colonPos == nil {
		c.undecided("parser.scanSegment:colon-or-end", P.ipos(colon), "no `colon position or end of line` value found")
		return
	}
	// name lookup: getFieldName(chunk[:colonPos])
	var gfn *ssa.Call
	eachInstrDeep(ss, func(in ssa.Instruction) {
		if call, ok := isModCall(in, "parser.getFieldName"); ok {
			if sl, ok := call.Call.Args[0].(*ssa.Slice); ok && sl.X == ssa.Value(chunk) && sl.Low == nil && sl.High == colonPos {
				gfn = call
			}
		}
	})
	c.check(gfn != nil, "parser.scanSegment:name", P.ipos(colon), "the field name is the text before the first colon (or the whole line)", "the field name is not chunk[:colonPos]")
	// the too-long-name early exit must not reject valid names: bound >= max name length
	for _, ifi := range ifsIn(ss) {
		op, k, succ, ok := cmpConstEdge(ifi, func(v ssa.Value) bool { return v == ssa.Value(colon) })
		if !ok || (op != token.GTR && op != token.GEQ) {
			continue
		}
		mx := 0
		for _, v := range fieldNameConsts(P) {
			if v != ":" && len(v) > mx {
				mx = len(v)
			}
		}
		bound := int(k)
		if op == token.GEQ {
			bound--
		}
		_ = succ
		c.check(bound >= mx, "parser.scanSegment:name-length-bound", P.pos(ifi.Pos()), "the early rejection of long names keeps every valid field name", "the name-length shortcut rejects colon positions of valid field names (bound "+itoa(bound)+" < "+itoa(mx)+")")
	}
	// value stores
	isOKext := func(v ssa.Value) bool {
		e, ok := v.(*ssa.Extract)
		return ok && gfn != nil && e.Tuple == ssa.Value(gfn) && e.Index == 1
	}
	nVal := 0
	for _, st := range slSinks(P, "parser.Field", "Value") {
		if st.Parent() != ss {
			continue
		}
		nVal++
		name := "parser.scanSegment:value"
		switch v := st.Val.(type) {
		case *ssa.Const:
			s, _ := constString(v)
			// blank line: chunk == ""
			g := false
			for _, ifi := range ifsIn(ss) {
				cnd := decodeIf(ifi)
				if cnd.Y == nil || cnd.Op != token.EQL || cnd.X != ssa.Value(chunk) {
					continue
				}
				if k, ok := constString(cnd.Y); ok && k == "" && edgeDominates(ifi.Block(), cnd.succWhen(true), st.Block()) {
					g = true
				}
			}
			c.check(s == "" && g, name+"(end-of-event)", P.ipos(st), "an empty field (end of event) is produced only for a blank line", "the end-of-event marker is produced for a non-blank line")
		case *ssa.Call:
			if v.Call.StaticCallee() != tf {
				c.undecided(name, P.ipos(st), "value is not trimFirstSpace(...)")
				continue
			}
			sl, ok := v.Call.Args[0].(*ssa.Slice)
			if !ok || sl.X != ssa.Value(chunk) || sl.High != nil {
				c.bad(name, P.ipos(st), "the value is not the rest of the line")
				continue
			}
			mn, ok := sl.Low.(*ssa.Call)
			isMin := ok
			if isMin {
				b, okB := mn.Call.Value.(*ssa.Builtin)
				isMin = okB && b.Name() == "min" && len(mn.Call.Args) == 2 && isLenOf(mn.Call.Args[1], chunk)
			}
			if k1, isK := constInt(sl.Low); isK && k1 == 1 && !isMin {
				// chunk[1:] — legal only where the colon is the first byte (so the line is not empty)
				g := false
				for _, ifi := range ifsIn(ss) {
					op, kk, succ, ok := cmpConstEdge(ifi, func(v ssa.Value) bool { return v == colonPos })
					if ok && op == token.EQL && kk == 0 && edgeDominates(ifi.Block(), succ, st.Block()) {
						g = true
					}
				}
				c.check(g, name+"(comment)", P.ipos(st), "a comment is a line whose first character is the colon; its text starts after it", "chunk[1:] is used where the colon is not known to be the first byte")
				continue
			}
			if !isMin {
				c.bad(name, P.ipos(st), "the value does not start right after the colon (min(colon+1, len))")
				continue
			}
			if guardedByBool(ss, st.Block(), isOKext, true) {
				// named field: min(colonPos+1, l)
				add, ok := mn.Call.Args[0].(*ssa.BinOp)
				good := ok && add.Op == token.ADD && add.X == colonPos
				if good {
					k, isK := constInt(add.Y)
					good = isK && k == 1
				}
				c.check(good, name+"(field)", P.ipos(st), "value = trimFirstSpace(chunk[min(colonPos+1, len):])", "a named field's value does not start one past the colon")
			} else {
				// comment: colonPos == 0 and keepComments
				k, isK := constInt(mn.Call.Args[0])
				g := false
				for _, ifi := range ifsIn(ss) {
					op, kk, succ, ok := cmpConstEdge(ifi, func(v ssa.Value) bool { return v == colonPos })
					if ok && op == token.EQL && kk == 0 && edgeDominates(ifi.Block(), succ, st.Block()) {
						g = true
					}
				}
				c.check(isK && k == 1 && g, name+"(comment)", P.ipos(st), "a comment is a line whose first character is the colon; its text starts after it", "a comment is produced for a line not starting with a colon, or its text offset is wrong")
			}
		default:
			c.undecided(name, P.ipos(st), "unrecognised value source "+describe(st.Val))
		}
	}
	if nVal < 3 {
		c.undecided("parser.scanSegment:value", P.pos(ss.Pos()), "expected value stores for field, end-of-event and comment")
	}
}

// ---------------------------------------------------------------------------
// R01.9: line-level scanning shape (FieldParser.Next, BOM, CRLF)

func init() {
	register(&Rule{ID: "R01.9", Title: "FieldParser.Next consumes exactly one terminated line per step", Floor: 5, Run: func(c *Ctx) { r01_9(c, "next") }})
	register(&Rule{ID: "R01.10", Title: "the BOM is stripped at most once, only at the start of the first token", Floor: 3, Run: func(c *Ctx) { r01_9(c, "bom") }})
	register(&Rule{ID: "R01.11", Title: "CR LF counts as one line terminator", Floor: 1, Run: func(c *Ctx) { r01_9(c, "crlf") }})
	p := properties["C01"]
	p.Rules = append(p.Rules, "R01.9", "R01.10", "R01.11")
	p.Explanation += " R01.9 line-level shape: FieldParser.Next consumes exactly the line NextChunk returned and hands that line to scanSegment, reports ErrUnexpectedEOF (without consuming) exactly when the remaining data has no line break, returns true only when scanSegment accepted a field and false only when the data is exhausted; the BOM (EF BB BF) is stripped only under removeBOM && !started && HasPrefix, marking the parser started, and the stream parser disables the strip once a token was started; NewlineIndex reports length 2 exactly for CR immediately followed by LF inside the string."
}

func r01_9(c *Ctx, part string) {
	P := c.P
	// (a) FieldParser.Next
	fn := P.Fn("(*parser.FieldParser).Next")
	if part != "next" {
		// handled below
	} else if fn == nil || len(fn.Params) != 2 {
		c.anchor("(*parser.FieldParser).Next")
	} else {
		recv, out := fn.Params[0], fn.Params[1]
		name := fnLabel(fn)
		var nc, ss *ssa.Call
		eachInstrDeep(fn, func(in ssa.Instruction) {
			if call, ok := isModCall(in, "parser.NextChunk"); ok {
				if b, ok := isFieldLoad(call.Call.Args[0], "parser.FieldParser", "data"); ok && b == ssa.Value(recv) {
					nc = call
				}
			}
			if call, ok := isModCall(in, "(*parser.FieldParser).scanSegment"); ok {
				ss = call
			}
		})
		if nc == nil || ss == nil {
			c.bad(name+":shape", P.pos(fn.Pos()), "FieldParser.Next does not (split f.data with NextChunk, hand the line to scanSegment)")
		} else {
			ext := func(i int) func(ssa.Value) bool {
				return func(v ssa.Value) bool {
					e, ok := v.(*ssa.Extract)
					return ok && e.Index == i && e.Tuple == ssa.Value(nc)
				}
			}
			c.check(len(ss.Call.Args) == 3 && ext(0)(ss.Call.Args[1]) && ss.Call.Args[2] == ssa.Value(out) && guardedByBool(fn, ss.Block(), ext(2), true),
				name+":line-to-scanSegment", P.ipos(ss), "the line NextChunk returned is scanned into the caller's Field, only when it was terminated", "scanSegment does not receive the terminated line returned by NextChunk (and the caller's Field)")
			// consumption
			nData := 0
			eachInstrDeep(fn, func(in ssa.Instruction) {
				st, ok := in.(*ssa.Store)
				if !ok {
					return
				}
				if b, ok := isFieldSel(st.Addr, "parser.FieldParser", "data"); ok && b == ssa.Value(recv) {
					nData++
					c.check(ext(1)(st.Val) && guardedByBool(fn, st.Block(), ext(2), true) && instrDominates(st, ss), name+":consume", P.ipos(st),
						"f.data advances to NextChunk's remainder, only for a terminated line, before the line is scanned", "f.data is not advanced exactly to the remainder after a terminated line: a line is parsed twice or skipped")
				}
				if b, ok := isFieldSel(st.Addr, "parser.FieldParser", "err"); ok && b == ssa.Value(recv) {
					c.check(isGlobalLoadPkg(st.Val, parserPath, "ErrUnexpectedEOF") && guardedByBool(fn, st.Block(), ext(2), false), name+":unexpected-eof", P.ipos(st),
						"ErrUnexpectedEOF is recorded exactly when the remaining data has no line break", "the unterminated-last-line error is recorded under another condition")
				}
			})
			if nData == 0 {
				c.bad(name+":consume", P.pos(fn.Pos()), "FieldParser.Next never advances f.data")
			}
			for i, ret := range returnsOf(fn) {
				rn := name + ":return#" + itoa(i)
				b, isC := constBool(ret.Results[0])
				if !isC {
					c.undecided(rn, P.ipos(ret), "non-constant result")
					continue
				}
				if b {
					c.check(guardedByBool(fn, ret.Block(), func(v ssa.Value) bool { return v == ssa.Value(ss) }, true), rn, P.ipos(ret), "true only when scanSegment accepted the line", "Next reports a field although scanSegment rejected the line")
					continue
				}
				// false: unterminated line (err set) or data exhausted
				eof := guardedByBool(fn, ret.Block(), ext(2), false)
				exhausted := false
				for _, ifi := range ifsIn(fn) {
					cnd := decodeIf(ifi)
					if cnd.Y == nil {
						continue
					}
					s, isS := constString(cnd.Y)
					if !isS || s != "" {
						continue
					}
					if bb, ok := isFieldLoad(cnd.X, "parser.FieldParser", "data"); ok && bb == ssa.Value(recv) && (cnd.Op == token.NEQ || cnd.Op == token.EQL) {
						if edgeDominates(ifi.Block(), cnd.succWhen(cnd.Op == token.EQL), ret.Block()) {
							exhausted = true
						}
					}
				}
				c.check(eof || exhausted, rn, P.ipos(ret), "false only for an unterminated last line or exhausted data", "Next returns false although terminated lines remain: the rest of the event is dropped")
			}
			// a rejected line continues the loop: from scanSegment's false edge no return is reachable before the data test
			for _, ifi := range ifsIn(fn) {
				if s, ok := boolEdge(ifi, func(v ssa.Value) bool { return v == ssa.Value(ss) }); ok {
					early := false
					forward([]startPoint{atEdge(ifi.Block(), 1-s)}, func(in ssa.Instruction) searchAction {
						if _, ok := in.(*ssa.Return); ok {
							early = true
						}
						if u, ok := in.(*ssa.UnOp); ok {
							if _, ok := isFieldLoad(u, "parser.FieldParser", "data"); ok {
								return stopPath
							}
						}
						return cont
					})
					c.check(!early, name+":rejected-line-continues", P.pos(ifi.Pos()), "an ignored line (unknown field, comment) moves on to the next line", "an ignored line ends the scan instead of moving on to the next line")
				}
			}
		}
	}
	if part == "next" {
		return
	}
	if part == "crlf" {
		r01_9crlf(c)
		return
	}
	// (b) BOM
	bomFns := 0
	for _, f := range P.Funcs {
		if f.Pkg == nil || f.Pkg.Pkg.Path() != parserPath {
			continue
		}
		eachInstrDeep(f, func(in ssa.Instruction) {
			call, ok := isStaticCall(in, "strings.HasPrefix", "strings.TrimPrefix", "strings.CutPrefix")
			if !ok {
				return
			}
			k, isK := constString(call.Call.Args[1])
			if !isK || k != "\xEF\xBB\xBF" {
				if isK && (len(k) == 3) && k != "\xEF\xBB\xBF" {
					c.bad(fnLabel(f)+":bom-constant", P.ipos(call), "the BOM constant is not EF BB BF")
				}
				return
			}
			bomFns++
			name := fnLabel(f) + ":bom-strip"
			recv := f.Params[0]
			isFld := func(field string) func(ssa.Value) bool {
				return func(v ssa.Value) bool {
					b, ok := isFieldLoad(v, "parser.FieldParser", field)
					return ok && b == ssa.Value(recv)
				}
			}
			// the strip: store to f.data of data[len(bom):] guarded by removeBOM, !started, HasPrefix
			var strip *ssa.Store
			eachInstrDeep(f, func(x ssa.Instruction) {
				st, ok := x.(*ssa.Store)
				if !ok {
					return
				}
				if b, ok := isFieldSel(st.Addr, "parser.FieldParser", "data"); ok && b == ssa.Value(recv) {
					strip = st
				}
			})
			if strip == nil {
				c.bad(name, P.ipos(call), "the BOM is tested for but never removed")
				return
			}
			sl, isSl := strip.Val.(*ssa.Slice)
			lenOK := false
			if isSl && isFld("data")(sl.X) && sl.High == nil {
				if k, ok := constInt(sl.Low); ok && k == 3 {
					lenOK = true
				}
			}
			// strings.CutPrefix(data, BOM): the stored value is its first result, the guard its second
			cutForm := false
			if ex, ok := strip.Val.(*ssa.Extract); ok && ex.Index == 0 && ex.Tuple == ssa.Value(call) && calleeName(call) == "strings.CutPrefix" {
				lenOK, cutForm = true, true
			}
			g := guardedByBool(f, strip.Block(), isFld("removeBOM"), true) && guardedByBool(f, strip.Block(), isFld("started"), false) &&
				guardedByBool(f, strip.Block(), func(v ssa.Value) bool {
					if cutForm {
						e, ok := v.(*ssa.Extract)
						return ok && e.Index == 1 && e.Tuple == ssa.Value(call)
					}
					return v == ssa.Value(call) && calleeName(call) == "strings.HasPrefix"
				}, true) && isFld("data")(call.Call.Args[0])
			c.check(lenOK && g, name, P.ipos(strip), "exactly the three BOM bytes are removed, only when enabled, not yet started and the data starts with the BOM", "the BOM strip is not (data[3:] under removeBOM && !started && HasPrefix(data, BOM)): a BOM inside the stream is stripped or a leading one is kept")
			// started is set with the strip
			setStarted := false
			eachInstrDeep(f, func(x ssa.Instruction) {
				if st, ok := x.(*ssa.Store); ok {
					if b, ok := isFieldSel(st.Addr, "parser.FieldParser", "started"); ok && b == ssa.Value(recv) {
						if bv, isC := constBool(st.Val); isC && bv && st.Block() == strip.Block() {
							setStarted = true
						}
					}
				}
			})
			c.check(setStarted, name+":marks-started", P.ipos(strip), "stripping the BOM marks the parser started (it is stripped at most once)", "stripping the BOM does not mark the parser as started: a second BOM would be stripped too")
		})
	}
	if bomFns == 0 {
		c.bad("parser:bom-strip", "-", "no BOM handling found in package parser")
	}
	// stream parser: RemoveBOM(true) at construction, RemoveBOM(false) once started, before Reset
	if nw := P.Fn("parser.New"); nw != nil {
		on := false
		eachInstrDeep(nw, func(in ssa.Instruction) {
			if call, ok := isModCall(in, "(*parser.FieldParser).RemoveBOM"); ok {
				if b, isC := constBool(call.Call.Args[1]); isC && b {
					on = true
				}
			}
			// or the field parser is built with the option already set
			if st, ok := in.(*ssa.Store); ok {
				if _, ok := isFieldSel(st.Addr, "parser.FieldParser", "removeBOM"); ok {
					if b, isC := constBool(st.Val); isC && b {
						on = true
					}
				}
			}
		})
		c.check(on, fnLabel(nw)+":bom-enabled", P.pos(nw.Pos()), "the stream parser enables BOM removal for the first token", "parser.New does not enable BOM removal")
	}
	if nx := P.Fn("(*parser.Parser).Next"); nx != nil {
		var off, reset *ssa.Call
		eachInstrDeep(nx, func(in ssa.Instruction) {
			if call, ok := isModCall(in, "(*parser.FieldParser).RemoveBOM"); ok {
				if b, isC := constBool(call.Call.Args[1]); isC && !b {
					off = call
				}
			}
			if call, ok := isModCall(in, "(*parser.FieldParser).Reset"); ok {
				reset = call
			}
		})
		good := off != nil && reset != nil
		if good {
			isStarted := func(v ssa.Value) bool { _, ok := isModCall(v, "(*parser.FieldParser).Started"); return ok }
			// every path to Reset on which Started() was true passes RemoveBOM(false)
			blocked := map[cfgEdge]bool{}
			for _, ifi := range ifsIn(nx) {
				if s, ok := boolEdge(ifi, isStarted); ok {
					blocked[cfgEdge{ifi.Block(), 1 - s}] = true
				}
			}
			var started ssa.Instruction
			eachInstrDeep(nx, func(in ssa.Instruction) {
				if call, ok := isModCall(in, "(*parser.FieldParser).Started"); ok {
					started = call
				}
			})
			good = started != nil && instrDominates(started, reset) && instrDominates(started, off) && !reachesAvoiding(afterInstr(started), reset, func(in ssa.Instruction) bool { return in == ssa.Instruction(off) }, blocked)
			// Reset receives the scanner's token text
			if good {
				_, isText := isStaticCall(reset.Call.Args[1], "(*bufio.Scanner).Text")
				good = isText
			}
		}
		c.check(good, fnLabel(nx)+":bom-once", P.pos(nx.Pos()), "once a token was started BOM removal is disabled before the next token is installed; Reset receives the scanner's token", "the stream parser does not disable BOM removal after the first token (or Reset does not get the scanner's token): a BOM at the start of a later event is stripped")
	}
}

func r01_9crlf(c *Ctx) {
	P := c.P
	// (c) CRLF
	ni := P.Fn("parser.NewlineIndex")
	if ni == nil || len(ni.Params) != 1 {
		c.anchor("parser.NewlineIndex")
		return
	}
	if newlineIndexLib(c, ni, "crlf") {
		return
	}
	if newlineIndexLoop(c, ni, "crlf") {
		return
	}
	rets := returnsOf(ni)
	if len(rets) != 1 {
		return
	}
	ln, ok := rets[0].Results[1].(*ssa.Phi)
	idx, ok2 := rets[0].Results[0].(*ssa.Phi)
	if !ok || !ok2 {
		c.undecided("parser.NewlineIndex:crlf", P.pos(ni.Pos()), "length/index are not phis")
		return
	}
	s := ni.Params[0]
	charAt := func(v ssa.Value, off int64) bool {
		ix, ok := v.(*ssa.Index)
		if !ok || ix.X != ssa.Value(s) {
			return false
		}
		if off == 0 {
			return ix.Index == ssa.Value(idx)
		}
		b, ok := ix.Index.(*ssa.BinOp)
		if !ok || b.Op != token.ADD || b.X != ssa.Value(idx) {
			return false
		}
		k, isK := constInt(b.Y)
		return isK && k == off
	}
	isCR := func(ifi *ssa.If) (int, bool) {
		cnd := decodeIf(ifi)
		if cnd.Y == nil || cnd.Op != token.EQL {
			return 0, false
		}
		k, isK := constInt(cnd.Y)
		if isK && k == 13 && charAt(cnd.X, 0) {
			return cnd.succWhen(true), true
		}
		return 0, false
	}
	isLFnext := func(ifi *ssa.If) (int, bool) {
		cnd := decodeIf(ifi)
		if cnd.Y == nil || cnd.Op != token.EQL {
			return 0, false
		}
		k, isK := constInt(cnd.Y)
		if isK && k == 10 && charAt(cnd.X, 1) {
			return cnd.succWhen(true), true
		}
		return 0, false
	}
	inBounds := func(ifi *ssa.If) (int, bool) {
		cnd := decodeIf(ifi)
		if cnd.Y == nil || cnd.Op != token.LSS || cnd.X != ssa.Value(idx) {
			return 0, false
		}
		// index < len(s)-1
		b, ok := cnd.Y.(*ssa.BinOp)
		if !ok || b.Op != token.SUB || !isLenOf(b.X, s) {
			return 0, false
		}
		k, isK := constInt(b.Y)
		if isK && k == 1 {
			return cnd.succWhen(true), true
		}
		return 0, false
	}
	two := false
	badOne := false
	for i, e := range ln.Edges {
		k, isK := evalInt(e)
		if !isK {
			continue
		}
		pred := ln.Block().Preds[i]
		dom := func(pick func(*ssa.If) (int, bool)) bool {
			for _, ifi := range ifsIn(ni) {
				if sidx, ok := pick(ifi); ok && (edgeDominates(ifi.Block(), sidx, pred) || (ifi.Block() == pred && false)) {
					return true
				}
			}
			return false
		}
		switch k {
		case 2:
			if dom(isCR) && dom(isLFnext) && dom(inBounds) {
				two = true
			} else {
				badOne = true
			}
		case 1:
			// must come from the false edge of one of the three tests (pred is the test's own block)
			okk := false
			if ifi, isIf := pred.Instrs[len(pred.Instrs)-1].(*ssa.If); isIf {
				for _, pick := range []func(*ssa.If) (int, bool){isCR, isLFnext, inBounds} {
					if sidx, ok := pick(ifi); ok && pred.Succs[1-sidx] == ln.Block() {
						okk = true
					}
				}
			}
			if !okk {
				badOne = true
			}
		}
	}
	c.check(two && !badOne, "parser.NewlineIndex:crlf", P.pos(ni.Pos()), "length is 2 exactly for CR followed by LF inside the string, 1 for every other line break", "NewlineIndex does not report length 2 exactly for CR immediately followed by LF (within bounds): CRLF counts as two line breaks (a spurious blank line ends the event early) or a lone CR swallows the next byte")
}

func isGlobalLoadPkg(v ssa.Value, pkg, name string) bool {
	a, ok := loadedFrom(v)
	if !ok {
		return false
	}
	g, ok := a.(*ssa.Global)
	return ok && g.Name() == name && g.Pkg != nil && g.Pkg.Pkg.Path() == pkg
}

// ---------------------------------------------------------------------------
// R01.12: the split function's scan loop stops exactly at an event boundary

func init() {
	register(&Rule{ID: "R01.12", Title: "the scan loop of the split function stops exactly at the end of the data or at a line break that follows a non-blank line", Floor: 2, Run: r01_12})
	p := properties["C01"]
	p.Rules = append(p.Rules, "R01.12")
	p.Explanation += " R01.12 event boundary: every path through one iteration of splitFunc's scan loop leaves the loop exactly when (advance == len(data)) or (the byte at advance is a line break and the line just scanned is non-empty: index >= 1), and stays otherwise (path-wise, with the interval of `index` intersected along the path, so `index > 1` or `>= 0` are both reported)."
}

func r01_12(c *Ctx) {
	P := c.P
	fn := P.Fn("parser.splitFunc")
	if fn == nil || len(fn.Params) != 2 {
		c.anchor("parser.splitFunc")
		return
	}
	data := fn.Params[0]
	name := fnLabel(fn)
	var ni *ssa.Call
	eachInstrDeep(fn, func(in ssa.Instruction) {
		if call, ok := isModCall(in, "parser.NewlineIndex"); ok && len(loopsContaining(fn, call.Block())) > 0 {
			ni = call
		}
	})
	if ni == nil {
		c.undecided(name+":scan-loop-exit", P.pos(fn.Pos()), "no NewlineIndex call inside a loop of the split function")
		return
	}
	loops := loopsContaining(fn, ni.Block())
	L := loops[0]
	for _, l := range loops {
		if len(l.Blocks) < len(L.Blocks) {
			L = l
		}
	}
	isIndex := func(v ssa.Value) bool {
		e, ok := v.(*ssa.Extract)
		return ok && e.Tuple == ssa.Value(ni) && e.Index == 0
	}
	isNLC := func(v ssa.Value) bool {
		call, ok := isModCall(v, "parser.isNewlineChar")
		if !ok {
			return false
		}
		switch ix := call.Call.Args[0].(type) {
		case *ssa.Index:
			return true
		case *ssa.Lookup:
			return true
		case *ssa.UnOp:
			// data[advance] on a slice: load of IndexAddr
			if ia, ok := ix.X.(*ssa.IndexAddr); ok && ix.Op == token.MUL {
				return carriesOnly(ia.X, data) || ia.X == ssa.Value(data)
			}
		}
		return false
	}
	// facts of one edge
	atEnd := func(ifi *ssa.If, e int) (val, ok bool) {
		cnd := decodeIf(ifi)
		if cnd.Y == nil || (cnd.Op != token.EQL && cnd.Op != token.NEQ) {
			return false, false
		}
		if !(isLenOf(cnd.Y, data) || isLenOf(cnd.X, data)) {
			return false, false
		}
		return e == cnd.succWhen(cnd.Op == token.EQL), true
	}
	stopEdge := func(e cfgEdge) bool {
		s := e.From.Succs[e.Idx]
		return !L.Blocks[s] || s == L.Head
	}
	paths, okP := walkPaths(ni.Block(), instrIndex(ni)+1, 4096, nil, nil, stopEdge)
	if !okP || len(paths) == 0 {
		c.undecided(name+":scan-loop-exit", P.ipos(ni), "too many (or no) paths through one iteration of the scan loop")
		return
	}
	nExit, nStay := 0, 0
	why := ""
	for _, p := range paths {
		if p.EndEdge == nil {
			continue // a return from inside the loop: judged by R20.2/R20.4
		}
		f1T, f1F, f2T, f2F := false, false, false, false
		lo, hi := int64(0), posInf
		for e := range p.St.Edges {
			if len(e.From.Instrs) == 0 {
				continue
			}
			ifi, isIf := e.From.Instrs[len(e.From.Instrs)-1].(*ssa.If)
			if !isIf {
				continue
			}
			if v, ok := atEnd(ifi, e.Idx); ok {
				if v {
					f1T = true
				} else {
					f1F = true
				}
			}
			if s, ok := boolEdge(ifi, isNLC); ok {
				if s == e.Idx {
					f2T = true
				} else {
					f2F = true
				}
			}
			if l, h, okE, ok := intEdgeSets(ifi, isIndex, 0); ok && okE[e.Idx] {
				if l[e.Idx] > lo {
					lo = l[e.Idx]
				}
				if h[e.Idx] < hi {
					hi = h[e.Idx]
				}
			}
		}
		if lo > hi || (f1T && f1F) || (f2T && f2F) {
			continue // infeasible
		}
		leaves := !L.Blocks[p.EndEdge.From.Succs[p.EndEdge.Idx]]
		if leaves {
			nExit++
			if !(f1T || (f2T && lo >= 1)) {
				why = "the loop can stop where neither the data ended nor a line break follows a non-empty line (index in [" + itoa(int(lo)) + ",…])"
			}
		} else {
			nStay++
			if !(f1F && (f2F || hi <= 0)) {
				why = "the loop continues although the data ended or a line break follows a non-empty line"
				if f1F && f2T {
					why = "the loop continues although a line break follows a non-empty line (index up to " + itoa(int(hi)) + " stays): the end of that event is missed and it merges with the next one"
				}
			}
		}
	}
	c.check(why == "" && nExit > 0 && nStay > 0, name+":scan-loop-exit", P.ipos(ni), "one iteration leaves the loop exactly at the end of the data or at a line break after a non-empty line ("+itoa(nExit)+" exit / "+itoa(nStay)+" continue paths)",
		"the scan loop does not stop exactly at an event boundary: "+why)
	c.ok(name+":scan-loop-paths", P.ipos(ni), itoa(len(paths))+" paths through one iteration enumerated")
}

// digitsOnlyLoopGuards: the parse is reached only after a `for _, r := range <the parsed string>` loop
// ran to completion, every iteration of which either established '0' <= r <= '9' or left the function
// without reaching the parse (the hand-written form of a digits-only test).
func digitsOnlyLoopGuards(top *ssa.Function, parse *ssa.Call) bool {
	fn := parse.Parent()
	arg := parse.Call.Args[0]
	for _, b := range fn.Blocks {
		for _, in := range b.Instrs {
			rng, ok := in.(*ssa.Range)
			if !ok || !(rng.X == arg || sameValue(rng.X, arg) || exprShape(rng.X, 0) == exprShape(arg, 0)) {
				continue
			}
			var next *ssa.Next
			for _, r := range *rng.Referrers() {
				if n, ok := r.(*ssa.Next); ok {
					next = n
				}
			}
			if next == nil {
				continue
			}
			var L *Loop
			for _, l := range loopsContaining(fn, next.Block()) {
				if L == nil || len(l.Blocks) < len(L.Blocks) {
					L = l
				}
			}
			if L == nil {
				continue
			}
			isOK := func(v ssa.Value) bool { e, ok := v.(*ssa.Extract); return ok && e.Tuple == ssa.Value(next) && e.Index == 0 }
			isRune := func(v ssa.Value) bool {
				for _, sv := range sources(v) {
					e, ok := stripConvAll(sv).(*ssa.Extract)
					if !ok || e.Tuple != ssa.Value(next) || e.Index != 2 {
						return false
					}
				}
				return true
			}
			stopEdge := func(e cfgEdge) bool {
				t := e.From.Succs[e.Idx]
				return !L.Blocks[t] || t == L.Head
			}
			paths, okP := walkPaths(next.Block(), instrIndex(next)+1, 1024, nil, nil, stopEdge)
			if !okP || len(paths) == 0 {
				continue
			}
			good, sawDone := true, false
			for _, p := range paths {
				if p.EndEdge == nil {
					continue // returns from inside the loop never reach the parse
				}
				lo, hi := negInf, posInf
				done := false
				for e := range p.St.Edges {
					if len(e.From.Instrs) == 0 {
						continue
					}
					ifi, isIf := e.From.Instrs[len(e.From.Instrs)-1].(*ssa.If)
					if !isIf {
						continue
					}
					if sT, ok := boolEdge(ifi, isOK); ok && e.Idx != sT {
						done = true
					}
					if l, h, okE, ok := intEdgeSets(ifi, isRune, negInf); ok && okE[e.Idx] {
						if l[e.Idx] > lo {
							lo = l[e.Idx]
						}
						if h[e.Idx] < hi {
							hi = h[e.Idx]
						}
					}
				}
				leaves := !L.Blocks[p.EndEdge.From.Succs[p.EndEdge.Idx]]
				switch {
				case leaves && done:
					sawDone = true
					if !edgeDominates(p.EndEdge.From, p.EndEdge.Idx, parse.Block()) {
						good = false
					}
				case leaves:
					// an early exit: it must not reach the parse
					if reachesAvoiding(atEdge(p.EndEdge.From, p.EndEdge.Idx), parse, nil, nil) {
						good = false
					}
				default:
					// next iteration: this rune was a digit
					if lo > hi {
						continue
					}
					if !(lo >= '0' && hi <= '9') {
						good = false
					}
				}
			}
			if good && sawDone {
				return true
			}
		}
	}
	_ = top
	return false
}

// tableElement: v is an element of a package-level array/slice of strings (loaded through an index or a
// range); returns the table's contents as initialised in the package initialiser.
func tableElement(P *Program, v ssa.Value) (table []string, elem ssa.Value, ok bool) {
	elem = stripConvAll(v)
	var g *ssa.Global
	switch x := elem.(type) {
	case *ssa.UnOp:
		if ia, isIA := x.X.(*ssa.IndexAddr); isIA && x.Op == token.MUL {
			switch base := ia.X.(type) {
			case *ssa.Global:
				g = base
			case *ssa.UnOp:
				g, _ = base.X.(*ssa.Global)
			}
		}
	case *ssa.Index:
		if u, isU := x.X.(*ssa.UnOp); isU {
			g, _ = u.X.(*ssa.Global)
		}
	case *ssa.Extract:
		// value of `for _, e := range table`
		if nx, isN := x.Tuple.(*ssa.Next); isN {
			if rg, isR := nx.Iter.(*ssa.Range); isR {
				if u, isU := rg.X.(*ssa.UnOp); isU {
					g, _ = u.X.(*ssa.Global)
				}
			}
		}
	}
	if g == nil || g.Pkg == nil {
		return nil, nil, false
	}
	init := g.Pkg.Func("init")
	if init == nil {
		return nil, nil, false
	}
	vals := map[int64]string{}
	good := true
	eachInstrDeep(init, func(in ssa.Instruction) {
		st, isSt := in.(*ssa.Store)
		if !isSt {
			return
		}
		ia, isIA := st.Addr.(*ssa.IndexAddr)
		if !isIA {
			if st.Addr == ssa.Value(g) {
				// slice global: = arr[:] with arr filled element-wise
				if sl, isSl := st.Val.(*ssa.Slice); isSl {
					if al, isAl := sl.X.(*ssa.Alloc); isAl {
						for _, r := range *al.Referrers() {
							if ia2, ok := r.(*ssa.IndexAddr); ok {
								idx, okI := constInt(ia2.Index)
								for _, rr := range *ia2.Referrers() {
									if s2, ok := rr.(*ssa.Store); ok && s2.Addr == ssa.Value(ia2) {
										sv, okS := constString(s2.Val)
										if !okI || !okS {
											good = false
											continue
										}
										vals[idx] = sv
									}
								}
							}
						}
					}
				}
			}
			return
		}
		if ia.X != ssa.Value(g) {
			return
		}
		idx, okI := constInt(ia.Index)
		sv, okS := constString(st.Val)
		if !okI || !okS {
			good = false
			return
		}
		vals[idx] = sv
	})
	// the table must not be written anywhere else
	for _, fn := range P.Funcs {
		if fn == init {
			continue
		}
		eachInstrDeep(fn, func(in ssa.Instruction) {
			if st, ok := in.(*ssa.Store); ok {
				if st.Addr == ssa.Value(g) {
					good = false
				}
				if ia, ok := st.Addr.(*ssa.IndexAddr); ok && (ia.X == ssa.Value(g)) {
					good = false
				}
			}
		})
	}
	if !good || len(vals) == 0 {
		return nil, nil, false
	}
	for i := int64(0); i < int64(len(vals)); i++ {
		sv, ok := vals[i]
		if !ok {
			return nil, nil, false
		}
		table = append(table, sv)
	}
	return table, elem, true
}
