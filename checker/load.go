package main

import (
	"crypto/sha256"
	"encoding/hex"
	"fmt"
	"go/token"
	"go/types"
	"os"
	"path/filepath"
	"sort"
	"strings"

	"golang.org/x/tools/go/callgraph"
	"golang.org/x/tools/go/callgraph/cha"
	"golang.org/x/tools/go/callgraph/vta"
	"golang.org/x/tools/go/packages"
	"golang.org/x/tools/go/ssa"
	"golang.org/x/tools/go/ssa/ssautil"
)

const (
	modPath    = "github.com/tmaxmax/go-sse"
	parserPath = modPath + "/internal/parser"
)

// Program is the resolved program every rule works on.
type Program struct {
	Dir    string
	GOARCH string
	Fset   *token.FileSet
	Pkgs   []*packages.Package
	Prog   *ssa.Program
	SSE    *ssa.Package
	Parser *ssa.Package

	// Funcs are all functions with bodies belonging to the module (including
	// anonymous functions, generic instantiations and synthetic wrappers).
	Funcs []*ssa.Function
	// byName indexes Funcs by their RelString relative to nothing (full name).
	byName map[string]*ssa.Function

	CG    *callgraph.Graph // CHA
	VTA   *callgraph.Graph // only in thorough
	Files []FileInfo
}

// intIs64: `int` is 64 bits wide on the analysed target.
func (P *Program) intIs64() bool {
	for _, p := range P.Pkgs {
		if p.TypesSizes != nil {
			return p.TypesSizes.Sizeof(types.Typ[types.Int]) == 8
		}
	}
	return P.GOARCH != "386" && P.GOARCH != "arm"
}

type FileInfo struct {
	Path   string `json:"path"`
	SHA256 string `json:"sha256"`
	Lines  int    `json:"lines"`
}

type loadError struct{ msg string }

func (e *loadError) Error() string { return e.msg }

// Load type-checks /repo's current working tree and builds SSA for every
// package of the module. overlay (may be nil) maps absolute file names to
// replacement contents (used for seeded-fault self validation).
func Load(dir, goarch string, overlay map[string][]byte, withVTA bool) (*Program, error) {
	env := append(os.Environ(),
		"GOFLAGS=-mod=mod", "GOPROXY=off", "GOSUMDB=off", "GOTOOLCHAIN=local", "GOWORK=off", "CGO_ENABLED=0")
	if goarch != "" {
		env = append(env, "GOARCH="+goarch)
	}
	cfg := &packages.Config{
		Mode:    packages.LoadSyntax | packages.NeedModule,
		Dir:     dir,
		Env:     env,
		Tests:   false,
		Overlay: overlay,
	}
	pkgs, err := packages.Load(cfg, "./...")
	if err != nil {
		return nil, &loadError{"packages.Load: " + err.Error()}
	}
	if len(pkgs) == 0 {
		return nil, &loadError{"no packages loaded"}
	}
	var errs []string
	for _, p := range pkgs {
		for _, e := range p.Errors {
			errs = append(errs, e.Error())
		}
	}
	if len(errs) > 0 {
		return nil, &loadError{"type/load errors: " + strings.Join(errs, "; ")}
	}
	sort.Slice(pkgs, func(i, j int) bool { return pkgs[i].PkgPath < pkgs[j].PkgPath })

	P := &Program{Dir: dir, GOARCH: goarch, Pkgs: pkgs, byName: map[string]*ssa.Function{}}
	prog, spkgs := ssautil.Packages(pkgs, ssa.BuilderMode(0))
	prog.Build()
	P.Prog = prog
	P.Fset = prog.Fset
	for i, p := range pkgs {
		switch p.PkgPath {
		case modPath:
			P.SSE = spkgs[i]
		case parserPath:
			P.Parser = spkgs[i]
		}
		// A non-test Go file of the two library packages that the build
		// configuration excludes would hide code from every rule.
		if p.PkgPath == modPath || p.PkgPath == parserPath {
			for _, f := range p.IgnoredFiles {
				if strings.HasSuffix(f, ".go") && !strings.HasSuffix(f, "_test.go") {
					return nil, &loadError{"uncovered-file: " + f + " is excluded from the analysed build configuration"}
				}
			}
			for _, f := range p.CompiledGoFiles {
				b, err := readMaybeOverlay(f, overlay)
				if err != nil {
					return nil, &loadError{err.Error()}
				}
				h := sha256.Sum256(b)
				rel, _ := filepath.Rel(dir, f)
				P.Files = append(P.Files, FileInfo{Path: rel, SHA256: hex.EncodeToString(h[:8]), Lines: strings.Count(string(b), "\n")})
			}
		}
	}
	if P.SSE == nil || P.Parser == nil {
		return nil, &loadError{"library packages sse/parser not found among loaded packages"}
	}

	inModule := func(fn *ssa.Function) bool {
		f := fn
		for f.Parent() != nil {
			f = f.Parent()
		}
		if o := f.Origin(); o != nil {
			f = o
		}
		if f.Pkg != nil {
			return strings.HasPrefix(f.Pkg.Pkg.Path(), modPath)
		}
		// wrappers/bound methods: decide by the wrapped object
		if obj := f.Object(); obj != nil && obj.Pkg() != nil {
			return strings.HasPrefix(obj.Pkg().Path(), modPath)
		}
		return false
	}
	for fn := range ssautil.AllFunctions(prog) {
		if fn.Blocks == nil || !inModule(fn) {
			continue
		}
		P.Funcs = append(P.Funcs, fn)
	}
	sort.Slice(P.Funcs, func(i, j int) bool { return P.Funcs[i].String() < P.Funcs[j].String() })
	for _, fn := range P.Funcs {
		P.byName[fn.String()] = fn
	}
	P.CG = cha.CallGraph(prog)
	if withVTA {
		P.VTA = vta.CallGraph(ssautil.AllFunctions(prog), P.CG)
	}
	return P, nil
}

func readMaybeOverlay(f string, overlay map[string][]byte) ([]byte, error) {
	if b, ok := overlay[f]; ok {
		return b, nil
	}
	return os.ReadFile(f)
}

// Fn returns the module function with the given short name, where the module
// path prefix is elided: "(*Joe).start", "read$1", "parser.NextChunk",
// "(*parser.Parser).Next". nil if absent.
func (P *Program) Fn(short string) *ssa.Function {
	return P.byName[expandName(short)]
}

func expandName(short string) string {
	// forms: Func | pkg.Func | (*T).M | (T).M | (*pkg.T).M
	qual := func(s string) string {
		if strings.HasPrefix(s, "parser.") {
			return parserPath + "." + strings.TrimPrefix(s, "parser.")
		}
		return modPath + "." + s
	}
	if strings.HasPrefix(short, "(") {
		i := strings.Index(short, ")")
		recv := short[1:i]
		star := ""
		if strings.HasPrefix(recv, "*") {
			star, recv = "*", recv[1:]
		}
		return "(" + star + qual(recv) + ")" + short[i+1:]
	}
	return qual(short)
}

func shortName(fn *ssa.Function) string {
	s := fn.String()
	s = strings.ReplaceAll(s, parserPath+".", "parser.")
	s = strings.ReplaceAll(s, modPath+".", "")
	return s
}

func (P *Program) pos(p token.Pos) string {
	if !p.IsValid() {
		return "-"
	}
	pp := P.Fset.Position(p)
	rel, err := filepath.Rel(P.Dir, pp.Filename)
	if err != nil {
		rel = pp.Filename
	}
	return fmt.Sprintf("%s:%d", rel, pp.Line)
}

// instrPos gives a best-effort position for an instruction.
func (P *Program) ipos(in ssa.Instruction) string {
	if in == nil {
		return "-"
	}
	if p := in.Pos(); p.IsValid() {
		return P.pos(p)
	}
	// fall back to nearest instruction with a position in the same block
	b := in.Block()
	if b != nil {
		for _, x := range b.Instrs {
			if x.Pos().IsValid() {
				return P.pos(x.Pos()) + "~"
			}
		}
		return shortName(b.Parent())
	}
	return "-"
}

// namedOf returns the named type behind t (through pointers), or nil.
func namedOf(t types.Type) *types.Named {
	for {
		switch x := t.(type) {
		case *types.Pointer:
			t = x.Elem()
			continue
		case *types.Named:
			return x
		case *types.Alias:
			t = types.Unalias(t)
			continue
		}
		return nil
	}
}

// typeIs reports whether t (through pointers) is the named type pkg.name of the module.
func typeIs(t types.Type, pkgSuffix, name string) bool {
	n := namedOf(t)
	if n == nil || n.Obj().Pkg() == nil {
		return false
	}
	o := n.Origin().Obj()
	return o.Name() == name && o.Pkg().Path() == pkgFull(pkgSuffix)
}

func pkgFull(s string) string {
	switch s {
	case "sse":
		return modPath
	case "parser":
		return parserPath
	}
	return s
}
