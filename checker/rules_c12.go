package main

import (
	"go/constant"
	"go/token"
	"go/types"

	"golang.org/x/tools/go/ssa"
)

func init() {
	prop(&PropertySpec{
		ID: "C12", Level: "other",
		Rules: []string{"R12.1", "R12.2", "R12.3", "R12.4", "R12.5", "R12.6", "R12.7", "R01.6"},
		Explanation: "Decides the wiring of the retry schedule: R12.1 every documented Backoff sentinel (Jitter=-1, Multiplier=1, MaxRetries in {-1,0}, MaxInterval=0, MaxElapsedTime=0, and every constant a consumer compares a Backoff field with) survives the default-merging normalisation (conditional constant propagation); " +
			"R12.2 the wait passed to OnRetry is the very value the timer is re-armed with, result 0 of backoffController.next; R12.3 exactly one next() and, when set, one OnRetry call per retry, and the timer is re-armed nowhere else; " +
			"R12.4 a validated connection resets the controller (setRetry(0), bound to the same controller next() is invoked on); R12.5 the server's retry value reaches the controller in milliseconds and is stored as the interval; " +
			"R12.6 controller updates: limit test before increment, +1 per granted retry, growInterval(interval, MaxInterval, Multiplier) stored, returned wait computed from the pre-growth interval, reset() stores count 0, start now, interval in {argument, InitialInterval}; " +
			"R12.7 sentinel semantics by constant propagation: MaxRetries<0 never grants a retry, MaxRetries=0 with MaxElapsedTime=0 always grants one, nextInterval(jitter=-1) returns the base interval unchanged, growInterval with MaxInterval=0 never caps; R01.6 digits-only retry parse.",
		NotDecided: "jitter range, growth and cap arithmetic, MaxElapsedTime arithmetic, float rounding; counting of attempts over whole histories.",
		Technique:  "static analysis: sparse conditional constant propagation with seeded fields + SSA value identity and CFG path rules",
	})
	register(&Rule{ID: "R12.1", Title: "documented Backoff sentinels survive mergeDefaults (SCCP)", Floor: 6, Run: r12_1})
	register(&Rule{ID: "R12.2", Title: "OnRetry wait is the timer wait (same SSA value from next())", Floor: 2, Run: r12_2})
	register(&Rule{ID: "R12.3", Title: "one next()/OnRetry per retry; timer re-armed only after next() granted", Floor: 3, Run: r12_3})
	register(&Rule{ID: "R12.4", Title: "successful connection resets the backoff controller", Floor: 2, Run: r12_4})
	register(&Rule{ID: "R12.5", Title: "server retry value reaches the controller in milliseconds", Floor: 2, Run: r12_5})
	register(&Rule{ID: "R12.6", Title: "controller field updates in next()/reset()", Floor: 5, Run: r12_6})
	register(&Rule{ID: "R12.7", Title: "sentinel semantics of next()/nextInterval()/growInterval() by constant propagation", Floor: 4, Run: r12_7})
}

// backoffCell: address is <param>.Backoff.<field> or <param *Backoff>.<field>,
// or (for the controller) <recv>.b-> <field>.
func backoffFieldAddr(addr ssa.Value, field string) (root ssa.Value, ok bool) {
	base, ok := isFieldSel(addr, "Backoff", field)
	if !ok {
		return nil, false
	}
	return backoffRoot(base), true
}

func backoffRoot(base ssa.Value) ssa.Value {
	// base is a *Backoff: either &x.Backoff, a load of controller.b, or a parameter
	if b2, ok := isFieldSel(base, "Client", "Backoff"); ok {
		return rootOf(b2)
	}
	if a, ok := loadedFrom(base); ok {
		return rootOf(a)
	}
	return rootOf(base)
}

func rootOf(v ssa.Value) ssa.Value {
	for {
		switch x := v.(type) {
		case *ssa.FieldAddr:
			v = x.X
		case *ssa.UnOp:
			if x.Op == token.MUL {
				v = x.X
				continue
			}
			return v
		default:
			return v
		}
	}
}

func r12_1(c *Ctx) {
	P := c.P
	nc := P.Fn("(*Client).NewConnection")
	if nc == nil {
		c.anchor("(*Client).NewConnection")
		return
	}
	// the Backoff struct's fields
	var bt *types.Struct
	if o := P.SSE.Pkg.Scope().Lookup("Backoff"); o != nil {
		bt, _ = o.Type().Underlying().(*types.Struct)
	}
	if bt == nil {
		c.anchor("type Backoff")
		return
	}
	type sentinel struct {
		field string
		val   constant.Value
		why   string
	}
	table := []sentinel{
		{"Jitter", constant.MakeInt64(-1), "documented: -1 = no randomization"},
		{"Multiplier", constant.MakeInt64(1), "documented: 1 = constant interval"},
		{"MaxRetries", constant.MakeInt64(-1), "documented: <0 = no retries"},
		{"MaxRetries", constant.MakeInt64(0), "documented: 0 = infinite"},
		{"MaxInterval", constant.MakeInt64(0), "documented: <=0 = infinite growth"},
		{"MaxElapsedTime", constant.MakeInt64(0), "documented: <=0 = no limit"},
	}
	// discovered: constants a consumer compares a Backoff field for equality with
	for _, fn := range P.Funcs {
		eachInstr(fn, func(in ssa.Instruction) {
			b, ok := in.(*ssa.BinOp)
			if !ok || (b.Op != token.EQL && b.Op != token.NEQ) {
				return
			}
			var k *ssa.Const
			var other ssa.Value
			if kc, ok := b.Y.(*ssa.Const); ok && kc.Value != nil {
				k, other = kc, b.X
			} else if kc, ok := b.X.(*ssa.Const); ok && kc.Value != nil {
				k, other = kc, b.Y
			} else {
				return
			}
			if k.Value.Kind() != constant.Int && k.Value.Kind() != constant.Float {
				return
			}
			for _, f := range backoffFieldsFlowingTo(P, other) {
				dup := false
				for _, s := range table {
					if s.field == f && sccpComparable(s.val, k.Value) && constant.Compare(s.val, token.EQL, k.Value) {
						dup = true
					}
				}
				if !dup {
					table = append(table, sentinel{f, k.Value, "consumer " + fnLabel(fn) + " compares it for equality with this constant"})
				}
			}
		})
	}
	// functions on the construction path that store into a Backoff field
	reach := P.reachFrom(nc)
	var normalisers []*ssa.Function
	for _, fn := range P.Funcs {
		if !reach[fn] {
			continue
		}
		writes := false
		eachInstr(fn, func(in ssa.Instruction) {
			if st, ok := in.(*ssa.Store); ok {
				if o, _, _, ok := fieldSel(st.Addr); ok && o == "Backoff" {
					writes = true
				}
			}
		})
		if writes {
			normalisers = append(normalisers, fn)
		}
	}
	for _, s := range table {
		found := false
		for i := 0; i < bt.NumFields(); i++ {
			if bt.Field(i).Name() == s.field {
				found = true
			}
		}
		name := "sentinel Backoff." + s.field + "=" + s.val.ExactString()
		if !found {
			c.undecided(name, "-", "documented field Backoff."+s.field+" no longer exists")
			continue
		}
		okAll := true
		for _, fn := range normalisers {
			isCell := func(addr ssa.Value) bool {
				root, ok := backoffFieldAddr(addr, s.field)
				if !ok {
					return false
				}
				_, isParam := root.(*ssa.Parameter)
				return isParam
			}
			res := sccp(fn, nil, []sccpCellSpec{{Name: s.field, IsCell: isCell, Seed: s.val}}, func(call ssa.CallInstruction) bool {
				for _, a := range call.Common().Args {
					if _, isPtr := a.Type().Underlying().(*types.Pointer); isPtr {
						if _, isParam := rootOf(a).(*ssa.Parameter); isParam && (typeIs(a.Type(), "sse", "Client") || typeIs(a.Type(), "sse", "Backoff")) {
							return true
						}
					}
				}
				return false
			})
			for ret, st := range res.Exit {
				if !st[0].isConst(s.val) {
					okAll = false
					at := P.ipos(ret)
					if res.Clobber[0] != nil {
						at = P.ipos(res.Clobber[0])
					}
					c.bad(name, at, "the sentinel value "+s.val.ExactString()+" of Backoff."+s.field+" ("+s.why+") does not survive "+fnLabel(fn)+": it is replaced by a default, so the documented behaviour cannot be configured",
						"failing configuration: Backoff{"+s.field+": "+s.val.ExactString()+"}")
				}
			}
		}
		if okAll {
			c.ok(name, P.pos(nc.Pos()), "survives default merging ("+s.why+")")
		}
	}
}

// backoffFieldsFlowingTo: names of Backoff fields whose loaded value is v,
// directly or through one level of parameter binding.
func backoffFieldsFlowingTo(P *Program, v ssa.Value) []string {
	var out []string
	if o, n, _, ok := fieldOfLoad(v); ok && o == "Backoff" {
		out = append(out, n)
	}
	if p, ok := v.(*ssa.Parameter); ok {
		fn := p.Parent()
		idx := -1
		for i, q := range fn.Params {
			if q == p {
				idx = i
			}
		}
		for _, site := range P.staticCallSites(fn) {
			args := site.Common().Args
			if idx >= 0 && idx < len(args) {
				if o, n, _, ok := fieldOfLoad(args[idx]); ok && o == "Backoff" {
					out = append(out, n)
				}
			}
		}
	}
	return out
}

// connectParts: the anchors of Connection.Connect.
type connectParts struct {
	fn        *ssa.Function
	doConnect *ssa.Call
	next      *ssa.Call
	onRetry   []*ssa.Call
	resets    []*ssa.Call
}

func findConnect(P *Program) *connectParts {
	fn := P.Fn("(*Connection).Connect")
	if fn == nil {
		return nil
	}
	cp := &connectParts{fn: fn}
	eachInstrDeep(fn, func(in ssa.Instruction) {
		if call, ok := isModCall(in, "(*Connection).doConnect"); ok {
			cp.doConnect = call
		}
		if call, ok := isModCall(in, "(*backoffController).next"); ok {
			cp.next = call
		}
		if call, ok := isStaticCall(in, "(*time.Timer).Reset"); ok {
			cp.resets = append(cp.resets, call)
		}
		if call, ok := in.(*ssa.Call); ok && call.Call.StaticCallee() == nil && !call.Call.IsInvoke() {
			if _, ok := isFieldLoad(call.Call.Value, "Client", "OnRetry"); ok {
				cp.onRetry = append(cp.onRetry, call)
			}
		}
	})
	return cp
}

func r12_2(c *Ctx) {
	P := c.P
	cp := findConnect(P)
	if cp == nil || cp.next == nil {
		c.anchor("Connect / backoffController.next call")
		return
	}
	isWait := func(v ssa.Value) bool {
		src := sourcesIgnoringFailed(v)
		for _, s := range src {
			e, ok := s.(*ssa.Extract)
			if !ok || e.Index != 0 || e.Tuple != ssa.Value(cp.next) {
				return false
			}
		}
		return len(src) > 0
	}
	for _, r := range cp.resets {
		c.check(isWait(r.Call.Args[1]), fnLabel(cp.fn)+":Timer.Reset-arg", P.ipos(r), "timer re-armed with result 0 of next()",
			"the timer is re-armed with a value other than the wait computed by next(): the wait actually used differs from the schedule (and from what OnRetry was told)")
	}
	if len(cp.resets) == 0 {
		c.bad(fnLabel(cp.fn)+":Timer.Reset-arg", P.pos(cp.fn.Pos()), "Connect never re-arms its timer")
	}
	for _, o := range cp.onRetry {
		if len(o.Call.Args) != 2 {
			c.undecided(fnLabel(cp.fn)+":OnRetry-arg", P.ipos(o), "OnRetry arity")
			continue
		}
		c.check(isWait(o.Call.Args[1]), fnLabel(cp.fn)+":OnRetry-arg", P.ipos(o), "OnRetry receives result 0 of next()",
			"OnRetry is told a wait other than the one the timer is re-armed with")
	}
	if len(cp.onRetry) == 0 {
		c.bad(fnLabel(cp.fn)+":OnRetry-arg", P.pos(cp.fn.Pos()), "Connect never calls Client.OnRetry")
	}
	// the schedule starts afresh with every Connect: the controller whose next() is consulted is made by
	// Backoff.new() in this call (start = now, count 0, interval = InitialInterval), before the loop
	{
		var mk *ssa.Call
		eachInstrDeep(cp.fn, func(in ssa.Instruction) {
			if call, ok := isModCall(in, "(*Backoff).new"); ok {
				mk = call
			}
		})
		fresh := false
		if mk != nil && len(cp.next.Call.Args) > 0 {
			recv := cp.next.Call.Args[0]
			// the receiver is (the address of) a local holding new()'s result
			root := cellRoot(recv)
			if al, ok := root.(*ssa.Alloc); ok {
				st, _, _ := cellStores(al)
				for _, sv := range st {
					if sv == ssa.Value(mk) {
						fresh = true
					}
				}
			}
			if carriesOnly(recv, mk) {
				fresh = true
			}
			fresh = fresh && len(loopsContaining(cp.fn, mk.Block())) == 0
		}
		c.check(fresh, fnLabel(cp.fn)+":fresh-controller", P.ipos(cp.next), "the backoff controller consulted by Connect is created by Backoff.new() in this Connect call, before the loop", "the backoff controller consulted by Connect is not created afresh at the start of Connect (e.g. once per Connection): the elapsed-time clock starts before Connect, and a second Connect inherits an exhausted retry count and a grown interval")
	}
}

func r12_3(c *Ctx) {
	P := c.P
	cp := findConnect(P)
	if cp == nil || cp.next == nil || cp.doConnect == nil {
		c.anchor("Connect / doConnect / next")
		return
	}
	fn := cp.fn
	// exactly one next() call, in no loop other than the retry loop
	nNext := 0
	eachInstrDeep(fn, func(in ssa.Instruction) {
		if _, ok := isModCall(in, "(*backoffController).next"); ok {
			nNext++
		}
	})
	loops := loopsContaining(fn, cp.next.Block())
	c.check(nNext == 1 && len(loops) == 1, fnLabel(fn)+":single-next", P.ipos(cp.next), "one next() call site, nested only in the retry loop",
		"next() is called at several sites or inside an inner loop: the retry counter/interval advance more than once per retry")
	// next() is reached only when doConnect asked for a retry
	isShould := func(v ssa.Value) bool {
		e, ok := v.(*ssa.Extract)
		return ok && e.Index == 0 && e.Tuple == ssa.Value(cp.doConnect)
	}
	c.check(guardedByBool(fn, cp.next.Block(), isShould, true) && instrDominates(cp.doConnect, cp.next), fnLabel(fn)+":next-after-failed-attempt", P.ipos(cp.next),
		"next() is consulted only after an attempt that asked for a retry", "next() is consulted without a preceding attempt that asked for a retry")
	isGranted := func(v ssa.Value) bool {
		e, ok := v.(*ssa.Extract)
		return ok && e.Index == 1 && e.Tuple == ssa.Value(cp.next)
	}
	for _, r := range cp.resets {
		c.check(guardedByBool(fn, r.Block(), isGranted, true), fnLabel(fn)+":Timer.Reset-guard", P.ipos(r), "timer re-armed only when next() granted a retry",
			"the timer is re-armed on a path where next() did not grant a retry: more attempts than MaxRetries/MaxElapsedTime allow")
	}
	// OnRetry: on every path from the granted edge to Timer.Reset with OnRetry != nil, exactly one call
	if len(cp.resets) == 1 {
		r := cp.resets[0]
		blocked := map[cfgEdge]bool{}
		for _, ifi := range ifsIn(fn) {
			if s, ok := nilEdge(ifi, func(v ssa.Value) bool { _, ok := isFieldLoad(v, "Client", "OnRetry"); return ok }); ok {
				blocked[cfgEdge{ifi.Block(), s}] = true
			}
		}
		isOnRetry := func(in ssa.Instruction) bool {
			for _, o := range cp.onRetry {
				if in == ssa.Instruction(o) {
					return true
				}
			}
			return false
		}
		missing := reachesAvoiding(afterInstr(cp.next), r, isOnRetry, blocked)
		c.check(!missing && len(cp.onRetry) == 1 && len(loopsContaining(fn, cp.onRetry[0].Block())) == 1, fnLabel(fn)+":OnRetry-once", P.ipos(r),
			"when OnRetry is set it is called exactly once between next() and re-arming the timer",
			"a path from next() to re-arming the timer skips the OnRetry call although OnRetry is set (or it is called more than once)")
		for _, o := range cp.onRetry {
			c.check(guardedByBool(fn, o.Block(), isGranted, true) && guardedByNil(fn, o.Block(), func(v ssa.Value) bool { _, ok := isFieldLoad(v, "Client", "OnRetry"); return ok }, false),
				fnLabel(fn)+":OnRetry-guard", P.ipos(o), "OnRetry called only for a granted retry and when non-nil", "OnRetry is called although no retry follows, or without a nil check")
		}
	} else {
		c.bad(fnLabel(fn)+":OnRetry-once", P.pos(fn.Pos()), "Connect re-arms its timer at "+itoa(len(cp.resets))+" sites; exactly one is expected")
	}
}

func r12_4(c *Ctx) {
	P := c.P
	fn := P.Fn("(*Connection).doConnect")
	cp := findConnect(P)
	if fn == nil || cp == nil || cp.doConnect == nil || cp.next == nil {
		c.anchor("doConnect / Connect")
		return
	}
	var setRetry *ssa.Parameter
	for _, p := range fn.Params[1:] {
		if typeIs(p.Type(), "sse", "backoffController") {
			setRetry = p
		}
		if sig, ok := p.Type().Underlying().(*types.Signature); ok && sig.Params().Len() == 1 && sig.Results().Len() == 0 && sig.Params().At(0).Type().String() == "time.Duration" {
			setRetry = p
		}
	}
	if setRetry == nil {
		c.undecided(fnLabel(fn)+":setRetry-param", P.pos(fn.Pos()), "doConnect no longer takes a setRetry parameter")
		return
	}
	var validator *ssa.Call
	var read *ssa.Call
	eachInstrDeep(fn, func(in ssa.Instruction) {
		if call, ok := in.(*ssa.Call); ok && call.Call.StaticCallee() == nil && !call.Call.IsInvoke() {
			if _, ok := isFieldLoad(call.Call.Value, "Client", "ResponseValidator"); ok {
				validator = call
			}
		}
		if call, ok := isModCall(in, "(*Connection).read"); ok {
			read = call
		}
	})
	if validator == nil || read == nil {
		c.anchor("validator call / Connection.read call in doConnect")
		return
	}
	// the third parameter is the reset function (a bound method value) or the controller itself
	isCtrl := typeIs(setRetry.Type(), "sse", "backoffController")
	isReset := func(in ssa.Instruction) bool {
		call, ok := in.(*ssa.Call)
		if !ok {
			return false
		}
		if isCtrl {
			if mc, ok := isModCall(call, "(*backoffController).reset"); !ok || len(mc.Call.Args) != 2 || !carriesOnly(mc.Call.Args[0], setRetry) {
				return false
			}
			k, isC := constInt(call.Call.Args[1])
			return isC && k == 0
		}
		if !carriesOnly(call.Call.Value, setRetry) || len(call.Call.Args) != 1 {
			return false
		}
		k, isC := constInt(call.Call.Args[0])
		return isC && k == 0
	}
	missing := reachesAvoiding(afterInstr(validator), read, isReset, nil)
	c.check(!missing, fnLabel(fn)+":reset-on-success", P.ipos(read), "setRetry(0) is called on every path from the accepted response to reading the stream",
		"a validated connection starts reading without resetting the backoff controller: retry count and interval are not reset by a successful connection")
	// binding at the call site
	arg := cp.doConnect.Call.Args[len(cp.doConnect.Call.Args)-1]
	good := false
	if mc, ok := arg.(*ssa.MakeClosure); ok {
		if f, ok := mc.Fn.(*ssa.Function); ok && f.Synthetic != "" && f.Object() != nil && f.Object().Name() == "reset" && len(mc.Bindings) == 1 {
			if mc.Bindings[0] == cp.next.Call.Args[0] || cellRoot(mc.Bindings[0]) == cellRoot(cp.next.Call.Args[0]) {
				good = true
			}
		}
	}
	if isCtrl && (arg == cp.next.Call.Args[0] || sameValue(arg, cp.next.Call.Args[0]) || cellRoot(arg) == cellRoot(cp.next.Call.Args[0])) {
		good = true
	}
	c.check(good, fnLabel(cp.fn)+":setRetry-binding", P.ipos(cp.doConnect), "doConnect's setRetry is the reset method of the controller next() is invoked on",
		"doConnect's setRetry is not bound to the reset method of the controller whose next() schedules the retries")
}

func r12_5(c *Ctx) {
	P := c.P
	fn := P.Fn("(*Connection).read")
	if fn == nil {
		c.anchor("(*Connection).read")
		return
	}
	rd := P.Fn("read")
	var site ssa.CallInstruction
	for _, s := range P.staticCallSites(rd) {
		if s.Parent() == fn {
			site = s
		}
	}
	if site == nil || len(site.Common().Args) != 4 {
		c.anchor("call of read(...) in Connection.read")
		return
	}
	mc, ok := site.Common().Args[2].(*ssa.MakeClosure)
	if !ok {
		c.bad(fnLabel(fn)+":onRetry-callback", P.ipos(site), "Connection.read passes no retry callback to the iterator: the server's retry field is ignored")
		return
	}
	cb := mc.Fn.(*ssa.Function)
	// cb(r int64): calls setRetry(Duration(r) * 1e6)
	good := false
	eachInstrDeep(cb, func(in ssa.Instruction) {
		call, ok := in.(*ssa.Call)
		if !ok || call.Call.StaticCallee() != nil || len(call.Call.Args) != 1 {
			return
		}
		// callee is the captured setRetry
		isSet := false
		for _, s := range sources(call.Call.Value) {
			if p, ok := s.(*ssa.Parameter); ok && p.Parent() == fn {
				isSet = true
			}
		}
		if !isSet {
			return
		}
		b, ok := call.Call.Args[0].(*ssa.BinOp)
		if !ok || b.Op != token.MUL {
			return
		}
		isParam := func(v ssa.Value) bool { return stripConvAll(v) == ssa.Value(cb.Params[0]) }
		isMs := func(v ssa.Value) bool { k, ok := constInt(v); return ok && k == 1000000 }
		if (isParam(b.X) && isMs(b.Y)) || (isParam(b.Y) && isMs(b.X)) {
			good = true
		}
	})
	// ... on every path through the callback: the value announced by the server is applied each time it is
	// announced (the controller is put back to InitialInterval on every successful connection)
	{
		var setCall ssa.Instruction
		eachInstrDeep(cb, func(in ssa.Instruction) {
			call, ok := in.(*ssa.Call)
			if !ok || call.Call.StaticCallee() != nil || len(call.Call.Args) != 1 {
				return
			}
			for _, sv := range sources(call.Call.Value) {
				if p, ok := sv.(*ssa.Parameter); ok && p.Parent() == fn {
					if li, ok := liftInstr(in, cb); ok {
						setCall = li
					}
				}
			}
		})
		skipped := false
		if setCall != nil {
			for _, ret := range returnsOf(cb) {
				if reachesAvoiding(entryPoint(cb), ret, func(in ssa.Instruction) bool { return in == setCall }, nil) {
					skipped = true
				}
			}
		}
		c.check(setCall != nil && !skipped, fnLabel(cb)+":retry-always-forwarded", P.pos(cb.Pos()), "every call of the retry callback forwards the value to setRetry", "a retry value announced by the server is not always forwarded to setRetry (e.g. only when it differs from the last one): the next connection's announcement is ignored although the interval was reset in between")
	}
	c.check(good, fnLabel(cb)+":retry-in-ms", P.pos(cb.Pos()), "the retry callback passes Duration(n)*time.Millisecond to setRetry",
		"the server's retry value is not forwarded to setRetry as n milliseconds")
	// reset(d): d > 0 stores d as interval, else InitialInterval
	rs := P.Fn("(*backoffController).reset")
	if rs == nil {
		c.anchor("(*backoffController).reset")
		return
	}
	d := rs.Params[1]
	okStore, okElse, other := false, false, false
	eachInstrDeep(rs, func(in ssa.Instruction) {
		st, ok := in.(*ssa.Store)
		if !ok {
			return
		}
		if _, ok := isFieldSel(st.Addr, "backoffController", "interval"); !ok {
			return
		}
		switch {
		case st.Val == ssa.Value(d):
			// guarded by d > 0
			if intGuard(rs, st.Block(), func(v ssa.Value) bool { return v == ssa.Value(d) }, negInf, 1, posInf) {
				okStore = true
			}
		default:
			if _, n, _, ok := fieldOfLoad(st.Val); ok && n == "InitialInterval" {
				okElse = true
			} else {
				other = true
			}
		}
	})
	c.check(okStore && okElse && !other, fnLabel(rs)+":interval", P.pos(rs.Pos()), "reset(d) stores d when d > 0 and InitialInterval otherwise",
		"reset does not store the server-provided interval (d > 0) / the initial interval (d <= 0) as the next base interval")
}

func r12_6(c *Ctx) {
	P := c.P
	nx := P.Fn("(*backoffController).next")
	rs := P.Fn("(*backoffController).reset")
	if nx == nil || rs == nil {
		c.anchor("backoffController.next/reset")
		return
	}
	// increments of numRetries
	var incs []*ssa.Store
	var growStore *ssa.Store
	growStores := map[ssa.Instruction]bool{}
	var nextIv, growIv *ssa.Call
	eachInstrDeep(nx, func(in ssa.Instruction) {
		if st, ok := in.(*ssa.Store); ok {
			if _, ok := isFieldSel(st.Addr, "backoffController", "numRetries"); ok {
				incs = append(incs, st)
			}
			if _, ok := isFieldSel(st.Addr, "backoffController", "interval"); ok {
				growStore = st
				growStores[st] = true
			}
		}
		if call, ok := isModCall(in, "nextInterval"); ok {
			nextIv = call
		}
		if call, ok := isModCall(in, "growInterval"); ok {
			growIv = call
		}
	})
	name := fnLabel(nx)
	// (a) every true-returning path passes exactly one increment by 1
	incOK := len(incs) == 1
	if incOK {
		b, ok := incs[0].Val.(*ssa.BinOp)
		incOK = ok && b.Op == token.ADD
		if incOK {
			_, isLoad := isFieldLoad(b.X, "backoffController", "numRetries")
			k, isK := constInt(b.Y)
			incOK = isLoad && isK && k == 1
		}
	}
	// the counter is at least as wide as the limit it is compared with (a narrower counter wraps below
	// the limit and never reaches it)
	if len(incs) == 1 {
		var limT types.Type
		eachInstrDeep(nx, func(in ssa.Instruction) {
			if u, ok := in.(*ssa.UnOp); ok && u.Op == token.MUL {
				if _, ok := isFieldSel(u.X, "Backoff", "MaxRetries"); ok {
					limT = u.Type()
				}
			}
		})
		cntT := deref(incs[0].Addr.Type())
		if limT != nil {
			sz := types.SizesFor("gc", "amd64")
			cb, okC := cntT.Underlying().(*types.Basic)
			c.check(okC && cb.Info()&types.IsInteger != 0 && sz.Sizeof(cntT) >= sz.Sizeof(limT), name+":counter-width", P.ipos(incs[0]), "the retry counter ("+cntT.String()+") is at least as wide as MaxRetries ("+limT.String()+")",
				"the retry counter ("+cntT.String()+") is narrower than MaxRetries ("+limT.String()+"): it wraps before reaching a large limit, so the number of retries is unbounded")
		}
	}
	c.check(incOK, name+":increment", P.pos(nx.Pos()), "numRetries is incremented by exactly 1 at one site", "numRetries is not incremented by exactly 1 at exactly one site in next()")
	for i, ret := range returnsOf(nx) {
		if len(ret.Results) != 2 {
			continue
		}
		granted := false
		for _, s := range sources(ret.Results[1]) {
			if b, ok := constBool(s); ok && b {
				granted = true
			}
		}
		if !granted {
			continue
		}
		rn := name + ":granted-return#" + itoa(i)
		if len(incs) == 1 {
			skip := reachesAvoiding(entryPoint(nx), ret, func(in ssa.Instruction) bool { return in == ssa.Instruction(incs[0]) }, nil)
			c.check(!skip, rn+":counts", P.ipos(ret), "a granted retry always passes the increment", "a path grants a retry without counting it: more than MaxRetries attempts are made")
		}
		if growStore != nil {
			skip := reachesAvoiding(entryPoint(nx), ret, func(in ssa.Instruction) bool { return growStores[in] }, nil)
			c.check(!skip, rn+":grows", P.ipos(ret), "a granted retry always stores the grown interval", "a path grants a retry without growing the interval")
		}
		// the returned wait is nextInterval's result
		waitOK := nextIv != nil
		if waitOK {
			for _, s := range sources(ret.Results[0]) {
				if s != ssa.Value(nextIv) {
					waitOK = false
				}
			}
		} else if why := inlineWait(nx, ret, growStore, false); why == "" {
			// nextInterval merged into next(): decided path-wise
			c.ok(rn+":wait", P.ipos(ret), "the granted wait is the current interval, jittered with rng.Float64() unless Jitter == -1 (nextInterval merged into next)")
			continue
		} else {
			c.bad(rn+":wait", P.ipos(ret), "the granted wait is not the jittered current interval ("+why+")")
			continue
		}
		c.check(waitOK, rn+":wait", P.ipos(ret), "the granted wait is nextInterval's result", "the granted wait is not the jittered current interval")
	}
	// (b) limit semantics by constant propagation over two cells (works through extracted predicates):
	//     MaxRetries=3, numRetries=3  => every reachable return refuses and the count stays 3;
	//     MaxRetries=3, numRetries=2 (no elapsed limit) => every reachable return grants and the count becomes 3.
	{
		cellB := func(field string) func(ssa.Value) bool {
			return func(addr ssa.Value) bool { _, ok := isFieldSel(addr, "Backoff", field); return ok }
		}
		cellN := func(addr ssa.Value) bool { _, ok := isFieldSel(addr, "backoffController", "numRetries"); return ok }
		run := func(count int64) (*sccpResult, bool, bool, bool) {
			res := sccp(nx, nil, []sccpCellSpec{
				{Name: "MaxRetries", IsCell: cellB("MaxRetries"), Seed: constant.MakeInt64(3)},
				{Name: "numRetries", IsCell: cellN, Seed: constant.MakeInt64(count)},
				{Name: "MaxElapsedTime", IsCell: cellB("MaxElapsedTime"), Seed: constant.MakeInt64(0)},
			}, nil)
			allRefuse, allGrant, any := true, true, false
			for ret := range res.Exit {
				any = true
				for _, sv := range sources(ret.Results[1]) {
					b, isC := constBool(sv)
					if !isC {
						allRefuse, allGrant = false, false
						continue
					}
					if b {
						allRefuse = false
					} else {
						allGrant = false
					}
				}
			}
			return res, any && allRefuse, any && allGrant, any
		}
		res1, refuse, _, any1 := run(3)
		stay := any1
		for _, st := range res1.Exit {
			if !st[1].isConst(constant.MakeInt64(3)) {
				stay = false
			}
		}
		c.check(refuse && stay, name+":limit-reached", P.pos(nx.Pos()), "with numRetries == MaxRetries (> 0) every reachable return refuses and the count is not incremented",
			"with numRetries == MaxRetries a retry can still be granted (or the count is incremented before the test): more than MaxRetries attempts are made")
		res2, _, grant, any2 := run(2)
		inc := any2
		for _, st := range res2.Exit {
			if !st[1].isConst(constant.MakeInt64(3)) {
				inc = false
			}
		}
		c.check(grant && inc, name+":limit-not-reached", P.pos(nx.Pos()), "below the limit every reachable return grants the retry and the count becomes count+1",
			"below the limit (numRetries=2 < MaxRetries=3, no elapsed-time limit) next() refuses, or does not count the retry by exactly one")
	}
	// (c) growth: stored value is growInterval(load interval, load MaxInterval, load Multiplier); wait computed from pre-growth interval
	gOK := growStore != nil && growIv != nil && growStore.Val == ssa.Value(growIv)
	if gOK {
		a := growIv.Call.Args
		_, a0 := isFieldLoad(a[0], "backoffController", "interval")
		_, a1 := isFieldLoad(a[1], "Backoff", "MaxInterval")
		_, a2 := isFieldLoad(a[2], "Backoff", "Multiplier")
		gOK = a0 && a1 && a2
	}
	if growIv == nil && growStore != nil {
		why, _ := inlineGrowth(nx)
		c.check(why == "", name+":growth", P.pos(nx.Pos()), "interval := MaxInterval under MaxInterval > 0, interval*Multiplier otherwise (growInterval merged into next)", "the stored next interval is not the grown interval ("+why+")")
	} else {
		c.check(gOK, name+":growth", P.pos(nx.Pos()), "interval := growInterval(interval, MaxInterval, Multiplier)", "the stored next interval is not growInterval(interval, MaxInterval, Multiplier)")
	}
	pre := nextIv != nil && growStore != nil
	if nextIv == nil && growStore != nil {
		// merged form: every interval load the wait is computed from precedes the growing store
		why := ""
		for _, ret := range returnsOf(nx) {
			if w := inlineWait(nx, ret, growStore, true); w != "" {
				why = w
			}
		}
		c.check(why == "", name+":wait-from-pre-growth", P.pos(nx.Pos()), "the wait is computed from the interval as it was before the growing store", "the wait is computed from the already grown interval (b_1 would be InitialInterval*Multiplier): "+why)
		pre = false
	} else if pre {
		a := nextIv.Call.Args
		_, j := isFieldLoad(a[0], "Backoff", "Jitter")
		_, iv := isFieldLoad(a[2], "backoffController", "interval")
		pre = j && iv && instrDominates(a[2].(ssa.Instruction), growStore)
	}
	if !(nextIv == nil && growStore != nil) {
		c.check(pre, name+":wait-from-pre-growth", P.pos(nx.Pos()), "nextInterval(Jitter, rng, interval) reads the interval before it is grown", "the wait is computed from the already grown interval (b_1 would be InitialInterval*Multiplier) or not from Jitter/interval")
	}
	// (d) elapsed-time limit: the comparison uses the wait that is actually returned
	{
		var waitVal ssa.Value = nil
		if nextIv != nil {
			waitVal = nextIv
		} else {
			// merged form: the value every granting return hands out
			same := true
			for _, ret := range returnsOf(nx) {
				if len(ret.Results) != 2 {
					continue
				}
				if b, isC := constBool(ret.Results[1]); isC && !b {
					continue
				}
				if waitVal == nil {
					waitVal = ret.Results[0]
				} else if waitVal != ret.Results[0] {
					same = false
				}
			}
			if !same {
				waitVal = nil
			}
		}
		found, good := false, false
		for _, ifi := range ifsIn(nx) {
			cnd := decodeIf(ifi)
			if cnd.Y == nil {
				continue
			}
			_, isMaxY := isFieldLoad(cnd.Y, "Backoff", "MaxElapsedTime")
			_, isMaxX := isFieldLoad(cnd.X, "Backoff", "MaxElapsedTime")
			var sum ssa.Value
			var op token.Token
			switch {
			case isMaxY:
				sum, op = cnd.X, cnd.Op
			case isMaxX:
				sum, op = cnd.Y, flipOp(cnd.Op)
			default:
				continue
			}
			add, ok := sum.(*ssa.BinOp)
			if !ok || add.Op != token.ADD {
				continue
			}
			refuseWhenTrue := true
			switch op {
			case token.GTR, token.GEQ:
			case token.LEQ, token.LSS:
				refuseWhenTrue = false
			default:
				continue
			}
			found = true
			isElapsed := func(v ssa.Value) bool {
				call, ok := isStaticCall(v, "time.Since")
				if !ok {
					return false
				}
				_, ok = isFieldLoad(call.Call.Args[0], "backoffController", "start")
				return ok
			}
			if waitVal != nil && ((isElapsed(add.X) && add.Y == waitVal) || (isElapsed(add.Y) && add.X == waitVal)) {
				// the refusing edge leads only to refusing returns
				refuse := cnd.succWhen(refuseWhenTrue)
				okRef := true
				forward([]startPoint{atEdge(ifi.Block(), refuse)}, func(in ssa.Instruction) searchAction {
					if r, ok := in.(*ssa.Return); ok && len(r.Results) == 2 {
						if b, isC := constBool(r.Results[1]); !isC || b {
							okRef = false
						}
					}
					return cont
				})
				good = okRef
			}
		}
		if found {
			c.check(good, name+":elapsed-limit", P.pos(nx.Pos()), "a retry is refused when time.Since(start) + the wait actually returned exceeds MaxElapsedTime", "the MaxElapsedTime test does not compare time.Since(start) plus the wait that is actually returned (it uses another value, e.g. the un-jittered base): a retry whose real wait overshoots MaxElapsedTime is started")
		} else {
			c.bad(name+":elapsed-limit", P.pos(nx.Pos()), "next() never compares elapsed time plus the wait with MaxElapsedTime: the limit is not enforced")
		}
	}
	// reset()
	var zeroCount, startNow bool
	eachInstrDeep(rs, func(in ssa.Instruction) {
		st, ok := in.(*ssa.Store)
		if !ok {
			return
		}
		if _, ok := isFieldSel(st.Addr, "backoffController", "numRetries"); ok {
			k, isK := constInt(st.Val)
			zeroCount = isK && k == 0 && st.Block().Dominates(exitBlock(rs)) || (isK && k == 0 && allPathsPass(rs, st))
		}
		if _, ok := isFieldSel(st.Addr, "backoffController", "start"); ok {
			if _, ok := isStaticCall(st.Val, "time.Now"); ok {
				startNow = allPathsPass(rs, st)
			}
		}
	})
	c.check(zeroCount && startNow, fnLabel(rs)+":count-and-start", P.pos(rs.Pos()), "reset stores numRetries=0 and start=time.Now() on every path",
		"reset does not zero the retry count / restart the elapsed-time clock on every path: a successful connection does not reset the schedule")
}

func reachesFromEdge(from *ssa.BasicBlock, idx int, target ssa.Instruction) bool {
	return reachesAvoiding(atEdge(from, idx), target, nil, nil)
}

func exitBlock(fn *ssa.Function) *ssa.BasicBlock {
	for _, b := range fn.Blocks {
		if len(b.Instrs) > 0 {
			if _, ok := b.Instrs[len(b.Instrs)-1].(*ssa.Return); ok {
				return b
			}
		}
	}
	return fn.Blocks[0]
}

// allPathsPass: every path from entry to any return executes `in`.
func allPathsPass(fn *ssa.Function, in ssa.Instruction) bool {
	for _, ret := range returnsOf(fn) {
		if reachesAvoiding(entryPoint(fn), ret, func(i ssa.Instruction) bool { return i == in }, nil) {
			return false
		}
	}
	return true
}

func r12_7(c *Ctx) {
	P := c.P
	nx := P.Fn("(*backoffController).next")
	if nx == nil {
		c.anchor("(*backoffController).next")
		return
	}
	cell := func(field string) func(ssa.Value) bool {
		return func(addr ssa.Value) bool { _, ok := isFieldSel(addr, "Backoff", field); return ok }
	}
	grantAt := func(res *sccpResult, want bool) (bool, *ssa.Return) {
		for ret := range res.Exit {
			if len(ret.Results) != 2 {
				return false, ret
			}
			for _, s := range sources(ret.Results[1]) {
				b, ok := constBool(s)
				if !ok || b != want {
					return false, ret
				}
			}
		}
		return len(res.Exit) > 0, nil
	}
	// MaxRetries = -1: no reachable return grants a retry
	res := sccp(nx, nil, []sccpCellSpec{{Name: "MaxRetries", IsCell: cell("MaxRetries"), Seed: constant.MakeInt64(-1)}}, nil)
	ok, at := grantAt(res, false)
	c.check(ok, fnLabel(nx)+":MaxRetries=-1", posOfRet(P, at, nx), "with MaxRetries<0 every reachable return refuses the retry", "with MaxRetries=-1 a return granting a retry is reachable: retries are made although none are allowed")
	// MaxRetries = 0, MaxElapsedTime = 0: every reachable return grants
	res = sccp(nx, nil, []sccpCellSpec{
		{Name: "MaxRetries", IsCell: cell("MaxRetries"), Seed: constant.MakeInt64(0)},
		{Name: "MaxElapsedTime", IsCell: cell("MaxElapsedTime"), Seed: constant.MakeInt64(0)},
	}, nil)
	ok, at = grantAt(res, true)
	c.check(ok, fnLabel(nx)+":MaxRetries=0,MaxElapsedTime=0", posOfRet(P, at, nx), "with MaxRetries=0 and MaxElapsedTime=0 every reachable return grants the retry (unbounded)",
		"with MaxRetries=0 and MaxElapsedTime=0 a return refusing the retry is reachable: retries are not unbounded")
	// nextInterval(jitter=-1) returns current
	if ni := P.Fn("nextInterval"); ni != nil && len(ni.Params) == 3 {
		res := sccp(ni, map[ssa.Value]constant.Value{ni.Params[0]: constant.MakeInt64(-1)}, nil, nil)
		good := len(res.Exit) > 0
		var at *ssa.Return
		for ret := range res.Exit {
			for _, s := range sccpSources(res, ret.Results[0]) {
				if s != ssa.Value(ni.Params[2]) {
					good = false
					at = ret
				}
			}
		}
		c.check(good, fnLabel(ni)+":jitter=-1", posOfRet(P, at, ni), "with jitter=-1 the only reachable return yields the base interval itself", "with jitter=-1 the returned wait is not the base interval b_k")
	} else if P.Fn("nextInterval") == nil {
		// merged into next(): with Jitter == -1 every granted wait is the plain pre-growth interval
		why := ""
		var at *ssa.Return
		for _, ret := range returnsOf(nx) {
			if w := inlineWaitJitterOff(nx, ret); w != "" {
				why, at = w, ret
			}
		}
		c.check(why == "", fnLabel(nx)+":jitter=-1", posOfRet(P, at, nx), "with Jitter == -1 every granted wait is the base interval itself (nextInterval merged into next)", "with jitter=-1 the returned wait is not the base interval b_k ("+why+")")
	} else {
		c.anchor("nextInterval(jitter, rng, current)")
	}
	// growInterval(maxInterval=0): returns current*mul (the capped return is unreachable)
	if gi := P.Fn("growInterval"); gi != nil && len(gi.Params) == 3 {
		res := sccp(gi, map[ssa.Value]constant.Value{gi.Params[1]: constant.MakeInt64(0)}, nil, nil)
		good := len(res.Exit) > 0
		var at *ssa.Return
		for ret := range res.Exit {
			for _, s := range sources(ret.Results[0]) {
				if s == ssa.Value(gi.Params[1]) || isConstVal(s) {
					good = false
					at = ret
				}
			}
		}
		c.check(good, fnLabel(gi)+":MaxInterval=0", posOfRet(P, at, gi), "with MaxInterval=0 the capped return is unreachable", "with MaxInterval=0 growInterval can return the (zero) cap: the interval collapses instead of growing without bound")
		// and the cap: the return of maxInterval is guarded by maxInterval > 0
		capOK := false
		for _, ret := range returnsOf(gi) {
			for _, s := range sources(ret.Results[0]) {
				if s == ssa.Value(gi.Params[1]) {
					if intGuard(gi, ret.Block(), func(v ssa.Value) bool { return v == ssa.Value(gi.Params[1]) }, negInf, 1, posInf) {
						capOK = true
					}
				}
			}
		}
		// the uncapped result is the float product current*mul, converted back (an integer multiplication
		// truncates the multiplier: 1.5 becomes 1 and the interval never grows)
		prodOK, seen := true, false
		for _, ret := range returnsOf(gi) {
			for _, sv := range sources(ret.Results[0]) {
				if sv == ssa.Value(gi.Params[1]) {
					continue
				}
				seen = true
				m, isM := stripConvAll(sv).(*ssa.BinOp)
				if !isM || m.Op != token.MUL || !isFloat64(m.Type()) {
					prodOK = false
					continue
				}
				x, y := stripConvAll(m.X), stripConvAll(m.Y)
				if !((x == ssa.Value(gi.Params[0]) && y == ssa.Value(gi.Params[2])) || (y == ssa.Value(gi.Params[0]) && x == ssa.Value(gi.Params[2]))) {
					prodOK = false
				}
			}
		}
		c.check(prodOK && seen, fnLabel(gi)+":product", P.pos(gi.Pos()), "the uncapped result is float64(current)*mul converted back", "growInterval's uncapped result is not the floating-point product current*mul (an integer product truncates the multiplier; another formula changes the schedule)")
		// no uncapped result on a path that found the interval itself above (or at) the limit: a cap applied only
		// when a step crosses the limit (`current <= max && next > max`) leaves an interval that starts above it
		// (initial interval or server retry above MaxInterval) uncapped for ever
		if paths, okP := abstractPaths(gi, 1024, nil); okP {
			cur, max := ssa.Value(gi.Params[0]), ssa.Value(gi.Params[1])
			above := ""
			for _, p := range paths {
				if p.Ret == nil {
					continue
				}
				capped := false
				for _, sv := range sources(p.St.resolve(p.Ret.Results[0])) {
					if sv == max {
						capped = true
					}
				}
				if capped {
					continue
				}
				for e := range p.St.Edges {
					if len(e.From.Instrs) == 0 {
						continue
					}
					ifi, isIf := e.From.Instrs[len(e.From.Instrs)-1].(*ssa.If)
					if !isIf {
						continue
					}
					cnd := decodeIf(ifi)
					if cnd.Y == nil {
						continue
					}
					op := cnd.Op
					switch {
					case stripConvAll(cnd.X) == cur && stripConvAll(cnd.Y) == max:
					case stripConvAll(cnd.Y) == cur && stripConvAll(cnd.X) == max:
						op = flipOp(op)
					default:
						continue
					}
					// does this edge establish current > max or current >= max ?
					est := false
					switch op {
					case token.GTR, token.GEQ:
						est = e.Idx == cnd.succWhen(true)
					case token.LEQ, token.LSS:
						est = e.Idx == cnd.succWhen(false)
					}
					if est && pathEstablishes(p.St, factInt(func(v ssa.Value) bool { return v == max }, negInf, 1, posInf)) {
						above = P.ipos(p.Ret)
					}
				}
			}
			c.check(above == "", fnLabel(gi)+":cap-when-above", P.pos(gi.Pos()), "no uncapped result where the interval was found above the limit", "an uncapped interval is returned (at "+above+") on a path that found the current interval above MaxInterval (> 0): an interval that starts above the limit (initial interval or server retry) is never brought back to it")
		}
		// the decision to cap is about the GROWN interval: the comparison of the interval with the limit involves
		// the multiplier (current >= max/mul, or current*mul >= max); comparing the current interval itself lets
		// one step overshoot the limit
		{
			var derives func(v, p ssa.Value, seen map[ssa.Value]bool) bool
			derives = func(v, p ssa.Value, seen map[ssa.Value]bool) bool {
				if v == nil || seen[v] {
					return false
				}
				seen[v] = true
				if v == p {
					return true
				}
				switch y := v.(type) {
				case *ssa.BinOp:
					return derives(y.X, p, seen) || derives(y.Y, p, seen)
				case *ssa.Convert:
					return derives(y.X, p, seen)
				case *ssa.ChangeType:
					return derives(y.X, p, seen)
				case *ssa.Phi:
					for _, e := range y.Edges {
						if derives(e, p, seen) {
							return true
						}
					}
				}
				return false
			}
			d := func(v, p ssa.Value) bool { return derives(v, p, map[ssa.Value]bool{}) }
			cur, max, mul := ssa.Value(gi.Params[0]), ssa.Value(gi.Params[1]), ssa.Value(gi.Params[2])
			nCmp, withMul := 0, 0
			for _, ifi := range ifsIn(gi) {
				cnd := decodeIf(ifi)
				if cnd.Y == nil {
					continue
				}
				if (d(cnd.X, cur) && d(cnd.Y, max)) || (d(cnd.Y, cur) && d(cnd.X, max)) {
					nCmp++
					if d(cnd.X, mul) || d(cnd.Y, mul) {
						withMul++
					}
				}
			}
			// the comparison is made before the product is converted to an integer: a product beyond the int64
			// range converts to a negative duration, which is below every limit and escapes the cap for good
			convertedFirst := ""
			for _, ifi := range ifsIn(gi) {
				cnd := decodeIf(ifi)
				if cnd.Y == nil {
					continue
				}
				for _, side := range []ssa.Value{cnd.X, cnd.Y} {
					cv, ok := side.(*ssa.Convert)
					if !ok {
						continue
					}
					fb, isF := cv.X.Type().Underlying().(*types.Basic)
					ib, isI := cv.Type().Underlying().(*types.Basic)
					if isF && isI && fb.Info()&types.IsFloat != 0 && ib.Info()&types.IsInteger != 0 && d(cv.X, cur) && d(cv.X, mul) {
						other := cnd.Y
						if side == cnd.Y {
							other = cnd.X
						}
						if d(other, max) {
							convertedFirst = P.ipos(ifi)
						}
					}
				}
			}
			if nCmp > 0 {
				c.check(convertedFirst == "", fnLabel(gi)+":cap-before-conversion", P.pos(gi.Pos()), "the grown interval is compared with MaxInterval in floating point, before it is converted to a duration",
					"the product interval*Multiplier is converted to an integer duration and only then compared with MaxInterval (at "+convertedFirst+"): a product beyond the int64 range (a large server retry value, a large multiplier) converts to a negative duration, passes the test, and every later wait is negative — the cap never applies again")
			}
			if nCmp > 0 {
				c.check(withMul > 0, fnLabel(gi)+":cap-test-on-grown-interval", P.pos(gi.Pos()), "the comparison with MaxInterval involves the multiplier (it is about the grown interval)", "the interval is compared with MaxInterval without the multiplier: the cap applies only once the current interval has reached the limit, so one step overshoots it (b_(k+1) = b_k*Multiplier > MaxInterval)")
			}
		}
		c.check(capOK, fnLabel(gi)+":cap", P.pos(gi.Pos()), "growInterval returns MaxInterval only under MaxInterval > 0", "growInterval has no return of MaxInterval guarded by MaxInterval > 0: the interval is never capped")
	} else if P.Fn("growInterval") == nil {
		why, capSeen := inlineGrowth(nx)
		c.check(why == "", fnLabel(nx)+":MaxInterval=0", P.pos(nx.Pos()), "MaxInterval is stored only on paths that established MaxInterval > 0 (growInterval merged into next)", "with MaxInterval=0 the (zero) cap can be stored: the interval collapses instead of growing without bound ("+why+")")
		c.check(capSeen, fnLabel(nx)+":cap", P.pos(nx.Pos()), "a path stores MaxInterval under MaxInterval > 0", "no path stores MaxInterval under MaxInterval > 0: the interval is never capped")
	} else {
		c.anchor("growInterval(current, max, mul)")
	}
}

func isConstVal(v ssa.Value) bool { _, ok := v.(*ssa.Const); return ok }

func posOfRet(P *Program, r *ssa.Return, fn *ssa.Function) string {
	if r != nil {
		return P.ipos(r)
	}
	return P.pos(fn.Pos())
}

// ---------------------------------------------------------------------------
// merged form of next(): nextInterval and/or growInterval written out inside next()

func isJitterTest(v ssa.Value) (eq bool, ok bool) {
	b, isB := v.(*ssa.BinOp)
	if !isB || (b.Op != token.EQL && b.Op != token.NEQ) {
		return false, false
	}
	isJ := func(x ssa.Value) bool { _, ok := isFieldLoad(stripConvAll(x), "Backoff", "Jitter"); return ok }
	isM1 := func(x ssa.Value) bool {
		k, isK := x.(*ssa.Const)
		if !isK || k.Value == nil {
			return false
		}
		f, _ := constant.Float64Val(constant.ToFloat(k.Value))
		return f == -1
	}
	if (isJ(b.X) && isM1(b.Y)) || (isJ(b.Y) && isM1(b.X)) {
		return b.Op == token.EQL, true
	}
	return false, false
}

func assumeJitterOff(off bool) func(ssa.Value) (bool, bool) {
	return func(v ssa.Value) (bool, bool) {
		if eq, ok := isJitterTest(v); ok {
			return eq == off, true
		}
		// any other comparison of Jitter with a constant is decided when Jitter is -1
		b, isB := v.(*ssa.BinOp)
		if !isB || !off {
			return false, false
		}
		isJ := func(x ssa.Value) bool { _, ok := isFieldLoad(stripConvAll(x), "Backoff", "Jitter"); return ok }
		op, kv := b.Op, b.Y
		switch {
		case isJ(b.X):
		case isJ(b.Y):
			op, kv = flipOp(b.Op), b.X
		default:
			return false, false
		}
		k, isK := kv.(*ssa.Const)
		if !isK || k.Value == nil {
			return false, false
		}
		switch op {
		case token.LSS, token.LEQ, token.GTR, token.GEQ, token.EQL, token.NEQ:
			return constant.Compare(constant.MakeFloat64(-1), op, constant.ToFloat(k.Value)), true
		}
		return false, false
	}
}

// grantedPaths: the paths of next() that end in ret and grant the retry.
func grantedPaths(nx *ssa.Function, ret *ssa.Return, assume func(ssa.Value) (bool, bool)) ([]absPath, bool) {
	if len(ret.Results) != 2 {
		return nil, true
	}
	paths, ok := abstractPaths(nx, 8192, assume)
	if !ok {
		return nil, false
	}
	var out []absPath
	for _, p := range paths {
		if p.Ret != ret {
			continue
		}
		if b, isC := constBool(p.St.resolve(ret.Results[1])); isC && !b {
			continue
		}
		out = append(out, p)
	}
	return out, true
}

// operandClosure: the values v is computed from inside its function (through operators, conversions and
// the phis chosen on the path), stopping at loads and calls.
func operandClosure(v ssa.Value, st *pathState) []ssa.Value {
	var out []ssa.Value
	seen := map[ssa.Value]bool{}
	var walk func(x ssa.Value)
	walk = func(x ssa.Value) {
		x = st.resolve(x)
		if x == nil || seen[x] {
			return
		}
		seen[x] = true
		out = append(out, x)
		switch y := x.(type) {
		case *ssa.BinOp:
			walk(y.X)
			walk(y.Y)
		case *ssa.Convert:
			walk(y.X)
		case *ssa.ChangeType:
			walk(y.X)
		case *ssa.UnOp:
			if y.Op != token.MUL {
				walk(y.X)
			}
		case *ssa.Phi:
			for _, e := range y.Edges {
				walk(e)
			}
		}
	}
	walk(v)
	return out
}

func indexOfInstr(p absPath, in ssa.Instruction) int {
	for i, x := range p.Instrs {
		if x == in {
			return i
		}
	}
	return -1
}

// inlineWaitJitterOff: with Jitter == -1 the wait granted at ret is a plain load of the interval.
func inlineWaitJitterOff(nx *ssa.Function, ret *ssa.Return) string {
	paths, ok := grantedPaths(nx, ret, assumeJitterOff(true))
	if !ok {
		return "too many paths"
	}
	for _, p := range paths {
		w := stripConvAll(p.St.resolve(ret.Results[0]))
		if _, isL := isFieldLoad(w, "backoffController", "interval"); !isL {
			return "on a path with Jitter == -1 the wait is not the interval itself"
		}
	}
	return ""
}

// inlineWait: the wait granted at ret is computed from the interval and, unless Jitter == -1, from
// rng.Float64(); with preOnly it only decides that every interval load involved precedes the growing store.
func inlineWait(nx *ssa.Function, ret *ssa.Return, growStore *ssa.Store, preOnly bool) string {
	for _, off := range []bool{true, false} {
		paths, ok := grantedPaths(nx, ret, assumeJitterOff(off))
		if !ok {
			return "too many paths"
		}
		rndSeen := false
		for _, p := range paths {
			cl := operandClosure(ret.Results[0], p.St)
			hasIv, hasRnd := false, false
			for _, x := range cl {
				if _, isL := isFieldLoad(x, "backoffController", "interval"); isL {
					hasIv = true
					if growStore != nil {
						li, _ := x.(ssa.Instruction)
						a, b := indexOfInstr(p, li), -1
						for i, in := range p.Instrs {
							if st, isSt := in.(*ssa.Store); isSt && b < 0 {
								if _, isIv := isFieldSel(st.Addr, "backoffController", "interval"); isIv {
									b = i
								}
							}
						}
						if b >= 0 && (a < 0 || a > b) {
							return "an interval load the wait is computed from follows the growing store"
						}
					}
				}
				if _, isR := isStaticCall(x, "(*math/rand.Rand).Float64"); isR {
					hasRnd = true
				}
			}
			if preOnly {
				continue
			}
			if !hasIv {
				return "a granted wait is not computed from the current interval"
			}
			if !off && hasRnd {
				rndSeen = true
			}
			if off && hasRnd {
				return "with Jitter == -1 a granted wait is still randomised"
			}
		}
		if !off && !preOnly && len(paths) > 0 && !rndSeen {
			return "with Jitter != -1 no granted wait involves rng.Float64()"
		}
	}
	return ""
}

// inlineGrowth: on every granting path exactly one store to interval, of MaxInterval (only where
// MaxInterval > 0 was established) or of Duration(float64(interval) * Multiplier).
func inlineGrowth(nx *ssa.Function) (why string, capSeen bool) {
	mulSeen := false
	isMaxIv := func(v ssa.Value) bool { _, ok := isFieldLoad(v, "Backoff", "MaxInterval"); return ok }
	for _, ret := range returnsOf(nx) {
		paths, ok := grantedPaths(nx, ret, nil)
		if !ok {
			return "too many paths", false
		}
		for _, p := range paths {
			var sts []*ssa.Store
			for _, in := range p.Instrs {
				if st, isSt := in.(*ssa.Store); isSt {
					if _, isIv := isFieldSel(st.Addr, "backoffController", "interval"); isIv {
						sts = append(sts, st)
					}
				}
			}
			if len(sts) != 1 {
				return "a granting path does not store the next interval exactly once", capSeen
			}
			v := p.St.resolve(sts[0].Val)
			if isMaxIv(v) {
				if !pathEstablishes(p.St, factInt(isMaxIv, negInf, 1, posInf)) {
					return "MaxInterval is stored on a path that did not establish MaxInterval > 0", capSeen
				}
				capSeen = true
				continue
			}
			m, isM := stripConvAll(v).(*ssa.BinOp)
			if !isM || m.Op != token.MUL || !isFloat64(m.Type()) {
				return "the stored value is neither MaxInterval nor the floating-point product interval*Multiplier", capSeen
			}
			x, y := stripConvAll(p.St.resolve(m.X)), stripConvAll(p.St.resolve(m.Y))
			_, xi := isFieldLoad(x, "backoffController", "interval")
			_, yi := isFieldLoad(y, "backoffController", "interval")
			_, xm := isFieldLoad(x, "Backoff", "Multiplier")
			_, ym := isFieldLoad(y, "Backoff", "Multiplier")
			if !((xi && ym) || (yi && xm)) {
				return "the stored value is neither MaxInterval nor interval*Multiplier", capSeen
			}
			li, _ := x.(ssa.Instruction)
			if yi {
				li, _ = y.(ssa.Instruction)
			}
			if a, b := indexOfInstr(p, li), indexOfInstr(p, sts[0]); a < 0 || a > b {
				return "the grown interval is not computed from the interval loaded before the store", capSeen
			}
			mulSeen = true
		}
	}
	if !mulSeen {
		return "no path stores interval*Multiplier", capSeen
	}
	return "", capSeen
}

func isFloat64(t types.Type) bool {
	b, ok := t.Underlying().(*types.Basic)
	return ok && b.Kind() == types.Float64
}

// sccpSources is sources(v) restricted to what constant propagation found feasible: a phi contributes only
// the values arriving from reached predecessors whose branch, if decided, leads to the phi's block.
func sccpSources(res *sccpResult, v ssa.Value) []ssa.Value {
	var out []ssa.Value
	seen := map[ssa.Value]bool{}
	var walk func(x ssa.Value)
	walk = func(x ssa.Value) {
		if seen[x] {
			return
		}
		seen[x] = true
		phi, ok := x.(*ssa.Phi)
		if !ok {
			out = append(out, sources(x)...)
			return
		}
		for i, e := range phi.Edges {
			pr := phi.Block().Preds[i]
			if !res.Reached[pr] {
				continue
			}
			// a predecessor ending in a branch whose condition folded to a constant takes one edge only
			if len(pr.Instrs) > 0 {
				if ifi, isIf := pr.Instrs[len(pr.Instrs)-1].(*ssa.If); isIf {
					if l, ok := res.Vals[ifi.Cond]; ok && l.kind == 1 && l.val.Kind() == constant.Bool {
						taken := 1
						if constant.BoolVal(l.val) {
							taken = 0
						}
						if pr.Succs[taken] != phi.Block() {
							continue
						}
					}
				}
			}
			walk(e)
		}
	}
	walk(v)
	return out
}
