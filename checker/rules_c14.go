package main

import (
	"go/constant"
	"go/token"
	"go/types"

	"golang.org/x/tools/go/ssa"
)

func init() {
	prop(&PropertySpec{
		ID: "C14", Level: "proof",
		Rules: []string{"R14.1", "R14.2", "R14.4", "R02.5"},
		Explanation: "Inductive invariant I': every string ever stored in a messageField.value is single-line (no CR/LF). A messageField (and the EventID/EventType embedding it) comes into being only as the zero value, as a whole-value copy, or through field-level stores by non-test code of package sse (the fields are unexported); copies preserve I', so it suffices that EVERY field-level store stores a single-line value: " +
			"R14.1 each store into messageField.value is dominated by the true edge of isSingleLine on the stored value, or stores a parser-produced Field.Value, a CR/LF-free constant or another single-line value (provenance over SSA: phi, slices, slice-preserving helpers, parameter binding at all call sites); no address of the field escapes; " +
			"R02.5 every store into parser.Field.Value is a slice / trimFirstSpace of a value produced as result 0 of parser.NextChunk; R14.4 the predicates everything rests on have the required shape (isSingleLine = NewlineIndex(p).length==0; NewlineIndex advances only past bytes for which isNewlineChar is false and reports length 0 only when the scan reached the end; isNewlineChar is true for LF and CR; NextChunk result 0 = s[:index]); " +
			"R14.2 every decoder (UnmarshalText, UnmarshalJSON, Scan) zeroes the receiver first and performs no store into it on a path to an error return.",
		NotDecided: "reflection/unsafe by users; test files (not shipped API); the arithmetic inside NewlineIndex beyond the checked shape.",
		Technique:  "static proof: inductive invariant over all field-level write sites (SSA value provenance + dominance)",
	})
	register(&Rule{ID: "R14.1", Title: "every store into messageField.value stores a single-line value", Floor: 3, Run: r14_1})
	register(&Rule{ID: "R14.2", Title: "decoders zero the receiver first and do not store on a path to an error return", Floor: 3, Run: r14_2})
	register(&Rule{ID: "R14.4", Title: "shape of the single-line predicates (isSingleLine, NewlineIndex, isNewlineChar, NextChunk)", Floor: 6, Run: r14_4})
	register(&Rule{ID: "R02.5", Title: "every store into parser.Field.Value is single-line (slice of a NextChunk result)", Floor: 3, Run: r02_5})
}

func slSinkRule(c *Ctx, owner, field, breaks string) {
	P := c.P
	e := newSL(P)
	for _, st := range slSinks(P, owner, field) {
		fn := st.Parent()
		name := fnLabel(fn) + ":store(" + owner + "." + field + ")"
		ok, why := e.SL(st.Val, st)
		if ok {
			if imm, whyI := e.Immutable(st.Val); !imm {
				c.bad(name, P.ipos(st), "the value stored into "+owner+"."+field+" passes the single-line check but is not an immutable string ("+whyI+"): its bytes can be overwritten later, so the stored value can come to contain CR/LF; "+breaks)
				continue
			}
			c.ok(name, P.ipos(st), why)
		} else {
			c.bad(name, P.ipos(st), "a value that is not provably single-line is stored into "+owner+"."+field+" ("+why+"): "+breaks)
		}
	}
	for _, a := range slAddrEscapes(P, owner, field) {
		c.bad(fnLabel(a.Fn)+":addr-escape("+owner+"."+field+")", P.ipos(a.Use), "the address of "+owner+"."+field+" escapes to "+a.Use.String()+": it can be written without the single-line check")
	}
}

func r14_1(c *Ctx) {
	slSinkRule(c, "messageField", "value", "a set EventID/EventType may then contain CR/LF and inject fields or events into the wire format")
}

func r02_5(c *Ctx) {
	slSinkRule(c, "parser.Field", "Value", "decoded field values (and everything copied from them) may then span lines")
}

func r14_2(c *Ctx) {
	P := c.P
	for _, nm := range []string{"(*messageField).UnmarshalText", "(*messageField).UnmarshalJSON", "(*messageField).Scan"} {
		fn := P.Fn(nm)
		if fn == nil {
			c.anchor(nm)
			continue
		}
		recv := fn.Params[0]
		name := fnLabel(fn)
		// Stores into the receiver are "unsetting" (the zero value, or result 0 of the guarded constructor,
		// which is the zero value whenever the constructor reports an error — checked below as its contract)
		// or "setting" (anything else, field-level stores included). An input that is rejected must leave the
		// value unset: every path to a return that may carry an error passes an unsetting store, and no
		// setting store lies between the last unsetting store and that return.
		// The test is made per field of the receiver's struct: a field-wise reset (`i.value, i.set = "", false`)
		// is the same reset as `*i = messageField{}`.
		type rstore struct {
			st    *ssa.Store
			field int // -1: the whole value; -2: something deeper (counts for every field)
			zero  bool
		}
		var stores []rstore
		eachInstrDeep(fn, func(in ssa.Instruction) {
			st, ok := in.(*ssa.Store)
			if !ok || rootAddr(st.Addr) != ssa.Value(recv) {
				return
			}
			switch a := st.Addr.(type) {
			case *ssa.FieldAddr:
				if a.X == ssa.Value(recv) {
					stores = append(stores, rstore{st, a.Field, isZeroConst(st.Val)})
					return
				}
			}
			if st.Addr == ssa.Value(recv) {
				stores = append(stores, rstore{st, -1, isZeroConst(st.Val) || isCtorResult0(P, st.Val)})
				return
			}
			stores = append(stores, rstore{st, -2, false})
		})
		nfields := 1
		if pt, ok := recv.Type().Underlying().(*types.Pointer); ok {
			if stt, ok := pt.Elem().Underlying().(*types.Struct); ok && stt.NumFields() > 0 {
				nfields = stt.NumFields()
			}
		}
		anyUnset := false
		for _, r := range stores {
			if r.zero {
				anyUnset = true
			}
		}
		if !anyUnset {
			c.bad(name+":zero-first", P.pos(fn.Pos()), "the decoder never resets the receiver to the unset value: an invalid input leaves the previous value in place")
			continue
		}
		zeroOK, storeOK := true, true
		zeroBad, storeBad := map[ssa.Instruction]bool{}, map[ssa.Instruction]bool{}
		var firstUnset ssa.Instruction
		for k := 0; k < nfields; k++ {
			var unsetting, setting []*ssa.Store
			for _, r := range stores {
				if r.field != -1 && r.field != -2 && r.field != k {
					continue
				}
				if r.zero {
					unsetting = append(unsetting, r.st)
				} else {
					setting = append(setting, r.st)
				}
			}
			if len(unsetting) > 0 && firstUnset == nil {
				firstUnset = unsetting[0]
			}
			isUnsetting := func(in ssa.Instruction) bool {
				for _, u := range unsetting {
					if in == ssa.Instruction(u) {
						return true
					}
				}
				return false
			}
			for _, ret := range returnsOf(fn) {
				isErr := false
				for _, s := range sources(ret.Results[0]) {
					if !isNilConst(s) {
						isErr = true
					}
				}
				if !isErr {
					continue
				}
				if reachesAvoiding(entryPoint(fn), ret, isUnsetting, nil) {
					zeroOK = false
					if !zeroBad[ret] {
						zeroBad[ret] = true
						c.bad(name+":zero-first", P.ipos(ret), "an error return is reachable without the receiver having been reset to the unset value: an invalid input leaves the previous value in place")
					}
				}
				for _, st := range setting {
					if reachesAvoiding(afterInstr(st), ret, isUnsetting, nil) {
						storeOK = false
						if !storeBad[st] {
							storeBad[st] = true
							c.bad(name+":store-before-error", P.ipos(st), "the receiver is written on a path that ends in an error return ("+P.ipos(ret)+"): an invalid input does not leave the value unset")
						}
					}
				}
			}
		}
		if zeroOK {
			c.ok(name+":zero-first", P.ipos(firstUnset), "every error return is preceded by a reset of the receiver (zero value, field by field or as a whole, or the constructor's result)")
		}
		if storeOK {
			c.ok(name+":store-before-error", P.pos(fn.Pos()), "no setting store into the receiver lies on a path to an error return")
		}
	}
	// the constructor's contract the above relies on: a non-nil error comes with the zero value
	if ctor := P.Fn("newMessageField"); ctor != nil {
		good := true
		for _, ret := range returnsOf(ctor) {
			if len(ret.Results) != 2 {
				good = false
				continue
			}
			errNil := true
			for _, s := range sources(ret.Results[1]) {
				if !isNilConst(s) {
					errNil = false
				}
			}
			if !errNil {
				for _, s := range sources(ret.Results[0]) {
					if !isZeroConst(s) {
						good = false
					}
				}
			}
		}
		c.check(good, "newMessageField:error-means-unset", P.pos(ctor.Pos()), "the constructor returns the zero value together with every error", "newMessageField can return a non-zero value together with an error: callers that store its result unconditionally keep an invalid value")
	}
	// an invalid input is reported: in every error-returning function that calls the guarded constructor,
	// every return reachable from the constructor's failure edge carries a non-nil error
	ctor := P.Fn("newMessageField")
	if ctor == nil {
		c.anchor("newMessageField")
		return
	}
	for _, site := range P.staticCallSites(ctor) {
		call, ok := site.(*ssa.Call)
		if !ok {
			continue
		}
		fn := call.Parent()
		res := fn.Signature.Results()
		if res.Len() == 0 || res.At(res.Len()-1).Type().String() != "error" {
			continue
		}
		isErr := func(v ssa.Value) bool {
			e, ok := v.(*ssa.Extract)
			return ok && e.Tuple == ssa.Value(call) && e.Index == 1
		}
		name := fnLabel(fn) + ":invalid-reported"
		found, silent := false, false
		for _, ifi := range ifsIn(fn) {
			s, ok := nilEdge(ifi, isErr)
			if !ok {
				continue
			}
			found = true
			forward([]startPoint{atEdge(ifi.Block(), 1-s)}, func(in ssa.Instruction) searchAction {
				if r, ok := in.(*ssa.Return); ok && len(r.Results) == res.Len() {
					for _, src := range sources(r.Results[res.Len()-1]) {
						if isNilConst(src) {
							silent = true
						}
					}
				}
				return cont
			})
		}
		if !found {
			// untested, but returned as is: every return after the call carries the constructor's error
			passes := true
			n := 0
			forward([]startPoint{afterInstr(call)}, func(in ssa.Instruction) searchAction {
				if r, ok := in.(*ssa.Return); ok && len(r.Results) == res.Len() {
					n++
					for _, src := range sources(r.Results[res.Len()-1]) {
						if !isErr(src) {
							passes = false
						}
					}
				}
				return cont
			})
			if passes && n > 0 {
				c.ok(name, P.ipos(call), "the constructor's error is returned as is")
				continue
			}
			c.bad(name, P.ipos(call), "the validation result of newMessageField is never tested: an input containing a line break is not reported")
			continue
		}
		c.check(!silent, name, P.ipos(call), "a value rejected by the single-line check is reported with a non-nil error", "a value rejected by the single-line check can be answered with a nil error: the caller cannot tell a corrupt value from an absent one")
	}
}

// evalInt folds an integer SSA expression made of constants and + - *.
func evalInt(v ssa.Value) (int64, bool) {
	if k, ok := constInt(v); ok {
		return k, true
	}
	if b, ok := v.(*ssa.BinOp); ok {
		x, ok1 := evalInt(b.X)
		y, ok2 := evalInt(b.Y)
		if ok1 && ok2 {
			switch b.Op {
			case token.ADD:
				return x + y, true
			case token.SUB:
				return x - y, true
			case token.MUL:
				return x * y, true
			}
		}
	}
	return 0, false
}

func r14_4(c *Ctx) {
	P := c.P
	// isNewlineChar(10) and (13) are true
	inc := P.Fn("parser.isNewlineChar")
	if inc == nil || len(inc.Params) != 1 {
		c.anchor("parser.isNewlineChar")
	} else {
		for _, k := range []int64{10, 13} {
			res := sccp(inc, map[ssa.Value]constant.Value{inc.Params[0]: constant.MakeInt64(k)}, nil, nil)
			good := len(res.Exit) > 0
			for ret := range res.Exit {
				v := ret.Results[0]
				l := res.Vals[v]
				if cst, ok := v.(*ssa.Const); ok && cst.Value != nil {
					l = latConst(cst.Value)
				}
				if !(l.kind == 1 && l.val.Kind() == constant.Bool && constant.BoolVal(l.val)) {
					good = false
				}
			}
			c.check(good, "parser.isNewlineChar("+itoa(int(k))+")", P.pos(inc.Pos()), "true for this line-break byte", "isNewlineChar is not true for byte "+itoa(int(k))+": values containing it count as single-line")
		}
	}
	// NewlineIndex
	ni := P.Fn("parser.NewlineIndex")
	if ni == nil {
		c.anchor("parser.NewlineIndex")
	} else {
		checkNewlineIndex(c, ni, inc)
	}
	// NextChunk: result 0 = s[:index]
	nc := P.Fn("parser.NextChunk")
	if nc == nil {
		c.anchor("parser.NextChunk")
	} else {
		good := false
		for _, ret := range returnsOf(nc) {
			if len(ret.Results) < 1 {
				continue
			}
			if sl, ok := ret.Results[0].(*ssa.Slice); ok && sl.X == ssa.Value(nc.Params[0]) && sl.Low == nil && sl.High != nil {
				if call, ok := extractOf(sl.High, 0, func(call *ssa.Call) bool { _, ok := isModCall(call, "parser.NewlineIndex"); return ok }); ok && call.Call.Args[0] == ssa.Value(nc.Params[0]) {
					good = true
				}
			}
		}
		c.check(good, "parser.NextChunk:result0", P.pos(nc.Pos()), "result 0 is s[:NewlineIndex(s).index]", "NextChunk's first result is not the prefix of s before the first line break")
		// result 1 = s[index+length:], result 2 = length != 0
		good2 := false
		for _, ret := range returnsOf(nc) {
			if len(ret.Results) != 3 {
				continue
			}
			sl, ok := ret.Results[1].(*ssa.Slice)
			if !ok || sl.X != ssa.Value(nc.Params[0]) || sl.High != nil || sl.Low == nil {
				continue
			}
			add, ok := sl.Low.(*ssa.BinOp)
			if !ok || add.Op != token.ADD {
				continue
			}
			isIdx := func(v ssa.Value, i int) bool {
				_, ok := extractOf(v, i, func(call *ssa.Call) bool { _, ok := isModCall(call, "parser.NewlineIndex"); return ok })
				return ok
			}
			if !((isIdx(add.X, 0) && isIdx(add.Y, 1)) || (isIdx(add.X, 1) && isIdx(add.Y, 0))) {
				continue
			}
			if b, ok := ret.Results[2].(*ssa.BinOp); ok && isIdx(b.X, 1) {
				if k, ok := constInt(b.Y); ok {
					// true exactly for length >= 1 (length is never negative)
					if (b.Op == token.NEQ && k == 0) || (b.Op == token.GTR && k == 0) || (b.Op == token.GEQ && k == 1) {
						good2 = true
					}
				}
			}
		}
		c.check(good2, "parser.NextChunk:rest", P.pos(nc.Pos()), "remaining = s[index+length:], hasNewline = length != 0", "NextChunk's remaining/hasNewline results do not have the expected shape (the line break would not be consumed exactly once)")
	}
	// isSingleLine
	isl := P.Fn("isSingleLine")
	if isl == nil {
		// the predicate was merged into its caller: its definition (NewlineIndex(v).length == 0) is then
		// recognised directly where it guards a store (R14.1)
		c.ok("isSingleLine", "-", "no isSingleLine helper: the length test is checked where it guards a store (R14.1)")
	} else {
		good := false
		for _, ret := range returnsOf(isl) {
			b, ok := ret.Results[0].(*ssa.BinOp)
			if !ok {
				continue
			}
			x, y, op := b.X, b.Y, b.Op
			if _, xc := x.(*ssa.Const); xc {
				x, y, op = y, x, flipOp(op)
			}
			call, ok := extractOf(x, 1, func(call *ssa.Call) bool { _, ok := isModCall(call, "parser.NewlineIndex"); return ok })
			if !ok || call.Call.Args[0] != ssa.Value(isl.Params[0]) {
				continue
			}
			// length == 0, length < 1, length <= 0 (the length is never negative)
			if k, ok := constInt(y); ok && ((op == token.EQL && k == 0) || (op == token.LSS && k == 1) || (op == token.LEQ && k == 0)) {
				good = true
			}
		}
		good = good && len(returnsOf(isl)) == 1
		if !good {
			// any other spelling (`if length != 0 { return false }; return true`): decided by evaluating the
			// function for each value the length can take (0: no line break, 1: LF or CR, 2: CRLF)
			var lens []ssa.Value
			calls := 0
			eachInstr(isl, func(in ssa.Instruction) {
				if call, ok := in.(*ssa.Call); ok {
					if _, isNI := isModCall(call, "parser.NewlineIndex"); isNI {
						calls++
						if len(call.Call.Args) == 1 && call.Call.Args[0] == ssa.Value(isl.Params[0]) {
							for _, ref := range *call.Referrers() {
								if e, ok := ref.(*ssa.Extract); ok && e.Index == 1 {
									lens = append(lens, e)
								}
							}
						}
					}
				}
			})
			if calls == 1 && len(lens) > 0 {
				good = true
				for k := int64(0); k <= 2 && good; k++ {
					seed := map[ssa.Value]constant.Value{}
					for _, l := range lens {
						seed[l] = constant.MakeInt64(k)
					}
					res := sccp(isl, seed, nil, nil)
					if len(res.Exit) == 0 {
						good = false
					}
					for ret := range res.Exit {
						var l lat
						if cv, ok := ret.Results[0].(*ssa.Const); ok && cv.Value != nil {
							l = latConst(cv.Value)
						} else {
							l = res.Vals[ret.Results[0]]
						}
						if l.kind != 1 || l.val.Kind() != constant.Bool || constant.BoolVal(l.val) != (k == 0) {
							good = false
						}
					}
				}
			}
		}
		c.check(good, "isSingleLine", P.pos(isl.Pos()), "isSingleLine(p) = NewlineIndex(p).length == 0", "isSingleLine is not NewlineIndex(p).length == 0")
	}
}

func checkNewlineIndex(c *Ctx, ni, inc *ssa.Function) {
	P := c.P
	name := "parser.NewlineIndex"
	rets := returnsOf(ni)
	if newlineIndexLib(c, ni, "shape") {
		return
	}
	if newlineIndexLoop(c, ni, "shape") {
		return
	}
	if len(rets) != 1 || len(rets[0].Results) != 2 || len(ni.Params) != 1 {
		c.undecided(name+":shape", P.pos(ni.Pos()), "NewlineIndex does not have a single (index, length) return")
		return
	}
	s := ni.Params[0]
	idx, ok := rets[0].Results[0].(*ssa.Phi)
	if !ok {
		c.undecided(name+":index", P.pos(ni.Pos()), "returned index is not the loop variable")
		return
	}
	// index starts at 0 and advances by exactly 1
	startOK, stepOK := false, true
	var stepBlocks []*ssa.BasicBlock
	for i, e := range idx.Edges {
		if k, ok := constInt(e); ok && k == 0 && idx.Block().Preds[i] == ni.Blocks[0] {
			startOK = true
			continue
		}
		b, ok := e.(*ssa.BinOp)
		if !ok || b.Op != token.ADD || b.X != ssa.Value(idx) {
			stepOK = false
			continue
		}
		if k, ok := constInt(b.Y); !ok || k != 1 {
			stepOK = false
		}
		stepBlocks = append(stepBlocks, b.Block())
	}
	c.check(startOK && stepOK && len(stepBlocks) > 0, name+":scan-order", P.pos(ni.Pos()), "the scan starts at 0 and advances by one byte", "the scan does not start at 0 / advance by exactly one byte")
	// the advance happens only on the false edge of isNewlineChar(s[index])
	var test *ssa.Call
	eachInstrDeep(ni, func(in ssa.Instruction) {
		call, ok := in.(*ssa.Call)
		if !ok || call.Call.StaticCallee() != inc || inc == nil {
			return
		}
		switch lk := call.Call.Args[0].(type) {
		case *ssa.Index:
			if lk.X == ssa.Value(s) && lk.Index == ssa.Value(idx) {
				test = call
			}
		case *ssa.Lookup:
			if lk.X == ssa.Value(s) && lk.Index == ssa.Value(idx) {
				test = call
			}
		}
	})
	if test == nil {
		c.bad(name+":advance-guard", P.pos(ni.Pos()), "NewlineIndex does not test isNewlineChar(s[index]) on the byte it is about to skip")
		return
	}
	adv := true
	for _, sb := range stepBlocks {
		if !guardedByBool(ni, sb, func(v ssa.Value) bool { return v == ssa.Value(test) }, false) {
			adv = false
		}
	}
	c.check(adv, name+":advance-guard", P.ipos(test), "the index advances only past bytes for which isNewlineChar is false", "the index can advance past a byte without isNewlineChar having been false for it: s[:index] may contain a line break")
	// length: zero only when the loop condition failed; nonzero on the isNewlineChar edge
	ln, ok := rets[0].Results[1].(*ssa.Phi)
	if !ok {
		c.undecided(name+":length", P.pos(ni.Pos()), "returned length is not a phi of the exit paths")
		return
	}
	// loop-condition If: index < len(s)
	var condExit *cfgEdge
	for _, ifi := range ifsIn(ni) {
		cnd := decodeIf(ifi)
		if cnd.Y == nil || cnd.Op != token.LSS || cnd.X != ssa.Value(idx) {
			continue
		}
		if call, ok := cnd.Y.(*ssa.Call); ok {
			if b, ok := call.Call.Value.(*ssa.Builtin); ok && b.Name() == "len" && call.Call.Args[0] == ssa.Value(s) {
				condExit = &cfgEdge{ifi.Block(), cnd.succWhen(false)}
			}
		}
	}
	lenOK := condExit != nil
	for i, e := range ln.Edges {
		pred := ln.Block().Preds[i]
		k, isK := evalInt(e)
		if !isK {
			lenOK = false
			continue
		}
		if k == 0 {
			// must come from the loop-condition exit
			if condExit == nil || pred != condExit.From {
				lenOK = false
			}
		} else {
			if !(pred == test.Block() || guardedByBool(ni, pred, func(v ssa.Value) bool { return v == ssa.Value(test) }, true)) {
				lenOK = false
			}
		}
	}
	c.check(lenOK, name+":length", P.pos(ni.Pos()), "length is 0 only when the scan reached the end of s, and >= 1 when a line-break byte was found",
		"length can be 0 although a line-break byte was found (or nonzero without one): isSingleLine / NextChunk misjudge the value")
}

// newlineIndexLib recognises and checks the library form of NewlineIndex:
//
//	i := strings.IndexAny(s, K)            // K's characters are exactly CR and LF
//	i < 0   ⇒ return len(s), 0
//	i >= 0  ⇒ return i, 2  exactly when s[i] == CR and the byte after it is LF, else i, 1
//
// part "shape" checks the first two lines and "length >= 1 with index i" (R14.4), part "crlf" the
// CR LF clause (R01.11). It returns false if the function is not of this form (the caller then
// tries the loop form). strings.IndexAny's contract (first index of any of the characters, -1 if none)
// is part of the trusted base.
func newlineIndexLib(c *Ctx, ni *ssa.Function, part string) bool {
	P := c.P
	name := "parser.NewlineIndex"
	if len(ni.Params) != 1 || len(loopsOf(ni)) > 0 {
		return false
	}
	s := ni.Params[0]
	var find *ssa.Call
	eachInstrDeep(ni, func(in ssa.Instruction) {
		if call, ok := isStaticCall(in, "strings.IndexAny"); ok && call.Call.Args[0] == ssa.Value(s) {
			find = call
		}
	})
	if find == nil {
		return false
	}
	isI := func(v ssa.Value) bool { return v == ssa.Value(find) }
	set, isK := constString(find.Call.Args[1])
	chars := map[rune]bool{}
	for _, r := range set {
		chars[r] = true
	}
	setOK := isK && len(chars) == 2 && chars[13] && chars[10]
	paths, okP := abstractPaths(ni, 1024, func(ssa.Value) (bool, bool) { return false, false })
	if !okP || len(paths) == 0 {
		c.undecided(name+":shape", P.pos(ni.Pos()), "too many paths")
		return true
	}
	pathHas := func(p absPath, pred func(ifi *ssa.If, e int) bool) bool {
		for e := range p.St.Edges {
			if len(e.From.Instrs) == 0 {
				continue
			}
			if ifi, ok := e.From.Instrs[len(e.From.Instrs)-1].(*ssa.If); ok && pred(ifi, e.Idx) {
				return true
			}
		}
		return false
	}
	charAt := func(v ssa.Value, off int64) bool {
		var x, ix ssa.Value
		switch q := v.(type) {
		case *ssa.Index:
			x, ix = q.X, q.Index
		case *ssa.Lookup:
			x, ix = q.X, q.Index
		default:
			return false
		}
		if x != ssa.Value(s) {
			return false
		}
		if off == 0 {
			return isI(ix)
		}
		b, ok := ix.(*ssa.BinOp)
		if !ok || b.Op != token.ADD || !isI(b.X) {
			return false
		}
		k, isK := constInt(b.Y)
		return isK && k == off
	}
	// edge facts
	notFound := func(ifi *ssa.If, e int) bool {
		ee, ok := intEdge(ifi, isI, -1, -1, -1)
		return ok && ee == e
	}
	foundE := func(ifi *ssa.If, e int) bool {
		ee, ok := intEdge(ifi, isI, -1, 0, posInf)
		return ok && ee == e
	}
	byteIs := func(off int64, k int64, want bool) func(ifi *ssa.If, e int) bool {
		return func(ifi *ssa.If, e int) bool {
			cnd := decodeIf(ifi)
			if cnd.Y == nil || (cnd.Op != token.EQL && cnd.Op != token.NEQ) {
				return false
			}
			kk, isK := constInt(cnd.Y)
			if !isK || kk != k || !charAt(cnd.X, off) {
				return false
			}
			return e == cnd.succWhen((cnd.Op == token.EQL) == want)
		}
	}
	// "the byte after i is LF": s[i+1] == LF, or HasPrefix(s[i+1:], "\n")
	lfNext := func(want bool) func(ifi *ssa.If, e int) bool {
		direct := byteIs(1, 10, want)
		return func(ifi *ssa.If, e int) bool {
			if direct(ifi, e) {
				return true
			}
			succ, ok := boolEdge(ifi, func(v ssa.Value) bool {
				call, ok := isStaticCall(v, "strings.HasPrefix")
				if !ok {
					return false
				}
				pre, isK := constString(call.Call.Args[1])
				sl, isSl := call.Call.Args[0].(*ssa.Slice)
				if !isK || pre != "\n" || !isSl || sl.X != ssa.Value(s) || sl.High != nil {
					return false
				}
				b, ok := sl.Low.(*ssa.BinOp)
				if !ok || b.Op != token.ADD || !isI(b.X) {
					return false
				}
				k, isK := constInt(b.Y)
				return isK && k == 1
			})
			if !ok {
				return false
			}
			if want {
				return e == succ
			}
			return e == 1-succ
		}
	}
	shapeOK, crlfOK := setOK, true
	whyShape, whyCRLF := "", ""
	if !setOK {
		whyShape = "the searched character set is not exactly {CR, LF}"
	}
	sawTwo := false
	for _, p := range paths {
		if len(p.Ret.Results) != 2 {
			return false
		}
		ri, rl := p.St.resolve(p.Ret.Results[0]), p.St.resolve(p.Ret.Results[1])
		k, isK := evalInt(rl)
		switch {
		case pathHas(p, notFound):
			if !(isLenOf(ri, s) && isK && k == 0) {
				shapeOK = false
				whyShape = "without a line break the result is not (len(s), 0)"
			}
		case pathHas(p, foundE):
			if !(isI(ri) && isK && k >= 1) {
				shapeOK = false
				whyShape = "with a line break at i the result is not (i, length >= 1)"
			}
			if isK && k == 2 {
				sawTwo = true
				if !(pathHas(p, byteIs(0, 13, true)) && pathHas(p, lfNext(true))) {
					crlfOK = false
					whyCRLF = "length 2 is reported without s[i] == CR and s[i+1] == LF having been established"
				}
			} else if isK && k == 1 {
				if !(pathHas(p, byteIs(0, 13, false)) || pathHas(p, lfNext(false))) {
					crlfOK = false
					whyCRLF = "length 1 is reported on a path that did not rule out CR LF"
				}
			} else {
				crlfOK = false
				whyCRLF = "a length other than 1 or 2"
			}
		default:
			shapeOK = false
			whyShape = "a return is reached without testing the search result against -1"
		}
	}
	if !sawTwo {
		crlfOK = false
		whyCRLF = "CR LF is never reported as one terminator of length 2"
	}
	if part == "shape" {
		c.check(shapeOK, name+":scan-order", P.ipos(find), "index = strings.IndexAny(s, CR LF): the first line-break byte", "NewlineIndex (library form) is wrong: "+whyShape)
		c.check(shapeOK, name+":advance-guard", P.ipos(find), "s[:index] holds no line-break byte (IndexAny returns the first)", "NewlineIndex (library form) is wrong: "+whyShape)
		c.check(shapeOK, name+":length", P.ipos(find), "length is 0 exactly when no line-break byte exists", "NewlineIndex (library form) is wrong: "+whyShape)
	} else {
		c.check(crlfOK, name+":crlf", P.ipos(find), "length 2 exactly for CR immediately followed by LF", "NewlineIndex (library form): "+whyCRLF+": CR LF is counted as two line ends (a spurious empty line / premature dispatch) or a lone CR swallows the next byte")
	}
	return true
}

// isCtorResult0: v is result 0 of a call to the guarded constructor newMessageField.
func isCtorResult0(P *Program, v ssa.Value) bool {
	e, ok := v.(*ssa.Extract)
	if !ok || e.Index != 0 {
		return false
	}
	call, ok := e.Tuple.(*ssa.Call)
	if !ok {
		return false
	}
	ctor := P.Fn("newMessageField")
	return ctor != nil && call.Call.StaticCallee() == ctor
}

// newlineIndexLoop checks the loop forms of NewlineIndex path-wise, whatever their control structure
// (break + single return with named results, early returns from a switch, …):
//
//	for i := 0; i < len(s); i++   — the index starts at 0 and advances by one
//	continue ⇒ s[i] is neither CR nor LF
//	return (i, k≥1) ⇒ s[i] is CR or LF;  k == 2 ⇒ s[i] == CR ∧ i+1 < len(s) ∧ s[i+1] == LF;  k == 1 ⇒ not that
//	return (len(s) | i with !(i < len(s)), 0) ⇒ the loop condition failed
//
// It returns false if the function has no such loop (the caller tries the other forms).
func newlineIndexLoop(c *Ctx, ni *ssa.Function, part string) bool {
	P := c.P
	name := "parser.NewlineIndex"
	if len(ni.Params) != 1 {
		return false
	}
	s := ni.Params[0]
	loops := loopsOf(ni)
	if len(loops) != 1 {
		return false
	}
	L := loops[0]
	// the loop index: a phi at the head with a constant-0 entry edge and +1 back edges
	var idx *ssa.Phi
	for _, in := range L.Head.Instrs {
		phi, ok := in.(*ssa.Phi)
		if !ok {
			break
		}
		startOK, stepOK, steps := false, true, 0
		for i, e := range phi.Edges {
			pred := L.Head.Preds[i]
			if !L.Blocks[pred] {
				if k, ok := constInt(e); ok && k == 0 {
					startOK = true
				}
				continue
			}
			b, ok := e.(*ssa.BinOp)
			if !ok || b.Op != token.ADD || b.X != ssa.Value(phi) {
				stepOK = false
				continue
			}
			if k, ok := constInt(b.Y); !ok || k != 1 {
				stepOK = false
			}
			steps++
		}
		if startOK && stepOK && steps > 0 {
			idx = phi
		}
	}
	if idx == nil {
		return false
	}
	isI := func(v ssa.Value) bool { return v == ssa.Value(idx) }
	byteAt := func(v ssa.Value, off int64) bool {
		var x, ix ssa.Value
		switch q := v.(type) {
		case *ssa.Index:
			x, ix = q.X, q.Index
		case *ssa.Lookup:
			x, ix = q.X, q.Index
		default:
			return false
		}
		if x != ssa.Value(s) {
			return false
		}
		if off == 0 {
			return isI(ix)
		}
		b, ok := ix.(*ssa.BinOp)
		if !ok || b.Op != token.ADD || !isI(b.X) {
			return false
		}
		k, isK := constInt(b.Y)
		return isK && k == off
	}
	stopEdge := func(e cfgEdge) bool { return e.From.Succs[e.Idx] == L.Head && L.Blocks[e.From] }
	// start after the head's phis
	start := 0
	for start < len(L.Head.Instrs) {
		if _, isPhi := L.Head.Instrs[start].(*ssa.Phi); !isPhi {
			break
		}
		start++
	}
	paths, okP := walkPaths(L.Head, start, 4096, nil, nil, stopEdge)
	if !okP || len(paths) == 0 {
		c.undecided(name+":shape", P.pos(ni.Pos()), "too many paths through one iteration of the scan loop")
		return true
	}
	type facts struct {
		isLF, isCR, notLF, notCR, nlcT, nlcF, inB, outB, nextLF, nextNotLF, condT, condF bool
	}
	gather := func(p absPath) facts {
		var f facts
		for e := range p.St.Edges {
			if len(e.From.Instrs) == 0 {
				continue
			}
			ifi, isIf := e.From.Instrs[len(e.From.Instrs)-1].(*ssa.If)
			if !isIf {
				continue
			}
			cnd := decodeIf(ifi)
			if cnd.Y == nil {
				if sT, ok := boolEdge(ifi, func(v ssa.Value) bool {
					call, ok := isModCall(v, "parser.isNewlineChar")
					return ok && byteAt(call.Call.Args[0], 0)
				}); ok {
					if e.Idx == sT {
						f.nlcT = true
					} else {
						f.nlcF = true
					}
				}
				continue
			}
			holds := func(op token.Token) bool { return e.Idx == cnd.succWhen(true) == (cnd.Op == op) }
			_ = holds
			if k, isK := constInt(cnd.Y); isK && (cnd.Op == token.EQL || cnd.Op == token.NEQ) {
				eq := (e.Idx == cnd.succWhen(true)) == (cnd.Op == token.EQL)
				switch {
				case byteAt(cnd.X, 0) && k == 10:
					if eq {
						f.isLF = true
					} else {
						f.notLF = true
					}
				case byteAt(cnd.X, 0) && k == 13:
					if eq {
						f.isCR = true
					} else {
						f.notCR = true
					}
				case byteAt(cnd.X, 1) && k == 10:
					if eq {
						f.nextLF = true
					} else {
						f.nextNotLF = true
					}
				}
			}
			// bounds: i < len(s) (loop condition), i+1 < len(s), i < len(s)-1
			lenS := func(v ssa.Value) bool { return isLenOf(v, s) }
			lenS1 := func(v ssa.Value) bool {
				b, ok := v.(*ssa.BinOp)
				if !ok || b.Op != token.SUB || !isLenOf(b.X, s) {
					return false
				}
				k, isK := constInt(b.Y)
				return isK && k == 1
			}
			i1 := func(v ssa.Value) bool {
				b, ok := v.(*ssa.BinOp)
				if !ok || b.Op != token.ADD || !isI(b.X) {
					return false
				}
				k, isK := constInt(b.Y)
				return isK && k == 1
			}
			x, y, op := cnd.X, cnd.Y, cnd.Op
			if lenS(x) || lenS1(x) {
				x, y, op = y, x, flipOp(op)
			}
			taken := e.Idx == cnd.succWhen(true)
			less := func() (bool, bool) { // (established x < y, established x >= y)
				switch op {
				case token.LSS:
					return taken, !taken
				case token.GEQ:
					return !taken, taken
				}
				return false, false
			}
			if isI(x) && lenS(y) {
				lt, ge := less()
				f.condT = f.condT || lt
				f.condF = f.condF || ge
			}
			if (i1(x) && lenS(y)) || (isI(x) && lenS1(y)) {
				lt, ge := less()
				f.inB = f.inB || lt
				f.outB = f.outB || ge
			}
		}
		// a byte that is LF is not CR and vice versa
		if f.isLF {
			f.notCR = true
		}
		if f.isCR {
			f.notLF = true
		}
		return f
	}
	advOK, lenOK, crlfOK := true, true, true
	whyAdv, whyLen, whyCRLF := "", "", ""
	nCont, nFound, nNone, sawTwo := 0, 0, 0, false
	for _, p := range paths {
		f := gather(p)
		if p.EndEdge != nil {
			nCont++
			if !((f.notLF && f.notCR) || f.nlcF) {
				advOK = false
				whyAdv = "the index can advance past a byte without it having been found to be neither CR nor LF"
			}
			continue
		}
		if p.Ret == nil || len(p.Ret.Results) != 2 {
			lenOK = false
			whyLen = "an unexpected exit from the scan loop"
			continue
		}
		ri, rl := p.St.resolve(p.Ret.Results[0]), p.St.resolve(p.Ret.Results[1])
		k, isK := evalInt(rl)
		if !isK {
			lenOK = false
			whyLen = "a returned length that is not a constant on its path"
			continue
		}
		found := f.isLF || f.isCR || f.nlcT
		switch {
		case k == 0:
			nNone++
			if !(f.condF && !found && (isI(ri) || isLenOf(ri, s))) {
				lenOK = false
				whyLen = "length 0 is returned on a path where the scan did not reach the end of s (or the index is not the end)"
			}
		case k >= 1:
			nFound++
			if !(found && isI(ri)) {
				lenOK = false
				whyLen = "a nonzero length is returned without a line-break byte having been found at the returned index"
			}
			isCRLF := f.isCR && f.inB && f.nextLF
			switch k {
			case 2:
				sawTwo = true
				if !isCRLF {
					crlfOK = false
					whyCRLF = "length 2 is reported without s[i] == CR, i+1 < len(s) and s[i+1] == LF having been established"
				}
			case 1:
				if !(f.notCR || f.outB || f.nextNotLF) {
					crlfOK = false
					whyCRLF = "length 1 is reported on a path that did not rule out CR LF"
				}
			default:
				crlfOK = false
				whyCRLF = "a length other than 1 or 2"
			}
		}
	}
	if nCont == 0 || nFound == 0 || nNone == 0 {
		lenOK = false
		whyLen = "the scan loop lacks a continue, a found or an exhausted path"
	}
	if !sawTwo {
		crlfOK = false
		whyCRLF = "CR LF is never reported as one terminator of length 2"
	}
	if part == "shape" {
		c.ok(name+":scan-order", P.pos(ni.Pos()), "the scan starts at 0 and advances by one byte")
		c.check(advOK, name+":advance-guard", P.pos(ni.Pos()), "the index advances only past bytes that are neither CR nor LF", whyAdv+": s[:index] may contain a line break")
		c.check(lenOK, name+":length", P.pos(ni.Pos()), "length is 0 only when the scan reached the end of s, and >= 1 exactly when a line-break byte was found at the returned index ("+itoa(len(paths))+" paths)",
			whyLen+": isSingleLine / NextChunk misjudge the value")
	} else {
		c.check(crlfOK, name+":crlf", P.pos(ni.Pos()), "length is 2 exactly for CR followed by LF inside the string, 1 for every other line break", "NewlineIndex does not report length 2 exactly for CR immediately followed by LF (within bounds): "+whyCRLF+": CRLF counts as two line breaks (a spurious blank line ends the event early) or a lone CR swallows the next byte")
	}
	return true
}
