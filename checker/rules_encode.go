package main

import (
	"go/token"
	"go/types"

	"golang.org/x/tools/go/ssa"
)

func init() {
	prop(&PropertySpec{
		ID: "C02", Level: "other",
		Rules: []string{"R02.1", "R02.2", "R02.4", "R02.5", "R14.1", "R14.4", "R01.1", "R19.2"},
		Explanation: "R02.1 every payload byte written comes from a single-line value or a protocol constant: every store into chunk.content is single-line (result 0 of parser.NextChunk, a parser-produced Field.Value, ...), and in the WriteTo family every argument of Write/writeString is a never-reassigned package-level constant, a single-line field, or a locally generated decimal buffer; the unsafe string->bytes view in writeString is only passed to Write; " +
			"R02.2 each line writer performs exactly prefix, payload, newline in that order on its success path, Message.WriteTo writes every chunk by one call inside the range over its chunks and the terminating blank line only when something was written; R01.1 prefixes are name+\": \"; R02.4 retry is written as decimal milliseconds only when >= 1ms from a buffer of >= 13 digits, and both decoders multiply by time.Millisecond; " +
			"R14.1/R14.4/R02.5 IDs and types are single-line and the single-line predicates have the required shape; R19.2 a Clone shares no appendable storage with its original, so lines appended to one message cannot turn up in another.",
		NotDecided: "that decoding the bytes yields exactly the LF-join of the appended lines (value equality); behaviour of a foreign spec-conforming parser; BOM/NUL inside data.",
	})
	prop(&PropertySpec{
		ID: "C15", Level: "other",
		Rules: []string{"R15.1", "R15.2", "R15.3", "R15.4", "R02.2", "R02.4", "R01.1"},
		Explanation: "R15.1 in every function of the WriteTo family the returned count includes the count of every write that precedes the return (through +, conversions and phis, each count once); a constant 0 is returned only before any write or under accumulated-sum == 0; R15.2 after each write the next write happens only on its err == nil edge and the err != nil edge returns that very error; " +
			"R15.3 MarshalText and String write only through Message.WriteTo into their own buffer and return that buffer; R15.4 UnmarshalText resets the receiver first; R02.2/R02.4/R01.1 line shape, units and field tables agree between WriteTo and UnmarshalText.",
		NotDecided: "UnmarshalText(MarshalText(m)) equality as such (value-level); that a failing writer accepted exactly the bytes it reported.",
	})
	register(&Rule{ID: "R02.1", Title: "every written payload is single-line or a protocol constant", Floor: 10, Run: r02_1})
	register(&Rule{ID: "R02.2", Title: "line shape: prefix, payload, newline; terminating blank line only when something was written", Floor: 5, Run: r02_2})
	register(&Rule{ID: "R02.4", Title: "retry units (ms) and digit buffer", Floor: 4, Run: r02_4})
	register(&Rule{ID: "R15.1", Title: "byte-count accumulation on every return of the WriteTo family", Floor: 15, Run: r15_1})
	register(&Rule{ID: "R15.2", Title: "stop at the first write error and return it", Floor: 8, Run: r15_2})
	register(&Rule{ID: "R15.3", Title: "MarshalText/String delegate to WriteTo", Floor: 2, Run: r15_3})
	register(&Rule{ID: "R15.4", Title: "UnmarshalText resets the receiver first", Floor: 1, Run: r15_4})
}

// writeFamily: functions of sse with an io.Writer parameter returning (int|int64, error).
func writeFamily(P *Program) []*ssa.Function {
	var out []*ssa.Function
	isMember := map[*ssa.Function]bool{}
	for _, fn := range P.Funcs {
		if !inSSEPackage(fn) || fn.Synthetic != "" {
			continue
		}
		if fn.Parent() != nil {
			// an immediately-invoked literal inside a family function (an inlined helper) that returns
			// (count, error) is a member of the family in its own right: it is analysed like the others and
			// its call is a family call of its parent
			if iifeSiteCached(fn) == nil || !isMember[fn.Parent()] {
				continue
			}
			res := fn.Signature.Results()
			if res.Len() == 2 && res.At(1).Type().String() == "error" && (res.At(0).Type().String() == "int" || res.At(0).Type().String() == "int64") {
				out = append(out, fn)
				isMember[fn] = true
			}
			continue
		}
		res := fn.Signature.Results()
		if res.Len() != 2 || res.At(1).Type().String() != "error" {
			continue
		}
		if t := res.At(0).Type().String(); t != "int" && t != "int64" {
			continue
		}
		hasW := false
		for _, p := range fn.Params {
			if p.Type().String() == "io.Writer" {
				hasW = true
			}
		}
		if hasW {
			out = append(out, fn)
			isMember[fn] = true
		}
	}
	return out
}

// writeCall describes one writing call inside a family function.
type writeCall struct {
	call  ssa.CallInstruction
	count ssa.Value // Extract #0
	err   ssa.Value // Extract #1
	kind  string    // "Write", "writeString", "family"
}

func writeCallsOf(P *Program, fn *ssa.Function, family map[*ssa.Function]bool) []writeCall {
	var out []writeCall
	eachInstr(fn, func(in ssa.Instruction) {
		call, ok := in.(*ssa.Call)
		if !ok {
			return
		}
		kind := ""
		if call.Call.IsInvoke() && call.Call.Method.Name() == "Write" && call.Call.Value.Type().String() == "io.Writer" {
			kind = "Write"
		} else if callee := call.Call.StaticCallee(); callee != nil && family[callee] {
			kind = "family"
			if callee.Name() == "writeString" {
				kind = "writeString"
			}
		}
		if kind == "" {
			return
		}
		wc := writeCall{call: call, kind: kind}
		for _, r := range *call.Referrers() {
			if e, ok := r.(*ssa.Extract); ok {
				if e.Index == 0 {
					wc.count = e
				} else if e.Index == 1 {
					wc.err = e
				}
			}
		}
		out = append(out, wc)
	})
	return out
}

func familySet(P *Program) map[*ssa.Function]bool {
	m := map[*ssa.Function]bool{}
	for _, f := range writeFamily(P) {
		m[f] = true
	}
	return m
}

func r02_1(c *Ctx) {
	P := c.P
	slSinkRule(c, "chunk", "content", "a CR/LF inside a data/comment line ends the field early and injects whatever follows")
	e := newSL(P)
	fam := familySet(P)
	isConstGlobal := func(v ssa.Value) (string, bool) {
		a, ok := loadedFrom(v)
		if !ok {
			return "", false
		}
		g, ok := a.(*ssa.Global)
		if !ok {
			return "", false
		}
		s, ok := globalBytesInit(P, g)
		return g.Name() + "=" + quote(s), ok
	}
	var classify func(v ssa.Value, at ssa.Instruction, depth int) (string, bool)
	classify = func(v ssa.Value, at ssa.Instruction, depth int) (string, bool) {
		if s, ok := isConstGlobal(v); ok {
			return "protocol constant " + s, true
		}
		if phi, ok := v.(*ssa.Phi); ok {
			for _, ed := range phi.Edges {
				if _, ok := classify(ed, at, depth); !ok {
					return "phi operand " + describe(ed), false
				}
			}
			return "phi of protocol constants", true
		}
		if v.Type().String() == "string" {
			ok, why := e.SL(v, at)
			return why, ok
		}
		// decimal buffer: slice of a local byte array whose stores are '0' + byte(x % 10)
		if sl, ok := v.(*ssa.Slice); ok {
			if al, ok := sl.X.(*ssa.Alloc); ok {
				if arr, ok := deref(al.Type()).Underlying().(*types.Array); ok && arr.Elem().String() == "byte" {
					good := true
					for _, r := range *al.Referrers() {
						ia, ok := r.(*ssa.IndexAddr)
						if !ok {
							if _, isSl := r.(*ssa.Slice); isSl {
								continue
							}
							if _, isDbg := r.(*ssa.DebugRef); isDbg {
								continue
							}
							good = false
							continue
						}
						for _, rr := range *ia.Referrers() {
							st, ok := rr.(*ssa.Store)
							if !ok || !isDigitExpr(st.Val) {
								good = false
							}
						}
					}
					if good {
						return "locally generated decimal digits", true
					}
				}
			}
		}
		// digits generated by strconv (base 10)
		if call, ok := v.(*ssa.Call); ok {
			switch calleeName(call) {
			case "strconv.AppendInt", "strconv.AppendUint":
				if base, isK := constInt(call.Call.Args[2]); isK && base == 10 {
					return "decimal digits generated by strconv", true
				}
			}
		}
		// unsafe string view of a single-line string (writeString)
		if call, ok := v.(*ssa.Call); ok {
			if b, ok := call.Call.Value.(*ssa.Builtin); ok && b.Name() == "Slice" && len(call.Call.Args) == 2 {
				if sd, ok := call.Call.Args[0].(*ssa.Call); ok {
					if b2, ok := sd.Call.Value.(*ssa.Builtin); ok && b2.Name() == "StringData" {
						s := sd.Call.Args[0]
						if !isLenOf(call.Call.Args[1], s) {
							return "unsafe.Slice length is not len(s)", false
						}
						// the view must only be passed to Write
						for _, r := range *call.Referrers() {
							if c2, ok := r.(*ssa.Call); !ok || !c2.Call.IsInvoke() || c2.Call.Method.Name() != "Write" {
								return "the unsafe bytes view escapes to something other than Write", false
							}
						}
						ok2, why := e.SL(s, at)
						return "read-only unsafe view of: " + why, ok2
					}
				}
			}
		}
		// []byte parameter: every call site passes a protocol constant
		if p, ok := v.(*ssa.Parameter); ok && depth < 2 {
			fn := p.Parent()
			idx := -1
			for i, q := range fn.Params {
				if q == p {
					idx = i
				}
			}
			sites := P.staticCallSites(fn)
			if idx < 0 || len(sites) == 0 || fnAddressTaken(P, fn) {
				return "parameter without resolvable call sites", false
			}
			for _, s := range sites {
				if why, ok := classify(s.Common().Args[idx], s, depth+1); !ok {
					return "argument at " + P.ipos(s) + ": " + why, false
				}
			}
			return "every call site passes a protocol constant", true
		}
		return describe(v), false
	}
	for _, fn := range writeFamily(P) {
		for _, wc := range writeCallsOf(P, fn, fam) {
			if wc.kind == "family" {
				continue
			}
			arg := wc.call.Common().Args[0]
			if wc.kind == "writeString" {
				arg = wc.call.Common().Args[1]
			}
			name := fnLabel(fn) + ":" + wc.kind + "-arg"
			why, ok := classify(arg, wc.call, 0)
			if ok {
				c.ok(name, P.ipos(wc.call), why)
			} else {
				c.bad(name, P.ipos(wc.call), "a value that is neither a protocol constant, a provably single-line string nor generated digits is written to the wire ("+why+"): a CR/LF in it ends the field early and injects fields or events")
			}
		}
	}
}

// isDigitExpr: '0' + byte(x % 10) (either operand order).
func isDigitExpr(v ssa.Value) bool {
	// '0' + byte(x % 10), or the sum formed in the wider type and narrowed afterwards: byte('0' + x%10)
	b, ok := stripConvAll(v).(*ssa.BinOp)
	if !ok || b.Op != token.ADD {
		return false
	}
	isZero := func(x ssa.Value) bool { k, ok := constInt(x); return ok && k == '0' }
	isMod := func(x ssa.Value) bool {
		m, ok := stripConvAll(x).(*ssa.BinOp)
		if !ok || m.Op != token.REM {
			return false
		}
		k, ok := constInt(m.Y)
		return ok && k == 10
	}
	return (isZero(b.X) && isMod(b.Y)) || (isZero(b.Y) && isMod(b.X))
}

func r02_2(c *Ctx) {
	P := c.P
	fam := familySet(P)
	isNewline := func(v ssa.Value) bool {
		a, ok := loadedFrom(v)
		if !ok {
			return false
		}
		g, ok := a.(*ssa.Global)
		if !ok {
			return false
		}
		s, ok := globalBytesInit(P, g)
		return ok && s == "\n"
	}
	for _, nm := range []string{"(*chunk).WriteTo", "(*Message).writeMessageField", "(*Message).writeRetry"} {
		fn := P.Fn(nm)
		if fn == nil {
			c.anchor(nm)
			continue
		}
		wcs := writeCallsOf(P, fn, fam)
		name := fnLabel(fn) + ":line-shape"
		// Path-wise: on every path the writes performed are a prefix of (prefix, payload, LF); a path that
		// stops early has either written nothing yet (a guard) or passes the failure edge of its last write;
		// some path performs all three. (Several call sites per role are fine: one per branch.)
		byCall := map[ssa.Instruction]*writeCall{}
		for i := range wcs {
			byCall[wcs[i].call] = &wcs[i]
		}
		paths, okP := abstractPaths(fn, 4096, func(ssa.Value) (bool, bool) { return false, false })
		if !okP || len(paths) == 0 {
			c.undecided(name, P.pos(fn.Pos()), "too many paths through the line writer")
			continue
		}
		full := false
		why := ""
		for _, p := range paths {
			var seq []*writeCall
			for _, in := range p.Instrs {
				if wc := byCall[in]; wc != nil {
					seq = append(seq, wc)
				}
			}
			if len(seq) > 3 {
				why = "a path performs " + itoa(len(seq)) + " writes"
				break
			}
			for i, wc := range seq {
				var arg ssa.Value
				if args := wc.call.Common().Args; len(args) > 0 {
					arg = p.St.resolve(args[0])
				}
				switch i {
				case 0:
					if !(wc.kind == "Write" && !isNewline(arg)) {
						why = "the first write of a path is not the field prefix"
					}
				case 1:
					if !(wc.kind == "writeString" || (wc.kind == "Write" && !isNewline(arg))) {
						why = "the second write of a path is not the payload"
					}
				case 2:
					if !(wc.kind == "Write" && isNewline(arg)) {
						why = "the third write of a path is not the single LF"
					}
				}
			}
			if why != "" {
				break
			}
			if len(seq) == 0 && p.Ret != nil && nm == "(*Message).writeMessageField" {
				// a field that is set is written, whatever its value: nothing is written only where the field
				// was found unset
				unset := pathEstablishes(p.St, factBool(func(v ssa.Value) bool {
					_, ok := isModCall(v, "(messageField).IsSet")
					return ok
				}, false))
				if !unset {
					// the flag read directly
					unset = pathEstablishes(p.St, factBool(func(v ssa.Value) bool {
						_, ok := isFieldLoad(v, "messageField", "set")
						if !ok {
							if f, isF := v.(*ssa.Field); isF {
								_, ok = isFieldSel(f, "messageField", "set")
							}
						}
						return ok
					}, false))
				}
				if !unset {
					why = "a path writes nothing although the field was not found unset (a set ID or type with a particular value is skipped)"
					break
				}
			}
			if len(seq) == 3 {
				full = true
			} else if len(seq) > 0 {
				last := seq[len(seq)-1]
				failed := last.err != nil && pathEstablishes(p.St, factNil(func(v ssa.Value) bool { return v == ssa.Value(last.err) }, false))
				if !failed {
					why = "a path stops after " + itoa(len(seq)) + " write(s) although the last one did not fail"
					break
				}
			}
		}
		if why == "" && !full {
			why = "no path writes prefix, payload and LF"
		}
		c.check(why == "", name, P.pos(fn.Pos()), "on every path: prefix, payload, single LF, in this order (shorter only after a failed write); "+itoa(len(paths))+" paths",
			"the line writer does not write exactly prefix, payload and a single LF in this order ("+why+"): two values on one line, or a missing/extra line break, merge or split fields and events")
	}
	// the per-field wrappers hand their field to the line writer on every path (no value is special-cased)
	for _, nm := range []string{"(*Message).writeID", "(*Message).writeType"} {
		wf := P.Fn(nm)
		if wf == nil {
			continue // merged into the caller: the line writer's own obligations apply there
		}
		var fwd ssa.Instruction
		eachInstrDeep(wf, func(in ssa.Instruction) {
			if _, ok := isModCall(in, "(*Message).writeMessageField"); ok {
				if li, ok := liftInstr(in, wf); ok {
					fwd = li
				}
			}
		})
		if fwd == nil {
			continue
		}
		skipped := false
		for _, ret := range returnsOf(wf) {
			if reachesAvoiding(entryPoint(wf), ret, func(in ssa.Instruction) bool { return in == fwd }, nil) {
				skipped = true
			}
		}
		c.check(!skipped, fnLabel(wf)+":always-forwards", P.pos(wf.Pos()), "the wrapper hands its field to the line writer on every path", "the wrapper returns without writing its field on some path (a particular value, e.g. the type \"message\", is skipped): the decoded message differs from the encoded one")
	}
	// Message.WriteTo
	fn := P.Fn("(*Message).WriteTo")
	if fn == nil {
		c.anchor("(*Message).WriteTo")
		return
	}
	wcs := writeCallsOf(P, fn, fam)
	for _, rf := range regionFuncs(fn) {
		if rf != fn {
			wcs = append(wcs, writeCallsOf(P, rf, fam)...)
		}
	}
	var final *writeCall
	nChunk := 0
	for i := range wcs {
		wc := &wcs[i]
		switch wc.kind {
		case "Write":
			if isNewline(wc.call.Common().Args[0]) && final == nil {
				final = wc
			} else {
				c.bad(fnLabel(fn)+":extra-write", P.ipos(wc.call), "Message.WriteTo writes something besides its fields, chunks and the terminating blank line")
			}
		case "family":
			callee := wc.call.Common().StaticCallee()
			if callee.Name() == "WriteTo" && callee.Signature.Recv() != nil && typeIs(callee.Signature.Recv().Type(), "sse", "chunk") {
				nChunk++
				// receiver &e.chunks[i], i the range index; loop depth 1
				recvOK := false
				if ia, ok := wc.call.Common().Args[0].(*ssa.IndexAddr); ok {
					if b, ok := isFieldLoad(ia.X, "Message", "chunks"); ok && (b == ssa.Value(fn.Params[0]) || carriesOnly(b, fn.Params[0])) {
						if _, isPhiOrAdd := ia.Index.(*ssa.BinOp); isPhiOrAdd || isPhi(ia.Index) {
							recvOK = true
						}
					}
				}
				c.check(recvOK && len(loopsContaining(wc.call.Parent(), wc.call.Block())) == 1, fnLabel(fn)+":chunks", P.ipos(wc.call), "every chunk is written by one call inside the range over e.chunks", "chunks are not written once each, in order, by one call inside a single range over e.chunks")
			}
		}
	}
	if nChunk != 1 {
		c.bad(fnLabel(fn)+":chunks", P.pos(fn.Pos()), "expected exactly one chunk.WriteTo call site, found "+itoa(nChunk))
	}
	if final == nil {
		c.bad(fnLabel(fn)+":terminator", P.pos(fn.Pos()), "Message.WriteTo does not write the blank line that terminates the event: it merges with the next message")
		return
	}
	// guarded by n != 0 and last
	g := false
	for _, ifi := range ifsIn(fn) {
		op, k, succ, ok := cmpConstEdge(ifi, func(v ssa.Value) bool { return v.Type().String() == "int64" || v.Type().String() == "int" })
		if !ok || k != 0 {
			continue
		}
		var e int
		switch op {
		case token.EQL:
			e = 1 - succ
		case token.NEQ, token.GTR:
			e = succ
		default:
			continue
		}
		if edgeDominates(ifi.Block(), e, final.call.Block()) {
			g = true
		}
	}
	last := true
	for _, wc := range wcs {
		if wc.call != final.call && reachesAvoiding(afterInstr(final.call), wc.call, nil, nil) {
			last = false
		}
	}
	c.check(g && last && len(loopsContaining(fn, final.call.Block())) == 0, fnLabel(fn)+":terminator", P.ipos(final.call), "exactly one terminating LF, written last and only when something was written",
		"the terminating blank line is not (written once, last, only when n != 0): a message with nothing to write produces bytes, or neighbouring events merge")
}

func isPhi(v ssa.Value) bool { _, ok := v.(*ssa.Phi); return ok }

func r02_4(c *Ctx) {
	P := c.P
	fn := P.Fn("(*Message).writeRetry")
	if fn == nil {
		c.anchor("(*Message).writeRetry")
		return
	}
	name := fnLabel(fn)
	var ms *ssa.Call
	eachInstrDeep(fn, func(in ssa.Instruction) {
		if call, ok := isStaticCall(in, "(time.Duration).Milliseconds"); ok {
			if b, ok := isFieldLoad(call.Call.Args[0], "Message", "Retry"); ok && b == ssa.Value(fn.Params[0]) {
				ms = call
			}
		}
	})
	if ms == nil {
		c.bad(name+":units", P.pos(fn.Pos()), "the retry value written is not e.Retry.Milliseconds()")
		return
	}
	c.ok(name+":units", P.ipos(ms), "digits derive from e.Retry.Milliseconds()")
	fam := familySet(P)
	wcs := writeCallsOf(P, fn, fam)
	// every write is dominated by millis > 0
	gAll := len(wcs) > 0
	for _, wc := range wcs {
		g := intGuard(fn, wc.call.Block(), func(v ssa.Value) bool { return v == ssa.Value(ms) }, negInf, 1, posInf)
		if !g {
			gAll = false
		}
	}
	// ... and it is written whenever the value is >= 1 ms: a return that wrote nothing is reached only
	// where millis <= 0 was established
	if paths, okP := abstractPaths(fn, 4096, nil); okP {
		isMs := func(v ssa.Value) bool { return v == ssa.Value(ms) }
		isWrite := map[ssa.Instruction]bool{}
		for _, wc := range wcs {
			isWrite[wc.call] = true
		}
		skipped := ""
		for _, p := range paths {
			if p.Ret == nil {
				continue
			}
			wrote := false
			for _, in := range p.Instrs {
				if isWrite[in] {
					wrote = true
				}
			}
			if !wrote && !pathEstablishes(p.St, factInt(isMs, negInf, negInf, 0)) {
				skipped = P.ipos(p.Ret)
			}
		}
		c.check(skipped == "", name+":written-when-positive", P.ipos(ms), "the retry line is skipped only when the value is below 1 ms", "a positive retry value can be skipped (return without a write at "+skipped+" on a path that did not establish millis <= 0): the retry field is lost on the wire")
	}
	c.check(gAll, name+":positive-only", P.ipos(ms), "the retry line is written only when the value is >= 1 ms", "a zero or negative retry value can be written (\"retry: \" with no digits, or garbage)")
	// digit buffer
	var arr *ssa.Alloc
	eachInstrDeep(fn, func(in ssa.Instruction) {
		if al, ok := in.(*ssa.Alloc); ok {
			if a, ok := deref(al.Type()).Underlying().(*types.Array); ok && a.Elem().String() == "byte" {
				arr = al
			}
		}
	})
	// library formatting of the millisecond value (base 10) is accepted instead of the manual loop
	libDigits := false
	eachInstrDeep(fn, func(in ssa.Instruction) {
		call, ok := in.(*ssa.Call)
		if !ok {
			return
		}
		switch calleeName(call) {
		case "strconv.AppendInt", "strconv.AppendUint":
			if base, isK := constInt(call.Call.Args[2]); isK && base == 10 && stripConvAll(call.Call.Args[1]) == ssa.Value(ms) {
				libDigits = true
			}
		case "strconv.FormatInt", "strconv.FormatUint":
			if base, isK := constInt(call.Call.Args[1]); isK && base == 10 && stripConvAll(call.Call.Args[0]) == ssa.Value(ms) {
				libDigits = true
			}
		}
	})
	if libDigits {
		c.ok(name+":digits", P.pos(fn.Pos()), "all decimal digits of the value are generated by strconv (base 10)")
		if arr != nil {
			a := deref(arr.Type()).Underlying().(*types.Array)
			c.check(a.Len() >= 13, name+":digit-buffer", P.ipos(arr), "digit buffer holds >= 13 digits", "the digit buffer is smaller than the largest millisecond value needs (append would still reallocate, but the constant is wrong)")
		}
	} else if arr != nil {
		a := deref(arr.Type()).Underlying().(*types.Array)
		c.check(a.Len() >= 13, name+":digit-buffer", P.ipos(arr), "digit buffer holds >= 13 digits (MaxInt64/1e6)", "the digit buffer is too small for the largest millisecond value: index out of range panic for large Retry")
		// the digit source is the millis phi seeded with ms and divided by 10 until 0
		digitsOK := false
		eachInstrDeep(fn, func(in ssa.Instruction) {
			phi, ok := in.(*ssa.Phi)
			if !ok || len(phi.Edges) != 2 {
				return
			}
			hasSeed, hasDiv := false, false
			for _, e := range phi.Edges {
				if e == ssa.Value(ms) {
					hasSeed = true
				}
				if b, ok := e.(*ssa.BinOp); ok && b.Op == token.QUO && b.X == ssa.Value(phi) {
					if k, ok := constInt(b.Y); ok && k == 10 {
						hasDiv = true
					}
				}
			}
			if hasSeed && hasDiv {
				// loop exit on phi == 0 / != 0
				for _, ifi := range ifsIn(fn) {
					if op, k, _, ok := cmpConstEdge(ifi, func(v ssa.Value) bool { return v == ssa.Value(phi) }); ok && k == 0 && (op == token.NEQ || op == token.EQL || op == token.GTR) {
						digitsOK = true
					}
				}
			}
		})
		c.check(digitsOK, name+":digits", P.ipos(arr), "all decimal digits of the value are generated (divide by 10 until 0)", "the digit loop does not consume the whole value")
	} else {
		// library formatting
		c.ok(name+":digits", P.pos(fn.Pos()), "no manual digit buffer")
	}
	// decoders multiply by time.Millisecond
	um := P.Fn("(*Message).UnmarshalText")
	if um == nil {
		c.anchor("(*Message).UnmarshalText")
		return
	}
	good := false
	eachInstrDeep(um, func(in ssa.Instruction) {
		st, ok := in.(*ssa.Store)
		if !ok {
			return
		}
		if _, ok := isFieldSel(st.Addr, "Message", "Retry"); !ok {
			return
		}
		// every origin of the stored value is parsed*time.Millisecond (or the 0 an extracted
		// parse step returns beside its error)
		okAll, some := true, false
		for _, src := range sources(st.Val) {
			if isZeroConst(src) {
				continue
			}
			b, ok := src.(*ssa.BinOp)
			if !ok || b.Op != token.MUL {
				okAll = false
				continue
			}
			x, y := b.X, b.Y
			if k, isK := constInt(x); isK && k == 1000000 {
				x, y = y, x
			}
			k, isK := constInt(y)
			if !isK || k != 1000000 {
				okAll = false
				continue
			}
			// the other operand is the parsed integer
			parsed := false
			if e, ok := stripConvAll(x).(*ssa.Extract); ok && e.Index == 0 {
				if call, ok := e.Tuple.(*ssa.Call); ok {
					switch calleeName(call) {
					case "strconv.ParseInt", "strconv.ParseUint":
						parsed = true
						// the encoder writes up to MaxInt64/1e6 milliseconds (13 digits, < 2^44)
						bits, isK := constInt(call.Call.Args[2])
						wide := isK && (bits >= 44 || (bits == 0 && P.intIs64()))
						c.check(wide, fnLabel(um)+":retry-width", P.ipos(call), "the parsed width covers every retry value the encoder can write", "the retry value is parsed into fewer bits than the encoder can produce (13 decimal digits need 44 bits): large Retry values encode but fail to decode")
					case "strconv.Atoi":
						parsed = true
						c.check(P.intIs64(), fnLabel(um)+":retry-width", P.ipos(call), "int is 64 bits wide on this target", "Atoi parses into int, which is 32 bits on this target: large Retry values encode but fail to decode")
					}
				}
			}
			if parsed {
				some = true
			} else {
				okAll = false
			}
		}
		if okAll && some && inFieldCase(um, "retry", st.Block()) {
			good = true
		}
	})
	c.check(good, fnLabel(um)+":retry-units", P.pos(um.Pos()), "UnmarshalText stores parsed*time.Millisecond", "UnmarshalText does not store the parsed retry value as milliseconds: the round trip changes Retry")
}

func calleeName2(in ssa.Instruction) string {
	if c, ok := in.(ssa.CallInstruction); ok {
		return calleeName(c)
	}
	return ""
}

// countAtoms expands a count expression into the set of Extract/other leaves
// it sums (through +, conversions and phis); dup reports a leaf that occurs
// twice in one phi-free sum.
func countAtoms(v ssa.Value) (atoms map[ssa.Value]bool, dup bool) {
	atoms = map[ssa.Value]bool{}
	seenPhi := map[*ssa.Phi]bool{}
	var walk func(v ssa.Value, local map[ssa.Value]int)
	walk = func(v ssa.Value, local map[ssa.Value]int) {
		switch x := v.(type) {
		case *ssa.BinOp:
			if x.Op == token.ADD {
				walk(x.X, local)
				walk(x.Y, local)
				return
			}
		case *ssa.Convert:
			walk(x.X, local)
			return
		case *ssa.ChangeType:
			walk(x.X, local)
			return
		case *ssa.Phi:
			if seenPhi[x] {
				return
			}
			seenPhi[x] = true
			for _, e := range x.Edges {
				walk(e, map[ssa.Value]int{})
			}
			return
		}
		atoms[v] = true
		local[v]++
		if local[v] > 1 {
			if _, isC := v.(*ssa.Const); !isC {
				dup = true
			}
		}
	}
	walk(v, map[ssa.Value]int{})
	return
}

func r15_1(c *Ctx) {
	P := c.P
	fam := familySet(P)
	for _, fn := range writeFamily(P) {
		wcs := writeCallsOf(P, fn, fam)
		for i, ret := range returnsOf(fn) {
			name := fnLabel(fn) + ":return#" + itoa(i)
			atoms, dup := countAtoms(ret.Results[0])
			if dup {
				c.bad(name, P.ipos(ret), "a byte count is added twice into the returned total")
				continue
			}
			var must []writeCall
			for _, wc := range wcs {
				if instrDominates(wc.call, ret) {
					must = append(must, wc)
				}
			}
			isZero := false
			if k, ok := constInt(ret.Results[0]); ok && k == 0 {
				isZero = true
			}
			if isZero {
				if len(must) == 0 {
					c.ok(name, P.ipos(ret), "returns 0 before any write")
					continue
				}
				// allowed only under sum == 0 where sum covers every preceding count
				g := false
				for _, ifi := range ifsIn(fn) {
					cnd := decodeIf(ifi)
					if cnd.Y == nil || (cnd.Op != token.EQL && cnd.Op != token.NEQ) {
						continue
					}
					k, isK := constInt(cnd.Y)
					if !isK || k != 0 || !edgeDominates(ifi.Block(), cnd.succWhen(cnd.Op == token.EQL), ret.Block()) {
						continue
					}
					sum, _ := countAtoms(cnd.X)
					all := true
					for _, wc := range must {
						if wc.count == nil || !sum[wc.count] {
							all = false
						}
					}
					if all {
						g = true
					}
				}
				c.check(g, name, P.ipos(ret), "returns 0 only when the accumulated count is 0", "returns 0 after writes whose counts are not known to be 0: the returned n differs from the bytes the writer accepted")
				continue
			}
			missing := ""
			for _, wc := range must {
				if wc.count == nil || !atoms[wc.count] {
					missing += " " + P.ipos(wc.call)
				}
			}
			// any other atom must itself be a count of a write call in this function (no foreign summands)
			foreign := ""
			for a := range atoms {
				if k, ok := constInt(a); ok && k == 0 {
					continue
				}
				isCount := false
				for _, wc := range wcs {
					if wc.count == a {
						isCount = true
					}
				}
				if !isCount {
					foreign += " " + describe(a)
				}
			}
			c.check(missing == "" && foreign == "", name, P.ipos(ret), "the returned count sums the counts of all preceding writes",
				"the returned count omits the bytes of the write(s) at"+missing+map[bool]string{true: " and adds foreign terms" + foreign, false: ""}[foreign != ""]+": WriteTo reports fewer/more bytes than the writer accepted")
		}
	}
}

func r15_2(c *Ctx) {
	P := c.P
	fam := familySet(P)
	for _, fn := range writeFamily(P) {
		wcs := writeCallsOf(P, fn, fam)
		for i, wc := range wcs {
			name := fnLabel(fn) + ":write#" + itoa(i)
			if wc.err == nil {
				c.bad(name, P.ipos(wc.call), "the error of a write is discarded: a failing writer is not reported and writing continues")
				continue
			}
			isErr := func(v ssa.Value) bool { return v == wc.err }
			var nilE *cfgEdge
			for _, ifi := range ifsIn(fn) {
				if s, ok := nilEdge(ifi, isErr); ok {
					nilE = &cfgEdge{ifi.Block(), s}
				}
			}
			if nilE == nil {
				// acceptable only if it is the last write and its error is returned directly
				last := true
				for _, o := range wcs {
					if o.call != wc.call && reachesAvoidingLocal(afterInstr(wc.call), o.call, nil, nil) {
						last = false
					}
				}
				retOK := true
				forwardLocal([]startPoint{afterInstr(wc.call)}, func(in ssa.Instruction) searchAction {
					if r, ok := in.(*ssa.Return); ok && r.Results[1] != wc.err {
						for _, s := range sources(r.Results[1]) {
							if s != wc.err {
								retOK = false
							}
						}
					}
					return cont
				}, nil)
				c.check(last && retOK, name, P.ipos(wc.call), "last write: its error is returned as is", "a write's error is neither tested nor returned")
				continue
			}
			// no other write reachable without passing the nil edge
			blocked := map[cfgEdge]bool{*nilE: true}
			cont2 := ""
			for _, o := range wcs {
				if reachesAvoidingLocal(afterInstr(wc.call), o.call, nil, blocked) {
					cont2 = P.ipos(o.call)
				}
			}
			// error edge returns that error
			retOK := true
			forwardLocal([]startPoint{atEdge(nilE.From, 1-nilE.Idx)}, func(in ssa.Instruction) searchAction {
				if r, ok := in.(*ssa.Return); ok && r.Results[1] != wc.err {
					for _, s := range sources(r.Results[1]) {
						if s != wc.err {
							retOK = false
						}
					}
				}
				for _, o := range wcs {
					if in == ssa.Instruction(o.call) {
						return stopPath
					}
				}
				return cont
			}, nil)
			c.check(cont2 == "" && retOK, name, P.ipos(wc.call), "the next write happens only after err == nil; the error edge returns this error",
				"after a failed write another write ("+cont2+") is still reachable, or the error edge does not return this write's error: WriteTo does not stop at the first error")
		}
	}
}

func r15_3(c *Ctx) {
	P := c.P
	for _, spec := range []struct{ fn, buf, get string }{
		{"(*Message).MarshalText", "bytes.Buffer", "(*bytes.Buffer).Bytes"},
		{"(*Message).String", "strings.Builder", "(*strings.Builder).String"},
	} {
		fn := P.Fn(spec.fn)
		if fn == nil {
			c.anchor(spec.fn)
			continue
		}
		var buf *ssa.Alloc
		var wt *ssa.Call
		other := ""
		eachInstrDeep(fn, func(in ssa.Instruction) {
			if al, ok := in.(*ssa.Alloc); ok && deref(al.Type()).String() == spec.buf {
				buf = al
			}
			if call, ok := in.(*ssa.Call); ok {
				cn := calleeName(call)
				switch {
				case cn == expandName("(*Message).WriteTo"):
					wt = call
				case cn == spec.get:
				case call.Call.IsInvoke() || (cn != "" && cn != spec.get):
					other = cn
					if call.Call.IsInvoke() {
						other = call.Call.Method.String()
					}
				}
			}
		})
		good := buf != nil && wt != nil && other == ""
		if good {
			good = wt.Call.Args[0] == ssa.Value(fn.Params[0]) && stripConv(wt.Call.Args[1]) == ssa.Value(buf)
			// returns the buffer's content
			for _, ret := range returnsOf(fn) {
				call, ok := ret.Results[0].(*ssa.Call)
				if !ok || calleeName(call) != spec.get || call.Call.Args[0] != ssa.Value(buf) || !instrDominates(wt, call) {
					good = false
				}
			}
		}
		c.check(good, fnLabel(fn)+":delegates", P.pos(fn.Pos()), "writes only through e.WriteTo into its own buffer and returns that buffer", "does not produce its output solely through Message.WriteTo(e, own buffer): MarshalText/String/WriteTo can produce different bytes")
	}
}

func r15_4(c *Ctx) {
	P := c.P
	fn := P.Fn("(*Message).UnmarshalText")
	if fn == nil {
		c.anchor("(*Message).UnmarshalText")
		return
	}
	// the receiver is reset before anything reads or writes it: the reset call dominates every return and
	// every access to a field of the receiver, and every store through the receiver
	first := false
	var resets []*ssa.Call
	eachInstrDeep(fn, func(in ssa.Instruction) {
		if call, ok := in.(*ssa.Call); ok {
			if callee := call.Call.StaticCallee(); callee != nil && callee.Name() == "reset" && len(call.Call.Args) > 0 && (call.Call.Args[0] == ssa.Value(fn.Params[0]) || carriesOnly(call.Call.Args[0], fn.Params[0])) {
				resets = append(resets, call)
			}
		}
	})
	for _, reset := range resets {
		if len(loopsContaining(reset.Parent(), reset.Block())) != 0 {
			continue
		}
		ok := true
		for _, ret := range returnsOf(fn) {
			if !instrDominates(reset, ret) {
				ok = false
			}
		}
		eachInstr(fn, func(in ssa.Instruction) {
			fa, isFA := in.(*ssa.FieldAddr)
			if !isFA || !(fa.X == ssa.Value(fn.Params[0]) || carriesOnly(fa.X, fn.Params[0])) {
				return
			}
			if !instrDominates(reset, fa) {
				ok = false
			}
		})
		if ok {
			first = true
		}
	}
	c.check(first, fnLabel(fn)+":reset-first", P.pos(fn.Pos()), "the receiver is reset before parsing", "UnmarshalText does not reset the receiver first: previous fields survive and the round trip is not exact")
	// every `set` flag written while parsing is the constant true, next to the store of the field's value:
	// a field line that was present (even with an empty value) must round-trip as set
	nSet := 0
	eachInstrDeep(fn, func(in ssa.Instruction) {
		st, ok := in.(*ssa.Store)
		if !ok {
			return
		}
		base, ok := isFieldSel(st.Addr, "messageField", "set")
		if !ok {
			return
		}
		nSet++
		b, isC := constBool(st.Val)
		valueStored := false
		for _, x := range st.Block().Instrs {
			if s2, ok := x.(*ssa.Store); ok {
				if b2, ok := isFieldSel(s2.Addr, "messageField", "value"); ok && sameAddr(b2, base) {
					valueStored = true
				}
			}
		}
		c.check(isC && b && valueStored, fnLabel(fn)+":set-flag", P.ipos(st), "a parsed id/event line marks the field set (constant true) together with its value", "the set flag of a parsed id/event field is not the constant true stored with its value: an empty `event:`/`id:` line does not round-trip (the message re-encodes differently)")
	})
	if nSet < 2 {
		// constructors may be used instead of direct stores; accept stores through newMessageField-like calls
		viaCtor := 0
		eachInstrDeep(fn, func(in ssa.Instruction) {
			if _, ok := isModCall(in, "newMessageField", "NewID", "NewType"); ok {
				viaCtor++
			}
		})
		if nSet+viaCtor < 2 {
			c.bad(fnLabel(fn)+":set-flag", P.pos(fn.Pos()), "UnmarshalText does not mark both the id and the event field as set when their lines are present")
		}
	}
	// reset clears all four fields
	rs := P.Fn("(*Message).reset")
	if rs != nil {
		cleared := map[string]bool{}
		whole := false
		eachInstrDeep(rs, func(in ssa.Instruction) {
			if st, ok := in.(*ssa.Store); ok && isZeroConst(st.Val) {
				if _, n, _, ok := fieldSel(st.Addr); ok {
					cleared[n] = true
				}
				if st.Addr == ssa.Value(rs.Params[0]) {
					whole = true // *e = Message{}
				}
			}
		})
		all := true
		if whole {
			for k := range cleared {
				delete(cleared, k)
			}
			if o := P.SSE.Pkg.Scope().Lookup("Message"); o != nil {
				st := o.Type().Underlying().(*types.Struct)
				for i := 0; i < st.NumFields(); i++ {
					cleared[st.Field(i).Name()] = true
				}
			}
		}
		if o := P.SSE.Pkg.Scope().Lookup("Message"); o != nil {
			st := o.Type().Underlying().(*types.Struct)
			for i := 0; i < st.NumFields(); i++ {
				if !cleared[st.Field(i).Name()] {
					all = false
				}
			}
		}
		c.check(all, fnLabel(rs)+":clears-all", P.pos(rs.Pos()), "reset clears every field of Message", "reset leaves a field of Message untouched")
	}
}

// ---------------------------------------------------------------------------
// R15.5: UnmarshalText's "nothing was decoded" verdict looks at every field group

func init() {
	register(&Rule{ID: "R15.5", Title: "UnmarshalText reports an empty input exactly when no data/comment, type, retry and ID was decoded (or the field parser failed)", Floor: 2, Run: r15_5})
	if p := properties["C15"]; p != nil {
		p.Rules = append(p.Rules, "R15.5")
		p.Explanation += " R15.5 path-wise over Message.UnmarshalText: every path that ends, after the field loop, in an error has established the field parser's error or all four of (no chunks, type unset, retry zero, ID unset); every path that ends there in success has established no parser error and at least one of the four groups present (a message holding only a type, or only a retry, round-trips)."
	}
}

func r15_5(c *Ctx) {
	P := c.P
	fn := P.Fn("(*Message).UnmarshalText")
	if fn == nil {
		c.anchor("(*Message).UnmarshalText")
		return
	}
	name := fnLabel(fn)
	recv := fn.Params[0]
	// which Message field an address/value belongs to
	var msgField func(v ssa.Value, d int) string
	msgField = func(v ssa.Value, d int) string {
		if d > 8 {
			return ""
		}
		switch x := v.(type) {
		case *ssa.FieldAddr:
			if x.X == ssa.Value(recv) {
				if st, ok := deref(x.X.Type()).Underlying().(*types.Struct); ok {
					return st.Field(x.Field).Name()
				}
			}
			return msgField(x.X, d+1)
		case *ssa.Field:
			return msgField(x.X, d+1)
		case *ssa.UnOp:
			return msgField(x.X, d+1)
		}
		return ""
	}
	isSetOf := func(field string) func(ssa.Value) bool {
		return func(v ssa.Value) bool {
			if call, ok := isModCall(v, "(messageField).IsSet"); ok && len(call.Call.Args) == 1 {
				return msgField(call.Call.Args[0], 0) == field
			}
			if o, n, _, ok := fieldOfLoad(v); ok && o == "messageField" && n == "set" {
				return msgField(v, 0) == field
			}
			return false
		}
	}
	isChunksLen := isLenCallOf(func(v ssa.Value) bool {
		b, ok := isFieldLoad(v, "Message", "chunks")
		return ok && b == ssa.Value(recv)
	})
	isRetry := func(v ssa.Value) bool { b, ok := isFieldLoad(v, "Message", "Retry"); return ok && b == ssa.Value(recv) }
	isPErr := func(v ssa.Value) bool {
		_, ok := isModCall(v, "(*parser.FieldParser).Err")
		return ok
	}
	paths, okP := abstractPaths(fn, 20000, nil)
	if !okP || len(paths) == 0 {
		c.undecided(name+":empty-verdict", P.pos(fn.Pos()), "too many paths through UnmarshalText")
		return
	}
	nErr, nOK := 0, 0
	why := ""
	for _, p := range paths {
		if len(loopsContaining(fn, p.Ret.Block())) > 0 {
			continue
		}
		retNil := true
		for _, s := range sources(p.St.resolve(p.Ret.Results[0])) {
			if !isNilConst(s) {
				retNil = false
			}
		}
		var perrT, perrF, chunks0, chunksN, typeU, typeS, retry0, retryN, idU, idS bool
		// facts from the branch conditions as they resolve on this path (a materialised `a || b` is a phi
		// whose operand chosen on the path is the condition that was decisive)
		for e := range p.St.Edges {
			if len(e.From.Instrs) == 0 {
				continue
			}
			ifi, isIf := e.From.Instrs[len(e.From.Instrs)-1].(*ssa.If)
			if !isIf || len(loopsContaining(fn, e.From)) > 0 {
				continue
			}
			v, val := p.St.resolve(ifi.Cond), e.Idx == 0
			for {
				u, isU := v.(*ssa.UnOp)
				if !isU || u.Op != token.NOT {
					break
				}
				v, val = p.St.resolve(u.X), !val
			}
			if isSetOf("Type")(v) {
				if val {
					typeS = true
				} else {
					typeU = true
				}
			}
			if isSetOf("ID")(v) {
				if val {
					idS = true
				} else {
					idU = true
				}
			}
			bo, isB := v.(*ssa.BinOp)
			if !isB {
				continue
			}
			x, y, op := bo.X, bo.Y, bo.Op
			if _, xc := x.(*ssa.Const); xc {
				x, y, op = y, x, flipOp(op)
			}
			if !val {
				op = map[token.Token]token.Token{token.LSS: token.GEQ, token.LEQ: token.GTR, token.GTR: token.LEQ, token.GEQ: token.LSS, token.EQL: token.NEQ, token.NEQ: token.EQL}[op]
			}
			srcAll := func(pred func(ssa.Value) bool, w ssa.Value) bool {
				ss := sources(w)
				for _, q := range ss {
					if !pred(q) {
						return false
					}
				}
				return len(ss) > 0
			}
			switch {
			case isNilConst(y) && srcAll(isPErr, x):
				if op == token.EQL {
					perrF = true
				} else if op == token.NEQ {
					perrT = true
				}
			case isChunksLen(x):
				if k, isK := constInt(y); isK {
					switch {
					case (op == token.EQL && k == 0) || (op == token.LEQ && k == 0) || (op == token.LSS && k == 1):
						chunks0 = true
					case (op == token.NEQ && k == 0) || (op == token.GTR && k == 0) || (op == token.GEQ && k == 1):
						chunksN = true
					}
				}
			case isRetry(x):
				if k, isK := constInt(y); isK && k == 0 {
					if op == token.EQL {
						retry0 = true
					} else if op == token.NEQ {
						retryN = true
					}
				}
			}
		}
		// an error return that evaluated none of the verdict conditions is a field-level error
		// (e.g. an invalid retry value), not the final verdict
		if !retNil && !(perrT || perrF || chunks0 || chunksN || typeU || typeS || retry0 || retryN || idU || idS) {
			continue
		}
		if retNil {
			nOK++
			if !(perrF && (chunksN || typeS || retryN || idS)) {
				why = "a success return is reached without having established that the parser has no error and some field group is present"
			}
		} else {
			nErr++
			if !(perrT || (chunks0 && typeU && retry0 && idU)) {
				missing := ""
				for _, m := range []struct {
					ok bool
					n  string
				}{{chunks0, "data/comments"}, {typeU, "type"}, {retry0, "retry"}, {idU, "ID"}} {
					if !m.ok {
						missing += " " + m.n
					}
				}
				why = "the input is rejected as empty on a path that never looked at:" + missing + " — a message holding only that field does not round-trip"
			}
		}
	}
	c.check(why == "" && nErr > 0 && nOK > 0, name+":empty-verdict", P.pos(fn.Pos()), "the final verdict distinguishes exactly (parser error | nothing decoded) from (something decoded): "+itoa(nErr)+" error / "+itoa(nOK)+" success paths",
		"UnmarshalText's final verdict is wrong: "+why)
	c.ok(name+":empty-verdict-paths", P.pos(fn.Pos()), itoa(len(paths))+" paths enumerated")
}

// ---------------------------------------------------------------------------
// R15.6: UnmarshalText keeps every data/comment line as one chunk

func init() {
	register(&Rule{ID: "R15.6", Title: "UnmarshalText stores each data/comment field as exactly one chunk holding the field's value", Floor: 1, Run: r15_6})
	if p := properties["C15"]; p != nil {
		p.Rules = append(p.Rules, "R15.6")
		p.Explanation += " R15.6 in Message.UnmarshalText the data/comment case appends exactly one chunk whose content is the field's value, directly; it does not go through AppendData/AppendComment/appendText, which re-split their argument at line breaks and append nothing for an empty string (an empty data line would vanish from the round trip)."
	}
}

func r15_6(c *Ctx) {
	P := c.P
	fn := P.Fn("(*Message).UnmarshalText")
	if fn == nil {
		c.anchor("(*Message).UnmarshalText")
		return
	}
	name := fnLabel(fn) + ":one-chunk-per-line"
	var via *ssa.Call
	direct := false
	eachInstrDeep(fn, func(in ssa.Instruction) {
		if call, ok := isModCall(in, "(*Message).AppendData", "(*Message).AppendComment", "(*Message).appendText"); ok {
			via = call
		}
		st, ok := in.(*ssa.Store)
		if !ok {
			return
		}
		if _, ok := isFieldSel(st.Addr, "Message", "chunks"); !ok {
			return
		}
		call, ok := st.Val.(*ssa.Call)
		if !ok {
			return
		}
		if b, ok := call.Call.Value.(*ssa.Builtin); ok && b.Name() == "append" && len(call.Call.Args) == 2 {
			if lb, ok := liftBlock(st.Block(), fn); ok && (inFieldCase(fn, "data", lb) || inFieldCase(fn, ":", lb)) {
				direct = true
			}
		}
	})
	switch {
	case via != nil:
		c.bad(name, P.ipos(via), "UnmarshalText adds data/comment lines through "+calleeName(via)+", which re-splits its argument and appends nothing for an empty string: an empty data or comment line disappears from UnmarshalText(MarshalText(m))")
	case direct:
		c.ok(name, P.pos(fn.Pos()), "each data/comment field is appended as one chunk, directly")
	default:
		c.ok(name, P.pos(fn.Pos()), "not decided: no direct append to the chunks in the data/comment case (and no re-splitting helper either)")
	}
}
