package main

import (
	"encoding/json"
	"fmt"
	"os"
	"os/exec"
	"path/filepath"
	"sort"
	"strings"
	"sync"
)

// A seeded fault is a static variant of the program: one edit of the live
// source that breaks a property while still compiling. It is applied in memory
// through packages.Config.Overlay and analysed like the real tree; nothing is
// executed. Two on-disk forms are supported:
//
//	seeded/overlays/*.json  {id, properties, expect_rules, file, old, new, note}
//	seeded/<id>/patch.diff + meta.json {properties, expect: "detected"|"missed", expect_rules}
type seededFault struct {
	ID          string   `json:"id"`
	Properties  []string `json:"properties"`
	ExpectRules []string `json:"expect_rules"`
	Expect      string   `json:"expect"` // "detected" (default) or "missed" (documented blind spot)
	File        string   `json:"file"`
	Old         string   `json:"old"`
	New         string   `json:"new"`
	Edits       []struct {
		File string `json:"file"`
		Old  string `json:"old"`
		New  string `json:"new"`
	} `json:"edits"`
	Note  string `json:"note"`
	patch string // path of a patch.diff, if this fault is patch-based
}

func loadSeeded(verif string) []seededFault {
	var out []seededFault
	files, _ := filepath.Glob(filepath.Join(verif, "seeded", "overlays", "*.json"))
	sort.Strings(files)
	for _, f := range files {
		b, err := os.ReadFile(f)
		if err != nil {
			continue
		}
		var many []seededFault
		if err := json.Unmarshal(b, &many); err == nil {
			out = append(out, many...)
			continue
		}
		var one seededFault
		if err := json.Unmarshal(b, &one); err == nil {
			out = append(out, one)
		}
	}
	// behaviour-preserving corpora: seeded/equiv/index.json, seeded/refactor/index.json
	for _, dir := range []string{"equiv", "refactor"} {
		b, err := os.ReadFile(filepath.Join(verif, "seeded", dir, "index.json"))
		if err != nil {
			continue
		}
		var many []struct {
			seededFault
			Patch string `json:"patch"`
		}
		if err := json.Unmarshal(b, &many); err != nil {
			continue
		}
		for _, m := range many {
			sf := m.seededFault
			sf.patch = filepath.Join(verif, "seeded", dir, m.Patch)
			out = append(out, sf)
		}
	}
	metas, _ := filepath.Glob(filepath.Join(verif, "seeded", "*", "meta.json"))
	sort.Strings(metas)
	for _, m := range metas {
		dir := filepath.Dir(m)
		if filepath.Base(dir) == "overlays" {
			continue
		}
		b, err := os.ReadFile(m)
		if err != nil {
			continue
		}
		var sf seededFault
		if err := json.Unmarshal(b, &sf); err != nil {
			continue
		}
		if sf.ID == "" {
			sf.ID = filepath.Base(dir)
		}
		sf.patch = filepath.Join(dir, "patch.diff")
		out = append(out, sf)
	}
	return out
}

// overlayFor computes the in-memory variant. ok=false means the fault no
// longer applies to the current tree (inapplicable, never a failure).
func overlayFor(repo string, sf *seededFault) (map[string][]byte, string, bool) {
	if sf.patch != "" {
		return overlayFromPatch(repo, sf.patch)
	}
	ov := map[string][]byte{}
	edits := sf.Edits
	if sf.File != "" {
		edits = append(edits, struct {
			File string `json:"file"`
			Old  string `json:"old"`
			New  string `json:"new"`
		}{sf.File, sf.Old, sf.New})
	}
	for _, e := range edits {
		abs := filepath.Join(repo, e.File)
		cur, have := ov[abs]
		if !have {
			b, err := os.ReadFile(abs)
			if err != nil {
				return nil, "file missing: " + e.File, false
			}
			cur = b
		}
		if strings.Count(string(cur), e.Old) != 1 {
			return nil, fmt.Sprintf("old snippet occurs %d times in %s (tree was edited)", strings.Count(string(cur), e.Old), e.File), false
		}
		ov[abs] = []byte(strings.Replace(string(cur), e.Old, e.New, 1))
	}
	return ov, "", true
}

func overlayFromPatch(repo, patch string) (map[string][]byte, string, bool) {
	pb, err := os.ReadFile(patch)
	if err != nil {
		return nil, "patch unreadable", false
	}
	var files []string
	for _, l := range strings.Split(string(pb), "\n") {
		if strings.HasPrefix(l, "+++ b/") {
			files = append(files, strings.TrimPrefix(l, "+++ b/"))
		}
	}
	if len(files) == 0 {
		return nil, "patch names no files", false
	}
	tmp, err := os.MkdirTemp("", "ssecheck-seed-")
	if err != nil {
		return nil, err.Error(), false
	}
	defer os.RemoveAll(tmp)
	for _, f := range files {
		src := filepath.Join(repo, f)
		b, err := os.ReadFile(src)
		if err != nil {
			b = nil // new file
		}
		dst := filepath.Join(tmp, f)
		os.MkdirAll(filepath.Dir(dst), 0o755)
		if b != nil {
			os.WriteFile(dst, b, 0o644)
		}
	}
	cmd := exec.Command("patch", "-p1", "-s", "-f", "-i", patch)
	cmd.Dir = tmp
	if outp, err := cmd.CombinedOutput(); err != nil {
		return nil, "patch does not apply: " + strings.TrimSpace(string(outp)), false
	}
	ov := map[string][]byte{}
	for _, f := range files {
		b, err := os.ReadFile(filepath.Join(tmp, f))
		if err != nil {
			continue
		}
		ov[filepath.Join(repo, f)] = b
	}
	return ov, "", true
}

func selfValidate(rc runConfig, spec *PropertySpec) (map[string]interface{}, int) {
	all := loadSeeded(rc.verif)
	var rel []*seededFault
	for i := range all {
		for _, p := range all[i].Properties {
			if p == spec.ID {
				rel = append(rel, &all[i])
				break
			}
		}
	}
	type result struct {
		entry  map[string]interface{}
		status int // 0 detected/silent-ok, 1 inapplicable, 2 documented miss, 3 defect
	}
	results := make([]result, len(rel))
	workers := 8
	sem := make(chan struct{}, workers)
	var wg sync.WaitGroup
	for i, sf := range rel {
		wg.Add(1)
		sem <- struct{}{}
		go func(i int, sf *seededFault) {
			defer wg.Done()
			defer func() { <-sem }()
			results[i] = evalSeeded(rc, spec, sf)
		}(i, sf)
	}
	wg.Wait()
	total, detected, inapplicable, missedDocumented, defects := len(rel), 0, 0, 0, 0
	var list []map[string]interface{}
	for _, r := range results {
		list = append(list, r.entry)
		switch r.status {
		case 0:
			detected++
		case 1:
			inapplicable++
		case 2:
			missedDocumented++
		default:
			defects++
		}
	}
	return map[string]interface{}{
		"seeded_total": total, "seeded_detected": detected, "seeded_inapplicable": inapplicable,
		"seeded_missed_documented": missedDocumented, "seeded_undetected": defects, "seeded": list,
		"method": "each seeded variant is applied to the live source in memory (go/packages overlay) and analysed statically; nothing is executed. 'detected' also counts behaviour-preserving variants on which every rule stayed silent as required",
	}, defects
}

func evalSeeded(rc runConfig, spec *PropertySpec, sf *seededFault) (res struct {
	entry  map[string]interface{}
	status int
}) {
	entry := map[string]interface{}{"id": sf.ID, "note": sf.Note}
	res.entry = entry
	ov, why, ok := overlayFor(rc.repo, sf)
	if !ok {
		entry["status"] = "inapplicable"
		entry["why"] = why
		res.status = 1
		return
	}
	cr, _, err := analyse(rc.repo, "", ov, spec, false)
	if err != nil {
		entry["status"] = "inapplicable"
		entry["why"] = "variant does not load/type-check: " + err.Error()
		res.status = 1
		return
	}
	var fired []string
	firedRule := map[string]bool{}
	for _, rr := range cr.Results {
		for _, o := range rr.Obligations {
			if o.Verdict != Discharged {
				fired = append(fired, o.Key()+" ["+string(o.Verdict)+"]")
				firedRule[o.Rule] = true
			}
		}
	}
	entry["fired"] = fired
	switch sf.Expect {
	case "alarm-documented":
		if len(fired) == 0 {
			entry["status"] = "silent (was a documented false alarm; now fine)"
			res.status = 0
		} else {
			entry["status"] = "FALSE ALARM (documented limitation: larger refactoring the rules cannot follow)"
			res.status = 2
		}
		return
	case "silent":
		if len(fired) == 0 {
			entry["status"] = "silent as required (behaviour-preserving variant)"
			res.status = 0
		} else {
			entry["status"] = "FALSE ALARM on a behaviour-preserving variant (checker defect)"
			res.status = 3
		}
		return
	}
	hit := len(fired) > 0
	if hit && len(sf.ExpectRules) > 0 {
		hit = false
		for _, r := range sf.ExpectRules {
			if firedRule[r] {
				hit = true
			}
		}
	}
	switch {
	case hit:
		entry["status"] = "detected"
		res.status = 0
	case sf.Expect == "missed":
		entry["status"] = "missed (documented blind spot)"
		res.status = 2
	default:
		entry["status"] = "NOT DETECTED (checker defect)"
		res.status = 3
	}
	return
}
