package main

import (
	"encoding/json"
	"fmt"
	"os"
	"os/exec"
	"path/filepath"
	"sort"
	"strings"
)

// A seeded fault is a static variant of the program: one edit of the live
// source that breaks a property while still compiling. It is applied in memory
// through packages.Config.Overlay and analysed like the real tree; nothing is
// executed. Two on-disk forms are supported:
//
//	seeded/overlays/*.json  {id, properties, expect_rules, file, old, new, note}
//	seeded/<id>/patch.diff + meta.json {properties, expect: "detected"|"missed", expect_rules}
type seededFault struct {
	ID          string   `json:"id"`
	Properties  []string `json:"properties"`
	ExpectRules []string `json:"expect_rules"`
	Expect      string   `json:"expect"` // "detected" (default) or "missed" (documented blind spot)
	File        string   `json:"file"`
	Old         string   `json:"old"`
	New         string   `json:"new"`
	Edits       []struct {
		File string `json:"file"`
		Old  string `json:"old"`
		New  string `json:"new"`
	} `json:"edits"`
	Note  string `json:"note"`
	patch string // path of a patch.diff, if this fault is patch-based
}

func loadSeeded(verif string) []seededFault {
	var out []seededFault
	files, _ := filepath.Glob(filepath.Join(verif, "seeded", "overlays", "*.json"))
	sort.Strings(files)
	for _, f := range files {
		b, err := os.ReadFile(f)
		if err != nil {
			continue
		}
		var many []seededFault
		if err := json.Unmarshal(b, &many); err == nil {
			out = append(out, many...)
			continue
		}
		var one seededFault
		if err := json.Unmarshal(b, &one); err == nil {
			out = append(out, one)
		}
	}
	metas, _ := filepath.Glob(filepath.Join(verif, "seeded", "*", "meta.json"))
	sort.Strings(metas)
	for _, m := range metas {
		dir := filepath.Dir(m)
		if filepath.Base(dir) == "overlays" {
			continue
		}
		b, err := os.ReadFile(m)
		if err != nil {
			continue
		}
		var sf seededFault
		if err := json.Unmarshal(b, &sf); err != nil {
			continue
		}
		if sf.ID == "" {
			sf.ID = filepath.Base(dir)
		}
		sf.patch = filepath.Join(dir, "patch.diff")
		out = append(out, sf)
	}
	return out
}

// overlayFor computes the in-memory variant. ok=false means the fault no
// longer applies to the current tree (inapplicable, never a failure).
func overlayFor(repo string, sf *seededFault) (map[string][]byte, string, bool) {
	if sf.patch != "" {
		return overlayFromPatch(repo, sf.patch)
	}
	ov := map[string][]byte{}
	edits := sf.Edits
	if sf.File != "" {
		edits = append(edits, struct {
			File string `json:"file"`
			Old  string `json:"old"`
			New  string `json:"new"`
		}{sf.File, sf.Old, sf.New})
	}
	for _, e := range edits {
		abs := filepath.Join(repo, e.File)
		cur, have := ov[abs]
		if !have {
			b, err := os.ReadFile(abs)
			if err != nil {
				return nil, "file missing: " + e.File, false
			}
			cur = b
		}
		if strings.Count(string(cur), e.Old) != 1 {
			return nil, fmt.Sprintf("old snippet occurs %d times in %s (tree was edited)", strings.Count(string(cur), e.Old), e.File), false
		}
		ov[abs] = []byte(strings.Replace(string(cur), e.Old, e.New, 1))
	}
	return ov, "", true
}

func overlayFromPatch(repo, patch string) (map[string][]byte, string, bool) {
	pb, err := os.ReadFile(patch)
	if err != nil {
		return nil, "patch unreadable", false
	}
	var files []string
	for _, l := range strings.Split(string(pb), "\n") {
		if strings.HasPrefix(l, "+++ b/") {
			files = append(files, strings.TrimPrefix(l, "+++ b/"))
		}
	}
	if len(files) == 0 {
		return nil, "patch names no files", false
	}
	tmp, err := os.MkdirTemp("", "ssecheck-seed-")
	if err != nil {
		return nil, err.Error(), false
	}
	defer os.RemoveAll(tmp)
	for _, f := range files {
		src := filepath.Join(repo, f)
		b, err := os.ReadFile(src)
		if err != nil {
			b = nil // new file
		}
		dst := filepath.Join(tmp, f)
		os.MkdirAll(filepath.Dir(dst), 0o755)
		if b != nil {
			os.WriteFile(dst, b, 0o644)
		}
	}
	cmd := exec.Command("patch", "-p1", "-s", "-f", "-i", patch)
	cmd.Dir = tmp
	if outp, err := cmd.CombinedOutput(); err != nil {
		return nil, "patch does not apply: " + strings.TrimSpace(string(outp)), false
	}
	ov := map[string][]byte{}
	for _, f := range files {
		b, err := os.ReadFile(filepath.Join(tmp, f))
		if err != nil {
			continue
		}
		ov[filepath.Join(repo, f)] = b
	}
	return ov, "", true
}

func selfValidate(rc runConfig, spec *PropertySpec) (map[string]interface{}, int) {
	all := loadSeeded(rc.verif)
	total, detected, inapplicable, missedDocumented, defects := 0, 0, 0, 0, 0
	var list []map[string]interface{}
	for i := range all {
		sf := &all[i]
		relevant := false
		for _, p := range sf.Properties {
			if p == spec.ID {
				relevant = true
			}
		}
		if !relevant {
			continue
		}
		total++
		entry := map[string]interface{}{"id": sf.ID, "note": sf.Note}
		ov, why, ok := overlayFor(rc.repo, sf)
		if !ok {
			inapplicable++
			entry["status"] = "inapplicable"
			entry["why"] = why
			list = append(list, entry)
			continue
		}
		cr, _, err := analyse(rc.repo, "", ov, spec, false)
		if err != nil {
			inapplicable++
			entry["status"] = "inapplicable"
			entry["why"] = "variant does not load/type-check: " + err.Error()
			list = append(list, entry)
			continue
		}
		var fired []string
		firedRule := map[string]bool{}
		for _, rr := range cr.Results {
			for _, o := range rr.Obligations {
				if o.Verdict != Discharged {
					fired = append(fired, o.Key()+" ["+string(o.Verdict)+"]")
					firedRule[o.Rule] = true
				}
			}
		}
		hit := len(fired) > 0
		if hit && len(sf.ExpectRules) > 0 {
			hit = false
			for _, r := range sf.ExpectRules {
				if firedRule[r] {
					hit = true
				}
			}
		}
		entry["fired"] = fired
		if sf.Expect == "silent" {
			// a behaviour-preserving variant: the property still holds, so no rule may fire
			if len(fired) == 0 {
				detected++
				entry["status"] = "silent as required (behaviour-preserving variant)"
			} else {
				defects++
				entry["status"] = "FALSE ALARM on a behaviour-preserving variant (checker defect)"
			}
			list = append(list, entry)
			continue
		}
		switch {
		case hit:
			detected++
			entry["status"] = "detected"
		case sf.Expect == "missed":
			missedDocumented++
			entry["status"] = "missed (documented blind spot)"
		default:
			defects++
			entry["status"] = "NOT DETECTED (checker defect)"
		}
		list = append(list, entry)
	}
	return map[string]interface{}{
		"seeded_total": total, "seeded_detected": detected, "seeded_inapplicable": inapplicable,
		"seeded_missed_documented": missedDocumented, "seeded_undetected": defects, "seeded": list,
		"method": "each seeded fault is applied to the live source in memory (go/packages overlay) and analysed statically; nothing is executed",
	}, defects
}
