// ssecheck decides structural clauses of the go-sse properties C01..C20 by
// static analysis of /repo's current working tree (go/packages + go/ssa).
// Nothing of go-sse is executed.
package main

import (
	"encoding/json"
	"flag"
	"fmt"
	"os"
	"path/filepath"
	"runtime"
	"sort"
	"strconv"
	"strings"
	"time"
)

type runConfig struct {
	repo     string
	verif    string
	tier     string
	property string
	seed     int
}

type configResult struct {
	GOARCH  string
	Graph   string
	Results []*RuleResult
	Funcs   int
	CGNodes int
	CGEdges int
	Files   []FileInfo
	Pkgs    []string
	Norm    *normReport
}

func main() {
	var rc runConfig
	flag.StringVar(&rc.repo, "repo", envOr("VERIF_REPO", "/repo"), "repository working tree to analyse")
	flag.StringVar(&rc.verif, "verif", envOr("VERIF_DIR", "/verif"), "verification directory (evidence, known findings, seeded)")
	flag.StringVar(&rc.tier, "tier", envOr("VERIF_TIER", "quick"), "quick|thorough")
	flag.StringVar(&rc.property, "property", "", "property id (C01..C20)")
	explain := flag.String("explain", "", "replay file to explain: re-runs that obligation on the current tree")
	listRules := flag.Bool("list", false, "list properties and rules")
	manifest := flag.Bool("manifest", false, "print MANIFEST.json for the registered properties")
	evalAll := flag.Bool("eval", false, "load once, run every rule, print which properties fire (used to evaluate variants)")
	rulesMD := flag.Bool("rules-md", false, "print the rule catalogue (RULES.md) generated from the registered rules and properties")
	normDump := flag.Bool("normalize-dump", false, "print the normalised (helper-inlined) source files and the report")
	flag.Parse()
	if *manifest {
		emitManifest()
		return
	}
	if *evalAll {
		os.Exit(doEvalAll(rc))
	}
	if *rulesMD {
		emitRulesMD()
		return
	}
	if *normDump {
		ov, rep := normalizeOverlay(rc.repo, "", nil)
		b, _ := json.MarshalIndent(rep, "", " ")
		fmt.Println(string(b))
		for _, k := range sortedKeys(ov) {
			fmt.Printf("==== %s\n%s\n", k, ov[k])
		}
		return
	}
	rc.seed, _ = strconv.Atoi(os.Getenv("VERIF_SEED"))

	if *listRules {
		for _, id := range sortedKeys(properties) {
			p := properties[id]
			fmt.Printf("%s [%s] %s\n", id, p.Level, strings.Join(p.Rules, " "))
		}
		return
	}
	if *explain != "" {
		os.Exit(doExplain(rc, *explain))
	}
	if rc.tier != "quick" && rc.tier != "thorough" {
		fmt.Fprintln(os.Stderr, "tier must be quick or thorough")
		os.Exit(2)
	}
	spec, ok := properties[rc.property]
	if !ok {
		fmt.Fprintf(os.Stderr, "unknown property %q\n", rc.property)
		os.Exit(2)
	}
	os.Exit(runProperty(rc, spec))
}

func envOr(k, d string) string {
	if v := os.Getenv(k); v != "" {
		return v
	}
	return d
}

// analyse runs the rules of one property on one build configuration.
func analyse(repo, goarch string, overlay map[string][]byte, spec *PropertySpec, vtaToo bool) (*configResult, *Program, error) {
	// normalisation pre-pass: inline calls to helpers outside the rules' vocabulary
	overlay, norm := normalizeOverlay(repo, goarch, overlay)
	P, err := Load(repo, goarch, overlay, vtaToo)
	if err != nil {
		return nil, nil, err
	}
	cr := &configResult{GOARCH: goarch, Graph: "cha", Funcs: len(P.Funcs), Files: P.Files, Norm: norm}
	if goarch == "" {
		cr.GOARCH = runtime.GOARCH
	}
	for _, p := range P.Pkgs {
		cr.Pkgs = append(cr.Pkgs, p.PkgPath)
	}
	cr.CGNodes = len(P.CG.Nodes)
	for _, n := range P.CG.Nodes {
		cr.CGEdges += len(n.Out)
	}
	for _, rid := range spec.Rules {
		r := ruleRegistry[rid]
		if r == nil {
			return nil, nil, fmt.Errorf("property %s names unregistered rule %s", spec.ID, rid)
		}
		cr.Results = append(cr.Results, runRule(P, r))
	}
	return cr, P, nil
}

func runProperty(rc runConfig, spec *PropertySpec) int {
	start := time.Now()
	evPath := filepath.Join(rc.verif, "evidence", spec.ID+".json")
	replayDir := filepath.Join(rc.verif, "evidence", "replay", spec.ID)
	os.RemoveAll(replayDir)

	known, fixed, err := loadKnownFindings(filepath.Join(rc.verif, "KNOWN_FINDINGS.txt"))
	if err != nil {
		fmt.Fprintln(os.Stderr, "known findings:", err)
	}

	type failure struct {
		o   *Obligation
		cfg string
	}
	var failures []failure
	var knownHits []string
	var configs []*configResult
	var loadErr error

	archs := []string{""}
	if rc.tier == "thorough" {
		archs = []string{"", "386"}
	}
	for _, arch := range archs {
		cr, P, err := analyse(rc.repo, arch, nil, spec, rc.tier == "thorough")
		if err != nil {
			loadErr = err
			break
		}
		configs = append(configs, cr)
		// thorough: reachability-dependent rules are re-run under VTA and must agree.
		if rc.tier == "thorough" && P.VTA != nil {
			saved := P.CG
			P.CG = P.VTA
			cr2 := &configResult{GOARCH: cr.GOARCH, Graph: "vta", Funcs: cr.Funcs, Files: cr.Files, Pkgs: cr.Pkgs}
			cr2.CGNodes = len(P.CG.Nodes)
			for _, n := range P.CG.Nodes {
				cr2.CGEdges += len(n.Out)
			}
			for _, rid := range spec.Rules {
				cr2.Results = append(cr2.Results, runRule(P, ruleRegistry[rid]))
			}
			P.CG = saved
			configs = append(configs, cr2)
		}
	}

	total, discharged := 0, 0
	var samples []interface{}
	ruleSummaries := []map[string]interface{}{}
	seenFail := map[string]bool{}
	for ci, cr := range configs {
		for _, rr := range cr.Results {
			if ci == 0 {
				ruleSummaries = append(ruleSummaries, map[string]interface{}{
					"rule": rr.ID, "title": rr.Title, "instance_floor": rr.Floor,
					"obligations": rr.N, "discharged": rr.NDischarged,
				})
			}
			for _, o := range rr.Obligations {
				total++
				if o.Verdict == Discharged {
					discharged++
					continue
				}
				k := o.Key()
				if seenFail[k] {
					continue
				}
				seenFail[k] = true
				isKnown := false
				for _, kf := range known {
					if kf.Property == spec.ID && kf.Key == k {
						isKnown = true
						knownHits = append(knownHits, fmt.Sprintf("KNOWN-FINDING: property=%s key=%s %s", spec.ID, k, kf.Text))
					}
				}
				if !isKnown {
					failures = append(failures, failure{o, cr.GOARCH + "/" + cr.Graph})
				}
			}
		}
	}
	if len(configs) > 0 {
		for _, rr := range configs[0].Results {
			n := 0
			for _, o := range rr.Obligations {
				if n >= 4 && o.Verdict == Discharged {
					continue
				}
				samples = append(samples, o)
				n++
			}
		}
	}

	// thorough: checker self-validation on seeded faults (static variants
	// analysed through an overlay; never printed as VIOLATION).
	var selfVal map[string]interface{}
	checkerDefects := 0
	if rc.tier == "thorough" && loadErr == nil {
		selfVal, checkerDefects = selfValidate(rc, spec)
	}

	nviol := len(failures)
	if loadErr != nil {
		nviol++
	}
	exit := 0
	var lines []string
	if loadErr != nil {
		p := filepath.Join(replayDir, "load-error.json")
		writeJSON(p, map[string]interface{}{"property": spec.ID, "kind": "load-error", "error": loadErr.Error()})
		lines = append(lines, fmt.Sprintf("load-error: %v", loadErr))
		lines = append(lines, fmt.Sprintf("VIOLATION property=%s replay=%s", spec.ID, p))
		exit = 1
	}
	sort.SliceStable(failures, func(i, j int) bool { return failures[i].o.Key() < failures[j].o.Key() })
	for i, f := range failures {
		p := filepath.Join(replayDir, fmt.Sprintf("%s-%d.json", f.o.Rule, i+1))
		writeJSON(p, map[string]interface{}{
			"property": spec.ID, "rule": f.o.Rule, "key": f.o.Key(), "construct": f.o.Construct,
			"pos": f.o.Pos, "verdict": f.o.Verdict, "detail": f.o.Detail, "witness": f.o.Witness,
			"config": f.cfg, "rule_title": ruleRegistry[f.o.Rule].Title,
		})
		lines = append(lines, fmt.Sprintf("%s %s at %s: %s", f.o.Verdict, f.o.Key(), f.o.Pos, f.o.Detail))
		lines = append(lines, fmt.Sprintf("VIOLATION property=%s replay=%s", spec.ID, p))
		exit = 1
	}
	if checkerDefects > 0 {
		// A check that cannot see its own seeded fault is broken and must say so.
		lines = append(lines, fmt.Sprintf("checker-defect: %d seeded fault(s) not detected; see %s", checkerDefects, evPath))
		exit = 1
	}

	cov := map[string]interface{}{
		"obligations":            total,
		"discharged":             discharged,
		"rule":                   "every rule instance (obligation) is keyed rule@construct; an obligation is discharged only if the rule's evidence was found on the resolved SSA/CFG of the current tree; undecided shapes, unresolved anchors, load errors and checker panics fail the run",
		"rules":                  ruleSummaries,
		"samples":                samples,
		"explanation":            spec.Explanation,
		"not_decided":            spec.NotDecided,
		"checker_cmd":            fmt.Sprintf("./check %s %s", spec.ID, rc.tier),
		"trusted_base":           trustedBase,
		"exhaustive":             false,
		"known_findings_matched": knownHits,
		"fixed_findings_on_file": fixed,
	}
	var cfgs []map[string]interface{}
	for _, cr := range configs {
		n, d := 0, 0
		for _, rr := range cr.Results {
			n += rr.N
			d += rr.NDischarged
		}
		cfgs = append(cfgs, map[string]interface{}{
			"goarch": cr.GOARCH, "callgraph": cr.Graph, "packages": cr.Pkgs, "functions_analysed": cr.Funcs,
			"callgraph_nodes": cr.CGNodes, "callgraph_edges": cr.CGEdges, "obligations": n, "discharged": d,
		})
	}
	cov["configurations"] = cfgs
	if len(configs) > 0 {
		cov["files"] = configs[0].Files
		cov["normalisation"] = configs[0].Norm
	}
	if selfVal != nil {
		cov["self_validation"] = selfVal
	}
	if loadErr != nil {
		cov["load_error"] = loadErr.Error()
	}
	ev := &Evidence{
		PropertyID: spec.ID, Tier: rc.tier, Seed: rc.seed, Level: spec.Level, Coverage: cov,
		Assumptions: spec.Assumptions, WallS: time.Since(start).Seconds(), Violations: nviol,
	}
	if err := writeJSON(evPath, ev); err != nil {
		fmt.Fprintln(os.Stderr, "cannot write evidence:", err)
		exit = 1
	}
	for _, l := range knownHits {
		fmt.Println(l)
	}
	for _, l := range lines {
		fmt.Println(l)
	}
	fmt.Printf("%s %s: %d obligations, %d discharged, %d failed, %d known findings (%.2fs)\n",
		spec.ID, rc.tier, total, discharged, len(failures), len(knownHits), time.Since(start).Seconds())
	return exit
}

func doExplain(rc runConfig, path string) int {
	b, err := os.ReadFile(path)
	if err != nil {
		fmt.Fprintln(os.Stderr, err)
		return 2
	}
	var rep struct {
		Property string `json:"property"`
		Rule     string `json:"rule"`
		Key      string `json:"key"`
		Kind     string `json:"kind"`
	}
	if err := json.Unmarshal(b, &rep); err != nil {
		fmt.Fprintln(os.Stderr, err)
		return 2
	}
	fmt.Printf("recorded report:\n%s\n", b)
	spec := properties[rep.Property]
	if spec == nil {
		return 2
	}
	cr, _, err := analyse(rc.repo, "", nil, spec, false)
	if err != nil {
		fmt.Printf("current tree: load error: %v\nVIOLATION property=%s replay=%s\n", err, rep.Property, path)
		return 1
	}
	found := false
	rcode := 0
	for _, rr := range cr.Results {
		for _, o := range rr.Obligations {
			if o.Key() == rep.Key {
				found = true
				bb, _ := json.MarshalIndent(o, "", " ")
				fmt.Printf("on the current tree:\n%s\n", bb)
				if o.Verdict != Discharged {
					fmt.Printf("VIOLATION property=%s replay=%s\n", rep.Property, path)
					rcode = 1
				}
			}
		}
	}
	if !found {
		fmt.Println("on the current tree: no obligation with this key (the construct no longer exists or the rule is silent)")
	}
	return rcode
}

// doEvalAll loads the tree once, runs every registered rule once and reports per property.
func doEvalAll(rc runConfig) int {
	overlay, _ := normalizeOverlay(rc.repo, "", nil)
	P, err := Load(rc.repo, "", overlay, false)
	if err != nil {
		fmt.Printf("load-error: %v\n", err)
		for _, id := range allPropertyIDs {
			if properties[id] != nil {
				fmt.Printf("== %s FIRES\nundecided load-error@tree at -: %v\n", id, err)
			}
		}
		return 1
	}
	results := map[string]*RuleResult{}
	for _, id := range sortedKeys(ruleRegistry) {
		results[id] = runRule(P, ruleRegistry[id])
	}
	fired := 0
	for _, id := range allPropertyIDs {
		spec := properties[id]
		if spec == nil {
			continue
		}
		var lines []string
		for _, rid := range spec.Rules {
			for _, o := range results[rid].Obligations {
				if o.Verdict != Discharged {
					lines = append(lines, fmt.Sprintf("%s %s at %s: %s", o.Verdict, o.Key(), o.Pos, o.Detail))
				}
			}
		}
		if len(lines) > 0 {
			fired++
			fmt.Printf("== %s FIRES\n", id)
			for _, l := range lines {
				fmt.Println(l)
			}
		}
	}
	if fired == 0 {
		fmt.Println("== NO CHECK FIRES")
	}
	return 0
}

// emitRulesMD prints the catalogue of rules: id, title, instance floor, claiming properties; then
// per property its level, rule set, what the rule set decides and what it does not.
func emitRulesMD() {
	claims := map[string][]string{}
	for _, id := range sortedKeys(properties) {
		for _, r := range properties[id].Rules {
			claims[r] = append(claims[r], id)
		}
	}
	fmt.Println("# Rule catalogue (generated by `bin/ssecheck -rules-md`; do not edit)")
	fmt.Println()
	fmt.Println("One line per rule the checker registers: the title is the rule's statement, the floor is the number of")
	fmt.Println("instances confirmed by reading below which the rule reports itself vacuous, and the last column lists the")
	fmt.Println("properties that claim it. The second part gives, per property, what its rule set decides and what it leaves open.")
	fmt.Println()
	fmt.Println("| rule | statement | floor | claimed by |")
	fmt.Println("|---|---|---|---|")
	ids := sortedKeys(ruleRegistry)
	sort.Slice(ids, func(i, j int) bool {
		a, b := ids[i], ids[j]
		var a1, a2, b1, b2 int
		fmt.Sscanf(a, "R%d.%d", &a1, &a2)
		fmt.Sscanf(b, "R%d.%d", &b1, &b2)
		if a1 != b1 {
			return a1 < b1
		}
		return a2 < b2
	})
	for _, id := range ids {
		r := ruleRegistry[id]
		fmt.Printf("| %s | %s | %d | %s |\n", id, strings.ReplaceAll(r.Title, "|", "\\|"), r.Floor, strings.Join(claims[id], " "))
	}
	fmt.Println()
	for _, id := range sortedKeys(properties) {
		p := properties[id]
		fmt.Printf("## %s (level %s)\n\n", id, p.Level)
		fmt.Printf("Rules: %s\n\n", strings.Join(p.Rules, " "))
		fmt.Printf("Decides: %s\n\n", p.Explanation)
		if p.NotDecided != "" {
			fmt.Printf("Not decided: %s\n\n", p.NotDecided)
		}
	}
}
