package main

import (
	"fmt"
	"go/ast"
	"go/constant"
	"go/token"
	"go/types"
	"os"
	"sort"
	"strconv"
	"strings"

	"golang.org/x/tools/go/packages"
	"golang.org/x/tools/internal/refactor/inline"
)

// Normalisation pre-pass.
//
// The rules are written against the decomposition of the library into the
// functions listed in knownFuncs (the vocabulary of the tree the rules were
// confirmed on). A behaviour-preserving refactoring that extracts code into a
// NEW unexported helper moves the constructs a rule looks for out of the
// function it looks in. To stay silent on such edits, every call to a module
// function that is not part of the vocabulary is inlined back into its caller
// (x/tools' semantics-preserving inliner) before the program is analysed; the
// analysis then runs on the overlay. On a tree without new helpers the pass
// does nothing. Nothing is executed.
//
// Soundness: the inliner preserves behaviour, so a property violated by the
// original program is violated by the normalised one; the rules only ever see
// more code in one place, never less.

type normReport struct {
	Inlined   []string `json:"inlined_calls,omitempty"`
	Skipped   []string `json:"skipped_calls,omitempty"`
	Removed   []string `json:"removed_helpers,omitempty"`
	Rounds    int      `json:"rounds"`
	NewFuncs  []string `json:"functions_outside_vocabulary,omitempty"`
	Literals  int      `json:"literalized"`
	Mono      []string `json:"monomorphised_calls,omitempty"`
	Renamed   []string `json:"renamed_back,omitempty"`
	Canon     []string `json:"canonicalised_expressions,omitempty"`
	LoadError string   `json:"load_error,omitempty"`
}

// alwaysInline: small predicate helpers of the vocabulary that are inlined into their callers on
// every tree (the reference tree included), so that the rules see one canonical form whether or
// not a maintainer keeps the helper.
var alwaysInline = map[string]bool{
	"(*ValidReplayer).shouldGC": true,
}

func funcKey(pkgPath string, fd *ast.FuncDecl) string {
	name := fd.Name.Name
	if fd.Recv != nil && len(fd.Recv.List) == 1 {
		t := fd.Recv.List[0].Type
		star := ""
		if s, ok := t.(*ast.StarExpr); ok {
			star = "*"
			t = s.X
		}
		for {
			switch x := t.(type) {
			case *ast.IndexExpr:
				t = x.X
				continue
			case *ast.IndexListExpr:
				t = x.X
				continue
			}
			break
		}
		if id, ok := t.(*ast.Ident); ok {
			name = "(" + star + id.Name + ")." + name
		}
	}
	if pkgPath == parserPath {
		return "parser." + name
	}
	return name
}

func loadSyntax(dir, goarch string, overlay map[string][]byte) ([]*packages.Package, error) {
	env := append(os.Environ(), "GOFLAGS=-mod=mod", "GOPROXY=off", "GOSUMDB=off", "GOTOOLCHAIN=local", "GOWORK=off", "CGO_ENABLED=0")
	if goarch != "" {
		env = append(env, "GOARCH="+goarch)
	}
	cfg := &packages.Config{Mode: packages.LoadSyntax, Dir: dir, Env: env, Overlay: overlay}
	pkgs, err := packages.Load(cfg, ".", "./internal/parser")
	if err != nil {
		return nil, err
	}
	for _, p := range pkgs {
		if len(p.Errors) > 0 {
			return nil, fmt.Errorf("%v", p.Errors[0])
		}
	}
	return pkgs, nil
}

// normalizeOverlay returns an overlay in which calls to functions outside the
// vocabulary are inlined. The input overlay (may be nil) is the starting point.
func normalizeOverlay(dir, goarch string, overlay map[string][]byte) (map[string][]byte, *normReport) {
	rep := &normReport{}
	cur := map[string][]byte{}
	for k, v := range overlay {
		cur[k] = v
	}
	changed := false
	if renameBack(dir, goarch, cur, rep) {
		changed = true
	}
	failed := map[string]bool{} // call sites (file:offset of callee name) that could not be inlined
	for round := 0; round < 40; round++ {
		rep.Rounds = round + 1
		pkgs, err := loadSyntax(dir, goarch, cur)
		if err != nil {
			rep.LoadError = err.Error()
			// fall back to the un-normalised program: the rules then see the original
			return overlay, rep
		}
		// expression canonicalisation (a no-op on the reference tree): spellings of one condition
		// that differ only syntactically are brought to the form the tree itself uses
		if n := canonExprs(pkgs, dir, cur, rep); n > 0 {
			changed = true
			continue
		}
		// candidates
		type cand struct {
			pkg  *packages.Package
			decl *ast.FuncDecl
			file *ast.File
			obj  *types.Func
		}
		cands := map[*types.Func]*cand{}
		generics := map[*types.Func]*cand{}
		var newNames []string
		for _, p := range pkgs {
			if p.PkgPath != modPath && p.PkgPath != parserPath {
				continue
			}
			for _, f := range p.Syntax {
				fname := p.Fset.Position(f.Pos()).Filename
				if strings.HasSuffix(fname, "_test.go") {
					continue
				}
				for _, d := range f.Decls {
					fd, ok := d.(*ast.FuncDecl)
					if !ok || fd.Body == nil {
						continue
					}
					key := funcKey(p.PkgPath, fd)
					if knownFuncs[key] && !alwaysInline[key] {
						continue
					}
					if !alwaysInline[key] {
						newNames = append(newNames, key)
					}
					if ast.IsExported(fd.Name.Name) {
						continue
					}
					if fd.Type.TypeParams != nil {
						// a generic helper function (not a method) is first monomorphised per call site
						if obj, ok := p.TypesInfo.Defs[fd.Name].(*types.Func); ok && fd.Recv == nil {
							generics[obj] = &cand{p, fd, f, obj}
						}
						continue
					}
					if obj, ok := p.TypesInfo.Defs[fd.Name].(*types.Func); ok {
						cands[obj] = &cand{p, fd, f, obj}
					}
				}
			}
		}
		sort.Strings(newNames)
		rep.NewFuncs = newNames
		if len(generics) > 0 {
			// one monomorphisation per round (the copy is inlined by the following rounds)
			did := false
			for _, p := range pkgs {
				if did || (p.PkgPath != modPath && p.PkgPath != parserPath) {
					continue
				}
				for _, f := range p.Syntax {
					fname := p.Fset.Position(f.Pos()).Filename
					if did || strings.HasSuffix(fname, "_test.go") {
						continue
					}
					ast.Inspect(f, func(n ast.Node) bool {
						call, ok := n.(*ast.CallExpr)
						if !ok || did {
							return !did
						}
						var id *ast.Ident
						switch fun := call.Fun.(type) {
						case *ast.Ident:
							id = fun
						case *ast.IndexExpr:
							id, _ = fun.X.(*ast.Ident)
						case *ast.IndexListExpr:
							id, _ = fun.X.(*ast.Ident)
						}
						if id == nil {
							return true
						}
						obj, _ := p.TypesInfo.Uses[id].(*types.Func)
						g := generics[obj]
						if g == nil || g.pkg != p {
							return true
						}
						if g.decl.Pos() <= call.Pos() && call.End() <= g.decl.End() {
							return true
						}
						site := fmt.Sprintf("%s:%d:%s", fname, p.Fset.Position(call.Pos()).Offset, obj.Name())
						if failed[site] {
							return true
						}
						inst, ok := p.TypesInfo.Instances[id]
						if !ok {
							failed[site] = true
							return true
						}
						nc, err := monomorphise(p, cur, g.decl, f, call, inst.TypeArgs, fmt.Sprintf("%s__inst%d", obj.Name(), len(rep.Mono)+1))
						if err != nil {
							failed[site] = true
							rep.Skipped = append(rep.Skipped, fmt.Sprintf("monomorphise %s at %s: %v", obj.Name(), shortPos(dir, p.Fset, call.Pos()), err))
							return true
						}
						for k, v := range nc {
							cur[k] = v
						}
						rep.Mono = append(rep.Mono, fmt.Sprintf("%s at %s", obj.Name(), shortPos(dir, p.Fset, call.Pos())))
						did = true
						changed = true
						return false
					})
				}
			}
			if did {
				continue
			}
		}
		if len(cands) == 0 {
			break
		}
		// one call site per file per round
		progressed := false
		doneFile := map[string]bool{}
		for _, p := range pkgs {
			if p.PkgPath != modPath && p.PkgPath != parserPath {
				continue
			}
			for _, f := range p.Syntax {
				fname := p.Fset.Position(f.Pos()).Filename
				if strings.HasSuffix(fname, "_test.go") || doneFile[fname] {
					continue
				}
				var target *ast.CallExpr
				var tc *cand
				// skip go/defer statements' calls
				skip := map[*ast.CallExpr]bool{}
				ast.Inspect(f, func(n ast.Node) bool {
					switch x := n.(type) {
					case *ast.GoStmt:
						skip[x.Call] = true
					case *ast.DeferStmt:
						skip[x.Call] = true
					}
					return true
				})
				ast.Inspect(f, func(n ast.Node) bool {
					call, ok := n.(*ast.CallExpr)
					if !ok || target != nil || skip[call] {
						return true
					}
					var id *ast.Ident
					switch fun := call.Fun.(type) {
					case *ast.Ident:
						id = fun
					case *ast.SelectorExpr:
						id = fun.Sel
					}
					if id == nil {
						return true
					}
					obj, _ := p.TypesInfo.Uses[id].(*types.Func)
					if obj == nil {
						return true
					}
					c := cands[obj]
					if c == nil {
						// a method of an instantiated generic type: the declaration belongs to its origin
						c = cands[obj.Origin()]
					}
					if c == nil {
						return true
					}
					// not a recursive call inside the callee itself
					if c.decl.Pos() <= call.Pos() && call.End() <= c.decl.End() {
						return true
					}
					site := fmt.Sprintf("%s:%d:%s", fname, p.Fset.Position(call.Pos()).Offset, obj.Name())
					if failed[site] {
						return true
					}
					target, tc = call, c
					return false
				})
				if target == nil {
					continue
				}
				content, err := readMaybeOverlay(fname, cur)
				if err != nil {
					continue
				}
				calleeFile := tc.pkg.Fset.Position(tc.decl.Pos()).Filename
				calleeContent, err := readMaybeOverlay(calleeFile, cur)
				if err != nil {
					continue
				}
				site := fmt.Sprintf("%s:%d:%s", fname, p.Fset.Position(target.Pos()).Offset, tc.obj.Name())
				label := fmt.Sprintf("%s -> %s at %s", funcKey(tc.pkg.PkgPath, tc.decl), enclosingFuncName(p, f, target), shortPos(dir, p.Fset, target.Pos()))
				callee, err := inline.AnalyzeCallee(func(string, ...any) {}, tc.pkg.Fset, tc.pkg.Types, tc.pkg.TypesInfo, tc.decl, calleeContent)
				if err != nil {
					// the inliner does not handle type parameters: a method of a generic type whose body is a
					// single returned expression over its receiver's fields and its parameters is substituted
					// textually (accessors such as `func (q *queue[T]) full() bool { return q.count == len(q.buf) }`)
					if nc, serr := substituteExprBody(p.Fset, tc.pkg.Fset, tc.pkg.TypesInfo, content, calleeContent, target, tc.decl); serr == nil {
						cur[fname] = nc
						doneFile[fname] = true
						progressed = true
						changed = true
						rep.Inlined = append(rep.Inlined, label+" (expression substituted)")
						continue
					} else {
						err = fmt.Errorf("%v; %v", err, serr)
					}
					failed[site] = true
					rep.Skipped = append(rep.Skipped, label+": "+err.Error())
					continue
				}
				res, err := inline.Inline(&inline.Caller{Fset: p.Fset, Types: p.Types, Info: p.TypesInfo, File: f, Call: target, Content: content}, callee, &inline.Options{Logf: func(string, ...any) {}})
				if err != nil {
					failed[site] = true
					rep.Skipped = append(rep.Skipped, label+": "+err.Error())
					continue
				}
				if res.Literalized {
					rep.Literals++
				}
				cur[fname] = res.Content
				doneFile[fname] = true
				progressed = true
				changed = true
				rep.Inlined = append(rep.Inlined, label)
			}
		}
		if !progressed {
			break
		}
	}
	if !changed {
		return overlay, rep
	}
	// remove helpers that are no longer referenced
	for i := 0; i < 5; i++ {
		pkgs, err := loadSyntax(dir, goarch, cur)
		if err != nil {
			rep.LoadError = err.Error()
			return overlay, rep
		}
		removedAny := false
		for _, p := range pkgs {
			used := map[types.Object]bool{}
			for _, pp := range pkgs {
				for _, o := range pp.TypesInfo.Uses {
					used[o] = true
					// a method of an instantiated generic type is a distinct object: mark its origin as well
					if f, ok := o.(*types.Func); ok {
						used[f.Origin()] = true
					}
				}
				for _, sel := range pp.TypesInfo.Selections {
					if f, ok := sel.Obj().(*types.Func); ok {
						used[f] = true
						used[f.Origin()] = true
					}
				}
			}
			for _, f := range p.Syntax {
				fname := p.Fset.Position(f.Pos()).Filename
				if strings.HasSuffix(fname, "_test.go") {
					continue
				}
				content, err := readMaybeOverlay(fname, cur)
				if err != nil {
					continue
				}
				type span struct{ a, b int }
				var cuts []span
				for _, d := range f.Decls {
					fd, ok := d.(*ast.FuncDecl)
					if !ok || fd.Body == nil || (knownFuncs[funcKey(p.PkgPath, fd)] && !alwaysInline[funcKey(p.PkgPath, fd)]) || ast.IsExported(fd.Name.Name) {
						continue
					}
					obj := p.TypesInfo.Defs[fd.Name]
					if obj == nil || used[obj] {
						continue
					}
					// methods may satisfy interfaces implicitly: only remove plain functions and
					// methods whose name is not part of any interface of the package
					if fd.Recv != nil && methodNameInInterfaces(p.Types, fd.Name.Name) {
						continue
					}
					start := fd.Pos()
					if fd.Doc != nil {
						start = fd.Doc.Pos()
					}
					cuts = append(cuts, span{p.Fset.Position(start).Offset, p.Fset.Position(fd.End()).Offset})
					rep.Removed = append(rep.Removed, funcKey(p.PkgPath, fd))
				}
				if len(cuts) == 0 {
					continue
				}
				sort.Slice(cuts, func(i, j int) bool { return cuts[i].a > cuts[j].a })
				nb := append([]byte(nil), content...)
				for _, c := range cuts {
					nb = append(nb[:c.a], nb[c.b:]...)
				}
				cur[fname] = nb
				removedAny = true
			}
		}
		if !removedAny {
			break
		}
	}
	// final sanity: the normalised program must still load; unused imports may need pruning
	if _, err := loadSyntax(dir, goarch, cur); err != nil {
		if fixed, ok := pruneUnusedImports(dir, goarch, cur); ok {
			cur = fixed
		} else {
			rep.LoadError = "normalised program does not load: " + err.Error()
			return overlay, rep
		}
	}
	return cur, rep
}

// monomorphise writes a copy of the generic function decl with its type parameters replaced by
// the type arguments of one call, and redirects that call to the copy.
func monomorphise(p *packages.Package, cur map[string][]byte, decl *ast.FuncDecl, callFile *ast.File, call *ast.CallExpr, targs *types.TypeList, newName string) (map[string][]byte, error) {
	declFile := p.Fset.Position(decl.Pos()).Filename
	callFname := p.Fset.Position(callFile.Pos()).Filename
	declContent, err := readMaybeOverlay(declFile, cur)
	if err != nil {
		return nil, err
	}
	tparams := map[types.Object]string{}
	qual := func(other *types.Package) string {
		if other == p.Types {
			return ""
		}
		return other.Name()
	}
	i := 0
	for _, fld := range decl.Type.TypeParams.List {
		for _, nm := range fld.Names {
			if i >= targs.Len() {
				return nil, fmt.Errorf("type argument count")
			}
			ta := targs.At(i)
			bad := false
			// the argument must be expressible in the callee's file: no type parameters, only same-package or
			// already imported packages (conservatively: same package or universe)
			var walk func(t types.Type)
			seen := map[types.Type]bool{}
			walk = func(t types.Type) {
				if seen[t] {
					return
				}
				seen[t] = true
				switch x := t.(type) {
				case *types.TypeParam:
					bad = true
				case *types.Named:
					if x.Obj().Pkg() != nil && x.Obj().Pkg() != p.Types {
						bad = true
					}
					for j := 0; j < x.TypeArgs().Len(); j++ {
						walk(x.TypeArgs().At(j))
					}
				case *types.Pointer:
					walk(x.Elem())
				case *types.Slice:
					walk(x.Elem())
				case *types.Array:
					walk(x.Elem())
				case *types.Map:
					walk(x.Key())
					walk(x.Elem())
				case *types.Chan:
					walk(x.Elem())
				case *types.Basic:
				default:
					bad = true
				}
			}
			walk(ta)
			if bad {
				return nil, fmt.Errorf("type argument %s cannot be written in the callee's file", ta)
			}
			tparams[p.TypesInfo.Defs[nm]] = types.TypeString(ta, qual)
			i++
		}
	}
	type edit struct {
		a, b int
		s    string
	}
	off := func(pos token.Pos) int { return p.Fset.Position(pos).Offset }
	var edits []edit
	edits = append(edits, edit{off(decl.Name.Pos()), off(decl.Name.End()), newName})
	edits = append(edits, edit{off(decl.Type.TypeParams.Pos()), off(decl.Type.TypeParams.End()), ""})
	ast.Inspect(decl, func(n ast.Node) bool {
		if n == ast.Node(decl.Type.TypeParams) {
			return false
		}
		if id, ok := n.(*ast.Ident); ok {
			if s, ok := tparams[p.TypesInfo.Uses[id]]; ok {
				edits = append(edits, edit{off(id.Pos()), off(id.End()), s})
			}
		}
		return true
	})
	start, end := off(decl.Pos()), off(decl.End())
	sort.Slice(edits, func(i, j int) bool { return edits[i].a > edits[j].a })
	cp := append([]byte(nil), declContent[start:end]...)
	for _, e := range edits {
		cp = append(cp[:e.a-start], append([]byte(e.s), cp[e.b-start:]...)...)
	}
	out := map[string][]byte{}
	// redirect the call first (offsets of the call file are still valid), then append the copy
	callContent, err := readMaybeOverlay(callFname, cur)
	if err != nil {
		return nil, err
	}
	nb := append([]byte(nil), callContent[:off(call.Fun.Pos())]...)
	nb = append(nb, newName...)
	nb = append(nb, callContent[off(call.Fun.End()):]...)
	out[callFname] = nb
	base := out[declFile]
	if base == nil {
		base = append([]byte(nil), declContent...)
	}
	base = append(base, "\n\n"...)
	base = append(base, cp...)
	base = append(base, '\n')
	out[declFile] = base
	return out, nil
}

func methodNameInInterfaces(pkg *types.Package, name string) bool {
	sc := pkg.Scope()
	for _, n := range sc.Names() {
		if tn, ok := sc.Lookup(n).(*types.TypeName); ok {
			if it, ok := tn.Type().Underlying().(*types.Interface); ok {
				for i := 0; i < it.NumMethods(); i++ {
					if it.Method(i).Name() == name {
						return true
					}
				}
			}
		}
	}
	switch name {
	case "Error", "String", "Write", "Read", "Close", "Flush", "Unwrap":
		return true
	}
	return false
}

func enclosingFuncName(p *packages.Package, f *ast.File, n ast.Node) string {
	for _, d := range f.Decls {
		if fd, ok := d.(*ast.FuncDecl); ok && fd.Pos() <= n.Pos() && n.End() <= fd.End() {
			return funcKey(p.PkgPath, fd)
		}
	}
	return "?"
}

func shortPos(dir string, fset *token.FileSet, pos token.Pos) string {
	pp := fset.Position(pos)
	return fmt.Sprintf("%s:%d", strings.TrimPrefix(pp.Filename, dir+"/"), pp.Line)
}

// pruneUnusedImports removes imports reported as unused by the type checker.
func pruneUnusedImports(dir, goarch string, cur map[string][]byte) (map[string][]byte, bool) {
	env := append(os.Environ(), "GOFLAGS=-mod=mod", "GOPROXY=off", "GOSUMDB=off", "GOTOOLCHAIN=local", "GOWORK=off", "CGO_ENABLED=0")
	cfg := &packages.Config{Mode: packages.LoadSyntax, Dir: dir, Env: env, Overlay: cur}
	pkgs, err := packages.Load(cfg, ".", "./internal/parser")
	if err != nil {
		return nil, false
	}
	out := map[string][]byte{}
	for k, v := range cur {
		out[k] = v
	}
	fixedAny := false
	for _, p := range pkgs {
		for _, e := range p.Errors {
			// "file.go:12:2: "strings" imported and not used"
			if !strings.Contains(e.Msg, "imported and not used") {
				return nil, false
			}
			parts := strings.SplitN(e.Pos, ":", 3)
			if len(parts) < 2 {
				return nil, false
			}
			fname := parts[0]
			var line int
			fmt.Sscanf(parts[1], "%d", &line)
			b, err := readMaybeOverlay(fname, out)
			if err != nil {
				return nil, false
			}
			lines := strings.Split(string(b), "\n")
			if line-1 < len(lines) {
				lines[line-1] = ""
				out[fname] = []byte(strings.Join(lines, "\n"))
				fixedAny = true
			}
		}
	}
	if !fixedAny {
		return nil, false
	}
	if _, err := loadSyntax(dir, goarch, out); err != nil {
		return nil, false
	}
	return out, true
}

// ---------------------------------------------------------------------------
// rename normalisation

// declaredShapes lists what a package declares, keyed "f:<funcKey>" → signature, "v:<Type>.<field>" →
// field type, "t:<Type>" → underlying type (non-test files only; types are written relative to the package).
func declaredShapes(p *packages.Package) map[string]string {
	out := map[string]string{}
	if p.PkgPath != modPath && p.PkgPath != parserPath {
		return out
	}
	qual := func(other *types.Package) string {
		if other == p.Types {
			return ""
		}
		return other.Path()
	}
	prefix := ""
	if p.PkgPath == parserPath {
		prefix = "parser."
	}
	for _, f := range p.Syntax {
		if strings.HasSuffix(p.Fset.Position(f.Pos()).Filename, "_test.go") {
			continue
		}
		for _, d := range f.Decls {
			switch x := d.(type) {
			case *ast.FuncDecl:
				if obj, ok := p.TypesInfo.Defs[x.Name].(*types.Func); ok {
					sig := obj.Type().(*types.Signature)
					out["f:"+funcKey(p.PkgPath, x)] = types.TypeString(types.NewSignatureType(nil, nil, nil, unnamedTuple(sig.Params()), unnamedTuple(sig.Results()), sig.Variadic()), qual)
				}
			case *ast.GenDecl:
				for _, sp := range x.Specs {
					ts, ok := sp.(*ast.TypeSpec)
					if !ok {
						continue
					}
					obj, ok := p.TypesInfo.Defs[ts.Name].(*types.TypeName)
					if !ok {
						continue
					}
					out["t:"+prefix+ts.Name.Name] = looseShape(obj.Type().Underlying(), qual)
					if st, ok := obj.Type().Underlying().(*types.Struct); ok {
						for i := 0; i < st.NumFields(); i++ {
							fld := st.Field(i)
							if fld.Embedded() {
								continue
							}
							out["v:"+prefix+ts.Name.Name+"."+fld.Name()] = types.TypeString(fld.Type(), qual)
						}
					}
				}
			}
		}
	}
	return out
}

// renameBack undoes pure renames of unexported functions, methods, struct fields and types: when a
// name of the vocabulary is missing from the tree and exactly one declaration outside the vocabulary
// has the same shape (signature and receiver / owner and field type / underlying type), every
// identifier denoting it is renamed back in the overlay. A rename does not change behaviour, so the
// rules (which look several unexported names up by name) see the program they know.
func renameBack(dir, goarch string, cur map[string][]byte, rep *normReport) bool {
	any := false
	for pass := 0; pass < 4; pass++ {
		if !renameBackPass(dir, goarch, cur, rep) {
			break
		}
		any = true
	}
	return any
}

func renameBackPass(dir, goarch string, cur map[string][]byte, rep *normReport) bool {
	pkgs, err := loadSyntax(dir, goarch, cur)
	if err != nil {
		return false
	}
	type edit struct {
		file string
		a, b int
		s    string
	}
	var edits []edit
	for _, p := range pkgs {
		if p.PkgPath != modPath && p.PkgPath != parserPath {
			continue
		}
		have := declaredShapes(p)
		prefix := ""
		if p.PkgPath == parserPath {
			prefix = "parser."
		}
		inPkg := func(key string) bool { return strings.HasPrefix(key, "parser.") == (prefix != "") }
		// missing vocabulary entries and unknown declarations, by kind
		type cand struct{ key, shape string }
		var missing, extra []cand
		for k, v := range knownSigs {
			if inPkg(k) && have["f:"+k] == "" {
				missing = append(missing, cand{"f:" + k, v})
			}
		}
		for k, v := range knownFields {
			if inPkg(k) && have["v:"+k] == "" {
				missing = append(missing, cand{"v:" + k, v})
			}
		}
		for k, v := range knownTypes {
			if inPkg(k) && have["t:"+k] == "" {
				missing = append(missing, cand{"t:" + k, v})
			}
		}
		for k, v := range have {
			switch k[0] {
			case 'f':
				if _, ok := knownSigs[k[2:]]; !ok {
					extra = append(extra, cand{k, v})
				}
			case 'v':
				if _, ok := knownFields[k[2:]]; !ok {
					extra = append(extra, cand{k, v})
				}
			case 't':
				if _, ok := knownTypes[k[2:]]; !ok {
					extra = append(extra, cand{k, v})
				}
			}
		}
		if len(missing) == 0 || len(extra) == 0 {
			continue
		}
		// owner of a key: "(*T).m" → "(*T)", "T.f" → "T", plain → ""
		owner := func(key string) string {
			k := key[2:]
			if i := strings.LastIndexByte(k, '.'); i >= 0 && !(prefix != "" && i == len("parser")) {
				return k[:i]
			}
			return ""
		}
		base := func(key string) string {
			k := key[2:]
			if i := strings.LastIndexByte(k, '.'); i >= 0 {
				return k[i+1:]
			}
			return k
		}
		renames := map[string]string{} // extra key → old base name
		for _, m := range missing {
			if ast.IsExported(base(m.key)) {
				continue
			}
			var match []cand
			for _, e := range extra {
				if e.key[0] == m.key[0] && e.shape == m.shape && owner(e.key) == owner(m.key) && !ast.IsExported(base(e.key)) {
					match = append(match, e)
				}
			}
			if len(match) != 1 {
				continue
			}
			// the candidate must not match another missing entry as well
			n := 0
			for _, m2 := range missing {
				if m2.key[0] == match[0].key[0] && m2.shape == match[0].shape && owner(m2.key) == owner(match[0].key) {
					n++
				}
			}
			if n != 1 {
				continue
			}
			renames[match[0].key] = base(m.key)
		}
		if len(renames) == 0 {
			continue
		}
		// types first: their names are part of every other key
		hasType := false
		for k := range renames {
			if k[0] == 't' {
				hasType = true
			}
		}
		if hasType {
			for k := range renames {
				if k[0] != 't' {
					delete(renames, k)
				}
			}
		}
		// objects to rename
		objs := map[types.Object]string{}
		renamedTypes := map[types.Object]string{}
		for _, f := range p.Syntax {
			if strings.HasSuffix(p.Fset.Position(f.Pos()).Filename, "_test.go") {
				continue
			}
			for _, d := range f.Decls {
				switch x := d.(type) {
				case *ast.FuncDecl:
					if nn, ok := renames["f:"+funcKey(p.PkgPath, x)]; ok {
						if x.Recv != nil && methodNameInInterfaces(p.Types, x.Name.Name) {
							continue
						}
						objs[p.TypesInfo.Defs[x.Name]] = nn
					}
				case *ast.GenDecl:
					for _, sp := range x.Specs {
						ts, ok := sp.(*ast.TypeSpec)
						if !ok {
							continue
						}
						if nn, ok := renames["t:"+prefix+ts.Name.Name]; ok {
							objs[p.TypesInfo.Defs[ts.Name]] = nn
							renamedTypes[p.TypesInfo.Defs[ts.Name]] = nn
						}
						if st, ok := ts.Type.(*ast.StructType); ok {
							for _, fl := range st.Fields.List {
								for _, nm := range fl.Names {
									if nn, ok := renames["v:"+prefix+ts.Name.Name+"."+nm.Name]; ok {
										objs[p.TypesInfo.Defs[nm]] = nn
									}
								}
							}
						}
					}
				}
			}
		}
		for _, f := range p.Syntax {
			fname := p.Fset.Position(f.Pos()).Filename
			if strings.HasSuffix(fname, "_test.go") {
				continue
			}
			ast.Inspect(f, func(n ast.Node) bool {
				id, ok := n.(*ast.Ident)
				if !ok {
					return true
				}
				obj := p.TypesInfo.Uses[id]
				if obj == nil {
					obj = p.TypesInfo.Defs[id]
				}
				// fields and methods of instantiated generic types resolve to distinct objects: compare origins
				if v, ok := obj.(*types.Var); ok {
					obj = v.Origin()
					// an embedded field is named after its type
					if v.Embedded() {
						t := v.Type()
						if pt, isP := t.(*types.Pointer); isP {
							t = pt.Elem()
						}
						if n, isN := t.(*types.Named); isN {
							if nn, ok := renamedTypes[n.Origin().Obj()]; ok {
								edits = append(edits, edit{fname, p.Fset.Position(id.Pos()).Offset, p.Fset.Position(id.End()).Offset, nn})
								return true
							}
						}
					}
				}
				if fn, ok := obj.(*types.Func); ok {
					obj = fn.Origin()
				}
				if nn, ok := objs[obj]; ok && obj != nil {
					edits = append(edits, edit{fname, p.Fset.Position(id.Pos()).Offset, p.Fset.Position(id.End()).Offset, nn})
				}
				return true
			})
		}
		for k, v := range renames {
			rep.Renamed = append(rep.Renamed, k[2:]+" -> "+v)
		}
	}
	if len(edits) == 0 {
		return false
	}
	sort.Strings(rep.Renamed)
	byFile := map[string][]edit{}
	for _, e := range edits {
		byFile[e.file] = append(byFile[e.file], e)
	}
	next := map[string][]byte{}
	for fname, es := range byFile {
		content, err := readMaybeOverlay(fname, cur)
		if err != nil {
			return false
		}
		sort.Slice(es, func(i, j int) bool { return es[i].a > es[j].a })
		nb := append([]byte(nil), content...)
		last := -1
		for _, e := range es {
			if e.a == last {
				continue
			}
			last = e.a
			nb = append(nb[:e.a], append([]byte(e.s), nb[e.b:]...)...)
		}
		next[fname] = nb
	}
	// accept only if the renamed program still type-checks
	trial := map[string][]byte{}
	for k, v := range cur {
		trial[k] = v
	}
	for k, v := range next {
		trial[k] = v
	}
	if _, err := loadSyntax(dir, goarch, trial); err != nil {
		rep.Skipped = append(rep.Skipped, "rename normalisation abandoned: "+err.Error())
		rep.Renamed = nil
		return false
	}
	for k, v := range next {
		cur[k] = v
	}
	return true
}

func unnamedTuple(t *types.Tuple) *types.Tuple {
	var vs []*types.Var
	for i := 0; i < t.Len(); i++ {
		vs = append(vs, types.NewVar(0, nil, "", t.At(i).Type()))
	}
	return types.NewTuple(vs...)
}

// looseShape renders an underlying type with struct field names erased (a renamed type may also have
// renamed fields; those are matched in a later pass).
func looseShape(t types.Type, qual types.Qualifier) string {
	st, ok := t.(*types.Struct)
	if !ok {
		return types.TypeString(t, qual)
	}
	var parts []string
	for i := 0; i < st.NumFields(); i++ {
		f := st.Field(i)
		if f.Embedded() {
			parts = append(parts, "embed:"+types.TypeString(f.Type(), qual))
			continue
		}
		parts = append(parts, types.TypeString(f.Type(), qual))
	}
	return "struct{" + strings.Join(parts, "; ") + "}"
}

// substituteExprBody replaces the call `X.m(args)` by the callee's single returned expression with the
// receiver name replaced by X and the parameter names by the arguments. It applies only when that is
// obviously meaning-preserving: the body is one `return expr`, X and the arguments are side-effect-free
// paths (identifiers, selectors, literals), the receiver occurs only as the base of a selector, every
// parameter occurs at most once, and the expression contains no function literal.
func substituteExprBody(callFset, declFset *token.FileSet, declInfo *types.Info, content, declContent []byte, call *ast.CallExpr, decl *ast.FuncDecl) ([]byte, error) {
	if decl.Body == nil || len(decl.Body.List) != 1 {
		return nil, fmt.Errorf("body is not a single statement")
	}
	ret, ok := decl.Body.List[0].(*ast.ReturnStmt)
	if !ok || len(ret.Results) != 1 {
		return nil, fmt.Errorf("body is not a single `return expr`")
	}
	sel, ok := call.Fun.(*ast.SelectorExpr)
	if !ok || decl.Recv == nil || len(decl.Recv.List) != 1 {
		return nil, fmt.Errorf("not a method call")
	}
	var simple func(e ast.Expr) bool
	simple = func(e ast.Expr) bool {
		switch x := e.(type) {
		case *ast.Ident, *ast.BasicLit:
			return true
		case *ast.SelectorExpr:
			return simple(x.X)
		case *ast.ParenExpr:
			return simple(x.X)
		case *ast.StarExpr:
			return simple(x.X)
		case *ast.UnaryExpr:
			return x.Op == token.AND && simple(x.X)
		}
		return false
	}
	if !simple(sel.X) {
		return nil, fmt.Errorf("receiver expression is not a plain path")
	}
	text := func(fset *token.FileSet, src []byte, n ast.Node) string {
		return string(src[fset.Position(n.Pos()).Offset:fset.Position(n.End()).Offset])
	}
	repl := map[string]string{}
	recvName := ""
	if len(decl.Recv.List[0].Names) == 1 {
		recvName = decl.Recv.List[0].Names[0].Name
		rx := sel.X
		for {
			if u, ok := rx.(*ast.UnaryExpr); ok && u.Op == token.AND {
				rx = u.X
				continue
			}
			if pe, ok := rx.(*ast.ParenExpr); ok {
				rx = pe.X
				continue
			}
			break
		}
		repl[recvName] = text(callFset, content, rx)
		if _, isIdent := rx.(*ast.Ident); !isIdent {
			if _, isSel := rx.(*ast.SelectorExpr); !isSel {
				repl[recvName] = "(" + repl[recvName] + ")"
			}
		}
	}
	var params []string
	if decl.Type.Params != nil {
		for _, f := range decl.Type.Params.List {
			for _, n := range f.Names {
				params = append(params, n.Name)
			}
		}
	}
	if len(params) != len(call.Args) || call.Ellipsis.IsValid() {
		return nil, fmt.Errorf("argument count")
	}
	for i, a := range call.Args {
		if !simple(a) {
			return nil, fmt.Errorf("argument %d is not a plain path", i)
		}
		repl[params[i]] = "(" + text(callFset, content, a) + ")"
	}
	// walk the returned expression
	type edit struct {
		from, to int
		with     string
	}
	var edits []edit
	uses := map[string]int{}
	var bad error
	var stack []ast.Node
	ast.Inspect(ret.Results[0], func(n ast.Node) bool {
		if n == nil {
			stack = stack[:len(stack)-1]
			return true
		}
		defer func() { stack = append(stack, n) }()
		switch x := n.(type) {
		case *ast.FuncLit:
			bad = fmt.Errorf("function literal in the body")
			return true
		case *ast.Ident:
			var parent ast.Node
			if len(stack) > 0 {
				parent = stack[len(stack)-1]
			}
			if ps, ok := parent.(*ast.SelectorExpr); ok && ps.Sel == x {
				return true // a field or method name
			}
			if kv, ok := parent.(*ast.KeyValueExpr); ok && kv.Key == x {
				return true
			}
			with, isRepl := repl[x.Name]
			obj := declInfo.Uses[x]
			if isRepl && obj != nil && obj.Parent() != nil && obj.Parent() != obj.Pkg().Scope() && obj.Parent() != types.Universe {
				if x.Name == recvName {
					if ps, ok := parent.(*ast.SelectorExpr); !ok || ps.X != ast.Expr(x) {
						bad = fmt.Errorf("the receiver is used other than as a selector base")
						return true
					}
				} else {
					uses[x.Name]++
					if uses[x.Name] > 1 {
						bad = fmt.Errorf("parameter %s is used more than once", x.Name)
					}
				}
				edits = append(edits, edit{declFset.Position(x.Pos()).Offset, declFset.Position(x.End()).Offset, with})
				return true
			}
			if obj == nil {
				return true
			}
			if obj.Parent() == types.Universe || (obj.Pkg() != nil && obj.Parent() == obj.Pkg().Scope()) {
				return true
			}
			if _, isTN := obj.(*types.TypeName); isTN {
				bad = fmt.Errorf("the body mentions the type parameter or a local type %s", x.Name)
				return true
			}
			bad = fmt.Errorf("the body mentions the local name %s", x.Name)
		}
		return true
	})
	if bad != nil {
		return nil, bad
	}
	base := declFset.Position(ret.Results[0].Pos()).Offset
	end := declFset.Position(ret.Results[0].End()).Offset
	body := string(declContent[base:end])
	sort.Slice(edits, func(i, j int) bool { return edits[i].from > edits[j].from })
	for _, e := range edits {
		body = body[:e.from-base] + e.with + body[e.to-base:]
	}
	cs, ce := callFset.Position(call.Pos()).Offset, callFset.Position(call.End()).Offset
	out := append([]byte{}, content[:cs]...)
	out = append(out, []byte("("+body+")")...)
	out = append(out, content[ce:]...)
	return out, nil
}

// ---------------------------------------------------------------------------
// expression canonicalisation
//
// canonExprs rewrites, in the non-test files of the module's packages, spellings of a condition that
// are equal for every operand value into the one spelling the reference tree uses:
//
//		b == false, false == b, b != true  ->  !(b)          b == true, b != false  ->  (b)
//		!(x OP y) for a comparison OP over non-floating operands  ->  (x OP' y)     !(!(x)) -> (x)
//		len(s) == 0, len(s) < 1, len(s) <= 0 (s a string)  ->  (s == "")
//		len(s) != 0, len(s) > 0, len(s) >= 1               ->  (s != "")   (also with the constant on the left)
//
//	  x == nil || len(x) == 0 -> (len(x) == 0)      s[a:][b:] -> s[(a)+(b):]
//	  len(s) >= len(p) && s[:len(p)] == p  ->  strings.HasPrefix(s, p)   (in files that import strings)
//	  b = strings.Builder{} -> b.Reset()        b.WriteString(x + "c") -> b.WriteString(x); b.WriteByte('c')
//	  defer func() { x.m() }() -> defer x.m()   (x a never-assigned parameter or receiver, m a method, no arguments)
//
// Operands are copied verbatim and keep their evaluation order. It returns the number of rewrites
// applied (outermost first; nested ones are handled by the next round, which reloads the overlay).
func canonExprs(pkgs []*packages.Package, dir string, cur map[string][]byte, rep *normReport) int {
	total := 0
	for _, p := range pkgs {
		if p.PkgPath != modPath && p.PkgPath != parserPath {
			continue
		}
		for _, f := range p.Syntax {
			fname := p.Fset.Position(f.Pos()).Filename
			if strings.HasSuffix(fname, "_test.go") {
				continue
			}
			content, ok := cur[fname]
			if !ok {
				b, err := os.ReadFile(fname)
				if err != nil {
					continue
				}
				content = b
			}
			type edit struct {
				a, b int
				text string
			}
			var edits []edit
			off := func(pos token.Pos) int { return p.Fset.Position(pos).Offset }
			src := func(e ast.Expr) string { return string(content[off(e.Pos()):off(e.End())]) }
			boolConst := func(e ast.Expr) (val, ok bool) {
				tv, has := p.TypesInfo.Types[e]
				if !has || tv.Value == nil || tv.Value.Kind() != constant.Bool {
					return false, false
				}
				return constant.BoolVal(tv.Value), true
			}
			intConst := func(e ast.Expr) (int64, bool) {
				tv, has := p.TypesInfo.Types[e]
				if !has || tv.Value == nil || tv.Value.Kind() != constant.Int {
					return 0, false
				}
				return constant.Int64Val(tv.Value)
			}
			isBool := func(e ast.Expr) bool {
				t := p.TypesInfo.TypeOf(e)
				if t == nil {
					return false
				}
				b, ok := t.Underlying().(*types.Basic)
				return ok && b.Info()&types.IsBoolean != 0
			}
			isFloaty := func(e ast.Expr) bool {
				t := p.TypesInfo.TypeOf(e)
				if t == nil {
					return true
				}
				b, ok := t.Underlying().(*types.Basic)
				if !ok {
					return false // pointers, interfaces, channels, structs: == and != only, negation is exact
				}
				return b.Info()&(types.IsFloat|types.IsComplex) != 0
			}
			strLenArg := func(e ast.Expr) (ast.Expr, bool) {
				call, ok := ast.Unparen(e).(*ast.CallExpr)
				if !ok || len(call.Args) != 1 {
					return nil, false
				}
				id, ok := call.Fun.(*ast.Ident)
				if !ok || id.Name != "len" {
					return nil, false
				}
				if _, isBuiltin := p.TypesInfo.Uses[id].(*types.Builtin); !isBuiltin {
					return nil, false
				}
				t := p.TypesInfo.TypeOf(call.Args[0])
				if t == nil {
					return nil, false
				}
				b, ok := t.Underlying().(*types.Basic)
				if !ok || b.Info()&types.IsString == 0 {
					return nil, false
				}
				if tv, has := p.TypesInfo.Types[call.Args[0]]; has && tv.Value != nil {
					return nil, false // len of a constant string is itself a constant
				}
				return call.Args[0], true
			}
			negOp := map[token.Token]token.Token{token.EQL: token.NEQ, token.NEQ: token.EQL, token.LSS: token.GEQ, token.GEQ: token.LSS, token.GTR: token.LEQ, token.LEQ: token.GTR}
			flip := map[token.Token]token.Token{token.EQL: token.EQL, token.NEQ: token.NEQ, token.LSS: token.GTR, token.GTR: token.LSS, token.LEQ: token.GEQ, token.GEQ: token.LEQ}
			var isPath func(e ast.Expr) bool
			isPath = func(e ast.Expr) bool {
				switch x := ast.Unparen(e).(type) {
				case *ast.Ident:
					return true
				case *ast.SelectorExpr:
					return isPath(x.X)
				}
				return false
			}
			samePath := func(a, b ast.Expr) bool { return isPath(a) && isPath(b) && src(ast.Unparen(a)) == src(ast.Unparen(b)) }
			lenArg := func(e ast.Expr) (ast.Expr, bool) {
				call, ok := ast.Unparen(e).(*ast.CallExpr)
				if !ok || len(call.Args) != 1 {
					return nil, false
				}
				id, ok := call.Fun.(*ast.Ident)
				if !ok || id.Name != "len" {
					return nil, false
				}
				if _, isBuiltin := p.TypesInfo.Uses[id].(*types.Builtin); !isBuiltin {
					return nil, false
				}
				return call.Args[0], true
			}
			isNilIdent := func(e ast.Expr) bool {
				id, ok := ast.Unparen(e).(*ast.Ident)
				if !ok {
					return false
				}
				_, isNil := p.TypesInfo.Uses[id].(*types.Nil)
				return isNil
			}
			isBuilder := func(e ast.Expr) bool {
				t := p.TypesInfo.TypeOf(e)
				if t == nil {
					return false
				}
				n, ok := t.(*types.Named)
				return ok && n.Obj().Pkg() != nil && n.Obj().Pkg().Path() == "strings" && n.Obj().Name() == "Builder"
			}
			importsStrings := false
			for _, im := range f.Imports {
				if im.Path.Value == `"strings"` && im.Name == nil {
					importsStrings = true
				}
			}
			// identifiers that are assigned, or whose address is taken, somewhere in a function (for the defer rewrite)
			reassigned := func(fd *ast.FuncDecl) map[types.Object]bool {
				m := map[types.Object]bool{}
				ast.Inspect(fd.Body, func(n ast.Node) bool {
					switch x := n.(type) {
					case *ast.AssignStmt:
						if x.Tok != token.DEFINE {
							for _, l := range x.Lhs {
								if id, ok := ast.Unparen(l).(*ast.Ident); ok {
									m[p.TypesInfo.ObjectOf(id)] = true
								}
							}
						}
					case *ast.IncDecStmt:
						if id, ok := ast.Unparen(x.X).(*ast.Ident); ok {
							m[p.TypesInfo.ObjectOf(id)] = true
						}
					case *ast.UnaryExpr:
						if x.Op == token.AND {
							if id, ok := ast.Unparen(x.X).(*ast.Ident); ok {
								m[p.TypesInfo.ObjectOf(id)] = true
							}
						}
					case *ast.RangeStmt:
						if x.Tok != token.DEFINE {
							for _, l := range []ast.Expr{x.Key, x.Value} {
								if id, ok := l.(*ast.Ident); ok {
									m[p.TypesInfo.ObjectOf(id)] = true
								}
							}
						}
					}
					return true
				})
				return m
			}
			var curFunc *ast.FuncDecl
			var curReassigned map[types.Object]bool
			var visit func(n ast.Node) bool
			visit = func(n ast.Node) bool {
				switch e := n.(type) {
				case *ast.DeferStmt:
					// `defer func() { x.m() }()` -> `defer x.m()`: the same call at the same moment when x is a
					// parameter or receiver that is never assigned and the call has no arguments to evaluate early
					lit, ok := e.Call.Fun.(*ast.FuncLit)
					if !ok || len(e.Call.Args) != 0 || lit.Type.Params.NumFields() != 0 || (lit.Type.Results != nil && lit.Type.Results.NumFields() != 0) || len(lit.Body.List) != 1 || curFunc == nil {
						return true
					}
					es, ok := lit.Body.List[0].(*ast.ExprStmt)
					if !ok {
						return true
					}
					call, ok := es.X.(*ast.CallExpr)
					if !ok || len(call.Args) != 0 || !isPath(call.Fun) {
						return true
					}
					sel, ok := call.Fun.(*ast.SelectorExpr)
					if !ok {
						return true
					}
					if _, isMethod := p.TypesInfo.Uses[sel.Sel].(*types.Func); !isMethod {
						return true // a func-typed field is read at defer time by the direct form
					}
					// every field on the path must be a plain struct field reached from a never-assigned parameter
					root := ast.Unparen(sel.X)
					for {
						if sx, ok := root.(*ast.SelectorExpr); ok {
							root = ast.Unparen(sx.X)
							continue
						}
						break
					}
					rid, ok := root.(*ast.Ident)
					if !ok {
						return true
					}
					obj, _ := p.TypesInfo.ObjectOf(rid).(*types.Var)
					if obj == nil || curReassigned[obj] {
						return true
					}
					isParam := false
					for _, fl := range []*ast.FieldList{curFunc.Recv, curFunc.Type.Params} {
						if fl == nil {
							continue
						}
						for _, fld := range fl.List {
							for _, nm := range fld.Names {
								if p.TypesInfo.ObjectOf(nm) == types.Object(obj) {
									isParam = true
								}
							}
						}
					}
					// the receiver expression must be the parameter itself or the address of one of its fields taken
					// implicitly (x.mu.Unlock()): a pointer-typed field in between could be reassigned meanwhile
					if !isParam {
						return true
					}
					if inner, ok := ast.Unparen(sel.X).(*ast.SelectorExpr); ok {
						if _, isPtr := p.TypesInfo.TypeOf(inner).Underlying().(*types.Pointer); isPtr {
							return true
						}
						if _, deeper := ast.Unparen(inner.X).(*ast.SelectorExpr); deeper {
							return true
						}
					}
					edits = append(edits, edit{off(e.Pos()), off(e.End()), "defer " + src(call)})
					return false
				case *ast.AssignStmt:
					// `b = strings.Builder{}` -> `b.Reset()`
					if e.Tok == token.ASSIGN && len(e.Lhs) == 1 && len(e.Rhs) == 1 && isPath(e.Lhs[0]) && isBuilder(e.Lhs[0]) {
						if cl, ok := ast.Unparen(e.Rhs[0]).(*ast.CompositeLit); ok && len(cl.Elts) == 0 && isBuilder(cl) {
							edits = append(edits, edit{off(e.Pos()), off(e.End()), src(e.Lhs[0]) + ".Reset()"})
							return false
						}
					}
				case *ast.ExprStmt:
					// `b.WriteString(x + "c")` -> `b.WriteString(x); b.WriteByte('c')` (a one-byte literal)
					if call, ok := e.X.(*ast.CallExpr); ok && len(call.Args) == 1 {
						if sel, ok := call.Fun.(*ast.SelectorExpr); ok && sel.Sel.Name == "WriteString" && isPath(sel.X) && isBuilder(sel.X) {
							if be, ok := ast.Unparen(call.Args[0]).(*ast.BinaryExpr); ok && be.Op == token.ADD {
								if tv, has := p.TypesInfo.Types[be.Y]; has && tv.Value != nil && tv.Value.Kind() == constant.String {
									if lit := constant.StringVal(tv.Value); len(lit) == 1 && lit[0] < 0x80 {
										if _, lconst := p.TypesInfo.Types[be.X]; lconst && p.TypesInfo.Types[be.X].Value == nil {
											edits = append(edits, edit{off(e.Pos()), off(e.End()), src(sel.X) + ".WriteString(" + src(be.X) + "); " + src(sel.X) + ".WriteByte(" + strconv.QuoteRuneToASCII(rune(lit[0])) + ")"})
											return false
										}
									}
								}
							}
						}
					}
				case *ast.SliceExpr:
					// `s[a:][b:]` -> `s[(a)+(b):]`
					if e.Low != nil && e.High == nil && e.Max == nil && !e.Slice3 {
						if in, ok := ast.Unparen(e.X).(*ast.SliceExpr); ok && in.Low != nil && in.High == nil && in.Max == nil && !in.Slice3 && isPath(in.X) {
							edits = append(edits, edit{off(e.Pos()), off(e.End()), src(in.X) + "[(" + src(in.Low) + ")+(" + src(e.Low) + "):]"})
							return false
						}
					}
				case *ast.BinaryExpr:
					if e.Op == token.LOR {
						// `x == nil || len(x) == 0` -> `len(x) == 0` (either order)
						for _, pr := range [][2]ast.Expr{{e.X, e.Y}, {e.Y, e.X}} {
							nb, ok1 := ast.Unparen(pr[0]).(*ast.BinaryExpr)
							lb, ok2 := ast.Unparen(pr[1]).(*ast.BinaryExpr)
							if !ok1 || !ok2 || nb.Op != token.EQL || lb.Op != token.EQL {
								continue
							}
							var subj ast.Expr
							switch {
							case isNilIdent(nb.Y):
								subj = nb.X
							case isNilIdent(nb.X):
								subj = nb.Y
							default:
								continue
							}
							la, isLen := lenArg(lb.X)
							k, isK := intConst(lb.Y)
							if isLen && isK && k == 0 && samePath(subj, la) {
								edits = append(edits, edit{off(e.Pos()), off(e.End()), "(" + src(lb) + ")"})
								return false
							}
						}
					}
					if e.Op == token.LAND && importsStrings {
						// `len(s) >= len(p) && s[:len(p)] == p` -> `strings.HasPrefix(s, p)`
						gb, ok1 := ast.Unparen(e.X).(*ast.BinaryExpr)
						eb, ok2 := ast.Unparen(e.Y).(*ast.BinaryExpr)
						lead := ""
						if ok1 && gb.Op == token.LAND {
							// `p && len(s) >= len(q) && s[:len(q)] == q` parses as `(p && len…) && s[…] == q`
							if inner, ok := ast.Unparen(gb.Y).(*ast.BinaryExpr); ok {
								if _, paren := e.X.(*ast.ParenExpr); !paren {
									lead = src(gb.X) + " && "
									gb = inner
								}
							}
						}
						if ok1 && ok2 && gb.Op == token.GEQ && eb.Op == token.EQL {
							ls, okS := lenArg(gb.X)
							lp, okP := lenArg(gb.Y)
							if sl, ok := ast.Unparen(eb.X).(*ast.SliceExpr); ok && okS && okP && sl.Low == nil && sl.High != nil && !sl.Slice3 {
								if hp, okH := lenArg(sl.High); okH && samePath(sl.X, ls) && samePath(hp, lp) && samePath(eb.Y, lp) {
									if b, ok := p.TypesInfo.TypeOf(ls).Underlying().(*types.Basic); ok && b.Info()&types.IsString != 0 {
										edits = append(edits, edit{off(e.Pos()), off(e.End()), lead + "strings.HasPrefix(" + src(ls) + ", " + src(lp) + ")"})
										return false
									}
								}
							}
						}
					}
					if e.Op == token.EQL || e.Op == token.NEQ {
						x, y := e.X, e.Y
						cv, isC := boolConst(y)
						if !isC {
							if cv2, isC2 := boolConst(x); isC2 {
								x, y, cv, isC = e.Y, e.X, cv2, true
							}
						}
						if isC && isBool(x) {
							if _, both := boolConst(x); !both {
								positive := (e.Op == token.EQL) == cv
								if positive {
									edits = append(edits, edit{off(e.Pos()), off(e.End()), "(" + src(x) + ")"})
								} else {
									edits = append(edits, edit{off(e.Pos()), off(e.End()), "!(" + src(x) + ")"})
								}
								return false
							}
						}
					}
					if _, isCmp := negOp[e.Op]; isCmp {
						op, l, r := e.Op, e.X, e.Y
						if _, lc := intConst(l); lc {
							op, l, r = flip[op], r, l
						}
						if k, rc := intConst(r); rc {
							if s, isLen := strLenArg(l); isLen {
								verdict := ""
								switch {
								case (op == token.EQL && k == 0) || (op == token.LSS && k == 1) || (op == token.LEQ && k == 0):
									verdict = "=="
								case (op == token.NEQ && k == 0) || (op == token.GTR && k == 0) || (op == token.GEQ && k == 1):
									verdict = "!="
								}
								if verdict != "" {
									edits = append(edits, edit{off(e.Pos()), off(e.End()), "(" + src(s) + " " + verdict + ` "")`})
									return false
								}
							}
						}
					}
				case *ast.UnaryExpr:
					if e.Op == token.NOT {
						inner := ast.Unparen(e.X)
						if u, ok := inner.(*ast.UnaryExpr); ok && u.Op == token.NOT {
							edits = append(edits, edit{off(e.Pos()), off(e.End()), "(" + src(u.X) + ")"})
							return false
						}
						if b, ok := inner.(*ast.BinaryExpr); ok {
							if nop, isCmp := negOp[b.Op]; isCmp && !isFloaty(b.X) && !isFloaty(b.Y) {
								if _, c1 := boolConst(b.X); !c1 {
									if _, c2 := boolConst(b.Y); !c2 {
										edits = append(edits, edit{off(e.Pos()), off(e.End()), "(" + src(b.X) + " " + nop.String() + " " + src(b.Y) + ")"})
										return false
									}
								}
							}
						}
					}
				}
				return true
			}
			for _, d := range f.Decls {
				if fd, ok := d.(*ast.FuncDecl); ok && fd.Body != nil {
					curFunc, curReassigned = fd, reassigned(fd)
					ast.Inspect(fd.Body, visit)
				}
			}
			if len(edits) == 0 {
				continue
			}
			sort.Slice(edits, func(i, j int) bool { return edits[i].a > edits[j].a })
			nb := append([]byte(nil), content...)
			for _, ed := range edits {
				rep.Canon = append(rep.Canon, fmt.Sprintf("%s: %s -> %s", shortPos(dir, p.Fset, p.Fset.File(f.Pos()).Pos(ed.a)), string(content[ed.a:ed.b]), ed.text))
				nb = append(nb[:ed.a], append([]byte(ed.text), nb[ed.b:]...)...)
			}
			cur[fname] = nb
			total += len(edits)
		}
	}
	return total
}
