package main

import (
	"go/constant"
	"go/token"
	"go/types"
	"net/textproto"

	"golang.org/x/tools/go/ssa"
)

func init() {
	prop(&PropertySpec{
		ID: "C16", Level: "other",
		Rules: []string{"R16.1", "R16.2", "R16.3", "R16.4", "R16.5", "R16.6", "R05.1"},
		Explanation: "R16.1 Session typestate: the Content-Type header store and the upgrade flush occur only while not upgraded, in that order; didUpgrade is set (only to true, only in doUpgrade) on that flush's nil edge; the message body is written to s.Res only after doUpgrade() == nil; Flush returns nil without its own Res.Flush only when didUpgrade changed across doUpgrade (i.e. the upgrade flushed); " +
			"R16.2 every error produced in Send/Flush/doUpgrade is returned on its non-nil edge; R16.3 ServeHTTP: Upgrade error -> http.Error 500 and no Subscribe; rejected session -> nothing written; Subscribe error -> http.Error(err.Error(), 500); Subscribe receives r.Context() and getSubscription's value; " +
			"R16.4 Subscription fields (Client = the session, LastEventID = sess.LastEventID, Topics = OnSession's topics when allowed and non-empty, else the default slice holding DefaultTopic); R16.5 Upgrade parses element 0 of the canonical Last-Event-Id header through NewID when present and non-empty; R16.6 flusher unwrapping order and delegation; R05.1 header/content-type constants agree with the client.",
		NotDecided: "body byte equality; behaviour of concrete ResponseWriters; http.Error's own writes.",
	})
	prop(&PropertySpec{
		ID: "C20", Level: "other",
		Rules: []string{"R20.1", "R20.2", "R20.3", "R20.4", "R11.5", "R11.7", "R11.4", "R01.9", "R02.5", "R01.12"},
		Explanation: "R20.1 the configured limit flows unchanged into bufio.Scanner.Buffer on both entry points (ReadConfig.MaxEventSize under cfg != nil && > 0; Connection.Buffer's arguments are stored and forwarded by the parser factory; Parser.Buffer forwards both to the scanner created in New and used by Next, which is created with the split function); " +
			"R20.2 the split function returns a token only after the scan stopped at a line break followed by a second line break, or when atEOF holds: the early `request more data` return covers advance==len(data) && !atEOF, so an oversized event makes bufio report ErrTooLong instead of yielding a truncated token; R20.4 more data is requested ((0, nil, nil)) only for empty input or after the scan reached the end of the buffered data without finding the end of an event (so a complete event sitting in the buffer is always delivered, and events below the limit never hit ErrTooLong); R20.3 the token is a sub-slice of the input starting at the skipped-blank-lines offset and ending at advance; R11.5/R11.7/R11.4 a scanner that stops (e.g. with ErrTooLong) always ends the iteration with an error; R02.5 delivered values own their memory (they are not views of the scanner's reused buffer); R01.9 the field parser consumes exactly one line per step, so a partially received line is never interpreted.",
		NotDecided: "panic freedom of the index arithmetic; the exact number of bytes bufio reads before ErrTooLong; 'intact below the limit'.",
	})
	prop(&PropertySpec{
		ID: "C05", Level: "other",
		Rules: []string{"R05.1", "R16.4", "R16.5", "R16.1", "R10.1", "R10.2", "R01.7", "R04.3", "R04.2", "R11.4", "R11.5", "R17.1"},
		Explanation: "The property is a composition; static analysis contributes (a) the four mechanisms named in its anchors as link rules: R16.4/R16.5 Upgrade reads the Last-Event-Id header into the subscription, R10.1/R10.2 the client stores the dispatched ID and sends it on retry, R01.7 an event cut before its blank line is discarded unless the body ended cleanly, R04.3/R04.2 Joe replays then registers atomically and live/replayed copies carry the same ID, R11.4/R11.5 a dropped connection is always reported so that it is retried, R16.1 the session typestate (a response always starts with the event-stream header, so the reconnecting client's validator accepts it), R17.1 a dead old session that fails during fan-out does not stop delivery to the new one; " +
			"and (b) R05.1 wire-contract agreement: the header key the client writes canonicalises to the constant the server indexes with (itself canonical, as it is used as a raw map key), the server's Content-Type value equals what DefaultValidator compares with, both sides share the field-name constants.",
		NotDecided: "the end-to-end sequence equality over cut sequences and timings; server survival beyond C06's rules; replay start-index arithmetic beyond R08.5.",
	})
	register(&Rule{ID: "R16.1", Title: "Session typestate: header, flush, then body; didUpgrade discipline", Floor: 6, Run: r16_1})
	register(&Rule{ID: "R16.2", Title: "Session errors are returned", Floor: 3, Run: r16_2})
	register(&Rule{ID: "R16.3", Title: "ServeHTTP outcomes", Floor: 4, Run: r16_3})
	register(&Rule{ID: "R16.4", Title: "Subscription fields built by getSubscription", Floor: 4, Run: r16_4})
	register(&Rule{ID: "R16.5", Title: "Last-Event-Id parsing in Upgrade", Floor: 2, Run: r16_5})
	register(&Rule{ID: "R16.6", Title: "flusher unwrapping order and delegation", Floor: 3, Run: r16_6})
	register(&Rule{ID: "R05.1", Title: "client/server wire-contract constants agree", Floor: 3, Run: r05_1})
	register(&Rule{ID: "R20.1", Title: "buffer limit wiring into bufio.Scanner.Buffer", Floor: 4, Run: r20_1})
	register(&Rule{ID: "R20.2", Title: "split function emits a token only for a complete event or at EOF", Floor: 2, Run: r20_2})
	register(&Rule{ID: "R20.3", Title: "token is data[start:advance]; advance is returned", Floor: 1, Run: r20_3})
	register(&Rule{ID: "R20.4", Title: "more data is requested only when the scan reached the end of the buffer", Floor: 2, Run: r20_4})
}

func isResOf(v ssa.Value, s ssa.Value) bool {
	b, ok := isFieldLoad(stripConv(v), "Session", "Res")
	return ok && (b == s || carriesOnly(b, s))
}

func r16_1(c *Ctx) {
	P := c.P
	du := P.Fn("(*Session).doUpgrade")
	send := P.Fn("(*Session).Send")
	flush := P.Fn("(*Session).Flush")
	if du == nil || send == nil || flush == nil {
		c.anchor("Session.Send/Flush/doUpgrade")
		return
	}
	s := du.Params[0]
	isFlag := func(v ssa.Value) bool { _, ok := isFieldLoad(v, "Session", "didUpgrade"); return ok }
	var hdr *ssa.MapUpdate
	var fl ssa.CallInstruction
	eachInstrDeep(du, func(in ssa.Instruction) {
		if mu, ok := in.(*ssa.MapUpdate); ok {
			if call, ok := mu.Map.(*ssa.Call); ok && call.Call.IsInvoke() && call.Call.Method.Name() == "Header" && isResOf(call.Call.Value, s) {
				hdr = mu
			}
		}
		if ci, ok := isInvoke(in, "sse", "ResponseWriter", "Flush"); ok && isResOf(ci.Common().Value, s) {
			fl = ci
		}
	})
	name := fnLabel(du)
	if hdr == nil || fl == nil {
		c.bad(name+":header-then-flush", P.pos(du.Pos()), "doUpgrade does not (set the Content-Type header on s.Res.Header(), flush s.Res)")
		return
	}
	keyOK := false
	if k, ok := constString(hdr.Key); ok && textproto.CanonicalMIMEHeaderKey(k) == "Content-Type" && k == "Content-Type" {
		keyOK = true
	}
	valOK := false
	if a, ok := loadedFrom(hdr.Value); ok {
		if g, ok := a.(*ssa.Global); ok {
			if v, ok := globalStringSliceInit(P, g); ok && len(v) == 1 && v[0] == "text/event-stream" {
				valOK = true
			}
		}
	}
	c.check(keyOK && valOK, name+":content-type", P.ipos(hdr), "Header()[\"Content-Type\"] = [\"text/event-stream\"] (canonical key, as the map is written directly)", "the header written is not the canonical Content-Type key with the single value text/event-stream")
	// stores to didUpgrade anywhere: only in doUpgrade (the typestate analysis below models exactly that function)
	nSt := 0
	for _, a := range P.fieldAccesses("Session", "didUpgrade") {
		if a.Kind != "write" {
			if a.Kind == "addr" {
				c.bad(fnLabel(a.Fn)+":addr(didUpgrade)", P.ipos(a.Use), "address of didUpgrade escapes")
			}
			continue
		}
		nSt++
		st := a.Use.(*ssa.Store)
		c.check(a.Fn == du || a.Fn == send || a.Fn == flush, fnLabel(a.Fn)+":store(didUpgrade)", P.ipos(st), "didUpgrade is written only inside the analysed Session methods", "didUpgrade is written outside Send/Flush/doUpgrade: the typestate can change behind the protocol's back")
	}
	if nSt == 0 {
		c.bad(name+":store(didUpgrade)", P.pos(du.Pos()), "didUpgrade is never set: the header is set and flushed before every message")
	}
	_ = isFlag
	// path-sensitive typestate analysis (two-point domain, doUpgrade inlined)
	ai := &sessAI{P: P, doUp: du}
	for _, spec := range []struct {
		fn      *ssa.Function
		isFlush bool
		isSend  bool
	}{{send, false, true}, {flush, true, false}} {
		for _, initial := range []bool{false, true} {
			paths := ai.run(spec.fn, initial)
			st := "upgraded"
			if !initial {
				st = "not-upgraded"
			}
			cn := fnLabel(spec.fn) + ":typestate(from " + st + ")"
			if len(paths) == 0 {
				c.undecided(cn, P.pos(spec.fn.Pos()), "no path could be enumerated")
				continue
			}
			bad := 0
			for _, pth := range paths {
				if msg := checkSessionPath(initial, pth, spec.isFlush, spec.isSend); msg != "" {
					bad++
					at := P.pos(spec.fn.Pos())
					if pth.ret != nil {
						at = P.ipos(pth.ret)
					}
					var w []string
					for _, e := range pth.events {
						w = append(w, e.kind+map[bool]string{true: "(ok)", false: "(failed)"}[e.ok]+" at "+P.ipos(e.at))
					}
					c.ob(cn, at, Violated, msg, w...)
				}
			}
			if bad == 0 {
				c.ok(cn, P.pos(spec.fn.Pos()), itoa(len(paths))+" paths conform to the session automaton (header, flush, then body; errors returned; nil Flush implies a successful Res.Flush)")
			}
		}
	}
}

// edgesWhere collects, over all Ifs of fn, the edges selected by pick.
func edgesWhere(fn *ssa.Function, pick func(*ssa.If) (int, bool)) map[cfgEdge]bool {
	out := map[cfgEdge]bool{}
	for _, ifi := range ifsIn(fn) {
		if e, ok := pick(ifi); ok {
			out[cfgEdge{ifi.Block(), e}] = true
		}
	}
	return out
}

// globalStringSliceInit: constant []string content of a global.
func globalStringSliceInit(P *Program, g *ssa.Global) ([]string, bool) {
	init := P.SSE.Func("init")
	if init == nil {
		return nil, false
	}
	var out []string
	ok := false
	eachInstrDeep(init, func(in ssa.Instruction) {
		st, isSt := in.(*ssa.Store)
		if !isSt || st.Addr != ssa.Value(g) {
			return
		}
		sl, isSl := st.Val.(*ssa.Slice)
		if !isSl {
			return
		}
		al, isAl := sl.X.(*ssa.Alloc)
		if !isAl {
			return
		}
		arr, isArr := deref(al.Type()).Underlying().(*types.Array)
		if !isArr {
			return
		}
		vals := make([]string, arr.Len())
		good := true
		for _, r := range *al.Referrers() {
			ia, isIA := r.(*ssa.IndexAddr)
			if !isIA {
				continue
			}
			idx, okI := constInt(ia.Index)
			for _, rr := range *ia.Referrers() {
				if s2, isS := rr.(*ssa.Store); isS && s2.Addr == ssa.Value(ia) {
					sv, okS := constString(s2.Val)
					if !okI || !okS || int(idx) >= len(vals) {
						good = false
						continue
					}
					vals[idx] = sv
				}
			}
		}
		if good {
			out, ok = vals, true
		}
	})
	for _, fn := range P.Funcs {
		if fn == init {
			continue
		}
		eachInstrDeep(fn, func(in ssa.Instruction) {
			if st, isSt := in.(*ssa.Store); isSt {
				if st.Addr == ssa.Value(g) {
					ok = false
				}
				// element writes through the global's slice
				if ia, isIA := st.Addr.(*ssa.IndexAddr); isIA {
					if a, isL := loadedFrom(ia.X); isL && a == ssa.Value(g) {
						ok = false
					}
				}
			}
		})
	}
	return out, ok
}

func r16_2(c *Ctx) {
	P := c.P
	for _, nm := range []string{"(*Session).Send", "(*Session).Flush", "(*Session).doUpgrade"} {
		fn := P.Fn(nm)
		if fn == nil {
			c.anchor(nm)
			continue
		}
		eachInstrDeep(fn, func(in ssa.Instruction) {
			call, ok := in.(*ssa.Call)
			if !ok {
				return
			}
			var errV ssa.Value
			sig := call.Call.Signature()
			switch sig.Results().Len() {
			case 1:
				if sig.Results().At(0).Type().String() == "error" {
					errV = call
				}
			case 2:
				if sig.Results().At(1).Type().String() == "error" {
					for _, r := range *call.Referrers() {
						if e, ok := r.(*ssa.Extract); ok && e.Index == 1 {
							errV = e
						}
					}
					if errV == nil {
						c.bad(fnLabel(fn)+":error-dropped", P.ipos(call), "the error result of "+call.Call.String()+" is discarded: the first write/flush error is not returned to the caller")
						return
					}
				}
			}
			if errV == nil {
				return
			}
			name := fnLabel(fn) + ":error-of(" + shortCallee(call) + ")"
			returned := false
			for _, ret := range returnsOf(fn) {
				for _, s := range sources(ret.Results[0]) {
					if s == errV {
						returned = true
					}
				}
			}
			// and every path on which it is non-nil returns it
			leak := false
			for _, ifi := range ifsIn(fn) {
				if s, ok := nilEdge(ifi, func(v ssa.Value) bool { return v == errV }); ok {
					forward([]startPoint{atEdge(ifi.Block(), 1-s)}, func(x ssa.Instruction) searchAction {
						if r, ok := x.(*ssa.Return); ok {
							for _, sv := range sources(r.Results[0]) {
								if sv != errV {
									leak = true
								}
							}
						}
						return cont
					})
				}
			}
			c.check(returned && !leak, name, P.ipos(call), "the error is returned to the caller", "an error from "+shortCallee(call)+" is not returned on its non-nil edge")
		})
	}
}

func shortCallee(call *ssa.Call) string {
	if call.Call.IsInvoke() {
		return call.Call.Method.Name()
	}
	if f := call.Call.StaticCallee(); f != nil {
		return f.Name()
	}
	return "func value"
}

func r16_3(c *Ctx) {
	P := c.P
	fn := P.Fn("(*Server).ServeHTTP")
	if fn == nil || len(fn.Params) != 3 {
		c.anchor("(*Server).ServeHTTP")
		return
	}
	w, r := fn.Params[1], fn.Params[2]
	isW := func(v ssa.Value) bool { return carriesOnly(v, w) }
	isR := func(v ssa.Value) bool { return carriesOnly(v, r) }
	name := fnLabel(fn)
	var up, gs *ssa.Call
	var sub ssa.CallInstruction
	var httpErrs []*ssa.Call
	eachInstrDeep(fn, func(in ssa.Instruction) {
		if call, ok := isModCall(in, "Upgrade"); ok {
			up = call
		}
		if call, ok := isModCall(in, "(*Server).getSubscription"); ok {
			gs = call
		}
		if ci, ok := isInvoke(in, "sse", "Provider", "Subscribe"); ok {
			sub = ci
		}
		if call, ok := isStaticCall(in, "net/http.Error"); ok {
			httpErrs = append(httpErrs, call)
		}
	})
	// the subscription is built by getSubscription, or in place around the OnSession call
	var on *ssa.Call
	eachInstrDeep(fn, func(in ssa.Instruction) {
		if call, ok := in.(*ssa.Call); ok && call.Call.StaticCallee() == nil && !call.Call.IsInvoke() {
			if _, ok := isFieldLoad(call.Call.Value, "Server", "OnSession"); ok {
				on = call
			}
		}
	})
	if up == nil || (gs == nil && on == nil) || sub == nil {
		c.bad(name+":shape", P.pos(fn.Pos()), "ServeHTTP does not (Upgrade, build the subscription with OnSession's verdict, provider.Subscribe)")
		return
	}
	upErr := func(v ssa.Value) bool {
		e, ok := v.(*ssa.Extract)
		return ok && e.Index == 1 && e.Tuple == ssa.Value(up)
	}
	upSess := func(v ssa.Value) bool {
		e, ok := v.(*ssa.Extract)
		return ok && e.Index == 0 && e.Tuple == ssa.Value(up)
	}
	gsOK := func(v ssa.Value) bool {
		e, ok := v.(*ssa.Extract)
		return ok && e.Index == 1 && e.Tuple == ssa.Value(gs)
	}
	is500 := func(call *ssa.Call) bool {
		k, ok := constInt(call.Call.Args[2])
		return ok && k == 500 && isW(call.Call.Args[0])
	}
	// Upgrade called with (w, r); error => 500 and return before Subscribe
	c.check(isW(up.Call.Args[0]) && isR(up.Call.Args[1]), name+":upgrade-args", P.ipos(up), "Upgrade(w, r)", "Upgrade is not called with the handler's writer and request")
	{
		got := false
		for _, he := range httpErrs {
			if guardedByNil(fn, he.Block(), upErr, false) && is500(he) {
				got = true
			}
		}
		noSub := !guardedReach(fn, upErr, false, sub)
		c.check(got && noSub, name+":upgrade-error", P.ipos(up), "an Upgrade error is answered with 500 and the session is not subscribed", "an Upgrade error is not answered with http.Error(w, ..., 500), or the provider is subscribed anyway")
	}
	// getSubscription(sess) and rejection: return without any call receiving w / sess.Res
	if gs != nil {
		c.check(len(gs.Call.Args) == 2 && upSess(gs.Call.Args[1]) && guardedByNil(fn, gs.Block(), upErr, true), name+":get-subscription", P.ipos(gs), "getSubscription receives the upgraded session", "getSubscription does not receive the session returned by Upgrade")
	} else {
		c.check(guardedByNil(fn, on.Block(), upErr, true), name+":get-subscription", P.ipos(on), "the subscription is built (OnSession consulted) only for an upgraded session", "OnSession is consulted although Upgrade failed")
	}
	{
		wrote := false
		for _, ifi := range ifsIn(fn) {
			s, ok := boolEdge(ifi, gsOK)
			if !ok {
				continue
			}
			forward([]startPoint{atEdge(ifi.Block(), 1-s)}, func(in ssa.Instruction) searchAction {
				if ci, ok := in.(ssa.CallInstruction); ok {
					for _, a := range ci.Common().Args {
						if isW(a) || upSess(a) {
							wrote = true
						}
					}
					if ci.Common().IsInvoke() && isW(ci.Common().Value) {
						wrote = true
					}
				}
				return cont
			})
		}
		var at ssa.Instruction = on
		if gs != nil {
			at = gs
		}
		c.check(!wrote && !guardedReach(fn, gsOK, false, sub), name+":rejected", P.ipos(at), "a rejected session returns without writing anything and without subscribing", "when OnSession rejects the request ServeHTTP still writes to the response or subscribes")
	}
	// Subscribe(r.Context(), sub)
	{
		ctxOK, subOK := false, false
		args := sub.Common().Args
		if len(args) == 2 {
			if call, ok := isStaticCall(args[0], "(*net/http.Request).Context"); ok && isR(call.Call.Args[0]) {
				ctxOK = true
			}
			for _, s := range sources(args[1]) {
				if e, ok := s.(*ssa.Extract); ok && e.Index == 0 && gs != nil && e.Tuple == ssa.Value(gs) {
					subOK = true
				}
				// built in place: a local Subscription whose Client is the upgraded session (R16.4 checks its fields)
				if u, ok := s.(*ssa.UnOp); ok && u.Op == token.MUL && gs == nil {
					if al, ok := cellRoot(u.X).(*ssa.Alloc); ok && typeIs(al.Type(), "sse", "Subscription") {
						subOK = true
					}
				}
			}
		}
		_, provOK := isFieldLoad(sub.Common().Value, "Server", "provider")
		accepted := guardedByBool(fn, sub.Block(), gsOK, true) || (gs == nil && !guardedReach(fn, gsOK, false, sub))
		c.check(ctxOK && subOK && provOK && accepted, name+":subscribe-args", P.ipos(sub), "provider.Subscribe(r.Context(), the subscription) for an accepted session", "Subscribe is not called with the request's context and the subscription built for this session (or for a rejected session)")
	}
	// Subscribe error => http.Error(w, err.Error(), 500)
	{
		sv := sub.Value()
		got := false
		for _, he := range httpErrs {
			if !guardedByNil(fn, he.Block(), func(v ssa.Value) bool { return v == ssa.Value(sv) }, false) || !is500(he) {
				continue
			}
			if call, ok := he.Call.Args[1].(*ssa.Call); ok && call.Call.IsInvoke() && call.Call.Method.Name() == "Error" && call.Call.Value == ssa.Value(sv) {
				got = true
			}
		}
		c.check(got, name+":subscribe-error", P.ipos(sub), "a Subscribe error is answered with http.Error(w, err.Error(), 500)", "a Subscribe error is not answered with http.Error(w, err.Error(), 500)")
	}
	// no http.Error elsewhere
	for _, he := range httpErrs {
		okk := guardedByNil(fn, he.Block(), upErr, false) || guardedByNil(fn, he.Block(), func(v ssa.Value) bool { return v == ssa.Value(sub.Value()) }, false)
		c.check(okk, name+":http-error-site", P.ipos(he), "http.Error only on the two error paths", "http.Error is called on a path without an Upgrade/Subscribe error")
	}
}

// guardedReach: is target reachable from the edge on which the value satisfying isV is nil (wantNil) / false?
func guardedReach(fn *ssa.Function, isV func(ssa.Value) bool, want bool, target ssa.Instruction) bool {
	for _, ifi := range ifsIn(fn) {
		if s, ok := nilEdge(ifi, isV); ok {
			e := s
			if !want { // want non-nil edge
				e = 1 - s
			}
			if reachesAvoiding(atEdge(ifi.Block(), e), target, nil, nil) {
				return true
			}
		}
		if s, ok := boolEdge(ifi, isV); ok {
			e := s
			if !want {
				e = 1 - s
			}
			if reachesAvoiding(atEdge(ifi.Block(), e), target, nil, nil) {
				return true
			}
		}
	}
	return false
}

func r16_4(c *Ctx) {
	P := c.P
	// anchored on the OnSession call: the function around it builds the subscription (getSubscription,
	// or ServeHTTP itself when the helper was merged into it)
	var fn *ssa.Function
	for _, f := range P.Funcs {
		if !inSSEPackage(f) || f.Synthetic != "" {
			continue
		}
		eachInstrDeep(f, func(in ssa.Instruction) {
			if call, ok := in.(*ssa.Call); ok && call.Call.StaticCallee() == nil && !call.Call.IsInvoke() {
				if _, ok := isFieldLoad(call.Call.Value, "Server", "OnSession"); ok {
					fn = f
				}
			}
		})
	}
	if fn == nil {
		c.anchor("the OnSession call")
		return
	}
	// the session: the *Session parameter, or the result of Upgrade in this function
	var sess ssa.Value
	for _, p := range fn.Params {
		if typeIs(p.Type(), "sse", "Session") {
			sess = p
		}
	}
	merged := sess == nil
	if merged {
		eachInstrDeep(fn, func(in ssa.Instruction) {
			if call, ok := isModCall(in, "Upgrade"); ok {
				for _, r := range *call.Referrers() {
					if e, ok := r.(*ssa.Extract); ok && e.Index == 0 {
						sess = e
					}
				}
			}
		})
	}
	if sess == nil {
		c.anchor("the session served (parameter or Upgrade result)")
		return
	}
	name := fnLabel(fn)
	var clientOK, idOK, defOK bool
	var topicsStores []*ssa.Store
	eachInstrDeep(fn, func(in ssa.Instruction) {
		st, ok := in.(*ssa.Store)
		if !ok {
			return
		}
		_, n, _, ok := fieldSel(st.Addr)
		if !ok {
			return
		}
		if o, _, _, _ := fieldSel(st.Addr); o != "Subscription" {
			return
		}
		switch n {
		case "Client":
			clientOK = carriesOnly(stripConv(st.Val), sess)
		case "LastEventID":
			b, ok := isFieldLoad(st.Val, "Session", "LastEventID")
			idOK = ok && carriesOnly(b, sess)
		case "Topics":
			topicsStores = append(topicsStores, st)
		}
	})
	c.check(clientOK, name+":client", P.pos(fn.Pos()), "Client is the session", "Subscription.Client is not the session being served")
	c.check(idOK, name+":last-event-id", P.pos(fn.Pos()), "LastEventID is the session's (parsed from the request)", "Subscription.LastEventID is not sess.LastEventID: resumption is ignored")
	// OnSession call
	var on *ssa.Call
	eachInstrDeep(fn, func(in ssa.Instruction) {
		if call, ok := in.(*ssa.Call); ok && call.Call.StaticCallee() == nil && !call.Call.IsInvoke() {
			if _, ok := isFieldLoad(call.Call.Value, "Server", "OnSession"); ok {
				on = call
			}
		}
	})
	onTopics := func(v ssa.Value) bool {
		e, ok := v.(*ssa.Extract)
		return ok && on != nil && e.Index == 0 && e.Tuple == ssa.Value(on)
	}
	onOK := func(v ssa.Value) bool {
		e, ok := v.(*ssa.Extract)
		return ok && on != nil && e.Index == 1 && e.Tuple == ssa.Value(on)
	}
	topOK := on != nil
	for _, st := range topicsStores {
		if a, ok := loadedFrom(st.Val); ok {
			if g, ok := a.(*ssa.Global); ok {
				if v, ok := globalStringSliceInit(P, g); ok && len(v) == 1 && v[0] == defaultTopicConst(P) {
					defOK = true
					continue
				}
			}
		}
		if onTopics(st.Val) {
			// guarded by ok && len(topics) > 0
			g1 := guardedByBool(fn, st.Block(), onOK, true)
			g2 := false
			for _, ifi := range ifsIn(fn) {
				op, k, succ, ok := cmpConstEdge(ifi, func(v ssa.Value) bool {
					call, ok := v.(*ssa.Call)
					if !ok {
						return false
					}
					b, ok := call.Call.Value.(*ssa.Builtin)
					return ok && b.Name() == "len" && onTopics(call.Call.Args[0])
				})
				if ok && ((op == token.GTR && k == 0) || (op == token.NEQ && k == 0) || (op == token.GEQ && k == 1)) && edgeDominates(ifi.Block(), succ, st.Block()) {
					g2 = true
				}
			}
			if !(g1 && g2) {
				topOK = false
			}
			continue
		}
		// defaulter(topics) under ok: installs the topics when non-empty and the default otherwise
		if call, ok := st.Val.(*ssa.Call); ok && len(call.Call.Args) == 1 && onTopics(call.Call.Args[0]) {
			if callee := call.Call.StaticCallee(); callee != nil && isTopicsDefaulter(P, callee) && guardedByBool(fn, st.Block(), onOK, true) {
				continue
			}
		}
		topOK = false
	}
	c.check(defOK, name+":default-topics", P.pos(fn.Pos()), "Topics default to the slice holding DefaultTopic", "the default Topics are not []string{DefaultTopic}")
	c.check(topOK, name+":onsession-topics", P.pos(fn.Pos()), "OnSession's topics are used when allowed and non-empty", "OnSession's topics are not installed exactly when allowed && len(topics) > 0")
	// returns: second result is OnSession's ok (or true when OnSession is nil)
	retOK := true
	for _, ret := range returnsOf(fn) {
		if merged || len(ret.Results) < 2 {
			continue // the verdict is acted on in place (R16.3 :rejected / :subscribe-args)
		}
		for _, s := range sources(ret.Results[1]) {
			if b, isC := constBool(s); isC {
				if !b || !guardedByNil(fn, ret.Block(), func(v ssa.Value) bool { _, ok := isFieldLoad(v, "Server", "OnSession"); return ok }, true) {
					retOK = false
				}
				continue
			}
			if !onOK(s) {
				retOK = false
			}
		}
	}
	c.check(retOK, name+":allowed", P.pos(fn.Pos()), "the session is accepted iff OnSession is nil or allows it", "getSubscription's verdict is not OnSession's")
	// OnSession receives the session's writer and request
	if on != nil {
		a := on.Call.Args
		good := len(a) == 2 && isResOf(a[0], sess)
		if good {
			b, ok := isFieldLoad(a[1], "Session", "Req")
			good = ok && carriesOnly(b, sess)
		}
		c.check(good, name+":onsession-args", P.ipos(on), "OnSession(sess.Res, sess.Req)", "OnSession is not given the session's writer and request")
	}
}

func defaultTopicConst(P *Program) string {
	if k, ok := P.SSE.Pkg.Scope().Lookup("DefaultTopic").(*types.Const); ok && k.Val().Kind() == constant.String {
		return constant.StringVal(k.Val())
	}
	return "\x00missing"
}

func r16_5(c *Ctx) {
	P := c.P
	fn := P.Fn("Upgrade")
	if fn == nil || len(fn.Params) != 2 {
		c.anchor("Upgrade(w, r)")
		return
	}
	r := fn.Params[1]
	name := fnLabel(fn)
	var lk *ssa.Lookup
	isReq := func(b ssa.Value) bool {
		for _, s := range sources(b) {
			if s != ssa.Value(r) {
				return false
			}
		}
		return true
	}
	eachInstrDeep(fn, func(in ssa.Instruction) {
		if l, ok := in.(*ssa.Lookup); ok {
			if b, ok := isFieldLoad(l.X, "http.Request", "Header"); ok && isReq(b) {
				lk = l
			}
		}
		if call, ok := isStaticCall(in, "(net/http.Header).Get", "(net/http.Header).Values"); ok {
			_ = call
		}
	})
	var hdrVals ssa.Value
	if lk != nil {
		k, ok := constString(lk.Index)
		c.check(ok && k == "Last-Event-Id" && textproto.CanonicalMIMEHeaderKey(k) == k, name+":header-key", P.ipos(lk), "the header map is indexed with the canonical key Last-Event-Id", "the request header map is indexed with a non-canonical key: the client's Last-Event-ID header is never found")
		hdrVals = lk
	} else {
		// Header.Get idiom
		var get *ssa.Call
		eachInstrDeep(fn, func(in ssa.Instruction) {
			if call, ok := isStaticCall(in, "(net/http.Header).Get"); ok {
				get = call
			}
		})
		if get == nil {
			c.bad(name+":header-key", P.pos(fn.Pos()), "Upgrade never reads the Last-Event-Id header")
			return
		}
		_, ok := canonicalIsLastEventID(get.Call.Args[1])
		c.check(ok, name+":header-key", P.ipos(get), "Header.Get with a key canonicalising to Last-Event-Id", "Header.Get with another key")
	}
	// NewID(h[0]) guarded by len != 0 && != ""
	var nid *ssa.Call
	eachInstrDeep(fn, func(in ssa.Instruction) {
		if call, ok := isModCall(in, "NewID"); ok {
			nid = call
		}
	})
	if nid == nil {
		c.bad(name+":parse", P.pos(fn.Pos()), "the header value is not parsed through NewID (validation)")
		return
	}
	argOK := false
	if hdrVals != nil {
		if a, ok := loadedFrom(nid.Call.Args[0]); ok {
			if ia, ok := a.(*ssa.IndexAddr); ok && ia.X == hdrVals {
				if k, ok := constInt(ia.Index); ok && k == 0 {
					argOK = true
				}
			}
		}
	}
	c.check(argOK || hdrVals == nil, name+":parse", P.ipos(nid), "NewID(header[0])", "the parsed value is not the first value of the header")
	// session's LastEventID: zero value or NewID's result
	stOK := false
	for _, a := range P.fieldAccesses("Session", "LastEventID") {
		if a.Kind != "write" || a.Fn != fn {
			continue
		}
		st := a.Use.(*ssa.Store)
		stOK = true
		for _, s := range sources(st.Val) {
			if isZeroConst(s) {
				continue
			}
			if e, ok := s.(*ssa.Extract); ok && e.Index == 0 && e.Tuple == ssa.Value(nid) {
				continue
			}
			stOK = false
		}
	}
	c.check(stOK, name+":session-id", P.pos(fn.Pos()), "Session.LastEventID is the unset value or NewID's result", "Session.LastEventID is built without validation")
	// Res = getResponseWriter(w) non-nil
	var grw *ssa.Call
	eachInstrDeep(fn, func(in ssa.Instruction) {
		if call, ok := isModCall(in, "getResponseWriter"); ok {
			grw = call
		}
	})
	if grw != nil {
		good := false
		for _, ret := range returnsOf(fn) {
			for _, s := range sources(ret.Results[1]) {
				if isGlobalLoad(s, "ErrUpgradeUnsupported") && guardedByNil(fn, ret.Block(), func(v ssa.Value) bool { return v == ssa.Value(grw) }, true) {
					good = true
				}
			}
		}
		c.check(good, name+":unsupported", P.ipos(grw), "a writer that cannot flush yields ErrUpgradeUnsupported", "Upgrade does not fail with ErrUpgradeUnsupported when no flusher is found")
	}
}

func r16_6(c *Ctx) {
	P := c.P
	fn := P.Fn("getResponseWriter")
	if fn == nil {
		c.anchor("getResponseWriter")
		return
	}
	name := fnLabel(fn)
	// type asserts in dominance order
	var tas []*ssa.TypeAssert
	eachInstrDeep(fn, func(in ssa.Instruction) {
		if ta, ok := in.(*ssa.TypeAssert); ok && ta.CommaOk {
			tas = append(tas, ta)
		}
	})
	hasMethod := func(t types.Type, m string, results int) bool {
		it, ok := t.Underlying().(*types.Interface)
		if !ok {
			return false
		}
		for i := 0; i < it.NumMethods(); i++ {
			if it.Method(i).Name() == m && it.Method(i).Type().(*types.Signature).Results().Len() == results {
				return true
			}
		}
		return false
	}
	idx := map[string]int{}
	for i, ta := range tas {
		switch {
		case hasMethod(ta.AssertedType, "FlushError", 1):
			idx["FlushError"] = i + 1
		case hasMethod(ta.AssertedType, "Flush", 0):
			idx["Flush"] = i + 1
		case hasMethod(ta.AssertedType, "Unwrap", 1):
			idx["Unwrap"] = i + 1
		}
	}
	order := idx["FlushError"] > 0 && idx["Flush"] > 0 && idx["Unwrap"] > 0
	if order {
		fe, f, u := tas[idx["FlushError"]-1], tas[idx["Flush"]-1], tas[idx["Unwrap"]-1]
		order = instrDominates(fe, f) && instrDominates(f, u) && len(loopsContaining(fn, u.Block())) == 1
	}
	c.check(order, name+":switch-order", P.pos(fn.Pos()), "FlushError is preferred over Flush, which is preferred over Unwrap; inside a loop", "the type switch does not test FlushError, then Flush, then Unwrap inside a loop: flush errors are lost or wrapped writers are not unwrapped")
	// default nil
	nilRet := false
	for _, ret := range returnsOf(fn) {
		for _, s := range sources(ret.Results[0]) {
			if isNilConst(s) {
				nilRet = true
			}
		}
	}
	c.check(nilRet, name+":default-nil", P.pos(fn.Pos()), "returns nil when nothing can flush", "no nil default")
	// wrappers
	if f := P.Fn("(flusherErrorWrapper).Flush"); f != nil {
		good := false
		for _, ret := range returnsOf(f) {
			if call, ok := ret.Results[0].(*ssa.Call); ok && call.Call.IsInvoke() && call.Call.Method.Name() == "FlushError" {
				good = true
			}
		}
		c.check(good, fnLabel(f), P.pos(f.Pos()), "returns FlushError()'s result", "the error-returning wrapper drops the flush error")
	} else {
		c.anchor("(flusherErrorWrapper).Flush")
	}
	if f := P.Fn("(flusherWrapper).Flush"); f != nil {
		good := false
		eachInstrDeep(f, func(in ssa.Instruction) {
			if call, ok := in.(*ssa.Call); ok && call.Call.IsInvoke() && call.Call.Method.Name() == "Flush" {
				good = true
			}
		})
		c.check(good, fnLabel(f), P.pos(f.Pos()), "delegates to the embedded Flush", "the plain wrapper does not flush")
	} else {
		c.anchor("(flusherWrapper).Flush")
	}
}

func r05_1(c *Ctx) {
	P := c.P
	// client header key
	rr := P.Fn("(*Connection).resetRequest")
	up := P.Fn("Upgrade")
	if rr == nil || up == nil {
		c.anchor("resetRequest / Upgrade")
		return
	}
	var clientKeys []string
	eachInstrDeep(rr, func(in ssa.Instruction) {
		if call, ok := isStaticCall(in, "(net/http.Header).Set", "(net/http.Header).Del"); ok {
			if k, ok := constString(call.Call.Args[1]); ok {
				clientKeys = append(clientKeys, k)
			}
		}
	})
	serverKey := ""
	eachInstrDeep(up, func(in ssa.Instruction) {
		if l, ok := in.(*ssa.Lookup); ok {
			if _, ok := isFieldLoad(l.X, "http.Request", "Header"); ok {
				serverKey, _ = constString(l.Index)
			}
		}
		if call, ok := isStaticCall(in, "(net/http.Header).Get"); ok {
			if k, ok := constString(call.Call.Args[1]); ok {
				serverKey = textproto.CanonicalMIMEHeaderKey(k)
			}
		}
	})
	good := serverKey != "" && len(clientKeys) > 0
	for _, k := range clientKeys {
		if textproto.CanonicalMIMEHeaderKey(k) != serverKey {
			good = false
		}
	}
	c.check(good, "wire:last-event-id-header", P.pos(up.Pos()), "the header key the client writes canonicalises to the key the server reads ("+serverKey+")", "the client writes header(s) that do not canonicalise to the key the server indexes with: resumption never works")
	// content type: server value vs DefaultValidator's expected constant
	du := P.Fn("(*Session).doUpgrade")
	serverCT := ""
	if du != nil {
		eachInstrDeep(du, func(in ssa.Instruction) {
			if mu, ok := in.(*ssa.MapUpdate); ok {
				if a, ok := loadedFrom(mu.Value); ok {
					if g, ok := a.(*ssa.Global); ok {
						if v, ok := globalStringSliceInit(P, g); ok && len(v) == 1 {
							serverCT = v[0]
						}
					}
				}
			}
		})
	}
	expected := ""
	for _, fn := range P.Funcs {
		if !inSSEPackage(fn) || fn.Parent() != nil || fn.Name() != "init$1" {
			continue
		}
		// DefaultValidator: compares contentType(...) with a constant
		eachInstrDeep(fn, func(in ssa.Instruction) {
			b, ok := in.(*ssa.BinOp)
			if !ok || (b.Op != token.NEQ && b.Op != token.EQL) {
				return
			}
			if _, ok := isModCall(b.X, "contentType"); ok {
				expected, _ = constString(b.Y)
			}
		})
	}
	if expected == "" {
		for _, fn := range P.Funcs {
			if !inSSEPackage(fn) {
				continue
			}
			eachInstrDeep(fn, func(in ssa.Instruction) {
				b, ok := in.(*ssa.BinOp)
				if !ok || (b.Op != token.NEQ && b.Op != token.EQL) {
					return
				}
				if _, ok := isModCall(b.X, "contentType"); ok {
					expected, _ = constString(b.Y)
				}
			})
		}
	}
	lower := func(s string) string {
		out := []byte(s)
		for i, ch := range out {
			if ch >= 'A' && ch <= 'Z' {
				out[i] = ch + 32
			}
		}
		return string(out)
	}
	c.check(serverCT != "" && expected != "" && lower(serverCT) == expected, "wire:content-type", "-", "the server's Content-Type ("+serverCT+") is what the default validator expects ("+expected+")", "the server's Content-Type value ("+serverCT+") is not what DefaultValidator compares with ("+expected+"): every connection is rejected")
	// the Accept header the client sends
	cn := P.Fn("(*Connection).Connect")
	if cn != nil {
		acc := false
		eachInstrDeep(cn, func(in ssa.Instruction) {
			if call, ok := isStaticCall(in, "(net/http.Header).Set"); ok {
				k, _ := constString(call.Call.Args[1])
				v, _ := constString(call.Call.Args[2])
				if textproto.CanonicalMIMEHeaderKey(k) == "Accept" && v == expected {
					acc = true
				}
			}
		})
		c.check(acc, "wire:accept", P.pos(cn.Pos()), "the client asks for text/event-stream", "the client's Accept header is not the event-stream media type")
	}
}

// ---------------------------------------------------------------------------
// C20

func r20_1(c *Ctx) {
	P := c.P
	// Parser.Buffer forwards to the scanner
	pb := P.Fn("(*parser.Parser).Buffer")
	nw := P.Fn("parser.New")
	if pb == nil || nw == nil {
		c.anchor("parser.Parser.Buffer / parser.New")
		return
	}
	fwd := false
	eachInstrDeep(pb, func(in ssa.Instruction) {
		if call, ok := isStaticCall(in, "(*bufio.Scanner).Buffer"); ok {
			_, recvOK := isFieldLoad(call.Call.Args[0], "parser.Parser", "inputScanner")
			if recvOK && call.Call.Args[1] == ssa.Value(pb.Params[1]) && call.Call.Args[2] == ssa.Value(pb.Params[2]) {
				fwd = true
			}
		}
	})
	c.check(fwd, fnLabel(pb)+":forwards", P.pos(pb.Pos()), "Parser.Buffer forwards (buf, max) unchanged to the scanner", "Parser.Buffer does not forward its arguments unchanged to bufio.Scanner.Buffer of its scanner")
	// New: scanner created with the split function, stored as inputScanner
	var sc *ssa.Call
	splitOK, storeOK := false, false
	eachInstrDeep(nw, func(in ssa.Instruction) {
		if call, ok := isStaticCall(in, "bufio.NewScanner"); ok && call.Call.Args[0] == ssa.Value(nw.Params[0]) {
			sc = call
		}
	})
	if sc != nil {
		eachInstrDeep(nw, func(in ssa.Instruction) {
			if call, ok := isStaticCall(in, "(*bufio.Scanner).Split"); ok && call.Call.Args[0] == ssa.Value(sc) {
				if f, ok := stripConvAll(call.Call.Args[1]).(*ssa.Function); ok && f == P.Fn("parser.splitFunc") {
					splitOK = true
				}
			}
			if st, ok := in.(*ssa.Store); ok {
				if _, ok := isFieldSel(st.Addr, "parser.Parser", "inputScanner"); ok && st.Val == ssa.Value(sc) {
					storeOK = true
				}
			}
		})
	}
	c.check(sc != nil && splitOK && storeOK, fnLabel(nw)+":scanner", P.pos(nw.Pos()), "New wraps the reader in a bufio.Scanner with the event split function and keeps it as the parser's scanner", "parser.New does not (create a bufio.Scanner on r, install splitFunc, keep it as inputScanner)")
	// Read: cfg.MaxEventSize -> p.Buffer(nil, max) under cfg != nil && > 0
	rdf := P.Fn("Read")
	if rdf == nil {
		c.anchor("Read")
	} else {
		var pf *ssa.Function
		eachInstrDeep(rdf, func(in ssa.Instruction) {
			if mc, ok := in.(*ssa.MakeClosure); ok {
				pf, _ = mc.Fn.(*ssa.Function)
			}
		})
		good := false
		if pf != nil {
			eachInstrDeep(pf, func(in ssa.Instruction) {
				call, ok := isModCall(in, "(*parser.Parser).Buffer")
				if !ok {
					return
				}
				mx := call.Call.Args[2]
				if _, ok := isFieldLoad(mx, "ReadConfig", "MaxEventSize"); !ok {
					return
				}
				isMax := func(v ssa.Value) bool { _, ok := isFieldLoad(v, "ReadConfig", "MaxEventSize"); return ok }
				g := false
				if intGuard(pf, call.Block(), isMax, negInf, 1, posInf) {
					g = true
				}
				// the parser it is applied to is the one returned
				retOK := false
				for _, ret := range returnsOf(pf) {
					if ret.Results[0] == call.Call.Args[0] {
						retOK = true
					}
				}
				if _, ok := isModCall(call.Call.Args[0], "parser.New"); ok && g && retOK {
					good = true
				}
			})
		}
		c.check(good, fnLabel(rdf)+":max-event-size", P.pos(rdf.Pos()), "ReadConfig.MaxEventSize reaches Parser.Buffer unchanged when > 0", "ReadConfig.MaxEventSize does not reach the scanner's limit unchanged: the configured maximum is ignored or altered")
	}
	// Connection.Buffer stores; the factory forwards
	cb := P.Fn("(*Connection).Buffer")
	if cb == nil {
		c.anchor("(*Connection).Buffer")
		return
	}
	stB, stM := false, false
	eachInstrDeep(cb, func(in ssa.Instruction) {
		if st, ok := in.(*ssa.Store); ok {
			if _, ok := isFieldSel(st.Addr, "Connection", "buf"); ok && st.Val == ssa.Value(cb.Params[1]) {
				stB = true
			}
			if _, ok := isFieldSel(st.Addr, "Connection", "bufMaxSize"); ok && st.Val == ssa.Value(cb.Params[2]) {
				stM = true
			}
		}
	})
	c.check(stB && stM, fnLabel(cb)+":stores", P.pos(cb.Pos()), "Connection.Buffer stores both arguments", "Connection.Buffer does not store its arguments")
	// other writers of bufMaxSize/buf
	for _, f := range []string{"buf", "bufMaxSize"} {
		for _, a := range P.fieldAccesses("Connection", f) {
			if a.Kind == "write" && a.Fn != cb {
				c.bad(fnLabel(a.Fn)+":write("+f+")", P.ipos(a.Use), "Connection."+f+" is written outside Connection.Buffer")
			}
		}
	}
	crd := P.Fn("(*Connection).read")
	good := false
	if crd != nil {
		for _, af := range crd.AnonFuncs {
			eachInstrDeep(af, func(in ssa.Instruction) {
				call, ok := isModCall(in, "(*parser.Parser).Buffer")
				if !ok {
					return
				}
				_, b := isFieldLoad(call.Call.Args[1], "Connection", "buf")
				_, m := isFieldLoad(call.Call.Args[2], "Connection", "bufMaxSize")
				_, isNew := isModCall(call.Call.Args[0], "parser.New")
				retOK := false
				for _, ret := range returnsOf(af) {
					if ret.Results[0] == call.Call.Args[0] {
						retOK = true
					}
				}
				// applied whenever a limit or buffer is configured: the only bypass is buf == nil && max <= 0
				blocked := map[cfgEdge]bool{}
				for _, ifi := range ifsIn(af) {
					if s, ok := nilEdge(ifi, func(v ssa.Value) bool { _, ok := isFieldLoad(v, "Connection", "buf"); return ok }); ok {
						_ = s
					}
					// paths on which bufMaxSize <= 0 was established are not "a maximum is configured"
					if lo, hi, okE, ok := intEdgeSets(ifi, func(v ssa.Value) bool { _, ok := isFieldLoad(v, "Connection", "bufMaxSize"); return ok }, negInf); ok {
						for e := 0; e < 2; e++ {
							if okE[e] && hi[e] <= 0 && lo[e] <= hi[e] {
								blocked[cfgEdge{ifi.Block(), e}] = true
							}
						}
					}
				}
				skip := false
				for _, ret := range returnsOf(af) {
					if reachesAvoiding(entryPoint(af), ret, func(x ssa.Instruction) bool { return x == ssa.Instruction(call) }, blocked) {
						skip = true
					}
				}
				if b && m && isNew && retOK && !skip {
					good = true
				}
			})
		}
	}
	c.check(good, "(*Connection).read:buffer-wiring", posOfFn(P, crd), "the parser factory applies (c.buf, c.bufMaxSize) whenever a maximum is configured", "the connection's configured buffer/maximum does not reach the parser whenever bufMaxSize > 0")
}

func posOfFn(P *Program, fn *ssa.Function) string {
	if fn == nil {
		return "-"
	}
	return P.pos(fn.Pos())
}

func r20_2(c *Ctx) {
	P := c.P
	fn := P.Fn("parser.splitFunc")
	if fn == nil || len(fn.Params) != 2 {
		c.anchor("parser.splitFunc")
		return
	}
	data, atEOF := fn.Params[0], fn.Params[1]
	name := fnLabel(fn)
	// returns with a non-nil token
	var adv ssa.Value // the advance value compared with len(data)
	n := 0
	for i, ret := range returnsOf(fn) {
		if len(ret.Results) != 3 {
			continue
		}
		tok := sources(ret.Results[1])
		nonNil := false
		for _, t := range tok {
			if !isNilConst(t) {
				nonNil = true
			}
		}
		if !nonNil {
			continue
		}
		n++
		rn := name + ":token-return#" + itoa(i)
		// every path to this return passes evidence that a second line break was found (position <
		// len(data), established outside/at the exit of the scan loop) or that the input is at EOF
		okk := false
		{
			_, notAtEnd := scanPosEdges(fn, data)
			blocked := map[cfgEdge]bool{}
			for e := range notAtEnd {
				blocked[e] = true
			}
			for _, j := range ifsIn(fn) {
				if sE, ok := boolEdge(j, func(v ssa.Value) bool { return v == ssa.Value(atEOF) }); ok {
					blocked[cfgEdge{j.Block(), sE}] = true
				}
			}
			if len(blocked) > 0 && !reachesAvoiding(entryPoint(fn), ret, nil, blocked) {
				okk = true
			}
			for _, j := range ifsIn(fn) {
				cnd := decodeIf(j)
				if cnd.Y != nil && (isLenOf(cnd.Y, data) || isLenOf(cnd.X, data)) {
					if isLenOf(cnd.X, data) {
						adv = cnd.Y
					} else {
						adv = cnd.X
					}
				}
			}
		}
		c.check(okk, rn, P.ipos(ret), "a token is returned only when a second line break was found (advance < len(data)) or at EOF; otherwise more data is requested", "a token can be returned although the buffer ended inside an event and the input is not at EOF: a truncated event is delivered instead of ErrTooLong / more data")
	}
	if n == 0 {
		c.bad(name+":token-return", P.pos(fn.Pos()), "splitFunc never returns a token")
	}
	// the scan loop has an exit at the end of the data
	if adv != nil {
		atEnd, _ := scanPosEdges(fn, data)
		ok := false
		for e := range atEnd {
			if len(loopsContaining(fn, e.From)) > 0 {
				ok = true
			}
		}
		c.check(ok, name+":scan-loop", P.pos(fn.Pos()), "the scan loop can stop at the end of the buffered data", "the scan loop has no exit at the end of the data")
	}
	// empty input requests more data
	emptyOK := false
	for _, ifi := range ifsIn(fn) {
		succ, ok := intEdge(ifi, func(v ssa.Value) bool { return isLenOf(v, data) }, 0, 0, 0)
		if ok {
			good := true
			forward([]startPoint{atEdge(ifi.Block(), succ)}, func(in ssa.Instruction) searchAction {
				if r, ok := in.(*ssa.Return); ok {
					kk, isK := constInt(r.Results[0])
					if !isK || kk != 0 || !isNilConst(r.Results[1]) {
						good = false
					}
				}
				return cont
			})
			emptyOK = good
		}
	}
	c.check(emptyOK, name+":empty-input", P.pos(fn.Pos()), "empty input yields no token", "empty input does not return (0, nil, nil)")
}

func r20_3(c *Ctx) {
	P := c.P
	fn := P.Fn("parser.splitFunc")
	if fn == nil {
		c.anchor("parser.splitFunc")
		return
	}
	data := fn.Params[0]
	for i, ret := range returnsOf(fn) {
		if len(ret.Results) != 3 || isNilConst(ret.Results[1]) {
			continue
		}
		sl, ok := ret.Results[1].(*ssa.Slice)
		good := ok && sl.X == ssa.Value(data) && sl.High != nil && sl.High == ret.Results[0] && sl.Max == nil
		c.check(good, fnLabel(fn)+":token-slice#"+itoa(i), P.ipos(ret), "token = data[start:advance] and advance is what is consumed", "the returned token is not data[start:advance] with the same advance that is reported as consumed: bytes are skipped or delivered twice")
		if k, isK := constInt(ret.Results[2]); !isNilConst(ret.Results[2]) || isK {
			_ = k
			c.bad(fnLabel(fn)+":token-error#"+itoa(i), P.ipos(ret), "a token is returned together with an error")
		}
	}
}

func r20_4(c *Ctx) {
	P := c.P
	fn := P.Fn("parser.splitFunc")
	if fn == nil || len(fn.Params) != 2 {
		c.anchor("parser.splitFunc")
		return
	}
	data, atEOF := fn.Params[0], fn.Params[1]
	n := 0
	for i, ret := range returnsOf(fn) {
		if len(ret.Results) != 3 || !isNilConst(ret.Results[1]) {
			continue
		}
		k, isK := constInt(ret.Results[0])
		if !isK || k != 0 {
			continue
		}
		n++
		name := fnLabel(fn) + ":need-more-data#" + itoa(i)
		// justified by len(data) == 0 ...
		empty := false
		if intGuard(fn, ret.Block(), func(v ssa.Value) bool { return isLenOf(v, data) }, 0, 0, 0) {
			empty = true
		}
		// ... or by (scanned position == len(data)) && !atEOF: every path to this return passes an edge
		// that establishes the position reached the end of the buffer, and the return is under !atEOF
		scanned := false
		{
			atEnd, _ := scanPosEdges(fn, data)
			if len(atEnd) > 0 && !reachesAvoiding(entryPoint(fn), ret, nil, atEnd) &&
				factGuards(fn, ret.Block(), factBool(func(v ssa.Value) bool { return v == ssa.Value(atEOF) }, false)) {
				scanned = true
			}
		}
		c.check(empty || scanned, name, P.ipos(ret), "more data is requested only for empty input, or when the scan reached the end of the buffer and the input is not at EOF",
			"more data is requested on a path where the scan did not establish that the buffer ends inside an event: a complete event already buffered is withheld, the buffer fills and bufio reports ErrTooLong for events below the limit")
	}
	if n == 0 {
		c.bad(fnLabel(fn)+":need-more-data", P.pos(fn.Pos()), "splitFunc never requests more data")
	}
}

// isTopicsDefaulter: f(initial []string) returns `initial` exactly on paths where len(initial) >= 1
// and the slice holding DefaultTopic on the others.
func isTopicsDefaulter(P *Program, f *ssa.Function) bool {
	if f.Blocks == nil || len(f.Params) != 1 || f.Signature.Results().Len() != 1 || len(loopsOf(f)) > 0 {
		return false
	}
	p := f.Params[0]
	isLen := isLenCallOf(func(v ssa.Value) bool { return v == ssa.Value(p) })
	rets := returnsOf(f)
	if len(rets) == 0 {
		return false
	}
	for _, ret := range rets {
		for _, src := range sources(ret.Results[0]) {
			switch {
			case src == ssa.Value(p):
				if !intGuard(f, ret.Block(), isLen, 0, 1, posInf) {
					return false
				}
			default:
				a, ok := loadedFrom(src)
				g, isG := a.(*ssa.Global)
				if !ok || !isG {
					return false
				}
				v, ok := globalStringSliceInit(P, g)
				if !ok || len(v) != 1 || v[0] != defaultTopicConst(P) {
					return false
				}
				if !intGuard(f, ret.Block(), isLen, 0, 0, 0) {
					return false
				}
			}
		}
	}
	return true
}

// Rule-set widenings found necessary by the third wave of independent changes: a change to one of
// these rules' subjects breaks the listed property as well (see DESIGN.md §9).
func init() {
	add := func(prop string, note string, rules ...string) {
		p := properties[prop]
		if p == nil {
			return
		}
		have := map[string]bool{}
		for _, r := range p.Rules {
			have[r] = true
		}
		for _, r := range rules {
			if !have[r] {
				p.Rules = append(p.Rules, r)
			}
		}
		p.Explanation += " " + note
	}
	add("C11", "R12.6 is claimed here too: \"a connection that ends is retried according to the backoff policy … until retries are exhausted\" rests on the retry counter and the elapsed-time limit of backoffController.next/reset.", "R12.6")
	add("C05", "R08.5/R08.6/R09.8 are claimed here too: a wrong replay start position at the resume boundary duplicates or loses an event across a reconnect.", "R08.5", "R08.6", "R09.8")
	add("C02", "R01.8 is claimed here too: go-sse's own decoder must strip exactly the one space the encoder writes after the colon.", "R01.8")
	add("C15", "R01.8 is claimed here too: the round trip goes through scanSegment/trimFirstSpace.", "R01.8")
}

// scanPosEdges classifies the branch edges of the split function that compare a scan-derived position
// (a value built from NewlineIndex results through the loop) with len(data): atEnd edges establish
// position == len(data) (the position never exceeds the length, so `!(pos < len)` counts), notAtEnd
// edges establish position < len(data). Only edges that are outside the scan loop or leave it count:
// inside the loop the position is still moving.
func scanPosEdges(fn *ssa.Function, data ssa.Value) (atEnd, notAtEnd map[cfgEdge]bool) {
	atEnd, notAtEnd = map[cfgEdge]bool{}, map[cfgEdge]bool{}
	derives := func(pos ssa.Value) bool {
		found := false
		seen := map[ssa.Value]bool{}
		var walk func(v ssa.Value)
		walk = func(v ssa.Value) {
			if seen[v] || found {
				return
			}
			seen[v] = true
			switch x := v.(type) {
			case *ssa.Phi:
				for _, e := range x.Edges {
					walk(e)
				}
			case *ssa.BinOp:
				walk(x.X)
				walk(x.Y)
			case *ssa.UnOp:
				if x.Op == token.MUL {
					for _, sv := range sources(x) {
						if sv != v {
							walk(sv)
						}
					}
				}
			case *ssa.Extract:
				if call, ok := x.Tuple.(*ssa.Call); ok {
					if _, ok := isModCall(call, "parser.NewlineIndex"); ok {
						found = true
					}
				}
			}
		}
		walk(pos)
		return found
	}
	for _, ifi := range ifsIn(fn) {
		cnd := decodeIf(ifi)
		if cnd.Y == nil {
			continue
		}
		pos, op := cnd.X, cnd.Op
		switch {
		case isLenOf(cnd.Y, data):
		case isLenOf(cnd.X, data):
			pos, op = cnd.Y, flipOp(op)
		default:
			continue
		}
		if !derives(pos) {
			continue
		}
		var endE, notE = -1, -1
		switch op {
		case token.EQL:
			endE, notE = cnd.succWhen(true), cnd.succWhen(false)
		case token.NEQ:
			endE, notE = cnd.succWhen(false), cnd.succWhen(true)
		case token.LSS:
			endE, notE = cnd.succWhen(false), cnd.succWhen(true)
		case token.GEQ:
			endE, notE = cnd.succWhen(true), cnd.succWhen(false)
		default:
			continue
		}
		b := ifi.Block()
		counts := func(e int) bool {
			for _, l := range loopsContaining(fn, b) {
				if l.Blocks[b.Succs[e]] {
					return false
				}
			}
			return true
		}
		if counts(endE) {
			atEnd[cfgEdge{b, endE}] = true
		}
		if counts(notE) {
			notAtEnd[cfgEdge{b, notE}] = true
		}
	}
	return
}
