package main

import (
	"go/constant"
	"go/token"
	"go/types"
	"net/textproto"

	"golang.org/x/tools/go/ssa"
)

func init() {
	prop(&PropertySpec{
		ID: "C16", Level: "other",
		Rules: []string{"R16.1", "R16.2", "R16.3", "R16.4", "R16.5", "R16.6", "R05.1"},
		Explanation: "R16.1 Session typestate: the Content-Type header store and the upgrade flush occur only while not upgraded, in that order; didUpgrade is set (only to true, only in doUpgrade) on that flush's nil edge; the message body is written to s.Res only after doUpgrade() == nil; Flush returns nil without its own Res.Flush only when didUpgrade changed across doUpgrade (i.e. the upgrade flushed); " +
			"R16.2 every error produced in Send/Flush/doUpgrade is returned on its non-nil edge; R16.3 ServeHTTP: Upgrade error -> http.Error 500 and no Subscribe; rejected session -> nothing written; Subscribe error -> http.Error(err.Error(), 500); Subscribe receives r.Context() and getSubscription's value; " +
			"R16.4 Subscription fields (Client = the session, LastEventID = sess.LastEventID, Topics = OnSession's topics when allowed and non-empty, else the default slice holding DefaultTopic); R16.5 Upgrade parses element 0 of the canonical Last-Event-Id header through NewID when present and non-empty; R16.6 flusher unwrapping order and delegation; R05.1 header/content-type constants agree with the client.",
		NotDecided: "body byte equality; behaviour of concrete ResponseWriters; http.Error's own writes.",
	})
	prop(&PropertySpec{
		ID: "C20", Level: "other",
		Rules: []string{"R20.1", "R20.2", "R20.3", "R20.4", "R11.5", "R11.7", "R11.4", "R01.9", "R02.5", "R01.12"},
		Explanation: "R20.1 the configured limit flows unchanged into bufio.Scanner.Buffer on both entry points (ReadConfig.MaxEventSize under cfg != nil && > 0; Connection.Buffer's arguments are stored and forwarded by the parser factory; Parser.Buffer forwards both to the scanner created in New and used by Next, which is created with the split function); " +
			"R20.2 the split function returns a token only after the scan stopped at a line break followed by a second line break, or when atEOF holds: the early `request more data` return covers advance==len(data) && !atEOF, so an oversized event makes bufio report ErrTooLong instead of yielding a truncated token; R20.4 more data is requested ((0, nil, nil)) only for empty input or after the scan reached the end of the buffered data without finding the end of an event (so a complete event sitting in the buffer is always delivered, and events below the limit never hit ErrTooLong); R20.3 the token is a sub-slice of the input starting at the skipped-blank-lines offset and ending at advance; R11.5/R11.7/R11.4 a scanner that stops (e.g. with ErrTooLong) always ends the iteration with an error; R02.5 delivered values own their memory (they are not views of the scanner's reused buffer); R01.9 the field parser consumes exactly one line per step, so a partially received line is never interpreted.",
		NotDecided: "panic freedom of the index arithmetic; the exact number of bytes bufio reads before ErrTooLong; 'intact below the limit'.",
	})
	prop(&PropertySpec{
		ID: "C05", Level: "other",
		Rules: []string{"R05.1", "R16.4", "R16.5", "R16.1", "R10.1", "R10.2", "R01.7", "R04.3", "R04.2", "R11.4", "R11.5", "R17.1"},
		Explanation: "The property is a composition; static analysis contributes (a) the four mechanisms named in its anchors as link rules: R16.4/R16.5 Upgrade reads the Last-Event-Id header into the subscription, R10.1/R10.2 the client stores the dispatched ID and sends it on retry, R01.7 an event cut before its blank line is discarded unless the body ended cleanly, R04.3/R04.2 Joe replays then registers atomically and live/replayed copies carry the same ID, R11.4/R11.5 a dropped connection is always reported so that it is retried, R16.1 the session typestate (a response always starts with the event-stream header, so the reconnecting client's validator accepts it), R17.1 a dead old session that fails during fan-out does not stop delivery to the new one; " +
			"and (b) R05.1 wire-contract agreement: the header key the client writes canonicalises to the constant the server indexes with (itself canonical, as it is used as a raw map key), the server's Content-Type value equals what DefaultValidator compares with, both sides share the field-name constants.",
		NotDecided: "the end-to-end sequence equality over cut sequences and timings; server survival beyond C06's rules; replay start-index arithmetic beyond R08.5.",
	})
	register(&Rule{ID: "R16.1", Title: "Session typestate: header, flush, then body; didUpgrade discipline", Floor: 6, Run: r16_1})
	register(&Rule{ID: "R16.2", Title: "Session errors are returned", Floor: 3, Run: r16_2})
	register(&Rule{ID: "R16.3", Title: "ServeHTTP outcomes", Floor: 4, Run: r16_3})
	register(&Rule{ID: "R16.4", Title: "Subscription fields built by getSubscription", Floor: 4, Run: r16_4})
	register(&Rule{ID: "R16.5", Title: "Last-Event-Id parsing in Upgrade", Floor: 2, Run: r16_5})
	register(&Rule{ID: "R16.6", Title: "flusher unwrapping order and delegation", Floor: 3, Run: r16_6})
	register(&Rule{ID: "R16.7", Title: "Server wrappers initialise the provider and forward to it on every path", Floor: 4, Run: r16_7})
	register(&Rule{ID: "R05.1", Title: "client/server wire-contract constants agree", Floor: 3, Run: r05_1})
	register(&Rule{ID: "R20.1", Title: "buffer limit wiring into bufio.Scanner.Buffer", Floor: 4, Run: r20_1})
	register(&Rule{ID: "R20.2", Title: "split function emits a token only for a complete event or at EOF", Floor: 2, Run: r20_2})
	register(&Rule{ID: "R20.3", Title: "token is data[start:advance]; advance is returned", Floor: 1, Run: r20_3})
	register(&Rule{ID: "R20.5", Title: "the response body is read only by the bounded parser", Floor: 1, Run: r20_5})
	register(&Rule{ID: "R20.4", Title: "more data is requested only when the scan reached the end of the buffer", Floor: 2, Run: r20_4})
}

func isResOf(v ssa.Value, s ssa.Value) bool {
	b, ok := isFieldLoad(stripConv(v), "Session", "Res")
	return ok && (b == s || carriesOnly(b, s))
}

func r16_1(c *Ctx) {
	P := c.P
	du := P.Fn("(*Session).doUpgrade")
	send := P.Fn("(*Session).Send")
	flush := P.Fn("(*Session).Flush")
	if du == nil || send == nil || flush == nil {
		c.anchor("Session.Send/Flush/doUpgrade")
		return
	}
	s := du.Params[0]
	isFlag := func(v ssa.Value) bool { _, ok := isFieldLoad(v, "Session", "didUpgrade"); return ok }
	var hdr *ssa.MapUpdate
	var fl ssa.CallInstruction
	eachInstrDeep(du, func(in ssa.Instruction) {
		if mu, ok := in.(*ssa.MapUpdate); ok {
			if call, ok := mu.Map.(*ssa.Call); ok && call.Call.IsInvoke() && call.Call.Method.Name() == "Header" && isResOf(call.Call.Value, s) {
				hdr = mu
			}
		}
		if ci, ok := isInvoke(in, "sse", "ResponseWriter", "Flush"); ok && isResOf(ci.Common().Value, s) {
			fl = ci
		}
	})
	name := fnLabel(du)
	if hdr == nil || fl == nil {
		c.bad(name+":header-then-flush", P.pos(du.Pos()), "doUpgrade does not (set the Content-Type header on s.Res.Header(), flush s.Res)")
		return
	}
	keyOK := false
	if k, ok := constString(hdr.Key); ok && textproto.CanonicalMIMEHeaderKey(k) == "Content-Type" && k == "Content-Type" {
		keyOK = true
	}
	valOK := false
	if a, ok := loadedFrom(hdr.Value); ok {
		if g, ok := a.(*ssa.Global); ok {
			if v, ok := globalStringSliceInit(P, g); ok && len(v) == 1 && v[0] == "text/event-stream" {
				valOK = true
			}
		}
	}
	c.check(keyOK && valOK, name+":content-type", P.ipos(hdr), "Header()[\"Content-Type\"] = [\"text/event-stream\"] (canonical key, as the map is written directly)", "the header written is not the canonical Content-Type key with the single value text/event-stream")
	// stores to didUpgrade anywhere: only in doUpgrade (the typestate analysis below models exactly that function)
	nSt := 0
	for _, a := range P.fieldAccesses("Session", "didUpgrade") {
		if a.Kind != "write" {
			if a.Kind == "addr" {
				c.bad(fnLabel(a.Fn)+":addr(didUpgrade)", P.ipos(a.Use), "address of didUpgrade escapes")
			}
			continue
		}
		nSt++
		st := a.Use.(*ssa.Store)
		c.check(a.Fn == du || a.Fn == send || a.Fn == flush, fnLabel(a.Fn)+":store(didUpgrade)", P.ipos(st), "didUpgrade is written only inside the analysed Session methods", "didUpgrade is written outside Send/Flush/doUpgrade: the typestate can change behind the protocol's back")
	}
	if nSt == 0 {
		c.bad(name+":store(didUpgrade)", P.pos(du.Pos()), "didUpgrade is never set: the header is set and flushed before every message")
	}
	_ = isFlag
	// path-sensitive typestate analysis (two-point domain, doUpgrade inlined)
	ai := &sessAI{P: P, doUp: du}
	for _, spec := range []struct {
		fn      *ssa.Function
		isFlush bool
		isSend  bool
	}{{send, false, true}, {flush, true, false}} {
		for _, initial := range []bool{false, true} {
			paths := ai.run(spec.fn, initial)
			st := "upgraded"
			if !initial {
				st = "not-upgraded"
			}
			cn := fnLabel(spec.fn) + ":typestate(from " + st + ")"
			if len(paths) == 0 {
				c.undecided(cn, P.pos(spec.fn.Pos()), "no path could be enumerated")
				continue
			}
			bad := 0
			for _, pth := range paths {
				if msg := checkSessionPath(initial, pth, spec.isFlush, spec.isSend); msg != "" {
					bad++
					at := P.pos(spec.fn.Pos())
					if pth.ret != nil {
						at = P.ipos(pth.ret)
					}
					var w []string
					for _, e := range pth.events {
						w = append(w, e.kind+map[bool]string{true: "(ok)", false: "(failed)"}[e.ok]+" at "+P.ipos(e.at))
					}
					c.ob(cn, at, Violated, msg, w...)
				}
			}
			if bad == 0 {
				c.ok(cn, P.pos(spec.fn.Pos()), itoa(len(paths))+" paths conform to the session automaton (header, flush, then body; errors returned; nil Flush implies a successful Res.Flush)")
			}
		}
	}
}

// edgesWhere collects, over all Ifs of fn, the edges selected by pick.
func edgesWhere(fn *ssa.Function, pick func(*ssa.If) (int, bool)) map[cfgEdge]bool {
	out := map[cfgEdge]bool{}
	for _, ifi := range ifsIn(fn) {
		if e, ok := pick(ifi); ok {
			out[cfgEdge{ifi.Block(), e}] = true
		}
	}
	return out
}

// globalStringSliceInit: constant []string content of a global.
func globalStringSliceInit(P *Program, g *ssa.Global) ([]string, bool) {
	init := P.SSE.Func("init")
	if init == nil {
		return nil, false
	}
	var out []string
	ok := false
	eachInstrDeep(init, func(in ssa.Instruction) {
		st, isSt := in.(*ssa.Store)
		if !isSt || st.Addr != ssa.Value(g) {
			return
		}
		sl, isSl := st.Val.(*ssa.Slice)
		if !isSl {
			return
		}
		al, isAl := sl.X.(*ssa.Alloc)
		if !isAl {
			return
		}
		arr, isArr := deref(al.Type()).Underlying().(*types.Array)
		if !isArr {
			return
		}
		vals := make([]string, arr.Len())
		good := true
		for _, r := range *al.Referrers() {
			ia, isIA := r.(*ssa.IndexAddr)
			if !isIA {
				continue
			}
			idx, okI := constInt(ia.Index)
			for _, rr := range *ia.Referrers() {
				if s2, isS := rr.(*ssa.Store); isS && s2.Addr == ssa.Value(ia) {
					sv, okS := constString(s2.Val)
					if !okI || !okS || int(idx) >= len(vals) {
						good = false
						continue
					}
					vals[idx] = sv
				}
			}
		}
		if good {
			out, ok = vals, true
		}
	})
	for _, fn := range P.Funcs {
		if fn == init {
			continue
		}
		eachInstr(fn, func(in ssa.Instruction) {
			if st, isSt := in.(*ssa.Store); isSt {
				if st.Addr == ssa.Value(g) {
					ok = false
				}
				// element writes through the global's slice
				if ia, isIA := st.Addr.(*ssa.IndexAddr); isIA {
					if a, isL := loadedFrom(ia.X); isL && a == ssa.Value(g) {
						ok = false
					}
				}
			}
		})
	}
	return out, ok
}

func r16_2(c *Ctx) {
	P := c.P
	for _, nm := range []string{"(*Session).Send", "(*Session).Flush", "(*Session).doUpgrade"} {
		fn := P.Fn(nm)
		if fn == nil {
			c.anchor(nm)
			continue
		}
		eachInstrDeep(fn, func(in ssa.Instruction) {
			call, ok := in.(*ssa.Call)
			if !ok {
				return
			}
			var errV ssa.Value
			sig := call.Call.Signature()
			ei := -1
			for i := 0; i < sig.Results().Len(); i++ {
				if sig.Results().At(i).Type().String() == "error" {
					ei = i
				}
			}
			ri := -1
			for i := 0; i < fn.Signature.Results().Len(); i++ {
				if fn.Signature.Results().At(i).Type().String() == "error" {
					ri = i
				}
			}
			if ri < 0 {
				c.bad(fnLabel(fn)+":error-result", P.pos(fn.Pos()), fnLabel(fn)+" has no error result: write/flush errors cannot reach the caller")
				return
			}
			switch {
			case ei < 0:
			case sig.Results().Len() == 1:
				errV = call
			default:
				{
					for _, r := range *call.Referrers() {
						if e, ok := r.(*ssa.Extract); ok && e.Index == ei {
							errV = e
						}
					}
					if errV == nil {
						c.bad(fnLabel(fn)+":error-dropped", P.ipos(call), "the error result of "+call.Call.String()+" is discarded: the first write/flush error is not returned to the caller")
						return
					}
				}
			}
			if errV == nil {
				return
			}
			name := fnLabel(fn) + ":error-of(" + shortCallee(call) + ")"
			returned := false
			for _, ret := range returnsOf(fn) {
				for _, s := range sources(ret.Results[ri]) {
					if s == errV {
						returned = true
					}
				}
			}
			// and every path on which it is non-nil returns it
			leak := false
			for _, ifi := range ifsIn(fn) {
				if s, ok := nilEdge(ifi, func(v ssa.Value) bool { return v == errV }); ok {
					forward([]startPoint{atEdge(ifi.Block(), 1-s)}, func(x ssa.Instruction) searchAction {
						if r, ok := x.(*ssa.Return); ok {
							if r.Parent() != fn || len(r.Results) <= ri {
								return cont
							}
							for _, sv := range sources(r.Results[ri]) {
								if sv != errV {
									leak = true
								}
							}
						}
						return cont
					})
				}
			}
			c.check(returned && !leak, name, P.ipos(call), "the error is returned to the caller", "an error from "+shortCallee(call)+" is not returned on its non-nil edge")
		})
	}
}

func shortCallee(call *ssa.Call) string {
	if call.Call.IsInvoke() {
		return call.Call.Method.Name()
	}
	if f := call.Call.StaticCallee(); f != nil {
		return f.Name()
	}
	return "func value"
}

func r16_3(c *Ctx) {
	P := c.P
	fn := P.Fn("(*Server).ServeHTTP")
	if fn == nil || len(fn.Params) != 3 {
		c.anchor("(*Server).ServeHTTP")
		return
	}
	w, r := fn.Params[1], fn.Params[2]
	isW := func(v ssa.Value) bool { return carriesOnly(v, w) }
	isR := func(v ssa.Value) bool { return carriesOnly(v, r) }
	name := fnLabel(fn)
	var up, gs *ssa.Call
	var sub ssa.CallInstruction
	var httpErrs []*ssa.Call
	eachInstrDeep(fn, func(in ssa.Instruction) {
		if call, ok := isModCall(in, "Upgrade"); ok {
			up = call
		}
		if call, ok := isModCall(in, "(*Server).getSubscription"); ok {
			gs = call
		}
		if ci, ok := isInvoke(in, "sse", "Provider", "Subscribe"); ok {
			sub = ci
		}
		if call, ok := isStaticCall(in, "net/http.Error"); ok {
			httpErrs = append(httpErrs, call)
		}
	})
	// the optional logger: Server.Logger may be unset and may return nil, so every call on the logger value is
	// dominated by a test that this very value is non-nil (a nil dereference in front of http.Error loses the 500)
	{
		unguarded := ""
		nLog := 0
		eachInstrDeep(fn, func(in ssa.Instruction) {
			call, ok := in.(*ssa.Call)
			if !ok {
				return
			}
			callee := call.Call.StaticCallee()
			if callee == nil || callee.Signature.Recv() == nil || !typeIs(callee.Signature.Recv().Type(), "log/slog", "Logger") || len(call.Call.Args) == 0 {
				return
			}
			nLog++
			recv := call.Call.Args[0]
			if !guardedByNil(call.Parent(), call.Block(), func(v ssa.Value) bool { return v == recv || sameValue(v, recv) }, false) {
				unguarded = P.ipos(call)
			}
		})
		if nLog > 0 {
			c.check(unguarded == "", name+":logger-nil-guarded", P.pos(fn.Pos()), "every call on the optional logger is guarded by a nil test of the logger value itself",
				"a call on the optional logger (at "+unguarded+") is not guarded by a nil test of that logger value (testing Server.Logger, the factory, is not enough: it may return nil): ServeHTTP panics before it answers, so a refused subscription or a failed upgrade gets no 500")
		}
	}
	// the subscription is built by getSubscription, or in place around the OnSession call
	var on *ssa.Call
	eachInstrDeep(fn, func(in ssa.Instruction) {
		if call, ok := in.(*ssa.Call); ok && call.Call.StaticCallee() == nil && !call.Call.IsInvoke() {
			if _, ok := isFieldLoad(call.Call.Value, "Server", "OnSession"); ok {
				on = call
			}
		}
	})
	if up == nil || (gs == nil && on == nil) || sub == nil {
		c.bad(name+":shape", P.pos(fn.Pos()), "ServeHTTP does not (Upgrade, build the subscription with OnSession's verdict, provider.Subscribe)")
		return
	}
	upErr := func(v ssa.Value) bool { return carriesExtract(v, up, 1) }
	upSess := func(v ssa.Value) bool { return carriesExtract(v, up, 0) }
	gsOK := func(v ssa.Value) bool {
		if gs != nil {
			return carriesExtract(v, gs, 1)
		}
		return carriesExtract(v, on, 1)
	}
	is500 := func(call *ssa.Call) bool {
		k, ok := constInt(call.Call.Args[2])
		return ok && k == 500 && isW(call.Call.Args[0])
	}
	// Upgrade called with (w, r); error => 500 and return before Subscribe
	c.check(isW(up.Call.Args[0]) && isR(up.Call.Args[1]), name+":upgrade-args", P.ipos(up), "Upgrade(w, r)", "Upgrade is not called with the handler's writer and request")
	{
		got := false
		for _, he := range httpErrs {
			if guardedByNil(fn, he.Block(), upErr, false) && is500(he) {
				got = true
			}
		}
		noSub := !guardedReach(fn, upErr, false, sub)
		c.check(got && noSub, name+":upgrade-error", P.ipos(up), "an Upgrade error is answered with 500 and the session is not subscribed", "an Upgrade error is not answered with http.Error(w, ..., 500), or the provider is subscribed anyway")
	}
	// getSubscription(sess) and rejection: return without any call receiving w / sess.Res
	if gs != nil {
		c.check(len(gs.Call.Args) == 2 && upSess(gs.Call.Args[1]) && guardedByNil(fn, gs.Block(), upErr, true), name+":get-subscription", P.ipos(gs), "getSubscription receives the upgraded session", "getSubscription does not receive the session returned by Upgrade")
	} else {
		c.check(guardedByNil(fn, on.Block(), upErr, true), name+":get-subscription", P.ipos(on), "the subscription is built (OnSession consulted) only for an upgraded session", "OnSession is consulted although Upgrade failed")
	}
	{
		wrote := false
		for _, ifi := range ifsIn(fn) {
			s, ok := boolEdge(ifi, gsOK)
			if !ok {
				continue
			}
			forward([]startPoint{atEdge(ifi.Block(), 1-s)}, func(in ssa.Instruction) searchAction {
				if ci, ok := in.(ssa.CallInstruction); ok {
					for _, a := range ci.Common().Args {
						if isW(a) || upSess(a) {
							wrote = true
						}
					}
					if ci.Common().IsInvoke() && isW(ci.Common().Value) {
						wrote = true
					}
				}
				return cont
			})
			// a call deferred before the verdict runs when the rejected request returns
			eachInstr(fn, func(in ssa.Instruction) {
				d, ok := in.(*ssa.Defer)
				if !ok || !reachesAvoiding(afterInstr(d), ifi, nil, nil) {
					return
				}
				touches := false
				for _, a := range d.Call.Args {
					if isW(a) || upSess(a) {
						touches = true
					}
				}
				if d.Call.IsInvoke() && isW(d.Call.Value) {
					touches = true
				}
				if mc, ok := d.Call.Value.(*ssa.MakeClosure); ok {
					for _, b := range mc.Bindings {
						if isW(b) || upSess(b) {
							touches = true
						}
						// a captured variable holding the session
						if a, ok := b.(*ssa.Alloc); ok {
							stored, _, _ := cellStores(a)
							for _, v := range stored {
								if isW(v) || upSess(v) {
									touches = true
								}
							}
						}
					}
				}
				if touches {
					wrote = true
				}
			})
		}
		var at ssa.Instruction = on
		if gs != nil {
			at = gs
		}
		c.check(!wrote && !guardedReach(fn, gsOK, false, sub), name+":rejected", P.ipos(at), "a rejected session returns without writing anything and without subscribing", "when OnSession rejects the request ServeHTTP still writes to the response or subscribes")
	}
	// Subscribe(r.Context(), sub)
	{
		ctxOK, subOK := false, false
		args := sub.Common().Args
		if len(args) == 2 {
			if call, ok := isStaticCall(args[0], "(*net/http.Request).Context"); ok && isR(call.Call.Args[0]) {
				ctxOK = true
			}
			for _, s := range sources(args[1]) {
				if e, ok := s.(*ssa.Extract); ok && e.Index == 0 && gs != nil && e.Tuple == ssa.Value(gs) {
					subOK = true
				}
				// built in place: a local Subscription whose Client is the upgraded session (R16.4 checks its fields)
				if u, ok := s.(*ssa.UnOp); ok && u.Op == token.MUL && gs == nil {
					if al, ok := cellRoot(u.X).(*ssa.Alloc); ok && typeIs(al.Type(), "sse", "Subscription") {
						subOK = true
					}
				}
			}
		}
		_, provOK := isFieldLoad(sub.Common().Value, "Server", "provider")
		if !provOK {
			// through a local or an inlined getter
			src := sources(sub.Common().Value)
			provOK = len(src) > 0
			for _, sv := range src {
				if _, ok := isFieldLoad(sv, "Server", "provider"); !ok {
					provOK = false
				}
			}
		}
		accepted := guardedByBool(fn, sub.Block(), gsOK, true) || (gs == nil && !guardedReach(fn, gsOK, false, sub))
		c.check(ctxOK && subOK && provOK && accepted, name+":subscribe-args", P.ipos(sub), "provider.Subscribe(r.Context(), the subscription) for an accepted session", "Subscribe is not called with the request's context and the subscription built for this session (or for a rejected session)")
	}
	// Subscribe error => http.Error(w, err.Error(), 500)
	{
		sv := sub.Value()
		got := false
		for _, he := range httpErrs {
			if !guardedByNil(fn, he.Block(), func(v ssa.Value) bool { return v == ssa.Value(sv) }, false) || !is500(he) {
				continue
			}
			if call, ok := he.Call.Args[1].(*ssa.Call); ok && call.Call.IsInvoke() && call.Call.Method.Name() == "Error" && call.Call.Value == ssa.Value(sv) {
				got = true
			}
		}
		c.check(got, name+":subscribe-error", P.ipos(sub), "a Subscribe error is answered with http.Error(w, err.Error(), 500)", "a Subscribe error is not answered with http.Error(w, err.Error(), 500)")
		// ... on every path: no return is reachable from the error's non-nil edge without passing a 500 answer
		for _, which := range []struct {
			label string
			isV   func(ssa.Value) bool
			at    ssa.Instruction
		}{{"subscribe", func(v ssa.Value) bool { return v == ssa.Value(sv) }, sub}, {"upgrade", upErr, up}} {
			skips, edges := false, 0
			var where ssa.Instruction
			for _, ifi := range ifsIn(fn) {
				sn, ok := nilEdge(ifi, which.isV)
				if !ok {
					continue
				}
				edges++
				forward([]startPoint{atEdge(ifi.Block(), 1-sn)}, func(in ssa.Instruction) searchAction {
					if call, ok := isStaticCall(in, "net/http.Error"); ok && is500(call) {
						return stopPath
					}
					if r, ok := in.(*ssa.Return); ok && r.Parent() == fn {
						skips, where = true, r
					}
					return cont
				})
			}
			if edges == 0 {
				continue // the shape obligations above report a missing test
			}
			pos := P.ipos(which.at)
			if where != nil {
				pos = P.ipos(where)
			}
			c.check(!skips, name+":"+which.label+"-error-always-500", pos, "every path on which the error is non-nil answers 500 before returning", "a path returns without answering 500 although the "+which.label+" error is non-nil (an empty 200 is sent instead)")
		}
	}
	// no http.Error elsewhere
	for _, he := range httpErrs {
		okk := guardedByNil(fn, he.Block(), upErr, false) || guardedByNil(fn, he.Block(), func(v ssa.Value) bool { return v == ssa.Value(sub.Value()) }, false)
		c.check(okk, name+":http-error-site", P.ipos(he), "http.Error only on the two error paths", "http.Error is called on a path without an Upgrade/Subscribe error")
	}
}

// guardedReach: is target reachable from the edge on which the value satisfying isV is nil (wantNil) / false?
func guardedReach(fn *ssa.Function, isV func(ssa.Value) bool, want bool, target ssa.Instruction) bool {
	for _, ifi := range ifsIn(fn) {
		if s, ok := nilEdge(ifi, isV); ok {
			e := s
			if !want { // want non-nil edge
				e = 1 - s
			}
			if reachesAvoiding(atEdge(ifi.Block(), e), target, nil, nil) {
				return true
			}
		}
		if s, ok := boolEdge(ifi, isV); ok {
			e := s
			if !want {
				e = 1 - s
			}
			if reachesAvoiding(atEdge(ifi.Block(), e), target, nil, nil) {
				return true
			}
		}
	}
	return false
}

func r16_4(c *Ctx) {
	P := c.P
	// anchored on the OnSession call: the function around it builds the subscription (getSubscription,
	// or ServeHTTP itself when the helper was merged into it)
	var fn *ssa.Function
	for _, f := range P.Funcs {
		if !inSSEPackage(f) || f.Synthetic != "" {
			continue
		}
		eachInstr(f, func(in ssa.Instruction) {
			if call, ok := in.(*ssa.Call); ok && call.Call.StaticCallee() == nil && !call.Call.IsInvoke() {
				if _, ok := isFieldLoad(call.Call.Value, "Server", "OnSession"); ok {
					fn = f
				}
			}
		})
	}
	// the call may sit in an inlined helper: the function that builds the subscription is the one around it
	for fn != nil && iifeSiteCached(fn) != nil {
		fn = iifeSiteCached(fn).Parent()
	}
	if fn == nil {
		c.anchor("the OnSession call")
		return
	}
	// the session: the *Session parameter, or the result of Upgrade in this function
	var sess ssa.Value
	for _, p := range fn.Params {
		if typeIs(p.Type(), "sse", "Session") {
			sess = p
		}
	}
	merged := sess == nil
	if merged {
		eachInstrDeep(fn, func(in ssa.Instruction) {
			if call, ok := isModCall(in, "Upgrade"); ok {
				for _, r := range *call.Referrers() {
					if e, ok := r.(*ssa.Extract); ok && e.Index == 0 {
						sess = e
					}
				}
			}
		})
	}
	if sess == nil {
		c.anchor("the session served (parameter or Upgrade result)")
		return
	}
	name := fnLabel(fn)
	var clientOK, idOK, defOK bool
	var topicsStores []*ssa.Store
	// every Subscription value assembled here (there may be more than one literal) names the session and
	// carries its LastEventID
	type built struct{ client, id, any bool }
	lits := map[ssa.Value]*built{}
	var litOrder []ssa.Value
	eachInstrDeep(fn, func(in ssa.Instruction) {
		st, ok := in.(*ssa.Store)
		if !ok {
			return
		}
		_, n, _, ok := fieldSel(st.Addr)
		if !ok {
			return
		}
		if o, _, _, _ := fieldSel(st.Addr); o != "Subscription" {
			return
		}
		base, _ := isFieldSel(st.Addr, "Subscription", n)
		bl := lits[base]
		if bl == nil {
			bl = &built{}
			lits[base] = bl
			litOrder = append(litOrder, base)
		}
		switch n {
		case "Client":
			clientOK = carriesOnly(stripConv(st.Val), sess)
			bl.client = clientOK
		case "LastEventID":
			b, ok := isFieldLoad(st.Val, "Session", "LastEventID")
			idOK = ok && carriesOnly(b, sess)
			bl.id = idOK
		case "Topics":
			topicsStores = append(topicsStores, st)
		}
		if n == "Client" || n == "LastEventID" {
			bl.any = true
		}
	})
	for _, base := range litOrder {
		if bl := lits[base]; bl.any && !(bl.client && bl.id) {
			clientOK, idOK = clientOK && bl.client, idOK && bl.id
		}
	}
	// a literal assigned over the subscription in place (`sub = Subscription{...}` compiles to a zeroing
	// store followed by the literal's field stores) must be complete as well
	eachInstrDeep(fn, func(in ssa.Instruction) {
		st, ok := in.(*ssa.Store)
		if !ok || lits[st.Addr] == nil {
			return
		}
		if _, isK := st.Val.(*ssa.Const); !isK {
			return
		}
		cl, id := false, false
		after := false
		for _, x := range st.Block().Instrs {
			if x == ssa.Instruction(st) {
				after = true
				continue
			}
			fs, ok := x.(*ssa.Store)
			if !after || !ok {
				continue
			}
			if b, ok := isFieldSel(fs.Addr, "Subscription", "Client"); ok && b == st.Addr {
				cl = carriesOnly(stripConv(fs.Val), sess)
			}
			if b, ok := isFieldSel(fs.Addr, "Subscription", "LastEventID"); ok && b == st.Addr {
				lb, ok := isFieldLoad(fs.Val, "Session", "LastEventID")
				id = ok && carriesOnly(lb, sess)
			}
		}
		clientOK, idOK = clientOK && cl, idOK && id
	})
	// a literal that is stored whole over the subscription must be complete as well
	eachInstrDeep(fn, func(in ssa.Instruction) {
		st, ok := in.(*ssa.Store)
		if !ok || !typeIs(st.Val.Type(), "sse", "Subscription") {
			return
		}
		if ld, ok := st.Val.(*ssa.UnOp); ok && ld.Op == token.MUL {
			if bl := lits[ld.X]; bl == nil || !bl.client || !bl.id {
				if _, isAlloc := ld.X.(*ssa.Alloc); isAlloc {
					clientOK, idOK = clientOK && bl != nil && bl.client, idOK && bl != nil && bl.id
				}
			}
		}
	})
	c.check(clientOK, name+":client", P.pos(fn.Pos()), "Client is the session", "Subscription.Client is not the session being served")
	c.check(idOK, name+":last-event-id", P.pos(fn.Pos()), "LastEventID is the session's (parsed from the request)", "Subscription.LastEventID is not sess.LastEventID: resumption is ignored")
	// OnSession call
	var on *ssa.Call
	eachInstrDeep(fn, func(in ssa.Instruction) {
		if call, ok := in.(*ssa.Call); ok && call.Call.StaticCallee() == nil && !call.Call.IsInvoke() {
			if _, ok := isFieldLoad(call.Call.Value, "Server", "OnSession"); ok {
				on = call
			}
		}
	})
	onTopics := func(v ssa.Value) bool {
		e, ok := v.(*ssa.Extract)
		return ok && on != nil && e.Index == 0 && e.Tuple == ssa.Value(on)
	}
	onOK := func(v ssa.Value) bool {
		e, ok := v.(*ssa.Extract)
		return ok && on != nil && e.Index == 1 && e.Tuple == ssa.Value(on)
	}
	topOK := on != nil
	// form (C): the topics and the verdict both come out of one helper (inlined by the pre-pass as an
	// immediately-invoked literal with two results): decided path-wise inside it
	if g, ti, vi := topicsVerdictHelper(fn, topicsStores, merged); g != nil && on != nil {
		isDefault := func(v ssa.Value) bool {
			if a, ok := loadedFrom(v); ok {
				if gl, ok := a.(*ssa.Global); ok {
					if iv, ok := globalStringSliceInit(P, gl); ok && len(iv) == 1 && iv[0] == defaultTopicConst(P) {
						return true
					}
				}
			}
			return false
		}
		isLenTopics := func(v ssa.Value) bool {
			call, ok := v.(*ssa.Call)
			if !ok {
				return false
			}
			b, ok := call.Call.Value.(*ssa.Builtin)
			return ok && b.Name() == "len" && onTopics(call.Call.Args[0])
		}
		isOnLoad := func(v ssa.Value) bool { _, ok := isFieldLoad(v, "Server", "OnSession"); return ok }
		paths, okP := abstractPaths(g, 4096, nil)
		if !okP {
			c.undecided(name+":onsession-topics", P.pos(g.Pos()), "too many paths through the topics helper")
			return
		}
		defWhy, topWhy, retWhy := "", "", ""
		defSeen := false
		for _, p := range paths {
			if p.Ret == nil || len(p.Ret.Results) <= ti || len(p.Ret.Results) <= vi {
				continue
			}
			T, V := p.St.resolve(p.Ret.Results[ti]), p.St.resolve(p.Ret.Results[vi])
			okTrue := pathEstablishes(p.St, factBool(onOK, true))
			okFalse := pathEstablishes(p.St, factBool(onOK, false))
			lenPos := pathEstablishes(p.St, factInt(isLenTopics, 0, 1, posInf))
			lenZero := pathEstablishes(p.St, factInt(isLenTopics, 0, 0, 0))
			nilOn := pathEstablishes(p.St, factNil(isOnLoad, true))
			switch {
			case onTopics(T):
				if !(okTrue && lenPos) {
					topWhy = "OnSession's topics are used on a path that did not establish allowed && len(topics) > 0"
				}
			case isDefault(T):
				defSeen = true
				if !(nilOn || okFalse || lenZero) {
					topWhy = "the default topics are used although OnSession allowed the session and may have chosen topics"
				}
			default:
				defWhy = "a path yields topics that are neither OnSession's nor []string{DefaultTopic}"
			}
			if b, isC := constBool(V); isC {
				if (b && !(nilOn || okTrue)) || (!b && !okFalse) {
					retWhy = "a constant verdict is returned on a path that did not establish it"
				}
			} else if !onOK(V) {
				retWhy = "the verdict is not OnSession's"
			}
		}
		if !defSeen && defWhy == "" {
			defWhy = "no path yields the default topics"
		}
		c.check(defWhy == "", name+":default-topics", P.pos(fn.Pos()), "Topics default to the slice holding DefaultTopic (helper form)", "the default Topics are not []string{DefaultTopic}: "+defWhy)
		c.check(topWhy == "", name+":onsession-topics", P.pos(fn.Pos()), "OnSession's topics are used exactly when allowed and non-empty (helper form)", "OnSession's topics are not installed exactly when allowed && len(topics) > 0: "+topWhy)
		c.check(retWhy == "", name+":allowed", P.pos(fn.Pos()), "the session is accepted iff OnSession is nil or allows it (helper form)", "getSubscription's verdict is not OnSession's: "+retWhy)
		a := on.Call.Args
		good := len(a) == 2 && isResOf(a[0], sess)
		if good {
			b, ok := isFieldLoad(a[1], "Session", "Req")
			good = ok && carriesOnly(b, sess)
		}
		c.check(good, name+":onsession-args", P.ipos(on), "OnSession(sess.Res, sess.Req)", "OnSession is not given the session's writer and request")
		return
	}
	for _, st := range topicsStores {
		if a, ok := loadedFrom(st.Val); ok {
			if g, ok := a.(*ssa.Global); ok {
				if v, ok := globalStringSliceInit(P, g); ok && len(v) == 1 && v[0] == defaultTopicConst(P) {
					defOK = true
					continue
				}
			}
		}
		if onTopics(st.Val) {
			// guarded by ok && len(topics) > 0
			g1 := guardedByBool(fn, st.Block(), onOK, true)
			g2 := false
			for _, ifi := range ifsIn(fn) {
				op, k, succ, ok := cmpConstEdge(ifi, func(v ssa.Value) bool {
					call, ok := v.(*ssa.Call)
					if !ok {
						return false
					}
					b, ok := call.Call.Value.(*ssa.Builtin)
					return ok && b.Name() == "len" && onTopics(call.Call.Args[0])
				})
				if ok && ((op == token.GTR && k == 0) || (op == token.NEQ && k == 0) || (op == token.GEQ && k == 1)) && edgeDominates(ifi.Block(), succ, st.Block()) {
					g2 = true
				}
			}
			if !(g1 && g2) {
				topOK = false
			}
			continue
		}
		// defaulter(topics) under ok: installs the topics when non-empty and the default otherwise
		if call, ok := st.Val.(*ssa.Call); ok && len(call.Call.Args) == 1 && onTopics(call.Call.Args[0]) {
			if callee := call.Call.StaticCallee(); callee != nil && isTopicsDefaulter(P, callee) && guardedByBool(fn, st.Block(), onOK, true) {
				continue
			}
		}
		topOK = false
	}
	c.check(defOK, name+":default-topics", P.pos(fn.Pos()), "Topics default to the slice holding DefaultTopic", "the default Topics are not []string{DefaultTopic}")
	c.check(topOK, name+":onsession-topics", P.pos(fn.Pos()), "OnSession's topics are used when allowed and non-empty", "OnSession's topics are not installed exactly when allowed && len(topics) > 0")
	// returns: second result is OnSession's ok (or true when OnSession is nil)
	retOK := true
	for _, ret := range returnsOf(fn) {
		if merged || len(ret.Results) < 2 {
			continue // the verdict is acted on in place (R16.3 :rejected / :subscribe-args)
		}
		for _, s := range sources(ret.Results[1]) {
			if b, isC := constBool(s); isC {
				if !b || !guardedByNil(fn, ret.Block(), func(v ssa.Value) bool { _, ok := isFieldLoad(v, "Server", "OnSession"); return ok }, true) {
					retOK = false
				}
				continue
			}
			if !onOK(s) {
				retOK = false
			}
		}
	}
	c.check(retOK, name+":allowed", P.pos(fn.Pos()), "the session is accepted iff OnSession is nil or allows it", "getSubscription's verdict is not OnSession's")
	// OnSession receives the session's writer and request
	if on != nil {
		a := on.Call.Args
		good := len(a) == 2 && isResOf(a[0], sess)
		if good {
			b, ok := isFieldLoad(a[1], "Session", "Req")
			good = ok && carriesOnly(b, sess)
		}
		c.check(good, name+":onsession-args", P.ipos(on), "OnSession(sess.Res, sess.Req)", "OnSession is not given the session's writer and request")
	}
}

func defaultTopicConst(P *Program) string {
	if k, ok := P.SSE.Pkg.Scope().Lookup("DefaultTopic").(*types.Const); ok && k.Val().Kind() == constant.String {
		return constant.StringVal(k.Val())
	}
	return "\x00missing"
}

func r16_5(c *Ctx) {
	P := c.P
	fn := P.Fn("Upgrade")
	if fn == nil || len(fn.Params) != 2 {
		c.anchor("Upgrade(w, r)")
		return
	}
	r := fn.Params[1]
	name := fnLabel(fn)
	var lk *ssa.Lookup
	isReq := func(b ssa.Value) bool {
		for _, s := range sources(b) {
			if s != ssa.Value(r) {
				return false
			}
		}
		return true
	}
	eachInstrDeep(fn, func(in ssa.Instruction) {
		if l, ok := in.(*ssa.Lookup); ok {
			if b, ok := isFieldLoad(l.X, "http.Request", "Header"); ok && isReq(b) {
				lk = l
			}
		}
		if call, ok := isStaticCall(in, "(net/http.Header).Get", "(net/http.Header).Values"); ok {
			_ = call
		}
	})
	var hdrVals ssa.Value
	if lk != nil {
		k, ok := constString(lk.Index)
		c.check(ok && k == "Last-Event-Id" && textproto.CanonicalMIMEHeaderKey(k) == k, name+":header-key", P.ipos(lk), "the header map is indexed with the canonical key Last-Event-Id", "the request header map is indexed with a non-canonical key: the client's Last-Event-ID header is never found")
		hdrVals = lk
	} else if vals := func() *ssa.Call {
		// Header.Values(key): the same slice as the map lookup, with the key canonicalised by the library
		var found *ssa.Call
		eachInstrDeep(fn, func(in ssa.Instruction) {
			if call, ok := isStaticCall(in, "(net/http.Header).Values"); ok {
				if b, ok := isFieldLoad(call.Call.Args[0], "http.Request", "Header"); ok && isReq(b) {
					found = call
				}
			}
		})
		return found
	}(); vals != nil {
		_, ok := canonicalIsLastEventID(vals.Call.Args[1])
		c.check(ok, name+":header-key", P.ipos(vals), "Header.Values with a key canonicalising to Last-Event-Id", "Header.Values with another key")
		hdrVals = vals
	} else {
		// Header.Get idiom
		var get *ssa.Call
		eachInstrDeep(fn, func(in ssa.Instruction) {
			if call, ok := isStaticCall(in, "(net/http.Header).Get"); ok {
				get = call
			}
		})
		if get == nil {
			c.bad(name+":header-key", P.pos(fn.Pos()), "Upgrade never reads the Last-Event-Id header")
			return
		}
		_, ok := canonicalIsLastEventID(get.Call.Args[1])
		c.check(ok, name+":header-key", P.ipos(get), "Header.Get with a key canonicalising to Last-Event-Id", "Header.Get with another key")
	}
	// NewID(h[0]) guarded by len != 0 && != ""
	var nid *ssa.Call
	eachInstrDeep(fn, func(in ssa.Instruction) {
		if call, ok := isModCall(in, "NewID"); ok {
			nid = call
		}
	})
	if nid == nil {
		c.bad(name+":parse", P.pos(fn.Pos()), "the header value is not parsed through NewID (validation)")
		return
	}
	argOK := false
	if hdrVals != nil {
		if a, ok := loadedFrom(nid.Call.Args[0]); ok {
			if ia, ok := a.(*ssa.IndexAddr); ok && ia.X == hdrVals {
				if k, ok := constInt(ia.Index); ok && k == 0 {
					argOK = true
				}
			}
		}
	}
	c.check(argOK || hdrVals == nil, name+":parse", P.ipos(nid), "NewID(header[0])", "the parsed value is not the first value of the header")
	// session's LastEventID: zero value or NewID's result
	stOK := false
	for _, a := range P.fieldAccesses("Session", "LastEventID") {
		if a.Kind != "write" || a.Fn != fn {
			continue
		}
		st := a.Use.(*ssa.Store)
		stOK = true
		for _, s := range sources(st.Val) {
			if isZeroConst(s) {
				continue
			}
			if e, ok := s.(*ssa.Extract); ok && e.Index == 0 && e.Tuple == ssa.Value(nid) {
				continue
			}
			stOK = false
		}
	}
	c.check(stOK, name+":session-id", P.pos(fn.Pos()), "Session.LastEventID is the unset value or NewID's result", "Session.LastEventID is built without validation")
	// ... and the unset value is used only where the header was found absent or empty
	if stOK {
		isLenHdr := func(v ssa.Value) bool {
			call, ok := v.(*ssa.Call)
			if !ok {
				return false
			}
			b, ok := call.Call.Value.(*ssa.Builtin)
			return ok && b.Name() == "len" && hdrVals != nil && call.Call.Args[0] == hdrVals
		}
		isHdrValue := func(v ssa.Value) bool {
			if hdrVals != nil {
				if a, ok := loadedFrom(v); ok {
					if ia, ok := a.(*ssa.IndexAddr); ok && ia.X == hdrVals {
						k, isK := constInt(ia.Index)
						return isK && k == 0
					}
				}
				return false
			}
			_, ok := isStaticCall(v, "(net/http.Header).Get")
			return ok
		}
		var emptyTestOn func(p absPath, wantEmpty bool) bool
		absentOn := func(p absPath) bool {
			if pathEstablishes(p.St, factInt(isLenHdr, 0, 0, 0)) {
				return true
			}
			if emptyTestOn(p, true) {
				return true
			}
			// ... or NewID rejected the value (an invalid ID leaves the session's ID unset)
			for e := range p.St.Edges {
				if len(e.From.Instrs) == 0 {
					continue
				}
				if ifi, isIf := e.From.Instrs[len(e.From.Instrs)-1].(*ssa.If); isIf {
					if whenNil, ok := nilEdge(ifi, func(v ssa.Value) bool {
						x, ok := p.St.resolve(v).(*ssa.Extract)
						return ok && x.Index == 1 && x.Tuple == ssa.Value(nid)
					}); ok && e.Idx != whenNil {
						return true
					}
				}
			}
			return false
		}
		emptyTestOn = func(p absPath, wantEmpty bool) bool {
			for e := range p.St.Edges {
				if len(e.From.Instrs) == 0 {
					continue
				}
				ifi, isIf := e.From.Instrs[len(e.From.Instrs)-1].(*ssa.If)
				if !isIf {
					continue
				}
				cnd := decodeIf(ifi)
				if cnd.Y == nil {
					continue
				}
				x, y := cnd.X, cnd.Y
				if _, isK := constString(x); isK {
					x, y = y, x
				}
				if k, isK := constString(y); isK && k == "" && isHdrValue(p.St.resolve(x)) {
					if (cnd.Op == token.EQL && e.Idx == cnd.succWhen(wantEmpty)) || (cnd.Op == token.NEQ && e.Idx == cnd.succWhen(!wantEmpty)) {
						return true
					}
				}
			}
			return false
		}
		isParsed := func(v ssa.Value) bool {
			e, ok := v.(*ssa.Extract)
			return ok && e.Tuple == ssa.Value(nid)
		}
		dropped, undecidedWhy, parsedEmpty := "", "", ""
		// decide(f, valueOf): on every path of f the value is NewID's result, or the path found the header
		// absent/empty; a value produced by an inlined helper is decided inside the helper
		var decide func(f *ssa.Function, valueOf func(p absPath) (ssa.Value, bool), depth int)
		decide = func(f *ssa.Function, valueOf func(p absPath) (ssa.Value, bool), depth int) {
			paths, okP := abstractPaths(f, 4096, nil)
			if !okP || depth > 2 {
				undecidedWhy = "too many paths"
				return
			}
			for _, p := range paths {
				v, ok := valueOf(p)
				if !ok || p.Ret == nil {
					continue
				}
				v = p.St.resolve(v)
				if isParsed(v) {
					if !emptyTestOn(p, false) {
						parsedEmpty = P.ipos(p.Ret)
					}
					continue
				}
				if a, ok := loadedFrom(v); ok {
					// a cell: the last store to it on this path
					fromParse, seen := false, false
					for _, in := range p.Instrs {
						if s2, ok := in.(*ssa.Store); ok && s2.Addr == a {
							seen = true
							fromParse = isParsed(p.St.resolve(s2.Val))
						}
					}
					if seen && fromParse {
						if !emptyTestOn(p, false) {
							parsedEmpty = P.ipos(p.Ret)
						}
						continue
					}
				}
				if call, ok := v.(*ssa.Call); ok {
					if g := iifeCallee(call); g != nil && g.Signature.Results().Len() == 1 {
						decide(g, func(q absPath) (ssa.Value, bool) {
							if q.Ret == nil || len(q.Ret.Results) != 1 {
								return nil, false
							}
							return q.Ret.Results[0], true
						}, depth+1)
						continue
					}
				}
				if !absentOn(p) {
					dropped = P.ipos(p.Ret)
				}
			}
		}
		decide(fn, func(p absPath) (ssa.Value, bool) {
			var st *ssa.Store
			for _, in := range p.Instrs {
				if s2, ok := in.(*ssa.Store); ok {
					if _, ok := isFieldSel(s2.Addr, "Session", "LastEventID"); ok {
						st = s2
					}
				}
			}
			if st == nil {
				return nil, false
			}
			return st.Val, true
		}, 0)
		if undecidedWhy != "" {
			c.undecided(name+":used-when-present", P.pos(fn.Pos()), undecidedWhy)
		} else {
			c.check(dropped == "", name+":used-when-present", P.pos(fn.Pos()), "the session gets the unset ID only where the header was found absent or empty", "a request that carries a non-empty Last-Event-Id can be given the unset ID (path to "+dropped+" without an absent/empty test): the client's resume position is ignored")
			c.check(parsedEmpty == "", name+":unset-when-empty", P.pos(fn.Pos()), "the session gets a parsed ID only where the header value was found non-empty", "an empty Last-Event-Id header can reach NewID (path to "+parsedEmpty+" without a non-empty test): the session then carries the set, empty ID instead of the unset one, which replayers look up as if it had been issued")
		}
	}

	// Res = getResponseWriter(w) non-nil
	var grw *ssa.Call
	eachInstrDeep(fn, func(in ssa.Instruction) {
		if call, ok := isModCall(in, "getResponseWriter"); ok {
			grw = call
		}
	})
	if grw != nil {
		good := false
		for _, ret := range returnsOf(fn) {
			for _, s := range sources(ret.Results[1]) {
				if isGlobalLoad(s, "ErrUpgradeUnsupported") && guardedByNil(fn, ret.Block(), func(v ssa.Value) bool { return v == ssa.Value(grw) }, true) {
					good = true
				}
				// (writer, found) form: found == false exactly when the writer is nil
				if isGlobalLoad(s, "ErrUpgradeUnsupported") && grw.Call.StaticCallee() != nil && grw.Call.StaticCallee().Signature.Results().Len() == 2 {
					paired := true
					for _, gr := range returnsOf(grw.Call.StaticCallee()) {
						if len(gr.Results) != 2 {
							paired = false
							continue
						}
						fv, isC := constBool(gr.Results[1])
						if !isC || fv == isNilConst(gr.Results[0]) {
							paired = false
						}
					}
					if paired && guardedByBool(fn, ret.Block(), func(v ssa.Value) bool { return carriesExtract(v, grw, 1) }, false) {
						good = true
					}
				}
			}
		}
		c.check(good, name+":unsupported", P.ipos(grw), "a writer that cannot flush yields ErrUpgradeUnsupported", "Upgrade does not fail with ErrUpgradeUnsupported when no flusher is found")
	}
}

func r16_6(c *Ctx) {
	P := c.P
	fn := P.Fn("getResponseWriter")
	if fn == nil {
		c.anchor("getResponseWriter")
		return
	}
	name := fnLabel(fn)
	// type asserts in dominance order
	var tas []*ssa.TypeAssert
	eachInstrDeep(fn, func(in ssa.Instruction) {
		if ta, ok := in.(*ssa.TypeAssert); ok && ta.CommaOk {
			tas = append(tas, ta)
		}
	})
	hasMethod := func(t types.Type, m string, results int) bool {
		it, ok := t.Underlying().(*types.Interface)
		if !ok {
			return false
		}
		for i := 0; i < it.NumMethods(); i++ {
			if it.Method(i).Name() == m && it.Method(i).Type().(*types.Signature).Results().Len() == results {
				return true
			}
		}
		return false
	}
	idx := map[string]int{}
	for i, ta := range tas {
		switch {
		case hasMethod(ta.AssertedType, "FlushError", 1):
			idx["FlushError"] = i + 1
		case hasMethod(ta.AssertedType, "Flush", 0):
			idx["Flush"] = i + 1
		case hasMethod(ta.AssertedType, "Unwrap", 1):
			idx["Unwrap"] = i + 1
		}
	}
	order := idx["FlushError"] > 0 && idx["Flush"] > 0 && idx["Unwrap"] > 0
	if order {
		fe, f, u := tas[idx["FlushError"]-1], tas[idx["Flush"]-1], tas[idx["Unwrap"]-1]
		order = instrDominates(fe, f) && instrDominates(f, u) && len(loopsContaining(fn, u.Block())) == 1
		// all three tests are made in the loop, i.e. on every unwrapped writer, not only on the outermost one
		order = order && len(loopsContaining(fn, fe.Block())) == 1 && len(loopsContaining(fn, f.Block())) == 1
	}
	// the Unwrap case always goes round the loop again with the unwrapped writer
	if order {
		u := tas[idx["Unwrap"]-1]
		var hdr *ssa.BasicBlock
		if ls := loopsContaining(fn, u.Block()); len(ls) == 1 {
			hdr = ls[0].Head
		}
		escapes, edges := false, 0
		var where ssa.Instruction
		for _, ifi := range ifsIn(fn) {
			s, ok := boolEdge(ifi, func(v ssa.Value) bool {
				e, ok := v.(*ssa.Extract)
				return ok && e.Index == 1 && e.Tuple == ssa.Value(u)
			})
			if !ok || hdr == nil {
				continue
			}
			edges++
			forward([]startPoint{atEdge(ifi.Block(), s)}, func(in ssa.Instruction) searchAction {
				if in.Block() == hdr {
					return stopPath
				}
				if r, ok := in.(*ssa.Return); ok {
					escapes, where = true, r
				}
				return cont
			})
		}
		// and the next round looks at Unwrap()'s result
		feeds := false
		for _, ta := range tas {
			for _, sv := range sources(ta.X) {
				if call, ok := sv.(*ssa.Call); ok && call.Call.IsInvoke() && call.Call.Method.Name() == "Unwrap" {
					feeds = true
				}
			}
		}
		pos := P.pos(fn.Pos())
		if where != nil {
			pos = P.ipos(where)
		}
		c.check(edges > 0 && !escapes && feeds, name+":unwrap-continues", pos, "a writer that only unwraps is always examined again (any nesting depth)", "the Unwrap case can return instead of examining the unwrapped writer: a flusher behind several wrappers is not found")
	}
	c.check(order, name+":switch-order", P.pos(fn.Pos()), "FlushError is preferred over Flush, which is preferred over Unwrap; inside a loop", "the type switch does not test FlushError, then Flush, then Unwrap inside a loop: flush errors are lost or wrapped writers are not unwrapped")
	// default nil
	nilRet := false
	for _, ret := range returnsOf(fn) {
		for _, s := range sources(ret.Results[0]) {
			if isNilConst(s) {
				nilRet = true
			}
		}
	}
	c.check(nilRet, name+":default-nil", P.pos(fn.Pos()), "returns nil when nothing can flush", "no nil default")
	// wrappers
	if f := P.Fn("(flusherErrorWrapper).Flush"); f != nil {
		good := false
		for _, ret := range returnsOf(f) {
			if call, ok := ret.Results[0].(*ssa.Call); ok && call.Call.IsInvoke() && call.Call.Method.Name() == "FlushError" {
				good = true
			}
		}
		// ... whatever it is: no return substitutes nil (or another error) for it
		for _, ret := range returnsOf(f) {
			for _, sv := range sources(ret.Results[0]) {
				if call, ok := sv.(*ssa.Call); !ok || !call.Call.IsInvoke() || call.Call.Method.Name() != "FlushError" {
					good = false
				}
			}
		}
		c.check(good, fnLabel(f), P.pos(f.Pos()), "returns FlushError()'s result on every path", "the error-returning wrapper drops or replaces the flush error on some path (e.g. reports success for http.ErrNotSupported): a writer that cannot flush looks healthy and ServeHTTP answers 200 instead of 500")
	} else {
		c.anchor("(flusherErrorWrapper).Flush")
	}
	if f := P.Fn("(flusherWrapper).Flush"); f != nil {
		good := false
		eachInstrDeep(f, func(in ssa.Instruction) {
			if call, ok := in.(*ssa.Call); ok && call.Call.IsInvoke() && call.Call.Method.Name() == "Flush" {
				good = true
			}
		})
		c.check(good, fnLabel(f), P.pos(f.Pos()), "delegates to the embedded Flush", "the plain wrapper does not flush")
	} else {
		c.anchor("(flusherWrapper).Flush")
	}
}

func r05_1(c *Ctx) {
	P := c.P
	// client header key
	rr := P.Fn("(*Connection).resetRequest")
	up := P.Fn("Upgrade")
	if rr == nil || up == nil {
		c.anchor("resetRequest / Upgrade")
		return
	}
	var clientKeys []string
	eachInstrDeep(rr, func(in ssa.Instruction) {
		if call, ok := isStaticCall(in, "(net/http.Header).Set", "(net/http.Header).Del"); ok {
			if k, ok := constString(call.Call.Args[1]); ok {
				clientKeys = append(clientKeys, k)
			}
		}
	})
	serverKey := ""
	eachInstrDeep(up, func(in ssa.Instruction) {
		if l, ok := in.(*ssa.Lookup); ok {
			if _, ok := isFieldLoad(l.X, "http.Request", "Header"); ok {
				serverKey, _ = constString(l.Index)
			}
		}
		if call, ok := isStaticCall(in, "(net/http.Header).Get", "(net/http.Header).Values"); ok {
			if k, ok := constString(call.Call.Args[1]); ok {
				serverKey = textproto.CanonicalMIMEHeaderKey(k)
			}
		}
	})
	good := serverKey != "" && len(clientKeys) > 0
	for _, k := range clientKeys {
		if textproto.CanonicalMIMEHeaderKey(k) != serverKey {
			good = false
		}
	}
	c.check(good, "wire:last-event-id-header", P.pos(up.Pos()), "the header key the client writes canonicalises to the key the server reads ("+serverKey+")", "the client writes header(s) that do not canonicalise to the key the server indexes with: resumption never works")
	// content type: server value vs DefaultValidator's expected constant
	du := P.Fn("(*Session).doUpgrade")
	serverCT := ""
	if du != nil {
		eachInstrDeep(du, func(in ssa.Instruction) {
			if mu, ok := in.(*ssa.MapUpdate); ok {
				if a, ok := loadedFrom(mu.Value); ok {
					if g, ok := a.(*ssa.Global); ok {
						if v, ok := globalStringSliceInit(P, g); ok && len(v) == 1 {
							serverCT = v[0]
						}
					}
				}
			}
		})
	}
	expected := ""
	for _, fn := range P.Funcs {
		if !inSSEPackage(fn) || fn.Parent() != nil || fn.Name() != "init$1" {
			continue
		}
		// DefaultValidator: compares contentType(...) with a constant
		eachInstr(fn, func(in ssa.Instruction) {
			b, ok := in.(*ssa.BinOp)
			if !ok || (b.Op != token.NEQ && b.Op != token.EQL) {
				return
			}
			if _, ok := isModCall(b.X, "contentType"); ok {
				expected, _ = constString(b.Y)
			}
		})
	}
	if expected == "" {
		for _, fn := range P.Funcs {
			if !inSSEPackage(fn) {
				continue
			}
			eachInstr(fn, func(in ssa.Instruction) {
				b, ok := in.(*ssa.BinOp)
				if !ok || (b.Op != token.NEQ && b.Op != token.EQL) {
					return
				}
				if _, ok := isModCall(b.X, "contentType"); ok {
					expected, _ = constString(b.Y)
				}
			})
		}
	}
	lower := func(s string) string {
		out := []byte(s)
		for i, ch := range out {
			if ch >= 'A' && ch <= 'Z' {
				out[i] = ch + 32
			}
		}
		return string(out)
	}
	c.check(serverCT != "" && expected != "" && lower(serverCT) == expected, "wire:content-type", "-", "the server's Content-Type ("+serverCT+") is what the default validator expects ("+expected+")", "the server's Content-Type value ("+serverCT+") is not what DefaultValidator compares with ("+expected+"): every connection is rejected")
	// the Accept header the client sends
	cn := P.Fn("(*Connection).Connect")
	if cn != nil {
		acc := false
		eachInstrDeep(cn, func(in ssa.Instruction) {
			if call, ok := isStaticCall(in, "(net/http.Header).Set", "(net/http.Header).Add"); ok {
				k, _ := constString(call.Call.Args[1])
				v, _ := constString(call.Call.Args[2])
				if textproto.CanonicalMIMEHeaderKey(k) == "Accept" && v == expected {
					acc = true
				}
			}
		})
		c.check(acc, "wire:accept", P.pos(cn.Pos()), "the client asks for text/event-stream", "the client's Accept header is not the event-stream media type")
	}
}

// ---------------------------------------------------------------------------
// C20

// isSplitOrForwarder: v is splitFunc itself, or a function (literal) that calls splitFunc with its own two
// parameters and returns that call's three results unchanged on every path (it may do other things with
// them, e.g. adjust the BOM option; those are judged by R01.10).
func isSplitOrForwarder(P *Program, v ssa.Value) bool {
	sf := P.Fn("parser.splitFunc")
	if sf == nil {
		return false
	}
	v = stripConvAll(v)
	if mc, ok := v.(*ssa.MakeClosure); ok {
		v = mc.Fn
	}
	f, ok := v.(*ssa.Function)
	if !ok {
		return false
	}
	if t := boundMethodTarget(f); t != nil {
		f = t // `p.split` passed as a method value
	}
	if f == sf {
		return true
	}
	call := splitForwardCall(P, f)
	return call != nil
}

// splitForwardCall returns the call of splitFunc whose results f forwards (nil when f is not a forwarder).
func splitForwardCall(P *Program, f *ssa.Function) *ssa.Call {
	sf := P.Fn("parser.splitFunc")
	if sf == nil || f.Blocks == nil || len(f.Params) < 2 || len(f.Params) > 3 {
		return nil
	}
	params := f.Params[len(f.Params)-2:] // a method's receiver comes first
	var calls []*ssa.Call
	eachInstr(f, func(in ssa.Instruction) {
		if call, ok := in.(*ssa.Call); ok && call.Call.StaticCallee() == sf {
			calls = append(calls, call)
		}
	})
	if len(calls) != 1 {
		return nil
	}
	call := calls[0]
	if len(call.Call.Args) != 2 || call.Call.Args[0] != ssa.Value(params[0]) || call.Call.Args[1] != ssa.Value(params[1]) {
		return nil
	}
	rets := returnsOf(f)
	if len(rets) == 0 {
		return nil
	}
	for _, r := range rets {
		if len(r.Results) != 3 {
			return nil
		}
		for i, res := range r.Results {
			e, ok := res.(*ssa.Extract)
			if !ok || e.Tuple != ssa.Value(call) || e.Index != i {
				return nil
			}
		}
	}
	return call
}

// call0Arg: the first argument (receiver of a static method call) of a call instruction, nil otherwise.
func call0Arg(in ssa.Instruction) ssa.Value {
	if call, ok := in.(*ssa.Call); ok && len(call.Call.Args) > 0 {
		return call.Call.Args[0]
	}
	return nil
}

func r20_1(c *Ctx) {
	P := c.P
	// Parser.Buffer forwards to the scanner
	pb := P.Fn("(*parser.Parser).Buffer")
	nw := P.Fn("parser.New")
	if pb == nil || nw == nil {
		c.anchor("parser.Parser.Buffer / parser.New")
		return
	}
	fwd := false
	eachInstrDeep(pb, func(in ssa.Instruction) {
		if call, ok := isStaticCall(in, "(*bufio.Scanner).Buffer"); ok {
			_, recvOK := isFieldLoad(call.Call.Args[0], "parser.Parser", "inputScanner")
			if recvOK && call.Call.Args[1] == ssa.Value(pb.Params[1]) && call.Call.Args[2] == ssa.Value(pb.Params[2]) {
				fwd = true
			}
		}
	})
	c.check(fwd, fnLabel(pb)+":forwards", P.pos(pb.Pos()), "Parser.Buffer forwards (buf, max) unchanged to the scanner", "Parser.Buffer does not forward its arguments unchanged to bufio.Scanner.Buffer of its scanner")
	// New: scanner created with the split function, stored as inputScanner
	var sc *ssa.Call
	splitOK, storeOK := false, false
	eachInstrDeep(nw, func(in ssa.Instruction) {
		if call, ok := isStaticCall(in, "bufio.NewScanner"); ok && call.Call.Args[0] == ssa.Value(nw.Params[0]) {
			sc = call
		}
	})
	if sc != nil {
		eachInstrDeep(nw, func(in ssa.Instruction) {
			_, viaField := isFieldLoad(call0Arg(in), "parser.Parser", "inputScanner")
			if call, ok := isStaticCall(in, "(*bufio.Scanner).Split"); ok && (call.Call.Args[0] == ssa.Value(sc) || viaField) {
				if isSplitOrForwarder(P, call.Call.Args[1]) {
					splitOK = true
				}
			}
			if st, ok := in.(*ssa.Store); ok {
				if _, ok := isFieldSel(st.Addr, "parser.Parser", "inputScanner"); ok && st.Val == ssa.Value(sc) {
					storeOK = true
				}
			}
		})
	}
	c.check(sc != nil && splitOK && storeOK, fnLabel(nw)+":scanner", P.pos(nw.Pos()), "New wraps the reader in a bufio.Scanner with the event split function and keeps it as the parser's scanner", "parser.New does not (create a bufio.Scanner on r, install splitFunc, keep it as inputScanner)")
	// Read: cfg.MaxEventSize -> p.Buffer(nil, max) under cfg != nil && > 0
	rdf := P.Fn("Read")
	if rdf == nil {
		c.anchor("Read")
	} else {
		var pf *ssa.Function
		eachInstrDeep(rdf, func(in ssa.Instruction) {
			if mc, ok := in.(*ssa.MakeClosure); ok {
				pf, _ = mc.Fn.(*ssa.Function)
			}
		})
		good := false
		if pf != nil {
			eachInstrDeep(pf, func(in ssa.Instruction) {
				call, ok := isModCall(in, "(*parser.Parser).Buffer")
				if !ok {
					return
				}
				mx := call.Call.Args[2]
				if _, ok := isFieldLoad(mx, "ReadConfig", "MaxEventSize"); !ok {
					return
				}
				isMax := func(v ssa.Value) bool { _, ok := isFieldLoad(v, "ReadConfig", "MaxEventSize"); return ok }
				g := false
				if intGuard(pf, call.Block(), isMax, negInf, 1, posInf) {
					g = true
				}
				// the parser it is applied to is the one returned
				retOK := false
				for _, ret := range returnsOf(pf) {
					if ret.Results[0] == call.Call.Args[0] {
						retOK = true
					}
				}
				if _, ok := isModCall(call.Call.Args[0], "parser.New"); ok && g && retOK {
					good = true
				}
			})
		}
		c.check(good, fnLabel(rdf)+":max-event-size", P.pos(rdf.Pos()), "ReadConfig.MaxEventSize reaches Parser.Buffer unchanged when > 0", "ReadConfig.MaxEventSize does not reach the scanner's limit unchanged: the configured maximum is ignored or altered")
	}
	// Connection.Buffer stores; the factory forwards
	cb := P.Fn("(*Connection).Buffer")
	if cb == nil {
		c.anchor("(*Connection).Buffer")
		return
	}
	stB, stM := false, false
	eachInstrDeep(cb, func(in ssa.Instruction) {
		if st, ok := in.(*ssa.Store); ok {
			if _, ok := isFieldSel(st.Addr, "Connection", "buf"); ok && st.Val == ssa.Value(cb.Params[1]) {
				stB = true
			}
			if _, ok := isFieldSel(st.Addr, "Connection", "bufMaxSize"); ok && st.Val == ssa.Value(cb.Params[2]) {
				stM = true
			}
		}
	})
	c.check(stB && stM, fnLabel(cb)+":stores", P.pos(cb.Pos()), "Connection.Buffer stores both arguments", "Connection.Buffer does not store its arguments")
	// other writers of bufMaxSize/buf
	for _, f := range []string{"buf", "bufMaxSize"} {
		for _, a := range P.fieldAccesses("Connection", f) {
			if a.Kind == "write" && a.Fn != cb {
				c.bad(fnLabel(a.Fn)+":write("+f+")", P.ipos(a.Use), "Connection."+f+" is written outside Connection.Buffer")
			}
		}
	}
	crd := P.Fn("(*Connection).read")
	good := false
	if crd != nil && len(crd.Params) >= 2 {
		// the parser reads the response body itself: a reader put in between (a byte limit, another buffer)
		// changes how much is read and when the stream seems to end
		direct, n := true, 0
		for _, rf := range regionFuncs(crd) {
			eachInstr(rf, func(in ssa.Instruction) {
				if call, ok := isModCall(in, "parser.New"); ok {
					n++
					if !(call.Call.Args[0] == ssa.Value(crd.Params[1]) || carriesOnly(call.Call.Args[0], crd.Params[1])) {
						direct = false
					}
				}
			})
		}
		for _, af := range crd.AnonFuncs {
			eachInstrDeep(af, func(in ssa.Instruction) {
				if call, ok := isModCall(in, "parser.New"); ok && af.Parent() == crd {
					n++
					if !(call.Call.Args[0] == ssa.Value(crd.Params[1]) || carriesOnly(call.Call.Args[0], crd.Params[1])) {
						direct = false
					}
				}
			})
		}
		if n > 0 {
			c.check(direct, fnLabel(crd)+":parser-reads-the-body-itself", P.pos(crd.Pos()), "the parser is built on the reader handed to Connection.read",
				"the parser is built on another reader than the one handed to Connection.read (a wrapper that limits, buffers or transforms the body): bytes that belong to no event (comments, blank lines) or to earlier events count against the wrapper, and the stream ends or an event is lost although every event is small")
		}
	}
	if crd != nil {
		for _, af := range crd.AnonFuncs {
			eachInstrDeep(af, func(in ssa.Instruction) {
				call, ok := isModCall(in, "(*parser.Parser).Buffer")
				if !ok {
					return
				}
				_, b := isFieldLoad(call.Call.Args[1], "Connection", "buf")
				_, m := isFieldLoad(call.Call.Args[2], "Connection", "bufMaxSize")
				_, isNew := isModCall(call.Call.Args[0], "parser.New")
				retOK := false
				for _, ret := range returnsOf(af) {
					if ret.Results[0] == call.Call.Args[0] {
						retOK = true
					}
				}
				// applied whenever a limit or buffer is configured: the only bypass is buf == nil && max <= 0
				blocked := map[cfgEdge]bool{}
				through := func(v ssa.Value, field string) bool {
					if _, ok := isFieldLoad(v, "Connection", field); ok {
						return true
					}
					src := sources(v)
					if len(src) == 0 {
						return false
					}
					for _, sv := range src {
						if _, ok := isFieldLoad(sv, "Connection", field); !ok {
							return false
						}
					}
					return true
				}
				isBufV := func(v ssa.Value) bool { return through(v, "buf") }
				isMaxV := func(v ssa.Value) bool { return through(v, "bufMaxSize") }
				for _, ifi := range ifsIn(af) {
					// nothing is configured - and the parser may keep its defaults - only where BOTH no buffer
					// (buf == nil) and no maximum (bufMaxSize <= 0) were established: Buffer(buf, 0) configures the
					// limit through the buffer's capacity
					if lo, hi, okE, ok := intEdgeSets(ifi, isMaxV, negInf); ok {
						for e := 0; e < 2; e++ {
							if okE[e] && hi[e] <= 0 && lo[e] <= hi[e] && factGuards(af, ifi.Block(), factNil(isBufV, true)) {
								blocked[cfgEdge{ifi.Block(), e}] = true
							}
						}
					}
					if sn, ok := nilEdge(ifi, isBufV); ok && factGuards(af, ifi.Block(), factInt(isMaxV, negInf, negInf, 0)) {
						blocked[cfgEdge{ifi.Block(), sn}] = true
					}
				}
				skip := false
				for _, ret := range returnsOf(af) {
					if reachesAvoiding(entryPoint(af), ret, func(x ssa.Instruction) bool { return x == ssa.Instruction(call) }, blocked) {
						skip = true
					}
				}
				if b && m && isNew && retOK && !skip {
					good = true
				}
			})
		}
	}
	c.check(good, "(*Connection).read:buffer-wiring", posOfFn(P, crd), "the parser factory applies (c.buf, c.bufMaxSize) whenever a maximum is configured", "the connection's configured buffer/maximum does not reach the parser whenever bufMaxSize > 0")
}

func posOfFn(P *Program, fn *ssa.Function) string {
	if fn == nil {
		return "-"
	}
	return P.pos(fn.Pos())
}

func r20_2(c *Ctx) {
	P := c.P
	fn := P.Fn("parser.splitFunc")
	if fn == nil || len(fn.Params) != 2 {
		c.anchor("parser.splitFunc")
		return
	}
	data, atEOF := fn.Params[0], fn.Params[1]
	name := fnLabel(fn)
	// returns with a non-nil token
	var adv ssa.Value // the advance value compared with len(data)
	n := 0
	for i, ret := range returnsOf(fn) {
		if len(ret.Results) != 3 {
			continue
		}
		tok := sources(ret.Results[1])
		nonNil := false
		for _, t := range tok {
			if !isNilConst(t) {
				nonNil = true
			}
		}
		if !nonNil {
			continue
		}
		n++
		rn := name + ":token-return#" + itoa(i)
		// every path to this return passes evidence that a second line break was found (position <
		// len(data), established outside/at the exit of the scan loop) or that the input is at EOF
		okk := false
		{
			_, notAtEnd := scanPosEdges(fn, data)
			blocked := map[cfgEdge]bool{}
			for e := range notAtEnd {
				blocked[e] = true
			}
			for _, j := range ifsIn(fn) {
				if sE, ok := boolEdge(j, func(v ssa.Value) bool { return v == ssa.Value(atEOF) }); ok {
					blocked[cfgEdge{j.Block(), sE}] = true
				}
			}
			if len(blocked) > 0 && !reachesAvoiding(entryPoint(fn), ret, nil, blocked) {
				okk = true
			}
			for _, j := range ifsIn(fn) {
				cnd := decodeIf(j)
				if cnd.Y != nil && (isLenOf(cnd.Y, data) || isLenOf(cnd.X, data)) {
					if isLenOf(cnd.X, data) {
						adv = cnd.Y
					} else {
						adv = cnd.X
					}
				}
			}
		}
		c.check(okk, rn, P.ipos(ret), "a token is returned only when a second line break was found (advance < len(data)) or at EOF; otherwise more data is requested", "a token can be returned although the buffer ended inside an event and the input is not at EOF: a truncated event is delivered instead of ErrTooLong / more data")
	}
	if n == 0 {
		c.bad(name+":token-return", P.pos(fn.Pos()), "splitFunc never returns a token")
	}
	// the scan loop has an exit at the end of the data
	if adv != nil {
		atEnd, _ := scanPosEdges(fn, data)
		ok := false
		for e := range atEnd {
			if len(loopsContaining(fn, e.From)) > 0 {
				ok = true
			}
		}
		c.check(ok, name+":scan-loop", P.pos(fn.Pos()), "the scan loop can stop at the end of the buffered data", "the scan loop has no exit at the end of the data")
	}
	// empty input requests more data
	emptyOK := false
	for _, ifi := range ifsIn(fn) {
		succ, ok := intEdge(ifi, func(v ssa.Value) bool { return isLenOf(v, data) }, 0, 0, 0)
		if ok {
			good := true
			forward([]startPoint{atEdge(ifi.Block(), succ)}, func(in ssa.Instruction) searchAction {
				if r, ok := in.(*ssa.Return); ok {
					kk, isK := constInt(r.Results[0])
					if !isK || kk != 0 || !isNilConst(r.Results[1]) {
						good = false
					}
				}
				return cont
			})
			emptyOK = good
		}
	}
	c.check(emptyOK, name+":empty-input", P.pos(fn.Pos()), "empty input yields no token", "empty input does not return (0, nil, nil)")
}

func r20_3(c *Ctx) {
	P := c.P
	fn := P.Fn("parser.splitFunc")
	if fn == nil {
		c.anchor("parser.splitFunc")
		return
	}
	data := fn.Params[0]
	for i, ret := range returnsOf(fn) {
		if len(ret.Results) != 3 || isNilConst(ret.Results[1]) {
			continue
		}
		sl, ok := ret.Results[1].(*ssa.Slice)
		good := ok && (sl.X == ssa.Value(data) || carriesOnly(sl.X, data)) && sl.High != nil && (sl.High == ret.Results[0] || sameValue(sl.High, ret.Results[0])) && sl.Max == nil
		c.check(good, fnLabel(fn)+":token-slice#"+itoa(i), P.ipos(ret), "token = data[start:advance] and advance is what is consumed", "the returned token is not data[start:advance] with the same advance that is reported as consumed: bytes are skipped or delivered twice")
		if k, isK := constInt(ret.Results[2]); !isNilConst(ret.Results[2]) || isK {
			_ = k
			c.bad(fnLabel(fn)+":token-error#"+itoa(i), P.ipos(ret), "a token is returned together with an error")
		}
	}
}

func r20_4(c *Ctx) {
	P := c.P
	fn := P.Fn("parser.splitFunc")
	if fn == nil || len(fn.Params) != 2 {
		c.anchor("parser.splitFunc")
		return
	}
	data, atEOF := fn.Params[0], fn.Params[1]
	n := 0
	for i, ret := range returnsOf(fn) {
		if len(ret.Results) != 3 || !isNilConst(ret.Results[1]) {
			continue
		}
		k, isK := constInt(ret.Results[0])
		if !isK || k != 0 {
			continue
		}
		n++
		name := fnLabel(fn) + ":need-more-data#" + itoa(i)
		// justified by len(data) == 0 ...
		empty := false
		if intGuard(fn, ret.Block(), func(v ssa.Value) bool { return isLenOf(v, data) }, 0, 0, 0) {
			empty = true
		}
		// ... or by (scanned position == len(data)) && !atEOF: every path to this return passes an edge
		// that establishes the position reached the end of the buffer, and the return is under !atEOF
		scanned := false
		{
			atEnd, _ := scanPosEdges(fn, data)
			if len(atEnd) > 0 && !reachesAvoiding(entryPoint(fn), ret, nil, atEnd) &&
				factGuards(fn, ret.Block(), factBool(func(v ssa.Value) bool { return v == ssa.Value(atEOF) }, false)) {
				scanned = true
			}
		}
		c.check(empty || scanned, name, P.ipos(ret), "more data is requested only for empty input, or when the scan reached the end of the buffer and the input is not at EOF",
			"more data is requested on a path where the scan did not establish that the buffer ends inside an event: a complete event already buffered is withheld, the buffer fills and bufio reports ErrTooLong for events below the limit")
	}
	if n == 0 {
		c.bad(fnLabel(fn)+":need-more-data", P.pos(fn.Pos()), "splitFunc never requests more data")
	}
	// bytes leave the buffer only inside a token (or at EOF): what is released without a token is not
	// counted against the scanner's buffer limit, so a stream of blank lines would be read without bound
	for i, ret := range returnsOf(fn) {
		if len(ret.Results) != 3 || !isNilConst(ret.Results[1]) || !isNilConst(ret.Results[2]) {
			continue
		}
		if k, isK := constInt(ret.Results[0]); isK && k == 0 {
			continue
		}
		atEnd := factGuards(fn, ret.Block(), factBool(func(v ssa.Value) bool { return v == ssa.Value(atEOF) }, true))
		c.check(atEnd, fnLabel(fn)+":no-advance-without-token#"+itoa(i), P.ipos(ret), "input is consumed without a token only at EOF",
			"splitFunc consumes input without returning a token while more input may follow: those bytes are never counted against the maximum event size, so a stream of blank lines is read without bound and ErrTooLong is never reported")
	}
}

// isTopicsDefaulter: f(initial []string) returns `initial` exactly on paths where len(initial) >= 1
// and the slice holding DefaultTopic on the others.
func isTopicsDefaulter(P *Program, f *ssa.Function) bool {
	if f.Blocks == nil || len(f.Params) != 1 || f.Signature.Results().Len() != 1 || len(loopsOf(f)) > 0 {
		return false
	}
	p := f.Params[0]
	isLen := isLenCallOf(func(v ssa.Value) bool { return v == ssa.Value(p) })
	rets := returnsOf(f)
	if len(rets) == 0 {
		return false
	}
	for _, ret := range rets {
		for _, src := range sources(ret.Results[0]) {
			switch {
			case src == ssa.Value(p):
				if !intGuard(f, ret.Block(), isLen, 0, 1, posInf) {
					return false
				}
			default:
				a, ok := loadedFrom(src)
				g, isG := a.(*ssa.Global)
				if !ok || !isG {
					return false
				}
				v, ok := globalStringSliceInit(P, g)
				if !ok || len(v) != 1 || v[0] != defaultTopicConst(P) {
					return false
				}
				if !intGuard(f, ret.Block(), isLen, 0, 0, 0) {
					return false
				}
			}
		}
	}
	return true
}

// Rule-set widenings found necessary by the third wave of independent changes: a change to one of
// these rules' subjects breaks the listed property as well (see DESIGN.md §9).
func init() {
	add := func(prop string, note string, rules ...string) {
		p := properties[prop]
		if p == nil {
			return
		}
		have := map[string]bool{}
		for _, r := range p.Rules {
			have[r] = true
		}
		for _, r := range rules {
			if !have[r] {
				p.Rules = append(p.Rules, r)
			}
		}
		p.Explanation += " " + note
	}
	add("C11", "R12.6 is claimed here too: \"a connection that ends is retried according to the backoff policy … until retries are exhausted\" rests on the retry counter and the elapsed-time limit of backoffController.next/reset.", "R12.6")
	add("C05", "R08.5/R08.6/R09.8 are claimed here too: a wrong replay start position at the resume boundary duplicates or loses an event across a reconnect.", "R08.5", "R08.6", "R09.8")
	add("C02", "R01.8 is claimed here too: go-sse's own decoder must strip exactly the one space the encoder writes after the colon.", "R01.8")
	add("C15", "R01.8 is claimed here too: the round trip goes through scanSegment/trimFirstSpace.", "R01.8")
	add("C02", "R01.13 is claimed here too: go-sse's own reader must rebuild Data as the LF-join of the data lines, leading empty lines included.", "R01.13")
	add("C06", "R17.1 is claimed here too: Subscribe returns the subscriber's own Send/Flush error only if the value handed to it is that error.", "R17.1")
	add("C04", "R18.2/R18.3 are claimed here too: a resize that loses or reorders buffered events breaks resumption.", "R18.3")
	add("C06", "R17.3 is claimed here too: \"Joe does not panic\" when a replayer panics rests on the recover handler, which must itself be free of operations that can panic on the recovered value.", "R17.3")
	add("C02", "R01.3/R01.4 are claimed here too: \"interpreted … by go-sse's own [parser] as exactly one event per message … Type and ID are the ones set\" rests on the interpreter dispatching every event and resetting the type between events.", "R01.3", "R01.4")
	add("C06", "R08.3/R08.7/R09.7/R09.9 are claimed here too: \"Subscribe returns the subscriber's own … replay error\" rests on Replay returning the Send error it met.", "R08.3", "R08.7", "R09.7", "R09.9")
	add("C05", "R03.1/R06.4 are claimed here too: \"the server process survives every such cut\" rests on the handler's writer never being used after Subscribe returned (no second goroutine, no deferred unsubscription).", "R03.1", "R06.4")
	add("C10", "R11.2 is claimed here too: its reset-failure obligations are exactly \"a body that cannot be re-obtained ends Connect with an error\".", "R11.2")
	add("C18", "R18.7 is claimed here too: a read index that jumps while the ring is not full leaves occupied slots that dequeue never visits (their messages stay reachable).", "R18.7")
	add("C15", "R14.4 is claimed here too: the text round trip presupposes single-line ID and type values (a value ending in a line break encodes to a field line followed by a blank line).", "R14.4")
	add("C19", "R08.2 is claimed here too: \"every publication gets its own ID\" rests on the 64-bit counter and its single increment.", "R08.2")
	add("C16", "R16.7 the Server's exported wrappers: init() installs s.Provider, or a fresh Joe only when that is nil, exactly once; Shutdown and Publish call init() and then the provider's method on every path, with their own arguments (Publish with the topics or the default slice), and return its result; ServeHTTP calls init() before it subscribes.", "R16.7")
	add("C07", "R16.7 is claimed here too: Server.Shutdown must reach the provider's Shutdown on every path, also on a server that has not been used yet (otherwise the shutdown is forgotten and the next use creates a live provider).", "R16.7")
	add("C05", "R16.7 is claimed here too: Server.Publish forwards the message with its topics (or the default topic) to the provider the sessions are subscribed to.", "R16.7")
	add("C20", "R20.5 the http.Response body obtained by the client is handed only to Connection.read (the bounded parser) and closed; nothing else reads it (a drain-before-close reads an endless stream without bound and keeps Connect from returning).", "R20.5")
	add("C11", "R20.5 is claimed here too: \"returns at once without retrying when the response validator … fails\" and the retry after a lost connection require that leaving doConnect does not read the rest of a live stream.", "R20.5")
	add("C04", "R08.3/R08.4/R09.7/R09.1 are claimed here too: \"receives every later event … exactly once and in publish order\" rests on the replay iteration visiting exactly the occupied slots after the presented one and skipping (not stopping at) expired entries.", "R08.3", "R08.4", "R09.7", "R09.1")
	add("C06", "R08.4/R03.1 are claimed here too: a replay that goes on after a failed Send keeps using the failed writer and loses its error; subscriber bookkeeping touched from another goroutine than the loop's releases Subscribe calls while Joe still uses their writers.", "R08.4", "R03.1")
	add("C14", "R16.5 is claimed here too: the Last-Event-Id header reaches the session only through NewID, whose failure leaves the ID unset (no panic, no unvalidated value).", "R16.5")
	add("C01", "R20.4 is claimed here too: an event that is complete in the buffer is delivered without waiting for further bytes (\"however its bytes are split across reads\").", "R20.4")
	add("C20", "R01.6 is claimed here too: \"Read and Connection never panic\" includes the optional retry callback, which sse.Read leaves nil.", "R01.6")
	add("C13", "R10.1 is claimed here too: its dispatch-unconditional obligation is what brings every event to the callbacks subscribed at that moment.", "R10.1")
	add("C04", "R09.4 is claimed here too: an unexpired buffered event must not be overwritten by the Put that follows (the ring grows first), or a resume misses it.", "R09.4")
	add("C05", "R08.4 is claimed here too: the replay on reconnect visits exactly the occupied slots after the presented one.", "R08.4")
	add("C06", "R04.3 is claimed here too: a subscription taken from the channel is either registered (so that shutdown or unsubscription releases it) or answered at once; otherwise its Subscribe call never returns.", "R04.3")
	add("C07", "R04.3 is claimed here too (every pending Subscribe returns after Shutdown only if every accepted subscription was registered).", "R04.3")
	add("C17", "R03.3/R03.8 are claimed here too: \"all other subscribers still receive that message\" - once - rests on the fan-out visiting every subscriber exactly once per message whatever happens to one of them.", "R03.3", "R03.8")
	add("C08", "R19.2 is claimed here too: the stored copies must not be rewritten through a shared chunk array.", "R19.2")
	add("C09", "R19.2/R18.3 are claimed here too: stored copies are not rewritten through a shared chunk array, and a resize copies the live range into a fresh buffer (compacting in place overwrites unexpired events).", "R19.2", "R18.3")
	add("C05", "R08.3/R09.7 are claimed here too: the replay on reconnect starts at the index found for the presented ID, which must not be made stale by a collection in between.", "R08.3", "R09.7")
	add("C06", "R07.5 is claimed here too: closing one of Joe's request channels makes a parked Subscribe or Publish panic.", "R07.5")
	add("C03", "R04.3 is claimed here too: the subscriber is registered with the topics it asked for (its subscription is stored as received), which is what \"never to any other subscriber\" is judged against.", "R04.3")
	add("C17", "R03.6 is claimed here too: \"that Publish returns [the Put error]\" rests on Publish returning what arrives on its reply channel.", "R03.6")
	add("C05", "R06.1 is claimed here too: a subscriber's channel closed twice panics Joe's goroutine and with it the server process.", "R06.1")
	add("C03", "R04.2 is claimed here too: what is handed to the subscribers is the published message unless Put returned a non-nil replacement; a nil message handed out is not the message that was accepted.", "R04.2")
	add("C11", "R10.5 is claimed here too: \"returns at once without retrying when the body reset fails\" holds for a second Connect on the same Connection only if the retry marker survives the first.", "R10.5")
	add("C16", "R15.2 is claimed here too: Session.Send returns what Message.WriteTo returns, so \"the first write error is returned to the caller\" rests on WriteTo stopping at, and returning, the first failing write.", "R15.2")
	add("C17", "R08.1/R09.6 are claimed here too: a Put that fails must not have stored anything; an entry without a message makes the next Replay panic, which disables the replayer for every later subscriber although only one publisher's message was at fault.", "R08.1", "R09.6")
	add("C20", "R11.2 is claimed here too: after ErrTooLong the attempt ends (and is retried from a fresh request); re-reading the half-consumed body delivers a truncated event.", "R11.2")
	for _, id := range []string{"C03", "C04", "C05", "C06", "C17"} {
		add(id, "R03.10 no variable that lives across iterations of Joe's loop (other than the replayer variable) flows into a Send, a replayer call, a reply to Subscribe/Publish, the subscribers map or a branch of a later request (a hoisted `err` makes a later subscriber inherit an earlier one's replay error; a reused topics slice rewrites the topics of messages the replayer already stores).", "R03.10")
	}
	add("C01", "R10.1/R20.1 are claimed here too: a Connection seeds each response's interpreter with the last event ID it has seen (the events' LastEventID continues across reconnects), and a ReadConfig without a size keeps the documented 64 KiB default (events above the scanner's initial 4 KiB still arrive).", "R10.1", "R20.1")
	add("C05", "R12.5/R12.6/R18.5 are claimed here too: a client that is cut repeatedly keeps reconnecting only if every successful connection resets the retry budget, and a resumed client sees the buffer in publish order only if a growing ring is copied oldest part first.", "R12.5", "R12.6", "R18.5")
	add("C04", "R16.4 is claimed here too: a client resuming through the Server reaches Joe with the ID it presented only if the subscription built around OnSession keeps it.", "R16.4")
	add("C07", "R03.2/R03.6 are claimed here too: a buffered request channel lets a Publish be accepted without ever being handled once Joe stops.", "R03.2", "R03.6")
	add("C19", "R02.5 is claimed here too: a decoded message (and its clones and stored copies) must own its bytes.", "R02.5")
	add("C06", "R04.2 is claimed here too: a nil message handed to the subscribers' writers (Put failed and its nil result was installed) panics inside Joe's goroutine.", "R04.2")
	add("C03", "R06.4 is claimed here too: Subscribe returns only once Joe has released the subscription; a return while Joe still holds it lets the fan-out reach a subscriber that is gone for its caller.", "R06.4")
	for _, id := range []string{"C20", "C12", "C11"} {
		add(id, "R20.6 the reconnection code calls no random-number function that panics on a non-positive argument without having tested the argument (the interval it is computed from is set by the server's retry field).", "R20.6")
	}
	add("C11", "R12.2 is claimed here too: every Connect call starts with a fresh backoff controller, so retries already used (or time already elapsed) by an earlier call or since the connection was created do not shorten this call's schedule.", "R12.2")
	add("C05", "R09.2 is claimed here too: a collection run with a clock reading ahead of the Put's drops events a reconnecting client has not yet received.", "R09.2")
	add("C15", "R02.1 is claimed here too: the digits of a retry value are written from storage owned by the call (a shared buffer lets overlapping encodings rewrite each other's digits).", "R02.1")
	add("C06", "R07.4 is claimed here too: \"Joe does not panic\" for every interleaving with Shutdown rests on the close of j.done being protected against a second, concurrent close.", "R07.4")
	for _, id := range []string{"C04", "C05", "C08", "C09"} {
		add(id, "R03.7 is claimed here too: the replayers choose what to replay with the same topicsIntersect as the live fan-out.", "R03.7")
	}
	add("C13", "R01.7 is claimed here too: the event flushed at a clean end of stream must carry the type (and ID) collected for it, like every other event, or it reaches the wrong callbacks.", "R01.7")
	add("C10", "R01.7 is claimed here too: the event flushed at a clean end of stream carries the last event ID, which is what the next reconnect presents.", "R01.7")
	add("C15", "R02.5 is claimed here too: the decoded message owns its strings; a view of the caller's buffer changes when the buffer is reused, and the round trip no longer reproduces the fields.", "R02.5")
	add("C05", "R02.5/R19.2 are claimed here too: the stored last event ID must not point into the scanner's buffer (the next read rewrites it and the reconnect resumes from the wrong event), and messages kept by the replayer must not share chunk storage with later clones.", "R02.5", "R19.2")
	add("C10", "R02.5 is claimed here too: the last event ID kept for the reconnect must own its bytes.", "R02.5")
	add("C13", "R01.3/R01.4 are claimed here too: routing by type presupposes that the interpreter gives every event its own type (reset at dispatch) and dispatches every event that has one.", "R01.3", "R01.4")
}

// scanPosEdges classifies the branch edges of the split function that compare a scan-derived position
// (a value built from NewlineIndex results through the loop) with len(data): atEnd edges establish
// position == len(data) (the position never exceeds the length, so `!(pos < len)` counts), notAtEnd
// edges establish position < len(data). Only edges that are outside the scan loop or leave it count:
// inside the loop the position is still moving.
func scanPosEdges(fn *ssa.Function, data ssa.Value) (atEnd, notAtEnd map[cfgEdge]bool) {
	atEnd, notAtEnd = map[cfgEdge]bool{}, map[cfgEdge]bool{}
	derives := func(pos ssa.Value) bool {
		found := false
		seen := map[ssa.Value]bool{}
		var walk func(v ssa.Value)
		walk = func(v ssa.Value) {
			if seen[v] || found {
				return
			}
			seen[v] = true
			switch x := v.(type) {
			case *ssa.Phi:
				for _, e := range x.Edges {
					walk(e)
				}
			case *ssa.BinOp:
				walk(x.X)
				walk(x.Y)
			case *ssa.UnOp:
				if x.Op == token.MUL {
					for _, sv := range sources(x) {
						if sv != v {
							walk(sv)
						}
					}
				}
			case *ssa.Extract:
				if call, ok := x.Tuple.(*ssa.Call); ok {
					if _, ok := isModCall(call, "parser.NewlineIndex"); ok {
						found = true
					}
					// a result of an inlined helper that contains the scan loop
					if g := iifeCallee(call); g != nil {
						for _, r := range returnsOf(g) {
							if x.Index < len(r.Results) {
								walk(r.Results[x.Index])
							}
						}
					}
				}
			}
		}
		walk(pos)
		return found
	}
	for _, ifi := range ifsIn(fn) {
		cnd := decodeIf(ifi)
		if cnd.Y == nil {
			continue
		}
		pos, op := cnd.X, cnd.Op
		switch {
		case isLenOf(cnd.Y, data):
		case isLenOf(cnd.X, data):
			pos, op = cnd.Y, flipOp(op)
		default:
			continue
		}
		if !derives(pos) {
			continue
		}
		// a position that was moved again after the scan loop finished (the consumed line break of a found
		// event boundary) no longer says where the scan stopped
		adjusted := false
		{
			seen := map[ssa.Value]bool{}
			var walk func(v ssa.Value)
			walk = func(v ssa.Value) {
				if seen[v] || adjusted {
					return
				}
				seen[v] = true
				switch x := v.(type) {
				case *ssa.Phi:
					if len(loopsContaining(fn, x.Block())) == 0 {
						for _, e := range x.Edges {
							walk(e)
						}
					}
				case *ssa.BinOp:
					if len(loopsContaining(x.Parent(), x.Block())) == 0 && x.Parent() == fn {
						for _, l := range loopsOf(fn) {
							if l.Head.Dominates(x.Block()) {
								adjusted = true
							}
						}
					}
				}
			}
			walk(pos)
		}
		var endE, notE = -1, -1
		switch op {
		case token.EQL:
			endE, notE = cnd.succWhen(true), cnd.succWhen(false)
		case token.NEQ:
			endE, notE = cnd.succWhen(false), cnd.succWhen(true)
		case token.LSS:
			endE, notE = cnd.succWhen(false), cnd.succWhen(true)
		case token.GEQ:
			endE, notE = cnd.succWhen(true), cnd.succWhen(false)
		default:
			continue
		}
		b := ifi.Block()
		counts := func(e int) bool {
			for _, l := range loopsContaining(fn, b) {
				if l.Blocks[b.Succs[e]] {
					return false
				}
			}
			return true
		}
		if counts(endE) && !adjusted {
			atEnd[cfgEdge{b, endE}] = true
		}
		if counts(notE) {
			notAtEnd[cfgEdge{b, notE}] = true
		}
	}
	return
}

// carriesExtract: v is result idx of call, or a local (also a captured one) that only ever holds it.
func carriesExtract(v ssa.Value, call *ssa.Call, idx int) bool {
	is := func(x ssa.Value) bool {
		e, ok := x.(*ssa.Extract)
		return ok && call != nil && e.Index == idx && e.Tuple == ssa.Value(call)
	}
	if is(v) {
		return true
	}
	src := sources(v)
	for _, sv := range src {
		if !is(sv) {
			return false
		}
	}
	return len(src) > 0
}

// topicsVerdictHelper: the single Topics store takes result ti, and every two-result return of fn takes
// result vi, of one immediately-invoked literal g.
func topicsVerdictHelper(fn *ssa.Function, topicsStores []*ssa.Store, merged bool) (g *ssa.Function, ti, vi int) {
	if len(topicsStores) != 1 || merged {
		return nil, 0, 0
	}
	e, ok := topicsStores[0].Val.(*ssa.Extract)
	if !ok {
		return nil, 0, 0
	}
	call, ok := e.Tuple.(*ssa.Call)
	if !ok {
		return nil, 0, 0
	}
	g = iifeCallee(call)
	if g == nil {
		return nil, 0, 0
	}
	vi = -1
	for _, ret := range returnsOf(fn) {
		if len(ret.Results) < 2 {
			continue
		}
		ve, ok := ret.Results[1].(*ssa.Extract)
		if !ok || ve.Tuple != ssa.Value(call) || (vi >= 0 && vi != ve.Index) {
			return nil, 0, 0
		}
		vi = ve.Index
	}
	if vi < 0 {
		return nil, 0, 0
	}
	return g, e.Index, vi
}

// ---------------------------------------------------------------------------
// R16.7: the exported wrappers of Server

func r16_7(c *Ctx) {
	P := c.P
	// anchored by role: the sync.Once.Do call on Server.initDone, wherever it is written
	isDo := func(in ssa.Instruction) (*ssa.Call, bool) {
		call, ok := isStaticCall(in, "(*sync.Once).Do")
		if !ok || len(call.Call.Args) != 2 {
			return nil, false
		}
		if _, ok := isFieldSel(call.Call.Args[0], "Server", "initDone"); !ok {
			return nil, false
		}
		return call, true
	}
	var containsDo func(f *ssa.Function, depth int) bool
	containsDo = func(f *ssa.Function, depth int) bool {
		if f == nil || f.Blocks == nil || depth > 2 {
			return false
		}
		found := false
		eachInstr(f, func(in ssa.Instruction) {
			if found {
				return
			}
			if _, ok := isDo(in); ok {
				found = true
				return
			}
			if call, ok := in.(*ssa.Call); ok {
				callee := call.Call.StaticCallee()
				if callee == nil {
					callee = iifeCallee(call)
				}
				if callee != nil && inSSEPackage(callee) && containsDo(callee, depth+1) {
					found = true
				}
			}
		})
		return found
	}
	// an instruction of fn that performs the initialisation: the Do call itself, or a call of a function doing it
	isInitPoint := func(in ssa.Instruction) bool {
		if _, ok := isDo(in); ok {
			return true
		}
		call, ok := in.(*ssa.Call)
		if !ok {
			return false
		}
		callee := call.Call.StaticCallee()
		if callee == nil {
			callee = iifeCallee(call)
		}
		return callee != nil && inSSEPackage(callee) && containsDo(callee, 0)
	}
	var do *ssa.Call
	var doFn *ssa.Function
	var dos []*ssa.Call // an inlined initialiser appears once per caller
	for _, f := range P.Funcs {
		if !inSSEPackage(f) {
			continue
		}
		f := f
		eachInstr(f, func(in ssa.Instruction) {
			if call, ok := isDo(in); ok {
				dos = append(dos, call)
				if do == nil {
					do, doFn = call, f
				}
			}
		})
	}
	if do == nil {
		c.anchor("sync.Once.Do on Server.initDone")
		return
	}
	// the callback(s): a function literal or a bound method
	inInit := map[*ssa.Function]bool{}
	for _, d := range dos {
		var cbFn *ssa.Function
		for _, sv := range append(sources(d.Call.Args[1]), d.Call.Args[1]) {
			if mc, ok := sv.(*ssa.MakeClosure); ok {
				if g, ok := mc.Fn.(*ssa.Function); ok {
					cbFn = g
					if t := boundMethodTarget(g); t != nil {
						cbFn = t
					}
				}
			}
		}
		if cbFn == nil {
			c.undecided(fnLabel(doFn)+":provider", P.ipos(d), "the Once callback is not a function literal or a method value")
			return
		}
		inInit[cbFn] = true
	}
	{
		name := "Server.initDone.Do:provider"
		var collect func(f *ssa.Function)
		collect = func(f *ssa.Function) {
			for _, a := range f.AnonFuncs {
				inInit[a] = true
				collect(a)
			}
		}
		for f := range inInit {
			collect(f)
		}
		good, fromField, freshJoe := true, false, false
		why := ""
		for _, a := range P.fieldAccesses("Server", "provider") {
			if a.Kind != "write" {
				continue
			}
			st := a.Use.(*ssa.Store)
			if !inInit[a.Fn] {
				good, why = false, "Server.provider is written outside the Once callback at "+P.ipos(st)
				continue
			}
			for _, sv := range append(sources(st.Val), st.Val) {
				sv = stripConv(sv)
				if _, ok := isFieldLoad(sv, "Server", "Provider"); ok {
					fromField = true
				}
				if al, ok := sv.(*ssa.Alloc); ok && typeIs(al.Type(), "sse", "Joe") {
					// only where the configured provider turned out to be nil
					isProv := func(v ssa.Value) bool {
						if _, ok := isFieldLoad(v, "Server", "provider"); ok {
							return true
						}
						_, ok := isFieldLoad(v, "Server", "Provider")
						return ok
					}
					guarded := factGuards(a.Fn, st.Block(), factNil(isProv, true))
					if !guarded {
						// chosen in a local first: the edge on which the fresh Joe reaches the merge is the nil edge
						eachInstr(a.Fn, func(in ssa.Instruction) {
							phi, ok := in.(*ssa.Phi)
							if !ok {
								return
							}
							for i, e := range phi.Edges {
								if stripConv(e) == ssa.Value(al) {
									pr := phi.Block().Preds[i]
									if predEstablishes(pr, phi.Block(), factNil(isProv, true), a.Fn) || factGuards(a.Fn, pr, factNil(isProv, true)) {
										guarded = true
									}
								}
							}
						})
					}
					if guarded {
						freshJoe = true
					} else {
						good, why = false, "the default Joe replaces the provider without a nil test"
					}
				}
			}
		}
		if good && !(fromField && freshJoe) {
			good, why = false, "the Once callback does not (take s.Provider, fall back to a fresh Joe)"
		}
		c.check(good, name, P.ipos(do), "provider := s.Provider, or a fresh Joe when that is nil, once", "the server's provider is not initialised as documented ("+why+")")
	}
	isProviderVal := func(v ssa.Value) bool {
		src := append(sources(v), v)
		okAny := false
		for _, sv := range src {
			if _, ok := isFieldLoad(sv, "Server", "provider"); ok {
				okAny = true
			}
		}
		return okAny
	}
	// forwarders
	for _, spec := range []struct {
		fn, method string
	}{{"(*Server).Shutdown", "Shutdown"}, {"(*Server).Publish", "Publish"}} {
		fn := P.Fn(spec.fn)
		if fn == nil {
			c.anchor(spec.fn)
			continue
		}
		name := fnLabel(fn)
		var fwd ssa.CallInstruction
		eachInstrDeep(fn, func(in ssa.Instruction) {
			if ci, ok := isInvoke(in, "sse", "Provider", spec.method); ok {
				fwd = ci
			}
		})
		if fwd == nil {
			c.bad(name+":forwards", P.pos(fn.Pos()), spec.fn+" never calls the provider's "+spec.method)
			continue
		}
		// every path: the initialisation, then the provider call; the result is returned
		good, why := true, ""
		var initCall ssa.Instruction
		eachInstr(fn, func(in ssa.Instruction) {
			if isInitPoint(in) && initCall == nil {
				initCall = in
			}
		})
		lf, _ := liftInstr(fwd, fn)
		if initCall == nil || lf == nil || !(instrDominates(initCall, lf) || initCall == lf) {
			good, why = false, "the provider is not initialised (Once.Do) before the call"
		}
		for _, ret := range returnsOf(fn) {
			if lf != nil && reachesAvoiding(entryPoint(fn), ret, func(in ssa.Instruction) bool { return in == lf }, nil) {
				good, why = false, "a path returns without calling the provider's "+spec.method+" ("+P.ipos(ret)+")"
			}
			for _, sv := range sources(ret.Results[0]) {
				if sv != fwd.Value() {
					good, why = false, "the provider's result is not what is returned"
				}
			}
		}
		if !isProviderVal(fwd.Common().Value) {
			good, why = false, "the call does not go to s.provider"
		}
		args := fwd.Common().Args
		switch spec.method {
		case "Shutdown":
			if len(args) != 1 || !carriesOnly(args[0], fn.Params[1]) {
				good, why = false, "the caller's context is not passed on"
			}
		case "Publish":
			okArgs := len(args) == 2 && carriesOnly(args[0], fn.Params[1])
			if okArgs {
				okT := false
				if call, isC := args[1].(*ssa.Call); isC && len(call.Call.Args) == 1 && carriesOnly(call.Call.Args[0], fn.Params[2]) {
					if callee := call.Call.StaticCallee(); callee != nil && isTopicsDefaulter(P, callee) {
						okT = true
					}
				}
				okArgs = okT
			}
			if !okArgs {
				good, why = false, "the message and the topics (or the default topic when none are given) are not passed on"
			}
		}
		c.check(good, name+":forwards", P.ipos(fwd), "initialise, then s.provider."+spec.method+" with the caller's arguments on every path; its result is returned", spec.fn+" does not forward to the provider on every path ("+why+")")
	}
	// ServeHTTP initialises before it subscribes
	if fn := P.Fn("(*Server).ServeHTTP"); fn != nil {
		var sub ssa.CallInstruction
		var initCall ssa.Instruction
		eachInstrDeep(fn, func(in ssa.Instruction) {
			if ci, ok := isInvoke(in, "sse", "Provider", "Subscribe"); ok {
				sub = ci
			}
		})
		eachInstr(fn, func(in ssa.Instruction) {
			if isInitPoint(in) && initCall == nil {
				initCall = in
			}
		})
		if sub != nil {
			ls, _ := liftInstr(sub, fn)
			c.check(initCall != nil && ls != nil && instrDominates(initCall, ls), fnLabel(fn)+":init-first", P.ipos(sub), "the provider is initialised before the subscription", "ServeHTTP subscribes without having initialised the provider")
		}
	} else {
		c.anchor("(*Server).ServeHTTP")
	}
}

// ---------------------------------------------------------------------------
// R20.5: who may read the response body

func r20_5(c *Ctx) {
	P := c.P
	n := 0
	for _, f := range P.Funcs {
		if !inSSEPackage(f) || f.Synthetic != "" {
			continue
		}
		eachInstr(f, func(in ssa.Instruction) {
			v, ok := in.(ssa.Value)
			if !ok {
				return
			}
			if _, isBody := isFieldLoad(v, "http.Response", "Body"); !isBody {
				return
			}
			n++
			// follow the value through interface conversions, phis and cells to its uses
			seen := map[ssa.Value]bool{}
			var bad ssa.Instruction
			what := ""
			var follow func(x ssa.Value)
			follow = func(x ssa.Value) {
				if seen[x] || bad != nil {
					return
				}
				seen[x] = true
				refs := x.Referrers()
				if refs == nil {
					return
				}
				for _, r := range *refs {
					switch u := r.(type) {
					case *ssa.ChangeInterface:
						follow(u)
					case *ssa.MakeInterface:
						follow(u)
					case *ssa.Phi:
						follow(u)
					case *ssa.Store:
						if u.Val == x {
							// a local or captured cell: its loads
							if al, ok := cellRoot(u.Addr).(*ssa.Alloc); ok {
								for _, rr := range *al.Referrers() {
									if ld, ok := rr.(*ssa.UnOp); ok && ld.Op == token.MUL {
										follow(ld)
									}
								}
							} else {
								bad, what = u, "stored where the analysis cannot follow it"
							}
						}
					case *ssa.MakeClosure:
						// captured by a function literal: the free variable's uses
						if g, ok := u.Fn.(*ssa.Function); ok {
							for i, b := range u.Bindings {
								if b == x && i < len(g.FreeVars) {
									follow(g.FreeVars[i])
								}
							}
						}
					case ssa.CallInstruction:
						cc := u.Common()
						if cc.IsInvoke() && cc.Value == x {
							if cc.Method.Name() != "Close" {
								bad, what = u, "its "+cc.Method.Name()+" method is called directly"
							}
							continue
						}
						if callee := cc.StaticCallee(); callee != nil {
							nm := callee.String()
							if nm == expandName("(*Connection).read") {
								continue
							}
							if g := iifeCallee0(u); g != nil {
								// an inlined helper: follow the parameter that receives the body
								for i, a := range cc.Args {
									if a == x && i < len(g.Params) {
										follow(g.Params[i])
									}
								}
								continue
							}
							bad, what = u, "it is passed to "+nm
							continue
						}
						bad, what = u, "it is passed to a dynamic call"
					case *ssa.DebugRef, *ssa.BinOp, *ssa.If:
					case *ssa.UnOp:
					default:
					}
				}
			}
			follow(v)
			pos := P.ipos(in)
			if bad != nil {
				pos = P.ipos(bad)
			}
			c.check(bad == nil, fnLabel(f)+":body-use", pos, "the response body is only handed to Connection.read and closed", "the response body is read outside the bounded parser ("+what+"): on a stream that never ends this reads without bound and keeps Connect from returning or retrying")
		})
	}
	if n == 0 {
		c.anchor("a load of http.Response.Body in the client")
	}
}

func iifeCallee0(ci ssa.CallInstruction) *ssa.Function {
	if call, ok := ci.(*ssa.Call); ok {
		return iifeCallee(call)
	}
	return nil
}
