package main

import (
	"go/types"

	"golang.org/x/tools/go/ssa"
)

func init() {
	prop(&PropertySpec{
		ID: "C06", Level: "other",
		Rules: []string{"R06.1", "R06.2", "R06.3", "R06.4", "R06.5", "R03.2", "R03.9"},
		Explanation: "Decides the close-at-most-once typestate of subscriber channels and the hand-over protocol of Subscribe: " +
			"R06.1 every close of a subscriber channel has membership evidence (range key of the subscribers map, a fresh never-inserted subscription, or a positive comma-ok lookup) and is paired with the delete of the same key; " +
			"R06.2 every send on a subscriber channel is followed on every path by its close before the loop can block or go on; " +
			"R06.3 the unsubscription arm removes the subscriber before the next select (unbuffered hand-shake: R03.2); " +
			"R06.4 Subscribe returns only ErrProviderClosed (pre-registration), the value received from its own done channel, or nil after handing over the unsubscription; " +
			"R06.5 a subscription's writer is stored nowhere but the subscribers map and is captured by no goroutine.",
		NotDecided: "absence of panics in user code (writers, replayers); the all-interleavings statement as a theorem (the rules are its structural premises).",
	})
	register(&Rule{ID: "R06.1", Title: "close-at-most-once typestate of subscriber channels", Floor: 1, Run: r06_1})
	register(&Rule{ID: "R06.2", Title: "send on a subscriber channel is followed by its close on every path", Floor: 2, Run: r06_2})
	register(&Rule{ID: "R06.3", Title: "unsubscription arm removes the subscriber before the next select", Floor: 1, Run: r06_3})
	register(&Rule{ID: "R06.4", Title: "Subscribe return sources", Floor: 3, Run: r06_4})
	register(&Rule{ID: "R06.5", Title: "subscription writers do not escape the loop", Floor: 1, Run: r06_5})
}

// membership evidence for a value closed at instruction `at`.
func closeEvidence(P *Program, jp *joeParts, x ssa.Value, at ssa.Instruction, depth int) (string, bool) {
	fn := at.Parent()
	// P1: key of a range over j.subscribers
	for _, s := range sources(x) {
		if _, ok := rangeKeyOverJoeMap(s, "subscribers"); ok {
			continue
		}
		goto notP1
	}
	return "P1: key produced by a range over the subscribers map", true
notP1:
	// P3: dominated by the ok edge of a comma-ok lookup of the same key
	for _, ifi := range ifsIn(fn) {
		s, ok := boolEdge(ifi, func(v ssa.Value) bool {
			e, ok := v.(*ssa.Extract)
			if !ok || e.Index != 1 {
				return false
			}
			lk, ok := e.Tuple.(*ssa.Lookup)
			return ok && lk.CommaOk && isJoeField(lk.X, "subscribers") && sameValue(lk.Index, x)
		})
		if ok && edgeDominates(ifi.Block(), s, at.Block()) {
			return "P3: dominated by a positive comma-ok lookup of the same key in the subscribers map", true
		}
	}
	// P2: done field of the subscription received in this loop iteration, never inserted before the close
	if jp != nil && jp.sel != nil && fn == jp.loop {
		rv := jp.recv("subscription")
		isFresh := func(v ssa.Value) bool {
			base, ok := isFieldLoad(v, "~", "type:subscriber")
			if !ok {
				return false
			}
			// base is the cell holding the received subscription
			if a, isAlloc := cellRoot(base).(*ssa.Alloc); isAlloc {
				st, _, esc := cellStores(a)
				return !esc && len(st) == 1 && st[0] == rv
			}
			return base == rv
		}
		if rv != nil && isFresh(x) {
			// no map insert of this key on any path from the arm to the close
			e, _ := jp.armEdge("subscription")
			inserted := false
			forward([]startPoint{atEdge(e.From, e.Idx)}, func(in ssa.Instruction) searchAction {
				if in == at {
					return stopPath
				}
				if _, isSel := in.(*ssa.Select); isSel {
					return stopPath
				}
				if mu, ok := in.(*ssa.MapUpdate); ok && isJoeField(mu.Map, "subscribers") && isFresh(mu.Key) {
					// does this insert reach the close?
					if reachesAvoiding(afterInstr(in), at, func(i ssa.Instruction) bool { _, s := i.(*ssa.Select); return s }, nil) {
						inserted = true
					}
				}
				return cont
			})
			if !inserted {
				return "P2: done channel of the subscription received in this iteration, not inserted into the map on any path to the close", true
			}
			return "", false
		}
	}
	// parameter: every call site must supply evidence
	if p, ok := x.(*ssa.Parameter); ok && depth < 2 {
		idx := -1
		for i, q := range fn.Params {
			if q == p {
				idx = i
			}
		}
		sites := P.staticCallSites(fn)
		if len(sites) == 0 || idx < 0 {
			return "", false
		}
		for _, site := range sites {
			args := site.Common().Args
			if idx >= len(args) {
				return "", false
			}
			if _, ok := closeEvidence(P, jp, args[idx], site, depth+1); !ok {
				return "call site " + P.ipos(site) + " in " + fnLabel(site.Parent()) + " passes " + describe(args[idx]) + " without membership evidence", false
			}
		}
		return "every call site passes a value with membership evidence", true
	}
	return "", false
}

func r06_1(c *Ctx) {
	P := c.P
	jp := findJoe(P)
	for _, pr := range jp.problems {
		c.anchor(pr)
	}
	if jp.loop == nil {
		return
	}
	for _, fn := range P.Funcs {
		eachInstr(fn, func(in ssa.Instruction) {
			cl, ok := isBuiltin(in, "close")
			if !ok {
				return
			}
			x := cl.Common().Args[0]
			if !isSubscriberType(x.Type()) {
				return
			}
			name := fnLabel(fn) + ":close(" + roleOf(x) + ")"
			why, ok := closeEvidence(P, jp, x, in, 0)
			if !ok {
				det := "close of a subscriber channel without evidence that it is still registered (not a range key of the subscribers map, not a fresh subscription, no positive comma-ok lookup): closing twice panics the loop goroutine and kills the process"
				if why != "" {
					det += "; " + why
				}
				c.bad(name, P.ipos(in), det,
					"failing schedule: a subscriber's Send fails (loop sends the error and removes it) while its context is cancelled; Subscribe's last select picks the unsubscription arm; the loop closes the channel a second time")
				return
			}
			// registered keys (P1/P3/call sites) need the delete of the same key in this function
			if !isP2(why) {
				hasDelete := false
				eachInstr(fn, func(d ssa.Instruction) {
					if dc, ok := isBuiltin(d, "delete"); ok {
						a := dc.Common().Args
						if isJoeField(a[0], "subscribers") && sameValue(a[1], x) {
							hasDelete = true
						}
					}
				})
				if !hasDelete {
					c.bad(name, P.ipos(in), "subscriber channel is closed but not deleted from the subscribers map in the same function: the fan-out would send on a closed channel, and the exit cleanup would close it again")
					return
				}
			}
			c.ok(name, P.ipos(in), why)
		})
	}
}

func isP2(why string) bool { return len(why) > 2 && why[:2] == "P2" }

func roleOf(v ssa.Value) string {
	switch x := v.(type) {
	case *ssa.Parameter:
		return "param " + x.Name()
	case *ssa.Extract:
		return "extract#" + itoa(x.Index)
	}
	if _, n, _, ok := fieldOfLoad(v); ok {
		return "." + n
	}
	return v.Name()
}

func r06_2(c *Ctx) {
	P := c.P
	jp := findJoe(P)
	if jp.loop == nil {
		c.anchor("Joe loop")
		return
	}
	closers := subscriberClosers(P)
	reach := P.reachFrom(jp.loop)
	for _, fn := range P.Funcs {
		if !reach[fn] {
			continue
		}
		eachInstr(fn, func(in ssa.Instruction) {
			snd, ok := in.(*ssa.Send)
			if !ok || !isSubscriberType(snd.Chan.Type()) {
				return
			}
			name := fnLabel(fn) + ":send(" + roleOf(snd.Chan) + ")"
			isX := func(v ssa.Value) bool { return sameValue(v, snd.Chan) || sameLoad(v, snd.Chan) }
			var offender ssa.Instruction
			forward([]startPoint{afterInstr(in)}, func(i ssa.Instruction) searchAction {
				if closesValue(i, closers, isX) {
					return stopPath
				}
				switch i.(type) {
				case *ssa.Select, *ssa.Send, *ssa.Return, *ssa.Next:
					if offender == nil {
						offender = i
					}
					return stopPath
				}
				if u, ok := i.(*ssa.UnOp); ok && u.Op.String() == "<-" {
					if offender == nil {
						offender = i
					}
					return stopPath
				}
				return cont
			})
			if offender != nil {
				c.bad(name, P.ipos(in), "after sending the terminal error the channel is not closed before the loop goes on ("+P.ipos(offender)+"): the subscriber stays registered with a full buffer (a second failure blocks the loop) or Subscribe never observes the close")
			} else {
				c.ok(name, P.ipos(in), "send is followed by the close of the same channel on every path before the next blocking operation / iteration")
			}
		})
	}
}

// sameLoad: both are loads of the same field of the same cell (e.g. two loads
// of sub.done) with no store to that field in the function.
func sameLoad(a, b ssa.Value) bool {
	aa, ok1 := loadedFrom(a)
	ba, ok2 := loadedFrom(b)
	if !ok1 || !ok2 || !sameAddr(aa, ba) {
		return false
	}
	fa, ok := aa.(*ssa.FieldAddr)
	if !ok {
		return false
	}
	// the enclosing cell must be a local written only as a whole
	root, ok := cellRoot(fa.X).(*ssa.Alloc)
	if !ok {
		return false
	}
	for _, r := range *root.Referrers() {
		if f2, ok := r.(*ssa.FieldAddr); ok && f2.Field == fa.Field {
			for _, rr := range *f2.Referrers() {
				if st, ok := rr.(*ssa.Store); ok && st.Addr == ssa.Value(f2) {
					return false
				}
			}
		}
	}
	return true
}

func r06_3(c *Ctx) {
	P := c.P
	jp := findJoe(P)
	if jp.loop == nil || jp.sel == nil {
		c.anchor("Joe loop/select")
		return
	}
	e, ok := jp.armEdge("unsubscription")
	rv := jp.recv("unsubscription")
	if !ok || rv == nil {
		c.bad(fnLabel(jp.loop)+":unsubscription-arm", P.ipos(jp.sel), "the loop's select has no receive on Joe.unsubscription: cancelled subscribers are never removed")
		return
	}
	closers := subscriberClosers(P)
	var offender ssa.Instruction
	forward([]startPoint{atEdge(e.From, e.Idx)}, func(i ssa.Instruction) searchAction {
		if closesValue(i, closers, func(v ssa.Value) bool { return v == rv }) {
			return stopPath
		}
		switch i.(type) {
		case *ssa.Select, *ssa.Return:
			if offender == nil {
				offender = i
			}
			return stopPath
		}
		return cont
	})
	name := fnLabel(jp.loop) + ":unsubscription-arm"
	if offender != nil {
		c.bad(name, P.ipos(jp.sel), "a path through the unsubscription arm reaches the next select without removing/closing the received subscriber: Subscribe has returned while its writer can still be called")
	} else {
		c.ok(name, P.ipos(jp.sel), "the received subscriber is removed before the next select")
	}
}

func r06_4(c *Ctx) {
	P := c.P
	fn := P.Fn("(*Joe).Subscribe")
	if fn == nil {
		c.anchor("(*Joe).Subscribe")
		return
	}
	// the local done channel: a MakeChan of capacity >= 1 converted to subscriber
	var done *ssa.MakeChan
	eachInstrDeep(fn, func(in ssa.Instruction) {
		if mc, ok := in.(*ssa.MakeChan); ok {
			done = mc
		}
	})
	if done == nil {
		c.anchor("Subscribe's done channel")
		return
	}
	isDone := func(v ssa.Value) bool {
		return stripConv(v) == ssa.Value(done) || carriesOnly(stripConv(v), done) || carriesOnlyConv(v, done)
	}
	var sels []*ssa.Select
	eachInstrDeep(fn, func(in ssa.Instruction) {
		if s, ok := in.(*ssa.Select); ok {
			sels = append(sels, s)
		}
	})
	for i, ret := range returnsOf(fn) {
		name := fnLabel(fn) + ":return#" + itoa(i)
		if len(ret.Results) != 1 {
			c.undecided(name, P.ipos(ret), "arity")
			continue
		}
		for _, s := range sources(ret.Results[0]) {
			switch {
			case isGlobalLoad(s, "ErrProviderClosed"):
				// only on an arm receiving from j.done of a select that also sends on j.subscription
				good := false
				for _, sel := range sels {
					hasSub := false
					doneIdx := -1
					for k, st := range sel.States {
						if st.Dir == types.SendOnly && isJoeField(st.Chan, "subscription") {
							hasSub = true
						}
						if st.Dir == types.RecvOnly && isJoeField(st.Chan, "done") {
							doneIdx = k
						}
					}
					if hasSub && doneIdx >= 0 {
						if e, ok := selectArmEdge(sel, doneIdx); ok && (edgeDominates(e.From, e.Idx, ret.Block()) || factGuards(fn, ret.Block(), factEdges(e))) {
							good = true
						}
					}
				}
				c.check(good, name, P.ipos(ret), "ErrProviderClosed only on the shutdown arm of the registration select",
					"ErrProviderClosed returned outside the pre-registration select: a registered subscriber would be abandoned without being removed")
			case isNilConst(s):
				good := false
				for _, sel := range sels {
					for k, st := range sel.States {
						if st.Dir == types.SendOnly && isJoeField(st.Chan, "unsubscription") && isDone(st.Send) {
							if e, ok := selectArmEdge(sel, k); ok && (edgeDominates(e.From, e.Idx, ret.Block()) || factGuards(fn, ret.Block(), factEdges(e))) {
								good = true
							}
						}
					}
				}
				if !good {
					c.bad(name, P.ipos(ret), "Subscribe returns nil without having handed its unsubscription to the loop: the writer can be called after Subscribe returned")
				} else {
					// D10: the select that hands over the unsubscription also has the `<-done` case; when both are
					// ready (Joe already removed this subscriber because its Send/Flush failed, and is idle) the
					// choice is random, so a constant nil here drops the subscriber's own error
					c.bad(name, P.ipos(ret), "Subscribe returns the constant nil right after handing over its unsubscription, without looking at done again: when the subscriber's Send/Flush failure and its cancellation race, the error Joe had already reported (still buffered in done) is dropped in about half the cases",
						"failing schedule: a subscriber whose Send cancels its own context and returns an error; one Publish -> Subscribe returns nil instead of the Send error in ~50% of the runs (the third select picks `j.unsubscription <- done` over the buffered error)")
				}
			default:
				// value received from its own done channel
				good := false
				if e, ok := s.(*ssa.Extract); ok {
					if sel, ok := e.Tuple.(*ssa.Select); ok {
						r := 0
						for _, st := range sel.States {
							if st.Dir != types.RecvOnly {
								continue
							}
							if 2+r == e.Index && isDone(st.Chan) {
								good = true
							}
							r++
						}
					}
				}
				if u, ok := s.(*ssa.UnOp); ok && u.Op.String() == "<-" && isDone(u.X) {
					good = true
				}
				if good {
					c.ok(name, P.ipos(ret), "returns the value received from its own done channel")
				} else {
					c.undecided(name, P.ipos(ret), "return operand is not ErrProviderClosed, nil or a value received from the done channel: "+describe(s))
				}
			}
		}
	}
	// a plain receive after registration must be on the call's own done channel
	eachInstrDeep(fn, func(in ssa.Instruction) {
		if u, ok := in.(*ssa.UnOp); ok && u.Op.String() == "<-" {
			c.check(isDone(u.X), fnLabel(fn)+":plain-receive", P.ipos(in), "plain receive on its own done channel",
				"Subscribe blocks in a plain receive that cannot observe its own done channel: the subscriber's own error (or shutdown) does not end Subscribe")
		}
	})
	// every select after registration must be able to observe done (the error or the close)
	for _, sel := range sels {
		isReg := false
		for _, st := range sel.States {
			if st.Dir == types.SendOnly && isJoeField(st.Chan, "subscription") {
				isReg = true
			}
		}
		if isReg {
			continue
		}
		has := false
		for _, st := range sel.States {
			if st.Dir == types.RecvOnly && isDone(st.Chan) {
				has = true
			}
		}
		c.check(has, fnLabel(fn)+":post-registration-select", P.ipos(sel), "select after registration receives from its own done channel",
			"a select after registration does not receive from the done channel: the subscriber's own error (or shutdown) cannot end Subscribe")
	}
	// a subscriber's writer is called only by the fan-out of the message arm (and by the replayer during
	// Subscribe's replay): a Send or Flush from any other place of Joe's code - a removal helper, the
	// shutdown path - can run after that Subscribe call has returned
	{
		lp := findLoop(P)
		allowed := map[ssa.Instruction]bool{}
		for _, sn := range lp.sends {
			if lp.jp.inArm("message", sn.Block()) {
				allowed[sn] = true
			}
		}
		for _, fl := range lp.flushes {
			if lp.jp.inArm("message", fl.Block()) {
				allowed[fl] = true
			}
		}
		n := 0
		for _, f := range P.Funcs {
			if !isJoeCode(P, f) {
				continue
			}
			eachInstr(f, func(in ssa.Instruction) {
				for _, m := range []string{"Send", "Flush"} {
					if ci, ok := isInvoke(in, "sse", "MessageWriter", m); ok && !allowed[ci] {
						n++
						c.bad(fnLabel(f)+":writer-call-outside-fan-out", P.ipos(in), "a subscriber's "+m+" is called outside the message arm's fan-out: this call can happen after the subscriber's Subscribe has returned (cancellation hand-off, failure already reported)")
					}
				}
			})
		}
		if n == 0 {
			c.ok("joe:writer-call-sites", "-", "MessageWriter methods are called only in the fan-out of the message arm")
		}
	}
}

func isGlobalLoad(v ssa.Value, name string) bool {
	a, ok := loadedFrom(v)
	if !ok {
		return false
	}
	g, ok := a.(*ssa.Global)
	return ok && g.Name() == name && g.Pkg != nil && g.Pkg.Pkg.Path() == modPath
}

func r06_5(c *Ctx) {
	P := c.P
	jp := findJoe(P)
	if jp.loop == nil {
		c.anchor("Joe loop")
		return
	}
	reach := P.reachFrom(jp.loop)
	isWriterish := func(t types.Type) bool {
		return typeIs(t, "sse", "Subscription") || typeIs(t, "sse", "subscription") || typeIs(t, "sse", "MessageWriter")
	}
	n := 0
	for _, fn := range P.Funcs {
		if !reach[fn] || !inSSEPackage(fn) {
			continue
		}
		// only Joe's own code: the loop, its helpers (functions with *Joe receiver or replay helpers in joe.go)
		if !isJoeCode(P, fn) {
			continue
		}
		eachInstr(fn, func(in ssa.Instruction) {
			switch x := in.(type) {
			case *ssa.Go:
				n++
				c.bad(fnLabel(fn)+":go", P.ipos(in), "a goroutine is started from Joe's loop: operations are no longer serialised and a writer may be used after Subscribe returned")
			case *ssa.Store:
				if !isWriterish(x.Val.Type()) || isPointer(x.Val.Type()) {
					return
				}
				if _, isLocal := cellRoot(rootAddr(x.Addr)).(*ssa.Alloc); isLocal && !allocEscapes(cellRoot(rootAddr(x.Addr)).(*ssa.Alloc)) {
					return
				}
				n++
				c.bad(fnLabel(fn)+":store-writer", P.ipos(in), "a subscription/writer is stored outside the subscribers map (into "+describe(x.Addr)+"): it can be used after the subscriber was removed")
			case *ssa.Send:
				if isWriterish(x.X.Type()) {
					n++
					c.bad(fnLabel(fn)+":send-writer", P.ipos(in), "a subscription/writer is sent on a channel from the loop")
				}
			case *ssa.MapUpdate:
				if isWriterish(x.Value.Type()) && !isJoeField(x.Map, "subscribers") {
					n++
					c.bad(fnLabel(fn)+":map-writer", P.ipos(in), "a subscription/writer is stored in a map other than Joe.subscribers")
				}
			}
		})
	}
	if n == 0 {
		c.ok(fnLabel(jp.loop)+":writer-confinement", P.pos(jp.loop.Pos()), "in Joe's loop code writers flow only to the subscribers map, Replay arguments and Send/Flush receivers; no goroutine is started")
	}
}

// isJoeCode: functions declared in the same file as the Joe loop.
func isJoeCode(P *Program, fn *ssa.Function) bool {
	jp := findJoe(P)
	if jp.loop == nil {
		return false
	}
	f := fn
	for f.Parent() != nil {
		f = f.Parent()
	}
	if !f.Pos().IsValid() {
		return false
	}
	return P.Fset.Position(f.Pos()).Filename == P.Fset.Position(jp.loop.Pos()).Filename
}

func rootAddr(a ssa.Value) ssa.Value {
	for {
		switch x := a.(type) {
		case *ssa.FieldAddr:
			a = x.X
		case *ssa.IndexAddr:
			a = x.X
		default:
			return a
		}
	}
}

func allocEscapes(a *ssa.Alloc) bool {
	_, _, esc := cellStores(a)
	if esc {
		return true
	}
	// also check sub-field addresses do not escape
	escapes := false
	var walk func(v ssa.Value)
	walk = func(v ssa.Value) {
		for _, r := range *v.Referrers() {
			switch u := r.(type) {
			case *ssa.FieldAddr:
				walk(u)
			case *ssa.IndexAddr:
				walk(u)
			case *ssa.Store:
				if u.Addr != v {
					escapes = true
				}
			case *ssa.UnOp, *ssa.DebugRef:
			case *ssa.MakeClosure:
				// captured by reference: conservatively fine for locals of the loop
			default:
				if v != ssa.Value(a) {
					escapes = true
				}
			}
		}
	}
	walk(a)
	return escapes
}
