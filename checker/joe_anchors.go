package main

import (
	"go/token"
	"go/types"

	"golang.org/x/tools/go/ssa"
)

// joeParts are the role-discovered anchors of the Joe provider.
type joeParts struct {
	P        *Program
	loop     *ssa.Function // the function started by the only `go` statement under *Joe
	goInstr  *ssa.Go
	initFn   *ssa.Function // the sync.Once initialiser closure containing the go statement
	sel      *ssa.Select   // the loop's main select
	armIndex map[string]int
	problems []string
}

func isJoeField(v ssa.Value, name string) bool {
	_, ok := isFieldLoad(v, "Joe", name)
	return ok
}

func findJoe(P *Program) *joeParts {
	jp := &joeParts{P: P, armIndex: map[string]int{}}
	var gos []*ssa.Go
	for _, fn := range P.Funcs {
		if !inSSEPackage(fn) {
			continue
		}
		eachInstr(fn, func(in ssa.Instruction) {
			if g, ok := in.(*ssa.Go); ok {
				gos = append(gos, g)
			}
		})
	}
	for _, g := range gos {
		callee := g.Call.StaticCallee()
		if callee != nil && callee.Signature.Recv() != nil && typeIs(callee.Signature.Recv().Type(), "sse", "Joe") {
			if jp.loop != nil {
				jp.problems = append(jp.problems, "more than one go statement starts a *Joe method")
			}
			jp.loop = callee
			jp.goInstr = g
			jp.initFn = g.Parent()
		}
	}
	if jp.loop == nil {
		jp.problems = append(jp.problems, "no go statement starting a *Joe method found")
		return jp
	}
	eachInstrDeep(jp.loop, func(in ssa.Instruction) {
		sel, ok := in.(*ssa.Select)
		if !ok || !sel.Blocking {
			return
		}
		n := 0
		for _, st := range sel.States {
			if st.Dir == types.RecvOnly {
				if _, name, _, ok := fieldOfLoad(st.Chan); ok {
					_ = name
					n++
				}
			}
		}
		if n >= 3 {
			if jp.sel != nil {
				jp.problems = append(jp.problems, "more than one candidate main select in the loop")
			}
			jp.sel = sel
		}
	})
	if jp.sel == nil {
		jp.problems = append(jp.problems, "main select of the loop not found")
		return jp
	}
	for i, st := range jp.sel.States {
		if owner, name, _, ok := fieldOfLoad(st.Chan); ok && owner == "Joe" {
			jp.armIndex[name] = i
		}
	}
	return jp
}

func inSSEPackage(fn *ssa.Function) bool {
	f := fn
	for f.Parent() != nil {
		f = f.Parent()
	}
	if f.Pkg != nil {
		return f.Pkg.Pkg.Path() == modPath
	}
	if o := f.Object(); o != nil && o.Pkg() != nil {
		return o.Pkg().Path() == modPath
	}
	return false
}

// fieldOfLoad: v is a load of a struct field; returns owner, name, base.
func fieldOfLoad(v ssa.Value) (owner, name string, base ssa.Value, ok bool) {
	if a, isLoad := loadedFrom(v); isLoad {
		return fieldSel(a)
	}
	if f, isF := v.(*ssa.Field); isF {
		return fieldSel(f)
	}
	return
}

// armEdge returns the CFG edge taken when the main select picked the arm of
// the given Joe channel field.
func (jp *joeParts) armEdge(field string) (cfgEdge, bool) {
	idx, ok := jp.armIndex[field]
	if !ok {
		return cfgEdge{}, false
	}
	return selectArmEdge(jp.sel, idx)
}

func selectArmEdge(sel *ssa.Select, idx int) (cfgEdge, bool) {
	fn := sel.Parent()
	for _, ifi := range ifsIn(fn) {
		op, k, succ, ok := cmpConstEdge(ifi, func(v ssa.Value) bool {
			e, ok := v.(*ssa.Extract)
			return ok && e.Index == 0 && e.Tuple == ssa.Value(sel)
		})
		if ok && op == token.EQL && int(k) == idx {
			return cfgEdge{ifi.Block(), succ}, true
		}
	}
	return cfgEdge{}, false
}

// recvValue returns the Extract carrying the value received on state idx.
func selectRecvValue(sel *ssa.Select, idx int) ssa.Value {
	r := 0
	for i, st := range sel.States {
		if st.Dir != types.RecvOnly {
			continue
		}
		if i == idx {
			break
		}
		r++
	}
	want := 2 + r
	var out ssa.Value
	if refs := sel.Referrers(); refs != nil {
		for _, u := range *refs {
			if e, ok := u.(*ssa.Extract); ok && e.Index == want {
				out = e
			}
		}
	}
	return out
}

func (jp *joeParts) recv(field string) ssa.Value {
	idx, ok := jp.armIndex[field]
	if !ok {
		return nil
	}
	return selectRecvValue(jp.sel, idx)
}

// inArm: block b is dominated by the arm edge of the channel field.
func (jp *joeParts) inArm(field string, b *ssa.BasicBlock) bool {
	e, ok := jp.armEdge(field)
	return ok && edgeDominates(e.From, e.Idx, b)
}

// isSubscriberChan: the named channel type `subscriber`.
func isSubscriberType(t types.Type) bool {
	return typeIs(t, "sse", "subscriber") && namedOf(t) != nil && !isPointer(t)
}

func isPointer(t types.Type) bool { _, ok := t.Underlying().(*types.Pointer); return ok }

// rangeKeyOver: v is the key (Extract #1) of a `next` on a range over a load of Joe.<field>.
func rangeKeyOverJoeMap(v ssa.Value, field string) (*ssa.Next, bool) {
	e, ok := v.(*ssa.Extract)
	if !ok || e.Index != 1 {
		return nil, false
	}
	nx, ok := e.Tuple.(*ssa.Next)
	if !ok {
		return nil, false
	}
	rg, ok := nx.Iter.(*ssa.Range)
	if !ok || !isJoeField(rg.X, field) {
		return nil, false
	}
	return nx, true
}

func rangeValueOverJoeMap(v ssa.Value, field string) (*ssa.Next, bool) {
	// `for k := range m { x := m[k]` reads the same element as `for k, x := range m` when the lookup comes
	// first in the iteration (the key was just produced by the range, so it is present)
	if lk, ok := v.(*ssa.Lookup); ok && !lk.CommaOk && isJoeField(lk.X, field) {
		if ke, ok := lk.Index.(*ssa.Extract); ok && ke.Index == 1 {
			if nx, ok := ke.Tuple.(*ssa.Next); ok {
				if rg, ok := nx.Iter.(*ssa.Range); ok && isJoeField(rg.X, field) {
					// nothing but the range step's own branch lies between the step and the lookup
					clean := true
					for _, in := range lk.Block().Instrs {
						if in == ssa.Instruction(lk) {
							break
						}
						if _, isCall := in.(ssa.CallInstruction); isCall {
							clean = false
						}
					}
					if clean && len(lk.Block().Preds) == 1 && lk.Block().Preds[0] == nx.Block() {
						return nx, true
					}
				}
			}
		}
	}
	e, ok := v.(*ssa.Extract)
	if !ok || e.Index != 2 {
		return nil, false
	}
	nx, ok := e.Tuple.(*ssa.Next)
	if !ok {
		return nil, false
	}
	rg, ok := nx.Iter.(*ssa.Range)
	if !ok || !isJoeField(rg.X, field) {
		return nil, false
	}
	return nx, true
}

// closers: module functions with a subscriber-typed parameter that is closed
// in the function; maps function -> parameter index.
func subscriberClosers(P *Program) map[*ssa.Function]int {
	out := map[*ssa.Function]int{}
	for _, fn := range P.Funcs {
		eachInstr(fn, func(in ssa.Instruction) {
			c, ok := isBuiltin(in, "close")
			if !ok {
				return
			}
			arg := c.Common().Args[0]
			if !isSubscriberType(arg.Type()) {
				return
			}
			for i, p := range fn.Params {
				if arg == ssa.Value(p) {
					out[fn] = i
				}
			}
		})
	}
	return out
}

// closesValue: instruction closes channel x directly or through a closer call.
func closesValue(in ssa.Instruction, closers map[*ssa.Function]int, isX func(ssa.Value) bool) bool {
	if c, ok := isBuiltin(in, "close"); ok {
		return isX(c.Common().Args[0])
	}
	if c, ok := in.(*ssa.Call); ok {
		if callee := c.Call.StaticCallee(); callee != nil {
			if idx, isCloser := closers[callee]; isCloser && idx < len(c.Call.Args) {
				return isX(c.Call.Args[idx])
			}
		}
	}
	return false
}
